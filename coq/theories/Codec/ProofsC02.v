(* C02: the decoders are total and safe on every byte string, agree with the
   reference parsers of Spec.v, return only well-formed messages (hence
   canonicalise, by C01), and the pooled retry loop terminates. *)
From Coq Require Import ZArith List Bool Lia.
From GoCoap Require Import Base.Bytes Gen.OptionDefs Gen.TcpConsts Codec.Options Codec.Udp Codec.Tcp Codec.Pool
     Codec.Spec Codec.ProofsOpt Codec.ProofsC01.
Import ListNotations.
Open Scope Z_scope.
Ltac Zify.zify_post_hook ::= Z.div_mod_to_equations.

(* ---------- byte strings ---------- *)
Lemma bytes_ok_cons x l : bytes_ok (x :: l) = true <-> (0 <= x < 256) /\ bytes_ok l = true.
Proof.
  unfold bytes_ok. cbn [forallb]. unfold byte_ok. rewrite !andb_true_iff, Z.leb_le, Z.ltb_lt. tauto.
Qed.
Lemma bytes_ok_app a b : bytes_ok (a ++ b) = true <-> bytes_ok a = true /\ bytes_ok b = true.
Proof. unfold bytes_ok. rewrite forallb_app, andb_true_iff. tauto. Qed.

Definition suffix (s d : list Z) : Prop := exists pre, d = pre ++ s.
Lemma suffix_refl d : suffix d d.
Proof. exists []. reflexivity. Qed.
Lemma suffix_trans a b c : suffix a b -> suffix b c -> suffix a c.
Proof. intros [p ->] [q ->]. exists (q ++ p). rewrite app_assoc. reflexivity. Qed.
Lemma suffix_cons x d : suffix d (x :: d).
Proof. exists [x]. reflexivity. Qed.
Lemma suffix_len s d : suffix s d -> blen s <= blen d.
Proof. intros [p ->]. rewrite blen_app. pose proof (blen_nonneg p). lia. Qed.
Lemma suffix_bytes_ok s d : suffix s d -> bytes_ok d = true -> bytes_ok s = true.
Proof. intros [p ->] H. apply bytes_ok_app in H. tauto. Qed.
Lemma suffix_sl_from s d : suffix s d -> sl_from d (blen d - blen s) = Ok s.
Proof. intros [p ->]. rewrite blen_app. replace (blen p + blen s - blen s) with (blen p) by lia. apply sl_from_app. Qed.

(* ---------- nibble extension: guarded parser vs RFC reader ---------- *)
Lemma ref_ext_15 d : ref_ext 15 d = None.
Proof. reflexivity. Qed.

Lemma ext_agree nib d : 0 <= nib <= 14 -> bytes_ok d = true ->
  match ref_ext nib d with
  | None => parse_ext d nib = Err EOptTrunc
  | Some (v, d') => exists proc, parse_ext d nib = Ok (proc, v) /\ sl_from d proc = Ok d' /\ 0 <= proc
                     /\ blen d = proc + blen d' /\ 0 <= v <= 65804 /\ suffix d' d
  end.
Proof.
  intros Hn Hb. unfold ref_ext, parse_ext, ExtendOptionByteCode, ExtendOptionWordCode, ExtendOptionByteAddend, ExtendOptionWordAddend.
  destruct (nib <? 13) eqn:E1.
  { apply Z.ltb_lt in E1. ff (nib =? 13). ff (nib =? 14). exists 0. rewrite sl_from_0.
    repeat split; try lia. apply suffix_refl. }
  apply Z.ltb_ge in E1. destruct (nib =? 13) eqn:E2.
  { destruct d as [|a r]; [reflexivity|]. apply bytes_ok_cons in Hb. destruct Hb as [Ha Hr].
    rewrite blen_cons. pose proof (blen_nonneg r). ff (1 + blen r <? 1). rewrite idx_0. cbn [bind].
    exists 1. rewrite sl_from_1. repeat split; try lia. apply suffix_cons. }
  apply Z.eqb_neq in E2. tt (nib =? 14).
  destruct d as [|a [|b r]]; [reflexivity|reflexivity|].
  apply bytes_ok_cons in Hb. destruct Hb as [Ha Hr]. apply bytes_ok_cons in Hr. destruct Hr as [Hb' Hr].
  rewrite !blen_cons. pose proof (blen_nonneg r). ff (1 + (1 + blen r) <? 2).
  rewrite sl_to_2. cbn [bind]. rewrite idx_0. cbn [bind]. rewrite idx_1. cbn [bind].
  exists 2. rewrite sl_from_2. repeat split; try lia. exists [a; b]. reflexivity.
Qed.

Lemma split_agree_nat k : forall d,
  match split_at k d with
  | None => blen d < Z.of_nat k
  | Some (v, d') => sl_to d (Z.of_nat k) = Ok v /\ sl_from d (Z.of_nat k) = Ok d' /\ blen v = Z.of_nat k
                    /\ blen d = Z.of_nat k + blen d' /\ d = v ++ d'
  end.
Proof.
  induction k as [|k IH]; intros d.
  - cbn [split_at]. change (Z.of_nat 0) with 0. rewrite sl_from_0.
    pose proof (sl_to_app [] d) as H. cbn [app] in H. change (blen []) with 0 in H. rewrite H. repeat split; reflexivity.
  - cbn [split_at]. destruct d as [|x r]; [unfold blen; cbn [length]; lia|].
    specialize (IH r). destruct (split_at k r) as [[a b]|].
    + destruct IH as (H1 & H2 & H3 & H4 & H5). subst r.
      assert (Hk : Z.of_nat (S k) = blen (x :: a)) by (rewrite blen_cons, H3; lia).
      rewrite Hk. change (x :: a ++ b) with ((x :: a) ++ b). rewrite sl_to_app, sl_from_app.
      repeat split; try reflexivity. rewrite blen_app. lia.
    + rewrite blen_cons. lia.
Qed.
Lemma split_agree n d : 0 <= n ->
  match split_at (Z.to_nat n) d with
  | None => blen d < n
  | Some (v, d') => sl_to d n = Ok v /\ sl_from d n = Ok d' /\ blen v = n /\ blen d = n + blen d' /\ d = v ++ d'
  end.
Proof. intros Hn. pose proof (split_agree_nat (Z.to_nat n) d) as H. rewrite Z2Nat.id in H by lia. exact H. Qed.

(* ---------- the option loop: guarded decoder vs grammar-shaped reference ---------- *)
Ltac rej := eexists; split; [reflexivity|discriminate].

Lemma loop_agree defs reg :
  (forall id len, 0 <= len < W32 -> option_keep defs id len = legal_len reg id len) ->
  forall fuel rfuel data prev processed len cap acc,
  bytes_ok data = true -> 0 <= prev <= 65535 -> (length data < fuel)%nat -> (length data <= rfuel)%nat ->
  match ref_options rfuel reg prev data with
  | None => exists e, unmarshal_opts fuel defs data prev processed len cap acc = Err e /\ (e = EOptCap -> cap < len + blen data)
  | Some (os, pay) =>
      (unmarshal_opts fuel defs data prev processed len cap acc = Err EOptCap /\ cap < len + blen data) \/
      (unmarshal_opts fuel defs data prev processed len cap acc = Ok (processed + (blen data - blen pay), acc ++ os)
       /\ suffix pay data)
  end.
Proof.
  intros Hk. induction fuel as [|f IH]; intros rfuel data prev processed len cap acc Hb Hp Hf Hrf; [lia|].
  destruct data as [|b d1].
  { destruct rfuel; cbn [ref_options]; right; (split; [cbn; rewrite Z.add_0_r, app_nil_r; reflexivity|apply suffix_refl]). }
  apply bytes_ok_cons in Hb. destruct Hb as [Hbb Hb1].
  cbn [length] in Hf, Hrf. rewrite unmarshal_opts_S. rewrite blen_cons. pose proof (blen_nonneg d1) as Hd1.
  tt (1 + blen d1 >? 0). rewrite idx_0. cbn [bind]. destruct rfuel as [|rf]; [lia|]. cbn [ref_options].
  destruct (b =? 255) eqn:E255.
  { right. split; [|apply suffix_cons]. rewrite app_nil_r. f_equal. f_equal. lia. }
  apply Z.eqb_neq in E255.
  cbv zeta. rewrite land15 by lia. unfold ExtendOptionError.
  assert (Hdn : 0 <= b / 16 <= 15) by lia. assert (Hln : 0 <= b mod 16 <= 15) by lia.
  destruct (b / 16 =? 15) eqn:Ed.
  { apply Z.eqb_eq in Ed. rewrite Ed, ref_ext_15. cbn [orb]. rej. }
  apply Z.eqb_neq in Ed. cbn [orb].
  pose proof (ext_agree (b / 16) d1 ltac:(lia) Hb1) as A1.
  destruct (b mod 16 =? 15) eqn:El.
  { apply Z.eqb_eq in El. rewrite El. destruct (ref_ext (b / 16) d1) as [[delta d2]|]; [rewrite ref_ext_15|]; rej. }
  apply Z.eqb_neq in El. rewrite sl_from_1. cbn [bind].
  destruct (ref_ext (b / 16) d1) as [[delta d2]|]; [|rewrite A1; cbn [bind]; rej].
  destruct A1 as (proc1 & P1 & S1 & Hp1 & L1 & Hv1 & Sf1). rewrite P1. cbn [bind]. cbv iota beta. rewrite S1. cbn [bind].
  pose proof (suffix_bytes_ok _ _ Sf1 Hb1) as Hb2.
  pose proof (ext_agree (b mod 16) d2 ltac:(lia) Hb2) as A2.
  destruct (ref_ext (b mod 16) d2) as [[olen d3]|]; [|rewrite A2; cbn [bind]; rej].
  destruct A2 as (proc2 & P2 & S2 & Hp2 & L2 & Hv2 & Sf2). rewrite P2. cbn [bind]. cbv iota beta. rewrite S2. cbn [bind].
  pose proof (suffix_bytes_ok _ _ Sf2 Hb2) as Hb3.
  pose proof (split_agree olen d3 ltac:(lia)) as A3.
  destruct (split_at (Z.to_nat olen) d3) as [[v d4]|]; [|tt (blen d3 <? olen); rej].
  destruct A3 as (T3 & S3 & Lv & L3 & E3). pose proof (blen_nonneg d4) as Hd4. ff (blen d3 <? olen).
  ff (prev + delta <? 0). rewrite orb_false_r.
  destruct (prev + delta >? 65535) eqn:Eo; [rej|]. rewrite Z.gtb_ltb in Eo. apply Z.ltb_ge in Eo.
  rewrite T3. cbn [bind]. rewrite Lv.
  assert (Hb4 : bytes_ok d4 = true) by (rewrite E3 in Hb3; apply bytes_ok_app in Hb3; tauto).
  assert (Hlen4 : (length d4 <= rf)%nat /\ (length d4 < f)%nat).
  { unfold blen in *. lia. }
  destruct Hlen4 as [Hrf4 Hf4].
  destruct (cap =? len) eqn:Ec.
  { apply Z.eqb_eq in Ec. destruct (ref_options rf reg (prev + delta) d4) as [[os pay]|]; [left; split; [reflexivity|lia]|eexists; split; [reflexivity|intros _; lia]]. }
  rewrite S3. cbn [bind].
  rewrite (Hk (prev + delta) olen) by (unfold W32; lia).
  set (app := legal_len reg (prev + delta) olen && negb (prev + delta =? 0)).
  specialize (IH rf d4 (prev + delta) (processed + 1 + proc1 + proc2 + olen) (if app then len + 1 else len) cap
                 (if app then acc ++ [(prev + delta, v)] else acc) Hb4 ltac:(lia) Hf4 Hrf4).
  destruct (ref_options rf reg (prev + delta) d4) as [[os pay]|];
    [|destruct IH as [e [IH1 IH2]]; exists e; split; [exact IH1|intros He; specialize (IH2 He); destruct app; lia]].
  destruct IH as [[IH1 IH2]|[IH1 IH2]].
  - left. split; [exact IH1|]. destruct app; lia.
  - right. split.
    + rewrite IH1. f_equal. f_equal; [pose proof (suffix_len _ _ IH2); lia|].
      destruct app; [rewrite <- app_assoc; reflexivity|reflexivity].
    + eapply suffix_trans; [exact IH2|]. eapply suffix_trans; [exists v; exact E3|].
      eapply suffix_trans; [exact Sf2|]. eapply suffix_trans; [exact Sf1|apply suffix_cons].
Qed.

(* ---------- datagram decoder vs reference ---------- *)
Theorem udp_agree cap bs : bytes_ok bs = true ->
  match ref_udp bs with
  | None => exists e, udp_decode cap bs = Err e /\ (e = EOptCap -> cap < blen bs)
  | Some m => udp_decode cap bs = Ok (m, blen bs) \/ (udp_decode cap bs = Err EOptCap /\ cap < blen bs)
  end.
Proof.
  intros Hb. unfold ref_udp, udp_decode.
  destruct bs as [|b0 [|code [|m1 [|m0 r]]]]; try rej.
  apply bytes_ok_cons in Hb. destruct Hb as [H0 Hb]. apply bytes_ok_cons in Hb. destruct Hb as [H1 Hb].
  apply bytes_ok_cons in Hb. destruct Hb as [H2 Hb]. apply bytes_ok_cons in Hb. destruct Hb as [H3 Hb].
  rewrite !blen_cons. pose proof (blen_nonneg r) as Hr. ff (1 + (1 + (1 + (1 + blen r))) <? 4).
  rewrite idx_0. cbn [bind].
  destruct (b0 / 64 =? 1) eqn:Ev; cbn [negb]; [|rej].
  rewrite land3 by lia. rewrite land15 by lia.
  destruct (9 <=? b0 mod 16) eqn:Et.
  { apply Z.leb_le in Et. tt (b0 mod 16 >? 8). rej. }
  apply Z.leb_gt in Et. ff (b0 mod 16 >? 8). rewrite idx_1. cbn [bind].
  rewrite (sl_to_app [b0; code; m1; m0] r : sl_to (b0 :: code :: m1 :: m0 :: r) 4 = Ok [b0; code; m1; m0]).
  cbn [bind]. rewrite sl_from_2. cbn [bind]. rewrite idx_0, idx_1. cbn [bind].
  rewrite sl_from_4. cbn [bind].
  pose proof (split_agree (b0 mod 16) r ltac:(lia)) as A.
  destruct (split_at (Z.to_nat (b0 mod 16)) r) as [[tok r']|]; [|tt (blen r <? b0 mod 16); rej].
  destruct A as (T & Sf & Lt & Lr & E). pose proof (blen_nonneg r') as Hr'. ff (blen r <? b0 mod 16).
  rewrite T, Sf. cbn [bind].
  assert (Hb' : bytes_ok r' = true) by (rewrite E in Hb; apply bytes_ok_app in Hb; tauto).
  pose proof (loop_agree CoapOptionDefs rfc_coap_registry coap_keep (S (length r')) (length r') r' 0 0 0 cap [] Hb' ltac:(lia) ltac:(lia) ltac:(lia)) as L.
  destruct (ref_options (length r') rfc_coap_registry 0 r') as [[os pay]|].
  - destruct L as [[L1 L2]|[L1 L2]].
    + right. rewrite L1. cbn [bind]. split; [reflexivity|]. lia.
    + left. rewrite L1. cbn [bind]. cbv iota beta. rewrite Z.add_0_l. rewrite (suffix_sl_from _ _ L2). cbn [bind].
      reflexivity.
  - destruct L as [e [L LC]]. rewrite L. cbn [bind]. exists e. split; [reflexivity|intros He; specialize (LC He); lia].
Qed.

(* totality and safety of the datagram decoder: it returns (bounded recursion:
   the fuel is never exhausted) and never reaches a slice-bounds panic *)
Theorem udp_total cap bs : bytes_ok bs = true ->
  (exists m, udp_decode cap bs = Ok (m, blen bs)) \/ (exists e, udp_decode cap bs = Err e).
Proof.
  intros Hb. pose proof (udp_agree cap bs Hb) as A. destruct (ref_udp bs) as [m|].
  - destruct A as [A|[A _]]; [left; exists m; exact A|right; eexists; exact A].
  - right. destruct A as [e [A _]]. exists e. exact A.
Qed.

(* what the reference accepts is well-formed *)
Lemma ref_ext_facts nib d v d' : 0 <= nib <= 15 -> bytes_ok d = true -> ref_ext nib d = Some (v, d') ->
  0 <= v <= 65804 /\ suffix d' d.
Proof.
  intros Hn Hb H. destruct (Z.eq_dec nib 15) as [->|Hne]; [rewrite ref_ext_15 in H; discriminate|].
  pose proof (ext_agree nib d ltac:(lia) Hb) as A. rewrite H in A. destruct A as (proc & _ & _ & _ & _ & Hv & Hs). tauto.
Qed.

Lemma opts_wf_weaken reg os : forall p q, p <= q -> opts_wf reg q os = true -> opts_wf reg p os = true.
Proof.
  destruct os as [|[id v] r]; intros p q Hpq H; [reflexivity|]. cbn [opts_wf] in *.
  rewrite !andb_true_iff in *. destruct H as ((((((H1 & H2) & H3) & H4) & H5) & H6) & H7).
  apply Z.leb_le in H1. repeat split; try assumption. apply Z.leb_le. lia.
Qed.

Lemma ref_options_wf reg : forall rf prev d os pay, bytes_ok d = true -> 0 <= prev ->
  ref_options rf reg prev d = Some (os, pay) -> opts_wf reg prev os = true /\ bytes_ok pay = true.
Proof.
  induction rf as [|rf IH]; intros prev d os pay Hb Hp H.
  - destruct d as [|b d1]; cbn [ref_options] in H; [injection H as <- <-; split; reflexivity|].
    destruct (b =? 255); [|discriminate]. injection H as <- <-. apply bytes_ok_cons in Hb. split; [reflexivity|tauto].
  - destruct d as [|b d1]; cbn [ref_options] in H; [injection H as <- <-; split; reflexivity|].
    apply bytes_ok_cons in Hb. destruct Hb as [Hbb Hb1].
    destruct (b =? 255); [injection H as <- <-; split; [reflexivity|assumption]|].
    destruct (ref_ext (b / 16) d1) as [[delta d2]|] eqn:E1; [|discriminate].
    destruct (ref_ext_facts (b / 16) d1 delta d2 ltac:(lia) Hb1 E1) as [Hv1 Sf1]. pose proof (suffix_bytes_ok _ _ Sf1 Hb1) as Hb2.
    destruct (ref_ext (b mod 16) d2) as [[olen d3]|] eqn:E2; [|discriminate].
    destruct (ref_ext_facts (b mod 16) d2 olen d3 ltac:(lia) Hb2 E2) as [Hv2 Sf2]. pose proof (suffix_bytes_ok _ _ Sf2 Hb2) as Hb3.
    pose proof (split_agree olen d3 ltac:(lia)) as A3.
    destruct (split_at (Z.to_nat olen) d3) as [[v d4]|]; [|discriminate].
    destruct A3 as (_ & _ & Lv & _ & E3). rewrite E3 in Hb3. apply bytes_ok_app in Hb3. destruct Hb3 as [Hbv Hb4].
    destruct (prev + delta >? 65535) eqn:Eo; [discriminate|]. rewrite Z.gtb_ltb in Eo. apply Z.ltb_ge in Eo.
    destruct (ref_options rf reg (prev + delta) d4) as [[os' pay']|] eqn:ER; [|discriminate].
    assert (Hpd : 0 <= prev + delta) by lia. destruct (IH _ _ _ _ Hb4 Hpd ER) as [W P]. injection H as <- <-. split; [|exact P].
    destruct (legal_len reg (prev + delta) olen && negb (prev + delta =? 0)) eqn:EA.
    + apply andb_true_iff in EA. destruct EA as [EL EN]. apply negb_true_iff, Z.eqb_neq in EN.
      cbn [opts_wf]. rewrite Lv, EL, Hbv, W. unfold max_opt_value.
      tt (prev <=? prev + delta). tt (0 <? prev + delta). tt (prev + delta <=? 65535). tt (olen <=? 65804). reflexivity.
    + apply (opts_wf_weaken reg os' prev (prev + delta)); [lia|exact W].
Qed.

Theorem ref_udp_wf bs m : bytes_ok bs = true -> ref_udp bs = Some m -> wf_udp m = true.
Proof.
  intros Hb H. unfold ref_udp in H.
  destruct bs as [|b0 [|code [|m1 [|m0 r]]]]; try discriminate.
  apply bytes_ok_cons in Hb. destruct Hb as [H0 Hb]. apply bytes_ok_cons in Hb. destruct Hb as [H1 Hb].
  apply bytes_ok_cons in Hb. destruct Hb as [H2 Hb]. apply bytes_ok_cons in Hb. destruct Hb as [H3 Hb].
  destruct (negb (b0 / 64 =? 1)); [discriminate|].
  destruct (9 <=? b0 mod 16) eqn:Et; [discriminate|]. apply Z.leb_gt in Et.
  pose proof (split_agree (b0 mod 16) r ltac:(lia)) as A.
  destruct (split_at (Z.to_nat (b0 mod 16)) r) as [[tok r']|]; [|discriminate].
  destruct A as (_ & _ & Lt & _ & E). rewrite E in Hb. apply bytes_ok_app in Hb. destruct Hb as [Hbt Hb'].
  destruct (ref_options (length r') rfc_coap_registry 0 r') as [[os pay]|] eqn:ER; [|discriminate].
  destruct (ref_options_wf _ _ _ _ _ _ Hb' (Z.le_refl 0) ER) as [W P]. injection H as <-.
  unfold wf_udp, wf_common. cbn [m_tok m_code m_opts m_pay m_typ m_mid]. rewrite Lt, Hbt, W, P.
  tt (b0 mod 16 <=? 8). tt (0 <=? code). tt (code <=? 255). tt (0 <=? b0 / 16 mod 4). tt (b0 / 16 mod 4 <=? 3).
  tt (0 <=? m1 * 256 + m0). tt (m1 * 256 + m0 <=? 65535). reflexivity.
Qed.

(* whatever the datagram decoder accepts is well-formed and consumes the whole datagram *)
Theorem udp_decode_wf cap bs m n : bytes_ok bs = true -> udp_decode cap bs = Ok (m, n) ->
  wf_udp m = true /\ n = blen bs /\ ref_udp bs = Some m.
Proof.
  intros Hb H. pose proof (udp_agree cap bs Hb) as A. destruct (ref_udp bs) as [m'|] eqn:ER.
  - destruct A as [A|[A _]]; rewrite A in H; [|discriminate]. injection H as <- <-.
    split; [apply (ref_udp_wf bs); assumption|split; reflexivity].
  - destruct A as [e [A _]]. rewrite A in H. discriminate.
Qed.

(* canonicalisation: an accepted message re-encodes, and the re-encoding decodes to the same message *)
Theorem udp_canonical cap bs m n : bytes_ok bs = true -> udp_decode cap bs = Ok (m, n) ->
  let bs' := spec_udp_bytes m in
  udp_size m = Ok (blen bs') /\
  udp_encode_into m (repeat 0 (length bs')) = EOk (blen bs') bs' /\
  forall cap', blen (m_opts m) <= cap' -> udp_decode cap' bs' = Ok (m, blen bs').
Proof.
  intros Hb H bs'. destruct (udp_decode_wf cap bs m n Hb H) as [W _]. subst bs'.
  split; [apply udp_size_spec; exact W|]. split.
  - rewrite udp_encode_spec; [|exact W|unfold blen; rewrite repeat_length; lia].
    unfold overwrite. rewrite skipn_all2 by (rewrite repeat_length; lia). rewrite app_nil_r. reflexivity.
  - intros cap' Hc. apply udp_decode_spec; assumption.
Qed.

(* ---------- the pooled capacity-retry loop terminates ---------- *)
Section Retry.
  Variable dec : Z -> list Z -> res (msg * Z).
  Variable bs : list Z.
  (* the decoder asks for more capacity only while the capacity is below the input length,
     and is itself total *)
  Hypothesis dec_cap : forall cap, 0 <= cap -> dec cap bs = Err EOptCap -> cap < blen bs.
  Hypothesis dec_total : forall cap, 0 <= cap -> dec cap bs <> Fuel.

  Lemma grow_cap_ge cap : 0 <= cap -> 16 <= grow_cap cap /\ 2 * cap <= grow_cap cap.
  Proof. unfold grow_cap. lia. Qed.

  Lemma pool_decode_bounded : forall f cap, 0 < cap -> blen bs <= cap * 2 ^ Z.of_nat f ->
    pool_decode (S f) dec cap bs <> Fuel.
  Proof.
    induction f as [|f IH]; intros cap Hc Hb.
    - cbn [pool_decode]. change (2 ^ Z.of_nat 0) with 1 in Hb.
      destruct (dec cap bs) as [[m n]|e| |] eqn:E; try discriminate.
      + destruct e; try discriminate. apply dec_cap in E; lia.
      + exfalso. exact (dec_total cap ltac:(lia) E).
    - cbn [pool_decode]. destruct (dec cap bs) as [[m n]|e| |] eqn:E; try discriminate.
      + destruct e; try discriminate. apply IH.
        * pose proof (grow_cap_ge cap ltac:(lia)). lia.
        * pose proof (grow_cap_ge cap ltac:(lia)) as [_ G]. rewrite Nat2Z.inj_succ, Z.pow_succ_r in Hb by lia.
          assert (0 < 2 ^ Z.of_nat f) by (apply Z.pow_pos_nonneg; lia). nia.
      + exfalso. exact (dec_total cap ltac:(lia) E).
  Qed.

  (* from any capacity >= 0 (0 included: the F8 situation) *)
  Theorem pool_decode_terminates : forall cap, 0 <= cap -> pool_decode (pool_fuel bs) dec cap bs <> Fuel.
  Proof.
    intros cap Hc. unfold pool_fuel. set (L := Z.log2_up (blen bs + 2)).
    pose proof (blen_nonneg bs) as Hb.
    assert (HL : blen bs + 2 <= 2 ^ L) by (apply Z.log2_up_spec; lia).
    assert (L0 : 0 <= L) by apply Z.log2_up_nonneg.
    cbn [pool_decode]. destruct (dec cap bs) as [[m n]|e| |] eqn:E; try discriminate.
    - destruct e; try discriminate. apply pool_decode_bounded.
      + pose proof (grow_cap_ge cap Hc). lia.
      + rewrite Z2Nat.id by lia. pose proof (grow_cap_ge cap Hc) as [G _].
        assert (0 < 2 ^ L) by (apply Z.pow_pos_nonneg; lia). nia.
    - exfalso. exact (dec_total cap Hc E).
  Qed.
End Retry.

Theorem udp_retry_terminates bs cap : bytes_ok bs = true -> 0 <= cap ->
  pool_decode (pool_fuel bs) udp_decode cap bs <> Fuel.
Proof.
  intros Hb Hc. apply pool_decode_terminates; [| |exact Hc].
  - intros c _ E. pose proof (udp_agree c bs Hb) as A. destruct (ref_udp bs).
    + destruct A as [A|[_ A]]; [rewrite A in E; discriminate|exact A].
    + destruct A as [e [A AC]]. rewrite A in E. injection E as ->. apply AC. reflexivity.
  - intros c _ E. destruct (udp_total c bs Hb) as [[m T]|[e T]]; rewrite T in E; discriminate.
Qed.

(* ---------- pooled round trip (C01): MarshalWithEncoder then UnmarshalWithDecoder ---------- *)
Lemma pool_decode_ok_or_fuel dec bs (m : msg) (n : Z) :
  (forall cap, 0 <= cap -> dec cap bs = Ok (m, n) \/ dec cap bs = Err EOptCap) ->
  forall fuel cap, 0 <= cap -> pool_decode fuel dec cap bs = Fuel \/ exists c, pool_decode fuel dec cap bs = Ok (m, n, c).
Proof.
  intros H. induction fuel as [|f IH]; intros cap Hc; cbn [pool_decode]; [left; reflexivity|].
  destruct (H cap Hc) as [E|E]; rewrite E.
  - right. eexists. reflexivity.
  - apply IH. unfold grow_cap. lia.
Qed.

Theorem udp_pool_roundtrip m cap : wf_udp m = true -> 0 <= cap ->
  exists c, pool_decode (pool_fuel (spec_udp_bytes m)) udp_decode cap (spec_udp_bytes m) = Ok (m, blen (spec_udp_bytes m), c).
Proof.
  intros Hwf Hc.
  assert (Hcases : forall c, 0 <= c -> udp_decode c (spec_udp_bytes m) = Ok (m, blen (spec_udp_bytes m)) \/ udp_decode c (spec_udp_bytes m) = Err EOptCap).
  { intros c H0. rewrite (udp_decode_cases m c Hwf H0). destruct (blen (m_opts m) <=? c); [left|right]; reflexivity. }
  destruct (pool_decode_ok_or_fuel udp_decode _ _ _ Hcases (pool_fuel (spec_udp_bytes m)) cap Hc) as [F|Ok]; [|exact Ok].
  exfalso. revert F. apply pool_decode_terminates; [| |exact Hc].
  - intros c H0 E. rewrite (udp_decode_cases m c Hwf H0) in E. destruct (blen (m_opts m) <=? c) eqn:El; [discriminate|].
    apply Z.leb_gt in El. pose proof (spec_options_long (m_opts m) 0). rewrite spec_udp_len.
    pose proof (blen_nonneg (m_tok m)). pose proof (blen_nonneg (spec_payload (m_pay m))). lia.
  - intros c H0 E. destruct (Hcases c H0) as [T|T]; rewrite T in E; discriminate.
Qed.

Theorem tcp_pool_roundtrip m cap : wf_tcp messageMaxLen m = true -> 0 <= cap ->
  exists c, pool_decode (pool_fuel (spec_tcp_bytes m)) tcp_decode cap (spec_tcp_bytes m) = Ok (tcp_view m, blen (spec_tcp_bytes m), c).
Proof.
  intros Hwf Hc.
  assert (Hcases : forall c, 0 <= c -> tcp_decode c (spec_tcp_bytes m) = Ok (tcp_view m, blen (spec_tcp_bytes m)) \/ tcp_decode c (spec_tcp_bytes m) = Err EOptCap).
  { intros c H0. rewrite (tcp_decode_cases m c Hwf H0). destruct (blen (m_opts m) <=? c); [left|right]; reflexivity. }
  destruct (pool_decode_ok_or_fuel tcp_decode _ _ _ Hcases (pool_fuel (spec_tcp_bytes m)) cap Hc) as [F|Ok]; [|exact Ok].
  exfalso. revert F. apply pool_decode_terminates; [| |exact Hc].
  - intros c H0 E. rewrite (tcp_decode_cases m c Hwf H0) in E. destruct (blen (m_opts m) <=? c) eqn:El; [discriminate|].
    apply Z.leb_gt in El. pose proof (spec_options_long (m_opts m) 0). rewrite spec_tcp_eq, blen_app, spec_body_len.
    pose proof (blen_nonneg (spec_tcp_hdr m)). pose proof (blen_nonneg (spec_payload (m_pay m))). lia.
  - intros c H0 E. destruct (Hcases c H0) as [T|T]; rewrite T in E; discriminate.
Qed.
