(* Shared by the correspondence evaluators of C01 and C02: numeric error
   classes, the projection of a message that the harness reports (long byte
   strings as length + checksum), observation types and their comparison. *)
From Coq Require Import ZArith NArith List Bool.
From GoCoap Require Import Base.Bytes Base.Cases Gen.OptionDefs Gen.TcpConsts
     Codec.Options Codec.Udp Codec.Tcp Codec.Pool Codec.Spec.
Import ListNotations.
Open Scope Z_scope.

(* as harness/codec.go codecErr writes them; 0 = no error, 99 = any other error *)
Definition err_code (e : err) : Z :=
  match e with
  | ETooSmall => 1 | ETokenLen => 2 | EShortRead => 3 | EOptTrunc => 4 | EOptMarker => 5
  | EOptCap => 6 | EOptNum => 7 | EInvalidEncoding => 8 | ETrunc => 9 | EVersion => 10
  | EMid => 11 | EType => 12
  end.

(* symbolic bulk bytes: (salt, length) *)
Definition gb (salt len : Z) : list Z := gen_body salt (Z.to_nat len).
(* a value with [z] leading zero bytes: z zeros followed by gb salt (len - z); total length len
   (harness/c01.go gOpt.bytes) -- uint-format option values in non-minimal form *)
Definition zgb (z salt len : Z) : list Z := repeat 0 (Z.to_nat z) ++ gb salt (len - z).
Definition sentinel : Z := 165.
Definition sbuf (len : Z) : list Z := repeat sentinel (Z.to_nat len).
Definition mk (tok : list Z) (code : Z) (opts : list opt) (pay : list Z) (mid typ : Z) : msg :=
  {| m_tok := tok; m_code := code; m_opts := opts; m_pay := pay; m_mid := mid; m_typ := typ |}.

(* projected message: token, code, options as (id, len, csum), payload (len, csum), mid, type *)
Definition pmsg := (list Z * Z * list (Z * Z * Z) * (Z * Z) * Z * Z)%type.
Definition proj (m : msg) : pmsg :=
  (m_tok m, m_code m, map (fun o : opt => (fst o, blen (snd o), csum (snd o))) (m_opts m),
   (blen (m_pay m), csum (m_pay m)), m_mid m, m_typ m).

Definition z3_eqb (a b : Z * Z * Z) : bool :=
  let '(a1, a2, a3) := a in let '(b1, b2, b3) := b in (a1 =? b1) && (a2 =? b2) && (a3 =? b3).
Definition pmsg_eqb (a b : pmsg) : bool :=
  let '(t1, c1, o1, (pl1, pc1), i1, y1) := a in
  let '(t2, c2, o2, (pl2, pc2), i2, y2) := b in
  bytes_eqb t1 t2 && (c1 =? c2) && list_eqb z3_eqb o1 o2 && (pl1 =? pl2) && (pc1 =? pc2) && (i1 =? i2) && (y1 =? y2).

(* result of a decoder call *)
Inductive dobs := DOk (p : pmsg) (n : Z) | DErr (e : Z) | DPanic | DHang.
Definition dobs_of (r : res (msg * Z)) : dobs :=
  match r with
  | Ok (m, n) => DOk (proj m) n
  | Err e => DErr (err_code e)
  | Panic => DPanic
  | Fuel => DHang
  end.
Definition dobs_eqb (a b : dobs) : bool :=
  match a, b with
  | DOk p n, DOk q k => pmsg_eqb p q && (n =? k)
  | DErr e, DErr f => e =? f
  | DPanic, DPanic | DHang, DHang => true
  | _, _ => false
  end.

(* result of DecodeHeader *)
Inductive hobs := HOk (hlen mlen code : Z) (tok : list Z) | HErr (e : Z) | HPanic.
Definition hobs_of (r : res hdr) : hobs :=
  match r with
  | Ok h => HOk (h_len h) (h_mlen h) (h_code h) (h_tok h)
  | Err e => HErr (err_code e)
  | Panic | Fuel => HPanic
  end.
Definition hobs_eqb (a b : hobs) : bool :=
  match a, b with
  | HOk a1 a2 a3 a4, HOk b1 b2 b3 b4 => (a1 =? b1) && (a2 =? b2) && (a3 =? b3) && bytes_eqb a4 b4
  | HErr e, HErr f => e =? f
  | HPanic, HPanic => true
  | _, _ => false
  end.

(* result of an Encode / Size call: (kind, n, checksum of buf[:len] afterwards)
   kind: 0 ok, otherwise the error class; 100 panic *)
Definition eobs := (Z * Z * Z)%type.
Definition eobs_of (r : eres) (buf0 : list Z) : eobs :=
  match r with
  | EOk n b => (0, n, csum b)
  | ESmall n b => (1, n, csum b)
  | EErr e => (err_code e, -1, csum buf0)
  | EPanic => (100, -1, 0)
  end.
Definition eobs_eqb (a b : eobs) : bool := z3_eqb a b.

Definition opt_eqb {A} (eqb : A -> A -> bool) (a b : option A) : bool :=
  match a, b with Some x, Some y => eqb x y | None, None => true | _, _ => false end.

Definition size_obs (r : res Z) : Z * Z :=
  match r with Ok n => (0, n) | Err e => (err_code e, -1) | _ => (100, -1) end.

(* ---- both coders behind one selector: 0 datagram, 1 stream ---- *)
Definition size_of (coder : Z) (m : msg) : res Z := if coder =? 0 then udp_size m else tcp_size m.
Definition encode_into (coder : Z) (m : msg) (buf : list Z) : eres :=
  if coder =? 0 then udp_encode_into m buf else tcp_encode_into m buf.
Definition decode (coder : Z) (cap : Z) (bs : list Z) : res (msg * Z) :=
  if coder =? 0 then udp_decode cap bs else tcp_decode cap bs.

(* bytes the model's Encode produces into an exactly fitting buffer *)
Definition model_bytes (coder : Z) (m : msg) : option (list Z) :=
  match size_of coder m with
  | Ok n => match encode_into coder m (sbuf n) with EOk k b => Some (firstn (Z.to_nat k) b) | _ => None end
  | _ => None
  end.

Definition pm_obs (r : res (list Z)) : eobs :=
  match r with
  | Ok b => (0, blen b, csum b)
  | Err e => (err_code e, -1, 0)
  | _ => (100, -1, 0)
  end.

Definition pu_obs (r : res (msg * Z * Z)) : dobs * Z :=
  match r with
  | Ok (m, n, c) => (DOk (proj m) n, c)
  | Err e => (DErr (err_code e), -1)
  | Panic => (DPanic, -1)
  | Fuel => (DHang, -1)
  end.

