(* Model of tcp/coder/coder.go: getHeader, Coder.Size, Coder.Encode,
   Coder.DecodeHeader, Coder.DecodeWithHeader, Coder.Decode.  The header
   arithmetic of DecodeHeader is in uint32 and is written with the wrap made
   explicit ([u32]).  The model is of the repaired code: DecodeHeader refuses
   TKL > 8 (F7) and a 4-byte extended length above messageMaxLen (F16), Decode
   hands DecodeWithHeader exactly the declared frame (F17). *)
From Coq Require Import ZArith List Bool.
From GoCoap Require Import Base.Bytes Gen.OptionDefs Gen.TcpConsts Codec.Options Codec.Udp.
Import ListNotations.
Open Scope Z_scope.

(* func getHeader(messageLength int) (uint8, []byte) *)
Definition get_header (n : Z) : Z * list Z :=
  if n <? MessageLength13Base then (n mod 256, [])
  else if n <? MessageLength14Base then (13, [(n - MessageLength13Base) mod 256])
  else if n <? MessageLength15Base then
    let e := (n - MessageLength14Base) mod 65536 in (14, [e / 256; e mod 256])
  else if n <? messageMaxLen then
    let e := u32 (n - MessageLength15Base) in
    (15, [e / 16777216; (e / 65536) mod 256; (e / 256) mod 256; e mod 256])
  else (0, []).

(* func (c *Coder) Encode(m message.Message, buf []byte) (int, error) *)
Definition tcp_encode_into (m : msg) (buf : list Z) : eres :=
  if blen (m_tok m) >? MaxTokenSize then EErr ETokenLen
  else
    let payloadLen := blen (m_pay m) in
    let payloadLen := if payloadLen >? 0 then payloadLen + 1 else payloadLen in
    let '(optionsLen, small, _) := options_into None (m_opts m) in
    if negb small then EPanic   (* Marshal(nil) always reports ErrTooSmall *)
    else
      let bufLen := payloadLen + optionsLen in
      let '(lenNib, ext) := get_header bufLen in
      let hdrLen := 1 + blen ext + blen (m_tok m) + 1 in
      (* hdr[0] = uint8(len(m.Token)) | (lenNib << 4) *)
      let b0 := Z.lor ((blen (m_tok m)) mod 256) ((lenNib * 16) mod 256) in
      let hdr := [b0] ++ ext ++ [(m_code m) mod 256] ++ m_tok m in
      let bufLen := bufLen + hdrLen in
      if blen buf <? bufLen then ESmall bufLen buf
      else
        let '(optionsLen, small, obytes) := options_into (Some (blen buf - hdrLen)) (m_opts m) in
        if small then ESmall bufLen buf   (* unreachable when the first pass is right *)
        else
          let tail := if blen (m_pay m) >? 0 then 255 :: m_pay m else [] in
          let bytes := hdr ++ obytes ++ tail in
          if blen bytes >? blen buf then EPanic
          else EOk bufLen (overwrite buf bytes).

(* func (c *Coder) Size(m message.Message) (int, error) = Encode(m, nil) with ErrTooSmall dropped *)
Definition tcp_size (m : msg) : res Z :=
  match tcp_encode_into m [] with
  | EOk n _ | ESmall n _ => Ok n
  | EErr e => Err e
  | EPanic => Panic
  end.

(* MessageHeader *)
Record hdr := { h_len : Z; h_mlen : Z; h_code : Z; h_tok : list Z }.

(* the switch on lenNib inside DecodeHeader: (opLen, remaining data, hdrOff) *)
Definition tcp_ext_len (lenNib : Z) (data : list Z) (hdrOff : Z) : res (Z * list Z * Z) :=
  if lenNib <? MessageLength13Base then Ok (lenNib, data, hdrOff)
  else if lenNib =? 13 then
    if blen data <? 1 then Err EShortRead
    else do e <- idx data 0; do data <- sl_from data 1;
         Ok (MessageLength13Base + e, data, hdrOff + 1)
  else if lenNib =? 14 then
    if blen data <? 2 then Err EShortRead
    else do e1 <- idx data 1; do e0 <- idx data 0; do data <- sl_from data 2;
         Ok (MessageLength14Base + (e0 * 256 + e1), data, hdrOff + 2)
  else
    if blen data <? 4 then Err EShortRead
    else do e3 <- idx data 3; do e0 <- idx data 0; do e1 <- idx data 1; do e2 <- idx data 2;
         do data <- sl_from data 4;
         let e := ((e0 * 256 + e1) * 256 + e2) * 256 + e3 in
         if e >? messageMaxLen then Err EInvalidEncoding
         else Ok (MessageLength15Base + e, data, hdrOff + 4).

(* func (c *Coder) DecodeHeader(data []byte, h *MessageHeader) (int, error)  (h zero on entry) *)
Definition tcp_decode_header (data : list Z) : res hdr :=
  if blen data =? 0 then Err EShortRead
  else
    do b0 <- idx data 0;
    do data <- sl_from data 1;
    let hdrOff := 1 in
    let lenNib := (Z.land b0 240) / 16 in
    let tkl := Z.land b0 15 in
    if tkl >? MaxTokenSize then Err ETokenLen
    else
      do (opLen, data, hdrOff) <- tcp_ext_len lenNib data hdrOff;
      (* h.MessageLength = hdrOff + 1 + uint32(tkl) + uint32(opLen)   -- uint32 arithmetic *)
      let mlen := u32 (u32 (u32 (hdrOff + 1) + tkl) + u32 opLen) in
      if blen data <? 1 then Err EShortRead
      else
        do code <- idx data 0;
        do data <- sl_from data 1;
        let hdrOff := u32 (hdrOff + 1) in
        if blen data <? tkl then Err EShortRead
        else
          do tok <- (if tkl >? 0 then sl_to data tkl else Ok []);
          Ok {| h_len := u32 (hdrOff + tkl); h_mlen := mlen; h_code := code; h_tok := tok |}.

Definition defs_for_code (code : Z) : optdefs :=
  if code =? codeCSM then TCPSignalCSMOptionDefs
  else if (code =? codePing) || (code =? codePong) then TCPSignalPingPongOptionDefs
  else if code =? codeRelease then TCPSignalReleaseOptionDefs
  else if code =? codeAbort then TCPSignalAbortOptionDefs
  else CoapOptionDefs.

(* func (c *Coder) DecodeWithHeader(data []byte, header MessageHeader, m *message.Message) (int, error)
   m.Payload is nil and len(m.Options) is 0 on entry (fresh or Reset message);
   Type and MessageID are not touched (reported as 0 here, not compared). *)
Definition tcp_decode_with_header (cap : Z) (data : list Z) (h : hdr) : res (msg * Z) :=
  let processed := h_len h in
  do (proc, os) <- unmarshal_opts (S (length data)) (defs_for_code (h_code h)) data 0 0 0 cap [];
  do data <- sl_from data proc;
  let processed := u32 (processed + u32 proc) in
  let processed := u32 (processed + u32 (blen data)) in
  Ok ({| m_tok := h_tok h; m_code := h_code h; m_opts := os; m_pay := data; m_mid := 0; m_typ := 0 |}, processed).

(* func (c *Coder) Decode(data []byte, m *message.Message) (int, error) *)
Definition tcp_decode (cap : Z) (data : list Z) : res (msg * Z) :=
  do h <- tcp_decode_header data;
  if u32 (blen data) <? h_mlen h then Err EShortRead
  else
    (* data[header.Length:header.MessageLength] *)
    do d <- sl_to data (h_mlen h);
    do d <- sl_from d (h_len h);
    tcp_decode_with_header cap d h.
