(* Model of message/pool/message.go: Message.MarshalWithEncoder,
   Message.decode (the options-capacity retry loop) and
   Message.UnmarshalWithDecoder (copy of the caller's bytes into the message's
   own buffer before decoding).  Model of the repaired code: the retry
   allocates max(16, 2*cap) (F8). *)
From Coq Require Import ZArith List Bool.
From GoCoap Require Import Base.Bytes Codec.Options Codec.Udp.
Import ListNotations.
Open Scope Z_scope.

(* func (r *Message) MarshalWithEncoder(encoder Encoder) ([]byte, error):
   Size, grow bufferMarshal to at least size, Encode, cut to n.
   [buflen]: len(r.bufferMarshal) on entry. *)
Definition pool_marshal (size : msg -> res Z) (encode_into : msg -> list Z -> eres) (buflen : Z) (m : msg) : res (list Z) :=
  do sz <- size m;
  let buf := repeat 0 (Z.to_nat (Z.max buflen sz)) in
  match encode_into m buf with
  | EOk n b => sl_to b n
  | ESmall _ _ => Err ETooSmall
  | EErr e => Err e
  | EPanic => Panic
  end.

(* capacity of the replacement option slice *)
Definition grow_cap (cap : Z) : Z := Z.max 16 (cap * 2).

(* func (r *Message) decode(decoder Decoder) (int, error): one decoder call per unit of fuel.
   Returns the message, the decoder's count and the final capacity of r.msg.Options. *)
Fixpoint pool_decode (fuel : nat) (dec : Z -> list Z -> res (msg * Z)) (cap : Z) (own : list Z) : res (msg * Z * Z) :=
  match fuel with
  | O => Fuel
  | S f =>
    match dec cap own with
    | Err EOptCap => pool_decode f dec (grow_cap cap) own
    | Ok (m, n) => Ok (m, n, cap)
    | Err e => Err e
    | Panic => Panic
    | Fuel => Fuel
    end
  end.

(* Which array a byte view points into. *)
Inductive origin := Caller | Owned.
Record view := { v_origin : origin; v_bytes : list Z }.

(* func (r *Message) UnmarshalWithDecoder(decoder Decoder, data []byte) (int, error):
   bufferUnmarshal is grown to len(data), data is copied into it, and the
   decoder only ever sees the copy. *)
Definition copy_to_owned (data : view) : view := {| v_origin := Owned; v_bytes := v_bytes data |}.

Definition pool_unmarshal (fuel : nat) (dec : Z -> list Z -> res (msg * Z)) (cap : Z) (data : view)
  : res (msg * Z * Z) * origin :=
  let own := copy_to_owned data in
  (pool_decode fuel dec cap (v_bytes own), v_origin own).

(* enough for every input: each retry at least doubles a capacity that is >= 16 *)
Definition pool_fuel (data : list Z) : nat := S (S (Z.to_nat (Z.log2_up (blen data + 2)))).
