(* Correspondence evaluator of C02.  A case carries a byte string and what the
   Go decoders did with it. *)
From Coq Require Import ZArith NArith List Bool.
From GoCoap Require Import Base.Bytes Base.Cases Gen.OptionDefs Gen.TcpConsts
     Codec.Options Codec.Udp Codec.Tcp Codec.Pool Codec.Spec.
From GoCoap Require Export Codec.Run.
Import ListNotations.
Open Scope Z_scope.

(* re-encoding of a decoded message and decoding of that again:
   None: the first decode did not accept;
   Some (kind, len, csum, d2): Encode's error class (0 ok), length and checksum
   of the bytes, and the second decode (None if nothing was encoded) *)
Definition reobs := option (Z * Z * Z * option dobs).

Inductive case :=
(* cap: capacity of the option slice handed to the direct Decode calls.
   o_pool: pooled decodes: (coder, capacity of the message's options before, result,
   capacity afterwards (-1 unless accepted), message unchanged after the caller's
   buffer was overwritten and no slice points into it) *)
| Bytes (bs : list Z) (cap : Z)
        (o_udp : dobs) (o_udp_re : reobs)
        (o_hdr : hobs) (o_tcp : dobs) (o_tcp_re : reobs)
        (o_pool : list (Z * Z * dobs * Z * bool)).

Definition re_model (coder cap : Z) (bs : list Z) : reobs :=
  match decode coder cap bs with
  | Ok (m, _) =>
    match size_of coder m with
    | Ok n =>
      match encode_into coder m (sbuf n) with
      | EOk k b => let b2 := firstn (Z.to_nat k) b in Some (0, blen b2, csum b2, Some (dobs_of (decode coder cap b2)))
      | ESmall _ _ => Some (1, -1, 0, None)
      | EErr e => Some (err_code e, -1, 0, None)
      | EPanic => Some (100, -1, 0, None)
      end
    | Err e => Some (err_code e, -1, 0, None)
    | _ => Some (100, -1, 0, None)
    end
  | _ => None
  end.

Definition reobs_eqb (a b : reobs) : bool :=
  opt_eqb (fun '(k1, l1, c1, d1) '(k2, l2, c2, d2) => (k1 =? k2) && (l1 =? l2) && (c1 =? c2) && opt_eqb dobs_eqb d1 d2) a b.

Definition agrees (c : case) : bool :=
  match c with
  | Bytes bs cap o_udp o_udp_re o_hdr o_tcp o_tcp_re o_pool =>
    dobs_eqb (dobs_of (udp_decode cap bs)) o_udp &&
    reobs_eqb (re_model 0 cap bs) o_udp_re &&
    hobs_eqb (hobs_of (tcp_decode_header bs)) o_hdr &&
    dobs_eqb (dobs_of (tcp_decode cap bs)) o_tcp &&
    reobs_eqb (re_model 1 cap bs) o_tcp_re &&
    forallb (fun '(coder, cap0, d, fc, noalias) =>
               let '(r, og) := pool_unmarshal (pool_fuel bs) (decode coder) cap0 {| v_origin := Caller; v_bytes := bs |} in
               let '(d', fc') := pu_obs r in
               dobs_eqb d' d && (fc' =? fc) && noalias && match og with Owned => true | Caller => false end) o_pool
  end.

(* ---- the property on the OBSERVED output, from Spec only ----
   classes: 1 a decoder panicked or did not return, 2 datagram decode differs
   from the reference parser, 3 stream header pre-parse differs, 4 stream decode
   differs, 5 an accepted message does not re-encode to bytes that decode to the
   same message (consuming all of them), 6 pooled message aliases the caller's
   buffer, 7 pooled decode differs from the reference. *)
Definition limit : Z := messageMaxLen.

Definition is_crash (d : dobs) : bool := match d with DPanic | DHang => true | _ => false end.

Definition matches_ref (d : dobs) (r : option (msg * Z)) : bool :=
  match r, d with
  | Some (m, n), DOk p k => pmsg_eqb p (proj m) && (k =? n)
  | None, DErr _ => true
  | _, _ => false
  end.

Definition canonical (d : dobs) (r : reobs) : bool :=
  match d with
  | DOk p _ =>
    match r with
    | Some (0, len, _, Some (DOk p2 n2)) => pmsg_eqb p p2 && (n2 =? len)
    | _ => false
    end
  | _ => true
  end.

Definition ref_of (coder : Z) (bs : list Z) : option (msg * Z) :=
  if coder =? 0 then option_map (fun m => (m, blen bs)) (ref_udp bs) else ref_tcp limit bs.

Definition pclass (c : case) : N :=
  match c with
  | Bytes bs cap o_udp o_udp_re o_hdr o_tcp o_tcp_re o_pool =>
    if is_crash o_udp || is_crash o_tcp || match o_hdr with HPanic => true | _ => false end
       || existsb (fun '(_, _, d, _, _) => is_crash d) o_pool then 1%N
    else if negb (matches_ref o_udp (ref_of 0 bs)) then 2%N
    else if negb (match ref_tcp_header limit bs, o_hdr with
                  | RShort, HErr 3 => true
                  | RInvalid, HErr e => negb (e =? 3)
                  | RHdr hl tot code tok, HOk hl' tot' code' tok' =>
                      (hl =? hl') && (tot =? tot') && (code =? code') && bytes_eqb tok tok'
                  | _, _ => false end) then 3%N
    else if negb (matches_ref o_tcp (ref_of 1 bs)) then 4%N
    else if negb (canonical o_udp o_udp_re && canonical o_tcp o_tcp_re) then 5%N
    else if negb (forallb (fun '(_, _, _, _, noalias) => noalias) o_pool) then 6%N
    else if negb (forallb (fun '(coder, _, d, _, _) => matches_ref d (ref_of coder bs)) o_pool) then 7%N
    else 0%N
  end.

Definition mismatches (cs : list case) : list N := bad_indices (fun c => negb (agrees c)) cs.
Definition property_failures (cs : list case) : list (N * N) := classes pclass cs.
