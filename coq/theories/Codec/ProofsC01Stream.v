(* C01, stream framing: the stream coder's Decode cuts the frame at the length
   announced in its Len / Extended-Length field.  Whatever follows the frame in
   the buffer (the next frames of a TCP stream, a partial frame, anything) is
   neither read nor counted: the message comes back unchanged and the returned
   count is exactly the number of bytes the encoder produced.  Consequently a
   buffer of back-to-back frames is taken apart frame by frame ([tcp_frames]),
   and a frame whose body has not arrived completely is answered ErrShortRead. *)
From Coq Require Import ZArith List Bool Lia.
From GoCoap Require Import Base.Bytes Gen.OptionDefs Gen.TcpConsts Codec.Options Codec.Udp Codec.Tcp Codec.Pool
     Codec.Spec Codec.ProofsOpt Codec.ProofsC01.
Import ListNotations.
Open Scope Z_scope.
Ltac Zify.zify_post_hook ::= Z.div_mod_to_equations.

(* DecodeHeader looks at the header bytes only: with ANY bytes behind the header
   (complete body, truncated body, more frames) it reports the header length,
   the announced frame length, the code and the token. *)
Theorem tcp_header_tail m tail : wf_tcp messageMaxLen m = true ->
  tcp_decode_header (spec_tcp_hdr m ++ tail) =
  Ok {| h_len := blen (spec_tcp_hdr m); h_mlen := blen (spec_tcp_hdr m) + blen (spec_body m); h_code := m_code m; h_tok := m_tok m |}.
Proof.
  intros Hwf. pose proof (wf_tcp_facts_of m Hwf) as F. destruct F as [Ft Fc Fo Fl].
  pose proof (blen_nonneg (m_tok m)) as Htk. pose proof (blen_nonneg (spec_body m)) as Hb. pose proof (blen_nonneg tail) as Htl.
  pose proof (spec_len_field_facts (blen (spec_body m)) ltac:(lia)) as [Hn He].
  pose proof (tcp_ext_len_spec (blen (spec_body m))) as HX.
  rewrite spec_tcp_hdr_len. unfold spec_tcp_hdr.
  destruct (spec_len_field (blen (spec_body m))) as [ln ext]. cbn [fst snd] in *.
  unfold tcp_decode_header. rewrite <- !app_assoc. cbn [app].
  rewrite blen_cons. set (rest := ext ++ m_code m :: m_tok m ++ tail). pose proof (blen_nonneg rest).
  ff (1 + blen rest =? 0). rewrite idx_0, sl_from_1. cbn [bind]. cbv zeta.
  rewrite land240 by lia. rewrite land15 by lia.
  replace ((ln * 16 + blen (m_tok m)) / 16) with ln by lia.
  replace ((ln * 16 + blen (m_tok m)) mod 16) with (blen (m_tok m)) by lia.
  unfold MaxTokenSize. ff (blen (m_tok m) >? 8). subst rest.
  rewrite HX by lia. cbn [bind]. cbv iota beta.
  rewrite blen_cons. pose proof (blen_nonneg (m_tok m ++ tail)). ff (1 + blen (m_tok m ++ tail) <? 1).
  rewrite idx_0, sl_from_1. cbn [bind].
  rewrite blen_app. ff (blen (m_tok m) + blen tail <? blen (m_tok m)).
  assert (Htok : (if blen (m_tok m) >? 0 then sl_to (m_tok m ++ tail) (blen (m_tok m)) else Ok []) = Ok (m_tok m)).
  { destruct (blen (m_tok m) >? 0) eqn:E; [apply sl_to_app|]. rewrite Z.gtb_ltb in E. apply Z.ltb_ge in E.
    rewrite (blen0_nil (m_tok m)) by lia. reflexivity. }
  rewrite Htok. cbn [bind]. unfold u32, W32, messageMaxLen in *.
  f_equal. f_equal; repeat rewrite Z.mod_small by lia; lia.
Qed.

Lemma spec_tcp_len m : blen (spec_tcp_bytes m) = blen (spec_tcp_hdr m) + blen (spec_body m).
Proof. rewrite spec_tcp_eq. apply blen_app. Qed.

Lemma spec_tcp_hdr_bounds m : wf_tcp messageMaxLen m = true -> 2 <= blen (spec_tcp_hdr m) <= 14.
Proof.
  intros Hwf. pose proof (wf_tcp_facts_of m Hwf) as F. destruct F as [Ft Fc Fo Fl].
  pose proof (blen_nonneg (m_tok m)). pose proof (blen_nonneg (spec_body m)).
  pose proof (spec_len_field_facts (blen (spec_body m)) ltac:(lia)) as [Hn He].
  rewrite spec_tcp_hdr_len. lia.
Qed.

(* DecodeWithHeader on exactly the body of the frame *)
Lemma tcp_with_header_spec m cap ml : wf_tcp messageMaxLen m = true -> blen (m_opts m) <= cap ->
  tcp_decode_with_header cap (spec_body m)
    {| h_len := blen (spec_tcp_hdr m); h_mlen := ml; h_code := m_code m; h_tok := m_tok m |} =
  Ok (tcp_view m, blen (spec_tcp_bytes m)).
Proof.
  intros Hwf Hcap. pose proof (wf_tcp_facts_of m Hwf) as F. destruct F as [Ft Fc Fo Fl].
  pose proof (spec_tcp_hdr_bounds m Hwf) as HH. pose proof (spec_tcp_len m) as Htot.
  pose proof (blen_nonneg (m_tok m)) as Htk. pose proof (blen_nonneg (spec_body m)) as Hb. pose proof (blen_nonneg (m_opts m)) as Hon.
  unfold tcp_decode_with_header. cbn [h_code h_len h_tok].
  unfold spec_body at 1 2.
  rewrite (unmarshal_body (defs_for_code (m_code m)) (rfc_registry_for_code (m_code m))) by (try apply tcp_keep; assumption || lia).
  cbn [bind]. cbv iota beta. unfold spec_body. rewrite sl_from_payload. cbn [bind].
  unfold tcp_view. f_equal. f_equal.
  pose proof (blen_nonneg (spec_options 0 (m_opts m))). pose proof (blen_nonneg (m_pay m)).
  rewrite spec_body_len, spec_payload_len in *.
  assert (Hrl : rest_len (spec_payload (m_pay m)) + blen (m_pay m) = if blen (m_pay m) >? 0 then blen (m_pay m) + 1 else blen (m_pay m)).
  { destruct (m_pay m) as [|x p]; [reflexivity|]. cbn [spec_payload rest_len]. rewrite blen_cons. pose proof (blen_nonneg p). tt (1 + blen p >? 0). lia. }
  unfold u32, W32, messageMaxLen in *. repeat rewrite Z.mod_small by lia. lia.
Qed.

(* Decode of a buffer that starts with an encoded frame and goes on with ANY bytes:
   the message, and exactly the frame's length as the consumed count.
   (len(data) is cast to uint32 by the code, hence the bound on the buffer.) *)
Theorem tcp_decode_stream_spec m cap rest : wf_tcp messageMaxLen m = true -> blen (m_opts m) <= cap ->
  blen (spec_tcp_bytes m) + blen rest < W32 ->
  tcp_decode cap (spec_tcp_bytes m ++ rest) = Ok (tcp_view m, blen (spec_tcp_bytes m)).
Proof.
  intros Hwf Hcap Hlen. pose proof (spec_tcp_hdr_bounds m Hwf) as HH. pose proof (spec_tcp_len m) as Htot.
  pose proof (blen_nonneg (spec_body m)) as Hb. pose proof (blen_nonneg rest) as Hr.
  unfold tcp_decode. rewrite spec_tcp_eq, <- app_assoc. rewrite (tcp_header_tail m _ Hwf). cbn [bind h_mlen h_len].
  rewrite !blen_app. unfold u32. rewrite Z.mod_small by (unfold W32 in *; lia).
  ff (blen (spec_tcp_hdr m) + (blen (spec_body m) + blen rest) <? blen (spec_tcp_hdr m) + blen (spec_body m)).
  rewrite app_assoc. rewrite <- (blen_app (spec_tcp_hdr m) (spec_body m)). rewrite sl_to_app. cbn [bind].
  rewrite sl_from_app. cbn [bind].
  rewrite (tcp_with_header_spec m cap _ Hwf Hcap). rewrite spec_tcp_eq. reflexivity.
Qed.

(* a frame whose header is there but whose body is not complete yet: ErrShortRead, nothing decoded *)
Theorem tcp_decode_partial m cap tail : wf_tcp messageMaxLen m = true -> blen tail < blen (spec_body m) ->
  tcp_decode cap (spec_tcp_hdr m ++ tail) = Err EShortRead.
Proof.
  intros Hwf Hlt. pose proof (wf_tcp_facts_of m Hwf) as F. destruct F as [Ft Fc Fo Fl].
  pose proof (spec_tcp_hdr_bounds m Hwf) as HH. pose proof (blen_nonneg tail) as Hr.
  unfold tcp_decode. rewrite (tcp_header_tail m _ Hwf). cbn [bind h_mlen h_len].
  rewrite blen_app. unfold u32. rewrite Z.mod_small by (unfold W32, messageMaxLen in *; lia).
  tt (blen (spec_tcp_hdr m) + blen tail <? blen (spec_tcp_hdr m) + blen (spec_body m)). reflexivity.
Qed.

(* ---------- a stream buffer taken apart frame by frame ---------- *)
(* The consumer loop the returned count exists for: Decode at the front of the
   buffer, advance by the count, until the buffer is empty or Decode fails. *)
Inductive stop := SEnd | SErr (e : err) | SPanic | SStuck | SFuel.

Fixpoint tcp_frames (fuel : nat) (cap : Z) (data : list Z) : list (msg * Z) * stop * list Z :=
  match fuel with
  | O => ([], SFuel, data)
  | S f =>
    if blen data =? 0 then ([], SEnd, data)
    else
      match tcp_decode cap data with
      | Ok (m, n) =>
          if (0 <? n) && (n <=? blen data) then
            let '(ms, s, r) := tcp_frames f cap (skipn (Z.to_nat n) data) in ((m, n) :: ms, s, r)
          else ([], SStuck, data)
      | Err e => ([], SErr e, data)
      | Panic => ([], SPanic, data)
      | Fuel => ([], SFuel, data)
      end
  end.

Definition stream_bytes (ms : list msg) : list Z := concat (map spec_tcp_bytes ms).
Definition frame_result (m : msg) : msg * Z := (tcp_view m, blen (spec_tcp_bytes m)).

Fixpoint msgs_ok (cap : Z) (ms : list msg) : Prop :=
  match ms with
  | [] => True
  | m :: r => wf_tcp messageMaxLen m = true /\ blen (m_opts m) <= cap /\ msgs_ok cap r
  end.

Lemma tcp_frames_app ms : forall cap rest f, msgs_ok cap ms -> blen (stream_bytes ms) + blen rest < W32 ->
  tcp_frames (length ms + f) cap (stream_bytes ms ++ rest) =
  let '(l, s, r) := tcp_frames f cap rest in (map frame_result ms ++ l, s, r).
Proof.
  induction ms as [|m ms IH]; intros cap rest f Hok Hlen.
  - cbn [length stream_bytes map concat app Nat.add]. destruct (tcp_frames f cap rest) as [[l s] r]. reflexivity.
  - destruct Hok as (Hwf & Hcap & Hr).
    unfold stream_bytes in *. cbn [map concat length Nat.add] in *. rewrite blen_app in Hlen.
    pose proof (spec_tcp_hdr_bounds m Hwf) as HH. pose proof (spec_tcp_len m) as Htot.
    pose proof (blen_nonneg (spec_body m)) as Hb. pose proof (blen_nonneg rest) as Hrest.
    pose proof (blen_nonneg (concat (map spec_tcp_bytes ms))) as Hc.
    cbn [tcp_frames]. rewrite <- app_assoc.
    rewrite !blen_app.
    ff (blen (spec_tcp_bytes m) + (blen (concat (map spec_tcp_bytes ms)) + blen rest) =? 0).
    rewrite (tcp_decode_stream_spec m cap _ Hwf Hcap) by (rewrite blen_app; lia).
    tt (0 <? blen (spec_tcp_bytes m)).
    tt (blen (spec_tcp_bytes m) <=? blen (spec_tcp_bytes m) + (blen (concat (map spec_tcp_bytes ms)) + blen rest)).
    cbn [andb]. rewrite to_nat_blen, skipn_app, skipn_all, Nat.sub_diag. cbn [skipn app].
    rewrite (IH cap rest f Hr) by lia.
    destruct (tcp_frames f cap rest) as [[l s] r]. reflexivity.
Qed.

(* every list of well-formed messages, encoded back to back: the loop returns every
   message with exactly its own encoded length, and ends with the buffer used up *)
Theorem tcp_frames_spec ms cap : msgs_ok cap ms -> blen (stream_bytes ms) < W32 ->
  tcp_frames (S (length ms)) cap (stream_bytes ms) = (map frame_result ms, SEnd, []).
Proof.
  intros Hok Hlen. pose proof (tcp_frames_app ms cap [] 1%nat Hok) as H.
  rewrite app_nil_r, Nat.add_1_r in H. rewrite H by (change (blen []) with 0; lia).
  cbn. rewrite app_nil_r. reflexivity.
Qed.

(* ... and when the last frame has arrived only in part (header complete, body not):
   all complete frames are returned, then ErrShortRead with the partial frame left over *)
Theorem tcp_frames_partial ms cap m tail : msgs_ok cap ms -> wf_tcp messageMaxLen m = true ->
  blen tail < blen (spec_body m) -> blen (stream_bytes ms) + blen (spec_tcp_hdr m ++ tail) < W32 ->
  tcp_frames (S (length ms)) cap (stream_bytes ms ++ spec_tcp_hdr m ++ tail) =
  (map frame_result ms, SErr EShortRead, spec_tcp_hdr m ++ tail).
Proof.
  intros Hok Hwf Hlt Hlen. pose proof (tcp_frames_app ms cap (spec_tcp_hdr m ++ tail) 1%nat Hok Hlen) as H.
  rewrite Nat.add_1_r in H. rewrite H. clear H.
  pose proof (spec_tcp_hdr_bounds m Hwf) as HH. pose proof (blen_nonneg tail).
  cbn [tcp_frames]. rewrite blen_app. ff (blen (spec_tcp_hdr m) + blen tail =? 0).
  rewrite (tcp_decode_partial m cap tail Hwf Hlt). rewrite app_nil_r. reflexivity.
Qed.

(* ---------- option values come back verbatim ---------- *)
(* No value is normalised by the decoders -- in particular a uint-format option
   (Observe, Content-Format, Block1/2, Max-Age, ...) whose registry-legal value starts
   with 0x00 bytes keeps them.  [opts_wf] puts no condition on the value bytes beyond
   their being bytes, so these are instances of the round-trip theorems. *)
Theorem udp_values_verbatim m cap m' n : wf_udp m = true -> blen (m_opts m) <= cap ->
  udp_decode cap (spec_udp_bytes m) = Ok (m', n) -> m_opts m' = m_opts m /\ n = blen (spec_udp_bytes m).
Proof. intros Hwf Hcap H. rewrite (udp_decode_spec m cap Hwf Hcap) in H. injection H as <- <-. split; reflexivity. Qed.

Theorem tcp_values_verbatim m cap rest m' n : wf_tcp messageMaxLen m = true -> blen (m_opts m) <= cap ->
  blen (spec_tcp_bytes m) + blen rest < W32 ->
  tcp_decode cap (spec_tcp_bytes m ++ rest) = Ok (m', n) -> m_opts m' = m_opts m /\ n = blen (spec_tcp_bytes m).
Proof. intros Hwf Hcap Hl H. rewrite (tcp_decode_stream_spec m cap rest Hwf Hcap Hl) in H. injection H as <- <-. split; reflexivity. Qed.
