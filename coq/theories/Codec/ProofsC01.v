(* C01: the datagram and stream coders are exact inverses on every well-formed
   message; Size = bytes written; too-small buffers; refusals. *)
From Coq Require Import ZArith List Bool Lia.
From GoCoap Require Import Base.Bytes Gen.OptionDefs Gen.TcpConsts Codec.Options Codec.Udp Codec.Tcp Codec.Pool Codec.Spec Codec.ProofsOpt.
Import ListNotations.
Open Scope Z_scope.
Ltac Zify.zify_post_hook ::= Z.div_mod_to_equations.

(* ---------- the generated option tables are the RFC registries ---------- *)
Definition strip (d : optdefs) : registry :=
  map (fun e : Z * (Z * Z * Z) => (fst e, (fst (fst (snd e)), snd (fst (snd e))))) d.

Theorem coap_defs_are_rfc : strip CoapOptionDefs = rfc_coap_registry.
Proof. reflexivity. Qed.

Theorem signal_defs_are_rfc : forall code, strip (defs_for_code code) = rfc_registry_for_code code.
Proof.
  intros code. unfold defs_for_code, rfc_registry_for_code, codeCSM, codePing, codePong, codeRelease, codeAbort.
  destruct (code =? 225); [reflexivity|]. destruct ((code =? 226) || (code =? 227)); [reflexivity|].
  destruct (code =? 228); [reflexivity|]. destruct (code =? 229); reflexivity.
Qed.

Definition no_unknown_format (d : optdefs) : bool :=
  forallb (fun e : Z * (Z * Z * Z) => negb (snd (snd e) =? ValueUnknown)) d.

Lemma keep_is_legal d : no_unknown_format d = true ->
  forall id len, 0 <= len < W32 -> option_keep d id len = legal_len (strip d) id len.
Proof.
  intros Hf id len Hlen. unfold option_keep, legal_len.
  induction d as [|[k [[mn mx] fmt]] r IH]; [reflexivity|].
  cbn [no_unknown_format forallb] in Hf. apply andb_true_iff in Hf. destruct Hf as [Hk Hr].
  cbn [strip map lookup_def reg_find fst snd]. rewrite (Z.eqb_sym k id).
  destruct (id =? k).
  - cbn [snd] in Hk. apply negb_true_iff in Hk. rewrite Hk.
    unfold u32. rewrite Z.mod_small by exact Hlen.
    rewrite Z.gtb_ltb.
    destruct (Z.ltb_spec len mn), (Z.ltb_spec mx len), (Z.leb_spec mn len), (Z.leb_spec len mx); cbn [orb negb andb]; try reflexivity; lia.
  - apply IH. exact Hr.
Qed.

Lemma defs_no_unknown : forall code, no_unknown_format (defs_for_code code) = true.
Proof.
  intros code. unfold defs_for_code.
  destruct (code =? codeCSM); [reflexivity|]. destruct ((code =? codePing) || (code =? codePong)); [reflexivity|].
  destruct (code =? codeRelease); [reflexivity|]. destruct (code =? codeAbort); reflexivity.
Qed.

(* ---------- wf options survive decoding ---------- *)
Lemma opts_wf_dec_ok d r os : (forall id len, 0 <= len < W32 -> option_keep d id len = legal_len r id len) ->
  forall prev, 0 <= prev -> opts_wf r prev os = true -> opts_dec_ok d prev os.
Proof.
  intros Hk. induction os as [|[id v] rest IH]; intros prev Hp Hwf; cbn [opts_dec_ok]; [exact I|].
  cbn [opts_wf] in Hwf. rewrite !andb_true_iff in Hwf.
  destruct Hwf as ((((((H1 & H2) & H3) & H4) & H5) & H6) & H7).
  apply Z.leb_le in H1. apply Z.ltb_lt in H2. apply Z.leb_le in H3. apply Z.leb_le in H5. unfold max_opt_value in H5.
  pose proof (blen_nonneg v) as Hv. cbn [fst snd].
  split; [unfold opt_ok, nib_ok; cbn [fst snd]; lia|].
  split; [lia|]. split.
  - rewrite Hk by (unfold W32; lia). exact H4.
  - apply IH; [lia|exact H7].
Qed.

Lemma spec_options_long os : forall prev, blen os <= blen (spec_options prev os).
Proof.
  induction os as [|o r IH]; intros prev; cbn [spec_options]; [unfold blen; cbn; lia|].
  rewrite blen_cons, blen_app, spec_option_eq, blen_app, spec_hdr_len.
  pose proof (IH (fst o)). pose proof (spec_nib_len (fst o - prev)). pose proof (spec_nib_len (blen (snd o))).
  pose proof (blen_nonneg (snd o)). lia.
Qed.

Lemma spec_payload_len p : blen (spec_payload p) = if blen p >? 0 then blen p + 1 else blen p.
Proof. destruct p as [|x p]; [reflexivity|]. cbn [spec_payload]. rewrite !blen_cons. pose proof (blen_nonneg p). tt (1 + blen p >? 0). lia. Qed.
Lemma spec_payload_tail p : (if blen p >? 0 then 255 :: p else []) = spec_payload p.
Proof. destruct p as [|x p]; [reflexivity|]. rewrite blen_cons. pose proof (blen_nonneg p). tt (1 + blen p >? 0). reflexivity. Qed.
Lemma spec_payload_rest_ok p : rest_ok (spec_payload p).
Proof. destruct p; [left; reflexivity|right; eexists; reflexivity]. Qed.
Lemma sl_from_payload so p : sl_from (so ++ spec_payload p) (blen so + rest_len (spec_payload p)) = Ok p.
Proof.
  destruct p as [|x p]; cbn [spec_payload rest_len].
  - rewrite Z.add_0_r. apply sl_from_app.
  - change (so ++ 255 :: x :: p) with (so ++ [255] ++ x :: p). rewrite app_assoc.
    replace (blen so + 1) with (blen (so ++ [255])) by (rewrite blen_app; reflexivity). apply sl_from_app.
Qed.

(* body = options ++ payload part decodes back, for either coder *)
Lemma unmarshal_body d r os pay cap : (forall id len, 0 <= len < W32 -> option_keep d id len = legal_len r id len) ->
  opts_wf r 0 os = true -> blen os <= cap -> 0 <= cap ->
  let body := spec_options 0 os ++ spec_payload pay in
  unmarshal_opts (S (length body)) d body 0 0 0 cap [] = Ok (blen (spec_options 0 os) + rest_len (spec_payload pay), os).
Proof.
  intros Hk Hwf Hcap Hc body. subst body.
  rewrite (unmarshal_spec_options d os) by
    (try (apply (opts_wf_dec_ok d r); [exact Hk|lia|exact Hwf]); try apply spec_payload_rest_ok; try lia;
     pose proof (spec_options_long os 0) as HL; unfold blen in HL; rewrite app_length; lia).
  tt (0 + blen os <=? cap). reflexivity.
Qed.

(* ---------- datagram coder ---------- *)
Lemma udp_b0 typ tkl : 0 <= typ <= 3 -> 0 <= tkl <= 8 ->
  Z.lor (Z.lor 64 (((typ mod 256) * 16) mod 256)) (Z.land 15 tkl) = 64 + typ * 16 + tkl.
Proof.
  intros Ht Hk.
  assert (H : forallb (fun t => forallb (fun k => Z.lor (Z.lor 64 (((t mod 256) * 16) mod 256)) (Z.land 15 k) =? 64 + t * 16 + k) (zrange 0 9)) (zrange 0 4) = true) by (vm_compute; reflexivity).
  pose proof (forall_range _ _ _ H typ ltac:(lia)) as H1. cbv beta in H1.
  pose proof (forall_range _ _ _ H1 tkl ltac:(lia)) as H2. cbv beta in H2. apply Z.eqb_eq. exact H2.
Qed.

Record wf_udp_facts (m : msg) : Prop := {
  wu_tok : blen (m_tok m) <= 8; wu_code : 0 <= m_code m <= 255;
  wu_opts : opts_wf rfc_coap_registry 0 (m_opts m) = true;
  wu_typ : 0 <= m_typ m <= 3; wu_mid : 0 <= m_mid m <= 65535 }.
Lemma wf_udp_facts_of m : wf_udp m = true -> wf_udp_facts m.
Proof.
  unfold wf_udp, wf_common. rewrite !andb_true_iff. intros H.
  destruct H as (((((((((H1 & _) & H3) & H4) & H5) & _) & H7) & H8) & H9) & H10).
  apply Z.leb_le in H1, H3, H4, H7, H8, H9, H10. constructor; (lia || assumption).
Qed.

Lemma coap_keep : forall id len, 0 <= len < W32 -> option_keep CoapOptionDefs id len = legal_len rfc_coap_registry id len.
Proof. intros. rewrite <- coap_defs_are_rfc. apply keep_is_legal; [reflexivity|assumption]. Qed.

Lemma udp_opts_ok m : wf_udp_facts m -> opts_ok 0 (m_opts m).
Proof. intros F. apply (opts_dec_ok_ok CoapOptionDefs). apply (opts_wf_dec_ok _ rfc_coap_registry); [apply coap_keep|lia|apply (wu_opts _ F)]. Qed.

Lemma spec_udp_len m : blen (spec_udp_bytes m) = 4 + blen (m_tok m) + (blen (spec_options 0 (m_opts m)) + blen (spec_payload (m_pay m))).
Proof. unfold spec_udp_bytes, spec_body. rewrite !blen_app. change (blen [_; _; _; _]) with 4. lia. Qed.

Theorem udp_size_spec m : wf_udp m = true -> udp_size m = Ok (blen (spec_udp_bytes m)).
Proof.
  intros Hwf. pose proof (wf_udp_facts_of m Hwf) as F. destruct F as [Ft Fc Fo Fy Fm].
  unfold udp_size, MaxTokenSize. ff (blen (m_tok m) >? 8).
  destruct (options_into_size (m_opts m) (udp_opts_ok m (wf_udp_facts_of m Hwf))) as [X HX]. rewrite HX. cbn [negb].
  rewrite spec_udp_len, spec_payload_len. f_equal. destruct (blen (m_pay m) >? 0); lia.
Qed.

Theorem udp_encode_spec m buf : wf_udp m = true -> blen (spec_udp_bytes m) <= blen buf ->
  udp_encode_into m buf = EOk (blen (spec_udp_bytes m)) (overwrite buf (spec_udp_bytes m)).
Proof.
  intros Hwf Hfit. pose proof (wf_udp_facts_of m Hwf) as F. pose proof (udp_opts_ok m F) as Hok.
  destruct F as [Ft Fc Fo Fy Fm].
  unfold udp_encode_into. rewrite (udp_size_spec m Hwf).
  unfold validate_mid, validate_type. tt (0 <=? m_mid m). tt (m_mid m <=? 65535). tt (0 <=? m_typ m). tt (m_typ m <=? 255).
  cbn [andb negb]. ff (blen buf <? blen (spec_udp_bytes m)).
  unfold MaxTokenSize. ff (blen (m_tok m) >? 8).
  pose proof (blen_nonneg (m_tok m)) as Htk. pose proof (blen_nonneg (spec_payload (m_pay m))) as Hpl.
  rewrite spec_udp_len in Hfit.
  rewrite options_into_write by (assumption || lia).
  rewrite udp_b0 by lia. rewrite (Z.mod_small (m_mid m) 65536) by lia. rewrite (Z.mod_small (m_code m) 256) by lia.
  rewrite spec_payload_tail.
  change ([64 + m_typ m * 16 + blen (m_tok m); m_code m; m_mid m / 256; m_mid m mod 256] ++ m_tok m ++ spec_options 0 (m_opts m) ++ spec_payload (m_pay m))
    with (spec_udp_bytes m).
  rewrite spec_udp_len. ff (4 + blen (m_tok m) + (blen (spec_options 0 (m_opts m)) + blen (spec_payload (m_pay m))) >? blen buf).
  reflexivity.
Qed.

Theorem udp_encode_small m buf : wf_udp m = true -> blen buf < blen (spec_udp_bytes m) ->
  udp_encode_into m buf = ESmall (blen (spec_udp_bytes m)) buf.
Proof.
  intros Hwf Hs. pose proof (wf_udp_facts_of m Hwf) as F. destruct F as [Ft Fc Fo Fy Fm].
  unfold udp_encode_into. rewrite (udp_size_spec m Hwf).
  unfold validate_mid, validate_type. tt (0 <=? m_mid m). tt (m_mid m <=? 65535). tt (0 <=? m_typ m). tt (m_typ m <=? 255).
  cbn [andb negb]. tt (blen buf <? blen (spec_udp_bytes m)). reflexivity.
Qed.

Theorem udp_decode_spec m cap : wf_udp m = true -> blen (m_opts m) <= cap ->
  udp_decode cap (spec_udp_bytes m) = Ok (m, blen (spec_udp_bytes m)).
Proof.
  intros Hwf Hcap. pose proof (wf_udp_facts_of m Hwf) as F. destruct F as [Ft Fc Fo Fy Fm].
  pose proof (blen_nonneg (m_tok m)) as Htk. pose proof (blen_nonneg (m_opts m)) as Hon.
  unfold udp_decode. rewrite spec_udp_len.
  pose proof (blen_nonneg (spec_options 0 (m_opts m))). pose proof (blen_nonneg (spec_payload (m_pay m))).
  ff (4 + blen (m_tok m) + (blen (spec_options 0 (m_opts m)) + blen (spec_payload (m_pay m))) <? 4).
  unfold spec_udp_bytes. cbn [app]. rewrite idx_0. cbn [bind].
  replace ((64 + m_typ m * 16 + blen (m_tok m)) / 64) with 1 by lia. change (1 =? 1) with true. cbn [negb].
  rewrite land3 by lia. rewrite land15 by lia.
  replace ((64 + m_typ m * 16 + blen (m_tok m)) / 16 mod 4) with (m_typ m) by lia.
  replace ((64 + m_typ m * 16 + blen (m_tok m)) mod 16) with (blen (m_tok m)) by lia.
  ff (blen (m_tok m) >? 8). rewrite idx_1. cbn [bind].
  set (rest := m_tok m ++ spec_body m).
  change (64 + m_typ m * 16 + blen (m_tok m) :: m_code m :: m_mid m / 256 :: m_mid m mod 256 :: rest)
    with ([64 + m_typ m * 16 + blen (m_tok m); m_code m; m_mid m / 256; m_mid m mod 256] ++ rest).
  change 4 with (blen [64 + m_typ m * 16 + blen (m_tok m); m_code m; m_mid m / 256; m_mid m mod 256]) at 1 2.
  rewrite sl_to_app. cbn [bind]. rewrite sl_from_2. cbn [bind]. rewrite idx_0, idx_1. cbn [bind].
  rewrite sl_from_app. cbn [bind]. subst rest.
  rewrite blen_app. pose proof (blen_nonneg (spec_body m)). ff (blen (m_tok m) + blen (spec_body m) <? blen (m_tok m)).
  rewrite sl_to_app, sl_from_app. cbn [bind]. unfold spec_body.
  rewrite (unmarshal_body CoapOptionDefs rfc_coap_registry) by (try apply coap_keep; assumption || lia).
  cbn [bind]. cbv iota beta. rewrite sl_from_payload. cbn [bind].
  replace (m_mid m / 256 * 256 + m_mid m mod 256) with (m_mid m) by lia.
  destruct m; reflexivity.
Qed.

(* ---------- stream coder ---------- *)
Lemma tcp_b0 tkl nib : 0 <= tkl <= 8 -> 0 <= nib <= 15 ->
  Z.lor (tkl mod 256) ((nib * 16) mod 256) = nib * 16 + tkl.
Proof.
  intros Hk Hn.
  assert (H : forallb (fun k => forallb (fun n => Z.lor (k mod 256) ((n * 16) mod 256) =? n * 16 + k) (zrange 0 16)) (zrange 0 9) = true) by (vm_compute; reflexivity).
  pose proof (forall_range _ _ _ H tkl ltac:(lia)) as H1. cbv beta in H1.
  pose proof (forall_range _ _ _ H1 nib ltac:(lia)) as H2. cbv beta in H2. apply Z.eqb_eq. exact H2.
Qed.
Lemma land240 b : 0 <= b < 256 -> Z.land b 240 / 16 = b / 16.
Proof.
  intros Hb.
  assert (H : forallb (fun b => Z.land b 240 / 16 =? b / 16) (zrange 0 256) = true) by (vm_compute; reflexivity).
  pose proof (forall_range _ _ _ H b ltac:(lia)) as H1. cbv beta in H1. apply Z.eqb_eq. exact H1.
Qed.

Lemma get_header_spec n : 0 <= n < messageMaxLen -> get_header n = spec_len_field n.
Proof.
  unfold get_header, spec_len_field, MessageLength13Base, MessageLength14Base, MessageLength15Base, messageMaxLen, u32, W32.
  intros Hn.
  destruct (n <? 13) eqn:E1; [apply Z.ltb_lt in E1; rewrite Z.mod_small by lia; reflexivity|]. apply Z.ltb_ge in E1.
  destruct (n <? 269) eqn:E2; [apply Z.ltb_lt in E2; rewrite Z.mod_small by lia; reflexivity|]. apply Z.ltb_ge in E2.
  destruct (n <? 65805) eqn:E3; [apply Z.ltb_lt in E3; rewrite (Z.mod_small (n - 269) 65536) by lia; reflexivity|]. apply Z.ltb_ge in E3.
  tt (n <? 2147418112). rewrite (Z.mod_small (n - 65805) 4294967296) by lia. reflexivity.
Qed.

Lemma spec_len_field_facts n : 0 <= n < messageMaxLen ->
  0 <= fst (spec_len_field n) <= 15 /\ 0 <= blen (snd (spec_len_field n)) <= 4.
Proof.
  unfold spec_len_field, messageMaxLen. intros Hn.
  destruct (n <? 13) eqn:E1; [apply Z.ltb_lt in E1; cbn [fst snd]; unfold blen; cbn [length]; lia|].
  destruct (n <? 269); [cbn [fst snd]; unfold blen; cbn [length]; lia|].
  destruct (n <? 65805); cbn [fst snd]; unfold blen; cbn [length]; lia.
Qed.

(* the length switch of DecodeHeader inverts the RFC length field *)
Lemma tcp_ext_len_spec n tail off : 0 <= n < messageMaxLen ->
  tcp_ext_len (fst (spec_len_field n)) (snd (spec_len_field n) ++ tail) off =
  Ok (n, tail, off + blen (snd (spec_len_field n))).
Proof.
  unfold tcp_ext_len, spec_len_field, MessageLength13Base, MessageLength14Base, MessageLength15Base, messageMaxLen.
  intros Hn. pose proof (blen_nonneg tail) as Ht.
  destruct (n <? 13) eqn:E1.
  { apply Z.ltb_lt in E1. cbn [fst snd app]. tt (n <? 13). change (blen []) with 0. rewrite Z.add_0_r. reflexivity. }
  apply Z.ltb_ge in E1. destruct (n <? 269) eqn:E2.
  { apply Z.ltb_lt in E2. cbn [fst snd app]. change (13 <? 13) with false. change (13 =? 13) with true. cbv iota.
    rewrite blen_cons. ff (1 + blen tail <? 1). rewrite idx_0, sl_from_1. cbn [bind]. change (blen [n - 13]) with 1.
    f_equal. f_equal. f_equal. lia. }
  apply Z.ltb_ge in E2. destruct (n <? 65805) eqn:E3.
  { apply Z.ltb_lt in E3. cbn [fst snd app]. change (14 <? 13) with false. change (14 =? 13) with false. change (14 =? 14) with true. cbv iota.
    rewrite !blen_cons. ff (1 + (1 + blen tail) <? 2). rewrite idx_1, idx_0, sl_from_2. cbn [bind].
    change (blen [(n - 269) / 256; (n - 269) mod 256]) with 2. f_equal. f_equal. f_equal. lia. }
  apply Z.ltb_ge in E3. cbn [fst snd app]. change (15 <? 13) with false. change (15 =? 13) with false. change (15 =? 14) with false. cbv iota.
  rewrite !blen_cons. ff (1 + (1 + (1 + (1 + blen tail))) <? 4).
  rewrite idx_3, idx_0, idx_1, idx_2, sl_from_4. cbn [bind]. cbv zeta.
  set (e := n - 65805).
  assert (He : ((e / 16777216 * 256 + e / 65536 mod 256) * 256 + e / 256 mod 256) * 256 + e mod 256 = e).
  { assert (0 <= e) by (subst e; lia).
    pose proof (Z.div_mod e 256 ltac:(lia)) as D1. pose proof (Z.div_mod (e / 256) 256 ltac:(lia)) as D2.
    pose proof (Z.div_mod (e / 256 / 256) 256 ltac:(lia)) as D3.
    rewrite (Z.div_div e 256 256) in D2, D3 by lia. rewrite (Z.div_div e (256 * 256) 256) in D3 by lia.
    change (256 * 256) with 65536 in *. change (65536 * 256) with 16777216 in *.
    clear -D1 D2 D3. set (a := e / 256) in *. set (b := e / 65536) in *. set (c := e / 16777216) in *.
    set (x := e mod 256) in *. set (y := a mod 256) in *. set (z := b mod 256) in *. lia. }
  rewrite He. ff (e >? 2147418112).
  change (blen [e / 16777216; e / 65536 mod 256; e / 256 mod 256; e mod 256]) with 4.
  f_equal. f_equal. f_equal. subst e. lia.
Qed.

Record wf_tcp_facts (m : msg) : Prop := {
  wt_tok : blen (m_tok m) <= 8; wt_code : 0 <= m_code m <= 255;
  wt_opts : opts_wf (rfc_registry_for_code (m_code m)) 0 (m_opts m) = true;
  wt_len : blen (spec_body m) < messageMaxLen }.
Lemma wf_tcp_facts_of m : wf_tcp messageMaxLen m = true -> wf_tcp_facts m.
Proof.
  unfold wf_tcp, wf_common. rewrite !andb_true_iff. intros H.
  destruct H as ((((((H1 & _) & H3) & H4) & H5) & _) & H7).
  apply Z.leb_le in H1, H3, H4. apply Z.ltb_lt in H7. constructor; (lia || assumption).
Qed.

Lemma tcp_keep code : forall id len, 0 <= len < W32 ->
  option_keep (defs_for_code code) id len = legal_len (rfc_registry_for_code code) id len.
Proof. intros. rewrite <- signal_defs_are_rfc. apply keep_is_legal; [apply defs_no_unknown|assumption]. Qed.

Lemma tcp_opts_ok m : wf_tcp_facts m -> opts_ok 0 (m_opts m).
Proof.
  intros F. apply (opts_dec_ok_ok (defs_for_code (m_code m))).
  apply (opts_wf_dec_ok _ (rfc_registry_for_code (m_code m))); [apply tcp_keep|lia|apply (wt_opts _ F)].
Qed.

Lemma spec_body_len m : blen (spec_body m) = blen (spec_options 0 (m_opts m)) + blen (spec_payload (m_pay m)).
Proof. unfold spec_body. apply blen_app. Qed.

Definition spec_tcp_hdr (m : msg) : list Z :=
  [fst (spec_len_field (blen (spec_body m))) * 16 + blen (m_tok m)] ++ snd (spec_len_field (blen (spec_body m))) ++ [m_code m] ++ m_tok m.
Lemma spec_tcp_eq m : spec_tcp_bytes m = spec_tcp_hdr m ++ spec_body m.
Proof. unfold spec_tcp_bytes, spec_tcp_hdr. destruct (spec_len_field (blen (spec_body m))) as [ln ext]. cbn [fst snd]. rewrite <- !app_assoc. reflexivity. Qed.
Lemma spec_tcp_hdr_len m : blen (spec_tcp_hdr m) = 1 + blen (snd (spec_len_field (blen (spec_body m)))) + 1 + blen (m_tok m).
Proof. unfold spec_tcp_hdr. rewrite !blen_app. change (blen [_]) with 1. lia. Qed.

Theorem tcp_encode_cases m buf : wf_tcp messageMaxLen m = true ->
  tcp_encode_into m buf =
    if blen buf <? blen (spec_tcp_bytes m) then ESmall (blen (spec_tcp_bytes m)) buf
    else EOk (blen (spec_tcp_bytes m)) (overwrite buf (spec_tcp_bytes m)).
Proof.
  intros Hwf. pose proof (wf_tcp_facts_of m Hwf) as F. pose proof (tcp_opts_ok m F) as Hok. destruct F as [Ft Fc Fo Fl].
  pose proof (blen_nonneg (m_tok m)) as Htk. pose proof (blen_nonneg (spec_body m)) as Hb.
  unfold tcp_encode_into, MaxTokenSize. ff (blen (m_tok m) >? 8).
  destruct (options_into_size (m_opts m) Hok) as [X HX]. rewrite HX. cbn [negb].
  replace ((if blen (m_pay m) >? 0 then blen (m_pay m) + 1 else blen (m_pay m)) + blen (spec_options 0 (m_opts m)))
    with (blen (spec_body m)) by (rewrite spec_body_len, spec_payload_len; lia).
  rewrite get_header_spec by lia.
  rewrite spec_tcp_eq, blen_app, spec_tcp_hdr_len.
  pose proof (spec_len_field_facts (blen (spec_body m)) ltac:(lia)) as [Hn He].
  unfold spec_tcp_hdr.
  destruct (spec_len_field (blen (spec_body m))) as [ln ext]. cbn [fst snd] in *.
  replace (blen (spec_body m) + (1 + blen ext + blen (m_tok m) + 1)) with (1 + blen ext + 1 + blen (m_tok m) + blen (spec_body m)) by lia.
  destruct (blen buf <? 1 + blen ext + 1 + blen (m_tok m) + blen (spec_body m)) eqn:E; [reflexivity|]. apply Z.ltb_ge in E.
  rewrite spec_body_len in E. pose proof (blen_nonneg (spec_payload (m_pay m))).
  rewrite options_into_write by (assumption || lia).
  rewrite tcp_b0 by lia. rewrite (Z.mod_small (m_code m) 256) by lia. rewrite spec_payload_tail.
  replace (([ln * 16 + blen (m_tok m)] ++ ext ++ [m_code m] ++ m_tok m) ++ spec_options 0 (m_opts m) ++ spec_payload (m_pay m))
    with (([ln * 16 + blen (m_tok m)] ++ ext ++ [m_code m] ++ m_tok m) ++ spec_body m) by reflexivity.
  rewrite !blen_app. change (blen [_]) with 1. rewrite spec_body_len.
  ff (1 + (blen ext + (1 + blen (m_tok m))) + (blen (spec_options 0 (m_opts m)) + blen (spec_payload (m_pay m))) >? blen buf).
  reflexivity.
Qed.

Theorem tcp_size_spec m : wf_tcp messageMaxLen m = true -> tcp_size m = Ok (blen (spec_tcp_bytes m)).
Proof.
  intros Hwf. unfold tcp_size. rewrite (tcp_encode_cases m [] Hwf).
  destruct (blen [] <? blen (spec_tcp_bytes m)); reflexivity.
Qed.

Theorem tcp_header_spec m : wf_tcp messageMaxLen m = true ->
  tcp_decode_header (spec_tcp_bytes m) =
  Ok {| h_len := blen (spec_tcp_hdr m); h_mlen := blen (spec_tcp_bytes m); h_code := m_code m; h_tok := m_tok m |}.
Proof.
  intros Hwf. pose proof (wf_tcp_facts_of m Hwf) as F. destruct F as [Ft Fc Fo Fl].
  pose proof (blen_nonneg (m_tok m)) as Htk. pose proof (blen_nonneg (spec_body m)) as Hb.
  pose proof (spec_len_field_facts (blen (spec_body m)) ltac:(lia)) as [Hn He].
  pose proof (tcp_ext_len_spec (blen (spec_body m))) as HX.
  rewrite spec_tcp_eq, blen_app, spec_tcp_hdr_len. unfold spec_tcp_hdr.
  destruct (spec_len_field (blen (spec_body m))) as [ln ext]. cbn [fst snd] in *.
  unfold tcp_decode_header. rewrite <- !app_assoc. cbn [app].
  rewrite blen_cons. set (rest := ext ++ m_code m :: m_tok m ++ spec_body m). pose proof (blen_nonneg rest).
  ff (1 + blen rest =? 0). rewrite idx_0, sl_from_1. cbn [bind]. cbv zeta.
  rewrite land240 by lia. rewrite land15 by lia.
  replace ((ln * 16 + blen (m_tok m)) / 16) with ln by lia.
  replace ((ln * 16 + blen (m_tok m)) mod 16) with (blen (m_tok m)) by lia.
  unfold MaxTokenSize. ff (blen (m_tok m) >? 8). subst rest.
  rewrite HX by lia. cbn [bind]. cbv iota beta.
  rewrite blen_cons. pose proof (blen_nonneg (m_tok m ++ spec_body m)). ff (1 + blen (m_tok m ++ spec_body m) <? 1).
  rewrite idx_0, sl_from_1. cbn [bind].
  rewrite blen_app. ff (blen (m_tok m) + blen (spec_body m) <? blen (m_tok m)).
  assert (Htok : (if blen (m_tok m) >? 0 then sl_to (m_tok m ++ spec_body m) (blen (m_tok m)) else Ok []) = Ok (m_tok m)).
  { destruct (blen (m_tok m) >? 0) eqn:E; [apply sl_to_app|]. rewrite Z.gtb_ltb in E. apply Z.ltb_ge in E.
    rewrite (blen0_nil (m_tok m)) by lia. reflexivity. }
  rewrite Htok. cbn [bind]. unfold u32, W32, messageMaxLen in *.
  f_equal. f_equal; repeat rewrite Z.mod_small by lia; lia.
Qed.

Theorem tcp_decode_spec m cap : wf_tcp messageMaxLen m = true -> blen (m_opts m) <= cap ->
  tcp_decode cap (spec_tcp_bytes m) = Ok (tcp_view m, blen (spec_tcp_bytes m)).
Proof.
  intros Hwf Hcap. pose proof (wf_tcp_facts_of m Hwf) as F. destruct F as [Ft Fc Fo Fl].
  pose proof (blen_nonneg (m_tok m)) as Htk. pose proof (blen_nonneg (spec_body m)) as Hb. pose proof (blen_nonneg (m_opts m)) as Hon.
  pose proof (spec_len_field_facts (blen (spec_body m)) ltac:(lia)) as [Hn He].
  unfold tcp_decode. rewrite (tcp_header_spec m Hwf). cbn [bind h_mlen h_len].
  pose proof (spec_tcp_hdr_len m) as HL.
  assert (Htot : blen (spec_tcp_bytes m) = blen (spec_tcp_hdr m) + blen (spec_body m)) by (rewrite spec_tcp_eq; apply blen_app).
  unfold u32, W32, messageMaxLen in *. rewrite (Z.mod_small (blen (spec_tcp_bytes m))) by lia.
  ff (blen (spec_tcp_bytes m) <? blen (spec_tcp_bytes m)).
  rewrite sl_to_all. cbn [bind]. rewrite spec_tcp_eq at 1. rewrite sl_from_app. cbn [bind].
  unfold tcp_decode_with_header. cbn [h_code h_len h_tok].
  unfold spec_body at 1 2.
  rewrite (unmarshal_body (defs_for_code (m_code m)) (rfc_registry_for_code (m_code m))) by (try apply tcp_keep; assumption || lia).
  cbn [bind]. cbv iota beta. unfold spec_body. rewrite sl_from_payload. cbn [bind].
  unfold tcp_view. f_equal. f_equal.
  pose proof (blen_nonneg (spec_options 0 (m_opts m))). pose proof (blen_nonneg (m_pay m)).
  rewrite spec_body_len, spec_payload_len in *.
  assert (Hrl : rest_len (spec_payload (m_pay m)) + blen (m_pay m) = if blen (m_pay m) >? 0 then blen (m_pay m) + 1 else blen (m_pay m)).
  { destruct (m_pay m) as [|x p]; [reflexivity|]. cbn [spec_payload rest_len]. rewrite blen_cons. pose proof (blen_nonneg p). tt (1 + blen p >? 0). lia. }
  unfold u32, W32. repeat rewrite Z.mod_small by lia. lia.
Qed.

(* ---------- refusals ---------- *)
Theorem udp_refuses m buf : blen (m_tok m) > 8 \/ m_mid m < 0 \/ m_mid m > 65535 \/ m_typ m < 0 \/ m_typ m > 255 ->
  exists e, udp_encode_into m buf = EErr e.
Proof.
  intros H. unfold udp_encode_into, validate_mid, validate_type.
  destruct ((0 <=? m_mid m) && (m_mid m <=? 65535)) eqn:E1; cbn [negb]; [|eexists; reflexivity].
  destruct ((0 <=? m_typ m) && (m_typ m <=? 255)) eqn:E2; cbn [negb]; [|eexists; reflexivity].
  apply andb_true_iff in E1, E2. destruct E1 as [A1 A2]. destruct E2 as [B1 B2]. apply Z.leb_le in A1, A2, B1, B2.
  unfold udp_size, MaxTokenSize. tt (blen (m_tok m) >? 8). eexists. reflexivity.
Qed.

Theorem tcp_refuses m buf : blen (m_tok m) > 8 -> tcp_encode_into m buf = EErr ETokenLen.
Proof. intros H. unfold tcp_encode_into, MaxTokenSize. tt (blen (m_tok m) >? 8). reflexivity. Qed.

(* F9: types 4..255 are accepted and the type field is truncated *)
Definition f9_witness : msg := {| m_tok := [1]; m_code := 69; m_opts := []; m_pay := [1; 2; 3]; m_mid := 7; m_typ := 5 |}.
Theorem type_truncation_refuted :
  exists m bs m' n, 4 <= m_typ m <= 255 /\
    udp_encode_into m (repeat 0 (Z.to_nat 9)) = EOk 9 bs /\ udp_decode 0 bs = Ok (m', n) /\ m_typ m' <> m_typ m.
Proof.
  exists f9_witness. eexists. eexists. eexists. split; [cbn; lia|]. split; [vm_compute; reflexivity|].
  split; [vm_compute; reflexivity|]. cbn. lia.
Qed.

(* ---------- exact capacity behaviour of Decode on an encoding (used by the pooled path) ---------- *)
Lemma unmarshal_body_cases d r os pay cap : (forall id len, 0 <= len < W32 -> option_keep d id len = legal_len r id len) ->
  opts_wf r 0 os = true -> 0 <= cap ->
  let body := spec_options 0 os ++ spec_payload pay in
  unmarshal_opts (S (length body)) d body 0 0 0 cap [] =
    if blen os <=? cap then Ok (blen (spec_options 0 os) + rest_len (spec_payload pay), os) else Err EOptCap.
Proof.
  intros Hk Hwf Hc body. subst body.
  rewrite (unmarshal_spec_options d os) by
    (try (apply (opts_wf_dec_ok d r); [exact Hk|lia|exact Hwf]); try apply spec_payload_rest_ok; try lia;
     pose proof (spec_options_long os 0) as HL; unfold blen in HL; rewrite app_length; lia).
  rewrite Z.add_0_l. reflexivity.
Qed.

Theorem udp_decode_cases m cap : wf_udp m = true -> 0 <= cap ->
  udp_decode cap (spec_udp_bytes m) =
    if blen (m_opts m) <=? cap then Ok (m, blen (spec_udp_bytes m)) else Err EOptCap.
Proof.
  intros Hwf Hcap. destruct (blen (m_opts m) <=? cap) eqn:E.
  - apply Z.leb_le in E. apply udp_decode_spec; assumption.
  - apply Z.leb_gt in E. pose proof (wf_udp_facts_of m Hwf) as F. destruct F as [Ft Fc Fo Fy Fm].
    pose proof (blen_nonneg (m_tok m)) as Htk.
    unfold udp_decode. rewrite spec_udp_len.
    pose proof (blen_nonneg (spec_options 0 (m_opts m))). pose proof (blen_nonneg (spec_payload (m_pay m))).
    ff (4 + blen (m_tok m) + (blen (spec_options 0 (m_opts m)) + blen (spec_payload (m_pay m))) <? 4).
    unfold spec_udp_bytes. cbn [app]. rewrite idx_0. cbn [bind].
    replace ((64 + m_typ m * 16 + blen (m_tok m)) / 64) with 1 by lia. change (1 =? 1) with true. cbn [negb].
    rewrite land3 by lia. rewrite land15 by lia.
    replace ((64 + m_typ m * 16 + blen (m_tok m)) mod 16) with (blen (m_tok m)) by lia.
    ff (blen (m_tok m) >? 8). rewrite idx_1. cbn [bind].
    set (rest := m_tok m ++ spec_body m).
    rewrite (sl_to_app [64 + m_typ m * 16 + blen (m_tok m); m_code m; m_mid m / 256; m_mid m mod 256] rest
             : sl_to (_ :: _ :: _ :: _ :: rest) 4 = Ok _).
    cbn [bind]. rewrite sl_from_2. cbn [bind]. rewrite idx_0, idx_1. cbn [bind].
    rewrite sl_from_4. cbn [bind]. subst rest.
    rewrite blen_app. pose proof (blen_nonneg (spec_body m)). ff (blen (m_tok m) + blen (spec_body m) <? blen (m_tok m)).
    rewrite sl_to_app, sl_from_app. cbn [bind]. unfold spec_body.
    rewrite (unmarshal_body_cases CoapOptionDefs rfc_coap_registry) by (try apply coap_keep; assumption || lia).
    ff (blen (m_opts m) <=? cap). reflexivity.
Qed.

Theorem tcp_decode_cases m cap : wf_tcp messageMaxLen m = true -> 0 <= cap ->
  tcp_decode cap (spec_tcp_bytes m) =
    if blen (m_opts m) <=? cap then Ok (tcp_view m, blen (spec_tcp_bytes m)) else Err EOptCap.
Proof.
  intros Hwf Hcap. destruct (blen (m_opts m) <=? cap) eqn:E.
  - apply Z.leb_le in E. apply tcp_decode_spec; assumption.
  - apply Z.leb_gt in E. pose proof (wf_tcp_facts_of m Hwf) as F. destruct F as [Ft Fc Fo Fl].
    pose proof (blen_nonneg (m_tok m)) as Htk. pose proof (blen_nonneg (spec_body m)) as Hb.
    pose proof (spec_len_field_facts (blen (spec_body m)) ltac:(lia)) as [Hn He].
    unfold tcp_decode. rewrite (tcp_header_spec m Hwf). cbn [bind h_mlen h_len].
    pose proof (spec_tcp_hdr_len m) as HL.
    assert (Htot : blen (spec_tcp_bytes m) = blen (spec_tcp_hdr m) + blen (spec_body m)) by (rewrite spec_tcp_eq; apply blen_app).
    unfold u32, W32, messageMaxLen in *. rewrite (Z.mod_small (blen (spec_tcp_bytes m))) by lia.
    ff (blen (spec_tcp_bytes m) <? blen (spec_tcp_bytes m)).
    rewrite sl_to_all. cbn [bind]. rewrite spec_tcp_eq at 1. rewrite sl_from_app. cbn [bind].
    unfold tcp_decode_with_header. cbn [h_code h_len h_tok]. unfold spec_body at 1 2.
    rewrite (unmarshal_body_cases (defs_for_code (m_code m)) (rfc_registry_for_code (m_code m))) by (try apply tcp_keep; assumption || lia).
    ff (blen (m_opts m) <=? cap). reflexivity.
Qed.

(* MarshalWithEncoder: the pooled encoder returns exactly the encoding *)
Theorem pool_marshal_udp m buflen : wf_udp m = true ->
  pool_marshal udp_size udp_encode_into buflen m = Ok (spec_udp_bytes m).
Proof.
  intros Hwf. unfold pool_marshal. rewrite (udp_size_spec m Hwf). cbn [bind].
  pose proof (blen_nonneg (spec_udp_bytes m)) as Hn.
  rewrite udp_encode_spec; [|exact Hwf|unfold blen at 2; rewrite repeat_length; lia].
  unfold overwrite. apply sl_to_app.
Qed.
Theorem pool_marshal_tcp m buflen : wf_tcp messageMaxLen m = true ->
  pool_marshal tcp_size tcp_encode_into buflen m = Ok (spec_tcp_bytes m).
Proof.
  intros Hwf. unfold pool_marshal. rewrite (tcp_size_spec m Hwf). cbn [bind].
  pose proof (blen_nonneg (spec_tcp_bytes m)) as Hn.
  rewrite (tcp_encode_cases m _ Hwf).
  set (buf := repeat 0 (Z.to_nat (Z.max buflen (blen (spec_tcp_bytes m))))).
  assert (Hb : blen (spec_tcp_bytes m) <= blen buf) by (subst buf; unfold blen at 2; rewrite repeat_length; lia).
  ff (blen buf <? blen (spec_tcp_bytes m)).
  unfold overwrite. apply sl_to_app.
Qed.
