(* The behaviour BEFORE the repairs F7, F16, F17, F8 (as the code was on the pinned tree),
   kept only as regression witnesses: each differs from the reference on a concrete input.
   tcp DecodeHeader without the TKL check and without the limit on the 4-byte extended
   length; tcp Decode handing everything after the header to DecodeWithHeader; the retry
   loop allocating 2*len(Options) (= 2*cap at the point of failure). *)
From Coq Require Import ZArith List Bool.
From GoCoap Require Import Base.Bytes Gen.OptionDefs Gen.TcpConsts Codec.Options Codec.Udp Codec.Tcp Codec.Pool.
Import ListNotations.
Open Scope Z_scope.

Definition tcp_ext_len_pre (lenNib : Z) (data : list Z) (hdrOff : Z) : res (Z * list Z * Z) :=
  if lenNib <? MessageLength13Base then Ok (lenNib, data, hdrOff)
  else if lenNib =? 13 then
    if blen data <? 1 then Err EShortRead
    else do e <- idx data 0; do data <- sl_from data 1; Ok (MessageLength13Base + e, data, hdrOff + 1)
  else if lenNib =? 14 then
    if blen data <? 2 then Err EShortRead
    else do e1 <- idx data 1; do e0 <- idx data 0; do data <- sl_from data 2;
         Ok (MessageLength14Base + (e0 * 256 + e1), data, hdrOff + 2)
  else
    if blen data <? 4 then Err EShortRead
    else do e3 <- idx data 3; do e0 <- idx data 0; do e1 <- idx data 1; do e2 <- idx data 2;
         do data <- sl_from data 4;
         Ok (MessageLength15Base + (((e0 * 256 + e1) * 256 + e2) * 256 + e3), data, hdrOff + 4).

Definition tcp_decode_header_pre (data : list Z) : res hdr :=
  if blen data =? 0 then Err EShortRead
  else
    do b0 <- idx data 0;
    do data <- sl_from data 1;
    let lenNib := (Z.land b0 240) / 16 in
    let tkl := Z.land b0 15 in
    do (opLen, data, hdrOff) <- tcp_ext_len_pre lenNib data 1;
    let mlen := u32 (u32 (u32 (hdrOff + 1) + tkl) + u32 opLen) in
    if blen data <? 1 then Err EShortRead
    else
      do code <- idx data 0;
      do data <- sl_from data 1;
      let hdrOff := u32 (hdrOff + 1) in
      if blen data <? tkl then Err EShortRead
      else
        do tok <- (if tkl >? 0 then sl_to data tkl else Ok []);
        Ok {| h_len := u32 (hdrOff + tkl); h_mlen := mlen; h_code := code; h_tok := tok |}.

Definition tcp_decode_pre (cap : Z) (data : list Z) : res (msg * Z) :=
  do h <- tcp_decode_header_pre data;
  if u32 (blen data) <? h_mlen h then Err EShortRead
  else do d <- sl_from data (h_len h); tcp_decode_with_header cap d h.

Fixpoint pool_decode_pre (fuel : nat) (dec : Z -> list Z -> res (msg * Z)) (cap : Z) (own : list Z) : res (msg * Z * Z) :=
  match fuel with
  | O => Fuel
  | S f =>
    match dec cap own with
    | Err EOptCap => pool_decode_pre f dec (cap * 2) own
    | Ok (m, n) => Ok (m, n, cap)
    | Err e => Err e
    | Panic => Panic
    | Fuel => Fuel
    end
  end.
