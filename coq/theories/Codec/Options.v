(* Model of message/option.go and message/options.go (wire form of the option
   list): extendOpt, marshalOptionHeaderExt, marshalOptionHeader,
   Option.MarshalValue, Option.Marshal, Options.Marshal (two-pass: the same
   code computes the size with a nil buffer and writes with a real one),
   parseExtOpt, Option.Unmarshal (per-option definition table) and
   Options.Unmarshal (capacity check included).

   Transcribed from the Go code as it is.  Bytes are Z in 0..255.  Slicing of
   untrusted data goes through [sl_from]/[sl_to]/[idx], which answer [Panic]
   where Go would raise a slice-bounds / index panic.  Constants come from
   Gen.OptionDefs (regenerated from the source on every run).  No proofs here. *)
From Coq Require Import ZArith List Bool.
From GoCoap Require Import Base.Bytes Gen.OptionDefs.
Import ListNotations.
Open Scope Z_scope.

(* error classes (errors.Is targets of the Go code) *)
Inductive err :=
| ETooSmall          (* message.ErrTooSmall *)
| ETokenLen          (* message.ErrInvalidTokenLen *)
| EShortRead         (* message.ErrShortRead *)
| EOptTrunc          (* message.ErrOptionTruncated *)
| EOptMarker         (* message.ErrOptionUnexpectedExtendMarker *)
| EOptCap            (* message.ErrOptionsTooSmall *)
| EOptNum            (* message.ErrOptionNotFound wrapping the SafeCastTo error *)
| EInvalidEncoding   (* message.ErrInvalidEncoding *)
| ETrunc             (* udp/coder.ErrMessageTruncated *)
| EVersion           (* udp/coder.ErrMessageInvalidVersion *)
| EMid               (* fmt.Errorf("invalid MessageID") *)
| EType.             (* fmt.Errorf("invalid Type") *)

Definition err_eqb (a b : err) : bool :=
  match a, b with
  | ETooSmall, ETooSmall | ETokenLen, ETokenLen | EShortRead, EShortRead | EOptTrunc, EOptTrunc
  | EOptMarker, EOptMarker | EOptCap, EOptCap | EOptNum, EOptNum | EInvalidEncoding, EInvalidEncoding
  | ETrunc, ETrunc | EVersion, EVersion | EMid, EMid | EType, EType => true
  | _, _ => false
  end.

(* result of a function that handles untrusted bytes: value, error return,
   run-time panic (slice bounds), or the model's recursion fuel ran out *)
Inductive res (A : Type) := Ok (a : A) | Err (e : err) | Panic | Fuel.
Arguments Ok {A} a. Arguments Err {A} e. Arguments Panic {A}. Arguments Fuel {A}.

Definition bind {A B} (r : res A) (f : A -> res B) : res B :=
  match r with Ok a => f a | Err e => Err e | Panic => Panic | Fuel => Fuel end.
Notation "'do' x <- a ; b" := (bind a (fun x => b)) (at level 200, x pattern, a at level 100, b at level 200, right associativity).

Definition W32 : Z := 4294967296.
Definition u32 (x : Z) : Z := x mod W32.

(* data[a:] , data[:b] , data[i] *)
Definition sl_from (d : list Z) (a : Z) : res (list Z) :=
  if (0 <=? a) && (a <=? blen d) then Ok (skipn (Z.to_nat a) d) else Panic.
Definition sl_to (d : list Z) (b : Z) : res (list Z) :=
  if (0 <=? b) && (b <=? blen d) then Ok (firstn (Z.to_nat b) d) else Panic.
Definition idx (d : list Z) (i : Z) : res Z :=
  if (0 <=? i) && (i <? blen d) then Ok (nth (Z.to_nat i) d 0) else Panic.

(* an option: (ID, Value) *)
Definition opt := (Z * list Z)%type.

(* ------------------------------------------------------------------ *)
(* encoding                                                            *)

(* func extendOpt(opt int) (int, int) *)
Definition extend_opt (v : Z) : Z * Z :=
  if v >=? ExtendOptionByteAddend then
    if v >=? ExtendOptionWordAddend then (ExtendOptionWordCode, v - ExtendOptionWordAddend)
    else (ExtendOptionByteCode, v - ExtendOptionByteAddend)
  else (v, 0).

(* A destination buffer is described by what the code can see of it:
   None = nil slice, Some n = non-nil slice of length n.  Every marshal
   function returns (length, ErrTooSmall?, bytes it wrote). *)
Definition dst := option Z.
Definition avail (d : dst) : Z := match d with Some n => n | None => 0 end.
(* buf[n:] of a non-nil buffer; callers pass nil explicitly when buf == nil *)
Definition adv (d : dst) (n : Z) : dst := match d with Some a => Some (a - n) | None => None end.
Definition mres := (Z * bool * list Z)%type.

(* func marshalOptionHeaderExt(buf []byte, opt, ext int) (int, error) *)
Definition hdr_ext_into (d : dst) (nib ext : Z) : mres :=
  if nib =? ExtendOptionByteCode then
    if avail d >? 0 then (1, false, [ext mod 256]) else (1, true, [])
  else if nib =? ExtendOptionWordCode then
    if avail d >? 1 then (2, false, [(ext mod 65536) / 256; ext mod 256]) else (2, true, [])
  else (0, false, []).

(* func marshalOptionHeader(buf []byte, delta, length int) (int, error) *)
Definition option_header_into (b : dst) (delta length : Z) : mres :=
  let '(d, dx) := extend_opt delta in
  let '(l, lx) := extend_opt length in
  (* buf[0] = byte(d<<4) | byte(l) *)
  let b0 := Z.lor ((d * 16) mod 256) (l mod 256) in
  let '(b, out0) := if avail b >? 0 then (b, [b0]) else (None, []) in
  let size := 1 in
  let '(n1, small1, out1) := hdr_ext_into (adv b size) d dx in
  let b := if small1 then None else b in
  let size := size + n1 in
  let '(n2, small2, out2) := hdr_ext_into (adv b size) l lx in
  let b := if small2 then None else b in
  let size := size + n2 in
  match b with
  | None => (size, true, out0 ++ out1 ++ out2)
  | Some _ => (size, false, out0 ++ out1 ++ out2)
  end.

(* func (o Option) MarshalValue(buf []byte) (int, error) *)
Definition value_into (b : dst) (v : list Z) : mres :=
  if avail b <? blen v then (blen v, true, []) else (blen v, false, v).

(* func (o Option) Marshal(buf []byte, previousID OptionID) (int, error) *)
Definition option_into (b : dst) (prev : Z) (o : opt) : mres :=
  let delta := fst o - prev in
  let '(lenBuf, _, _) := value_into None (snd o) in
  let '(n0, small0, out0) := option_header_into b delta lenBuf in
  let b := if small0 then None else b in
  let length := n0 in
  let '(n1, small1, out1) := value_into (adv b length) (snd o) in
  let b := if small1 then None else b in
  let length := length + n1 in
  match b with
  | None => (length, true, out0 ++ out1)
  | Some _ => (length, false, out0 ++ out1)
  end.

(* func (options Options) Marshal(buf []byte) (int, error) -- the loop *)
Fixpoint options_into_loop (b : dst) (prev length : Z) (os : list opt) : mres :=
  match os with
  | [] => match b with None => (length, true, []) | Some _ => (length, false, []) end
  | o :: r =>
    let b := if length >? avail b then None else b in
    let '(n, small, out) := option_into (adv b length) prev o in
    let b := if small then None else b in
    let '(total, small', out') := options_into_loop b (fst o) (length + n) r in
    (total, small', out ++ out')
  end.
Definition options_into (b : dst) (os : list opt) : mres := options_into_loop b 0 0 os.

(* ------------------------------------------------------------------ *)
(* decoding                                                            *)

(* func parseExtOpt(data []byte, opt int) (processed int, value int, err error) *)
Definition parse_ext (data : list Z) (v : Z) : res (Z * Z) :=
  if v =? ExtendOptionByteCode then
    if blen data <? 1 then Err EOptTrunc
    else do b <- idx data 0; Ok (1, b + ExtendOptionByteAddend)
  else if v =? ExtendOptionWordCode then
    if blen data <? 2 then Err EOptTrunc
    else do s <- sl_to data 2; do a <- idx s 0; do b <- idx s 1;
         Ok (2, a * 256 + b + ExtendOptionWordAddend)
  else Ok (0, v).

Fixpoint lookup_def (defs : optdefs) (id : Z) : option (Z * Z * Z) :=
  match defs with
  | [] => None
  | (k, d) :: r => if id =? k then Some d else lookup_def r id
  end.

(* func (o *Option) Unmarshal(data, optionDefs, optionID): does the option keep
   its ID (true) or is it skipped, leaving ID 0 (false); always consumes len(data) *)
Definition option_keep (defs : optdefs) (id len : Z) : bool :=
  match lookup_def defs id with
  | Some (mn, mx, fmt) =>
      if fmt =? ValueUnknown then false
      else negb ((u32 len <? mn) || (u32 len >? mx))
  | None => true
  end.

(* func (options *Options) Unmarshal(data []byte, optionDefs) (int, error)
   len/cap: length and capacity of *options; acc: the options appended so far.
   One iteration of the Go loop per unit of fuel. *)
Fixpoint unmarshal_opts (fuel : nat) (defs : optdefs) (data : list Z) (prev processed : Z)
         (len cap : Z) (acc : list opt) : res (Z * list opt) :=
  match fuel with
  | O => Fuel
  | S f =>
    if blen data >? 0 then
      do b0 <- idx data 0;
      if b0 =? 255 then Ok (processed + 1, acc)
      else
        let delta := b0 / 16 in          (* data[0] >> 4 *)
        let length := Z.land b0 15 in    (* data[0] & 0x0f *)
        if (delta =? ExtendOptionError) || (length =? ExtendOptionError) then Err EOptMarker
        else
          do data <- sl_from data 1;
          let processed := processed + 1 in
          do (proc, delta) <- parse_ext data delta;
          let processed := processed + proc in
          do data <- sl_from data proc;
          do (proc, length) <- parse_ext data length;
          let processed := processed + proc in
          do data <- sl_from data proc;
          if blen data <? length then Err EOptTrunc
          else
            let oid := prev + delta in
            (* math.SafeCastTo[OptionID]: uint16 *)
            if (oid >? 65535) || (oid <? 0) then Err EOptNum
            else
              do v <- sl_to data length;
              let keep := option_keep defs oid (blen v) in
              let proc := blen v in
              if cap =? len then Err EOptCap
              else
                let app := keep && negb (oid =? 0) in
                let acc := if app then acc ++ [(oid, v)] else acc in
                let len := if app then len + 1 else len in
                let processed := processed + proc in
                do data <- sl_from data proc;
                unmarshal_opts f defs data oid processed len cap acc
    else Ok (processed, acc)
  end.
