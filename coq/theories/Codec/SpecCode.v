(* Specification side of C01, addition: "every code byte" for datagram framing.
   Written from the property text and RFC 7252 only (figure 7: the Code field is
   the second byte of the fixed header; section 5.10 / 12.2: ONE option-number
   registry for the protocol).  RFC 8323 section 5 gives the signalling codes
   7.01-7.05 their own option number space, but only inside stream framing: a
   datagram whose code byte happens to be 225..229 is an ordinary RFC 7252
   message and its options are the CoAP options (ETag = 4 with 1-8 bytes, number
   2 unregistered).  Hence the datagram preconditions ([wf_udp], Codec/Spec.v)
   do not mention the code beyond its range, and changing nothing but the code
   of a well-formed datagram message changes nothing but that byte of the
   encoding and nothing but the code of what Decode returns.
   Nothing here refers to the Go code or to the model. *)
From Coq Require Import ZArith List Bool.
From GoCoap Require Import Base.Bytes Codec.Options Codec.Udp Codec.Spec.
Import ListNotations.
Open Scope Z_scope.

(* m with another code *)
Definition with_code (m : msg) (c : Z) : msg :=
  {| m_tok := m_tok m; m_code := c; m_opts := m_opts m; m_pay := m_pay m; m_mid := m_mid m; m_typ := m_typ m |}.

(* a datagram with its Code field (offset 1) replaced *)
Definition put_code (bs : list Z) (c : Z) : list Z :=
  match bs with
  | b0 :: _ :: r => b0 :: c :: r
  | _ => bs
  end.

Definition code_ok (c : Z) : bool := (0 <=? c) && (c <=? 255).
