(* Regression witnesses: the pre-repair behaviour (Codec/ModelPre.v) contradicts the
   reference / the property on concrete inputs -- the inputs bin/check reported. *)
From Coq Require Import ZArith List Bool Lia.
From GoCoap Require Import Base.Bytes Gen.OptionDefs Gen.TcpConsts Codec.Options Codec.Udp Codec.Tcp Codec.Pool Codec.Spec Codec.ModelPre.
Import ListNotations.
Open Scope Z_scope.

(* F7: token length 9 accepted by the header pre-parse; RFC 8323: format error *)
Theorem F7_refuted : exists bs h, tcp_decode_header_pre bs = Ok h /\ ref_tcp_header messageMaxLen bs = RInvalid.
Proof. exists [9; 1; 1; 2; 3; 4; 5; 6; 7; 8; 9]. eexists. split; vm_compute; reflexivity. Qed.

(* F16: Len=15 with extended length ff ff ff ff: the uint32 sum wraps to 65810 *)
Theorem F16_refuted : exists bs h, tcp_decode_header_pre bs = Ok h /\ h_mlen h = 65810 /\
  ref_tcp_header messageMaxLen bs = RInvalid /\ ref_tcp_header (2 ^ 40) bs = RHdr 6 4295033106 1 [].
Proof. exists [240; 255; 255; 255; 255; 1; 0]. eexists. repeat split; vm_compute; reflexivity. Qed.

(* F17: bytes after the declared frame become part of the message *)
Theorem F17_refuted : exists bs m n m', tcp_decode_pre 8 bs = Ok (m, n) /\ ref_tcp messageMaxLen bs = Some (m', 3) /\
  m_pay m = [65; 66] /\ m_pay m' = [].
Proof. exists [16; 1; 255; 65; 66]. eexists. eexists. eexists. repeat split; vm_compute; reflexivity. Qed.

(* F8: with capacity 0 the old retry never makes progress: out of fuel for EVERY fuel *)
Theorem F8_refuted : forall fuel, pool_decode_pre fuel udp_decode 0 [64; 1; 0; 1; 16] = Fuel.
Proof.
  induction fuel as [|f IH]; [reflexivity|].
  cbn [pool_decode_pre]. replace (udp_decode 0 [64; 1; 0; 1; 16]) with (@Err (msg * Z) EOptCap) by (vm_compute; reflexivity).
  exact IH.
Qed.
