(* Option-level lemmas: the delta/length nibble + extension encoding and its
   inverse for the three classes, the two passes of Options.Marshal agree with
   the RFC encoding (Spec.spec_options), and Options.Unmarshal inverts it. *)
From Coq Require Import ZArith List Bool Lia.
From GoCoap Require Import Base.Bytes Gen.OptionDefs Codec.Options Codec.Udp Codec.Spec.
Import ListNotations.
Open Scope Z_scope.
Ltac Zify.zify_post_hook ::= Z.div_mod_to_equations.

(* ---------- boolean comparisons decided by lia ---------- *)
Lemma gtb_false a b : a <= b -> (a >? b) = false.
Proof. intros. rewrite Z.gtb_ltb. apply Z.ltb_ge. lia. Qed.
Lemma gtb_true a b : b < a -> (a >? b) = true.
Proof. intros. apply Z.gtb_lt. lia. Qed.
Lemma geb_false a b : a < b -> (a >=? b) = false.
Proof. intros. rewrite Z.geb_leb. apply Z.leb_gt. lia. Qed.
Lemma geb_true a b : b <= a -> (a >=? b) = true.
Proof. intros. apply Z.geb_le. lia. Qed.
Ltac tt c := match c with
  | (?a <? ?b) => replace c with true by (symmetry; apply Z.ltb_lt; lia)
  | (?a <=? ?b) => replace c with true by (symmetry; apply Z.leb_le; lia)
  | (?a >? ?b) => replace c with true by (symmetry; apply gtb_true; lia)
  | (?a >=? ?b) => replace c with true by (symmetry; apply geb_true; lia)
  | (?a =? ?b) => replace c with true by (symmetry; apply Z.eqb_eq; lia)
  end.
Ltac ff c := match c with
  | (?a <? ?b) => replace c with false by (symmetry; apply Z.ltb_ge; lia)
  | (?a <=? ?b) => replace c with false by (symmetry; apply Z.leb_gt; lia)
  | (?a >? ?b) => replace c with false by (symmetry; apply gtb_false; lia)
  | (?a >=? ?b) => replace c with false by (symmetry; apply geb_false; lia)
  | (?a =? ?b) => replace c with false by (symmetry; apply Z.eqb_neq; lia)
  end.

(* ---------- lists and slices ---------- *)
Lemma blen_app {A} (a b : list A) : blen (a ++ b) = blen a + blen b.
Proof. unfold blen. rewrite app_length. lia. Qed.
Lemma blen_nonneg {A} (a : list A) : 0 <= blen a.
Proof. unfold blen. lia. Qed.
Lemma blen_cons {A} (x : A) l : blen (x :: l) = 1 + blen l.
Proof. unfold blen. cbn [length]. lia. Qed.
Lemma blen_nil {A} : blen (@nil A) = 0.
Proof. reflexivity. Qed.
Lemma to_nat_blen {A} (a : list A) : Z.to_nat (blen a) = length a.
Proof. unfold blen. apply Nat2Z.id. Qed.

Lemma sl_from_app a b : sl_from (a ++ b) (blen a) = Ok b.
Proof.
  unfold sl_from. rewrite blen_app.
  pose proof (blen_nonneg a) as Ha. pose proof (blen_nonneg b) as Hb.
  replace (0 <=? blen a) with true by (symmetry; apply Z.leb_le; lia).
  replace (blen a <=? blen a + blen b) with true by (symmetry; apply Z.leb_le; lia).
  cbn [andb]. rewrite to_nat_blen, skipn_app, skipn_all, Nat.sub_diag. reflexivity.
Qed.
Lemma sl_to_app a b : sl_to (a ++ b) (blen a) = Ok a.
Proof.
  unfold sl_to. rewrite blen_app.
  pose proof (blen_nonneg a) as Ha. pose proof (blen_nonneg b) as Hb.
  replace (0 <=? blen a) with true by (symmetry; apply Z.leb_le; lia).
  replace (blen a <=? blen a + blen b) with true by (symmetry; apply Z.leb_le; lia).
  cbn [andb]. rewrite to_nat_blen, firstn_app, firstn_all, Nat.sub_diag. cbn [firstn]. rewrite app_nil_r. reflexivity.
Qed.
Lemma sl_from_0 a : sl_from a 0 = Ok a.
Proof. apply (sl_from_app [] a). Qed.
Lemma sl_to_all a : sl_to a (blen a) = Ok a.
Proof. pose proof (sl_to_app a []) as H. rewrite app_nil_r in H. exact H. Qed.
Lemma sl_from_all a : sl_from a (blen a) = Ok [].
Proof. pose proof (sl_from_app a []) as H. rewrite app_nil_r in H. exact H. Qed.
Lemma idx_0 x l : idx (x :: l) 0 = Ok x.
Proof. unfold idx. rewrite blen_cons. pose proof (blen_nonneg l). replace (0 <? 1 + blen l) with true by (symmetry; apply Z.ltb_lt; lia). reflexivity. Qed.
Lemma idx_1 x y l : idx (x :: y :: l) 1 = Ok y.
Proof. unfold idx. rewrite !blen_cons. pose proof (blen_nonneg l). replace (1 <? 1 + (1 + blen l)) with true by (symmetry; apply Z.ltb_lt; lia). reflexivity. Qed.
Lemma idx_2 x y z l : idx (x :: y :: z :: l) 2 = Ok z.
Proof. unfold idx. rewrite !blen_cons. pose proof (blen_nonneg l). replace (2 <? 1 + (1 + (1 + blen l))) with true by (symmetry; apply Z.ltb_lt; lia). reflexivity. Qed.
Lemma idx_3 x y z w l : idx (x :: y :: z :: w :: l) 3 = Ok w.
Proof. unfold idx. rewrite !blen_cons. pose proof (blen_nonneg l). replace (3 <? 1 + (1 + (1 + (1 + blen l)))) with true by (symmetry; apply Z.ltb_lt; lia). reflexivity. Qed.
Lemma sl_from_1 x l : sl_from (x :: l) 1 = Ok l.
Proof. apply (sl_from_app [x] l). Qed.
Lemma sl_from_2 x y l : sl_from (x :: y :: l) 2 = Ok l.
Proof. apply (sl_from_app [x; y] l). Qed.
Lemma sl_from_4 x y z w l : sl_from (x :: y :: z :: w :: l) 4 = Ok l.
Proof. apply (sl_from_app [x; y; z; w] l). Qed.
Lemma sl_to_2 x y l : sl_to (x :: y :: l) 2 = Ok [x; y].
Proof. apply (sl_to_app [x; y] l). Qed.

(* ---------- finite enumeration helper ---------- *)
Definition zrange (lo : Z) (n : nat) : list Z := map (fun i => lo + Z.of_nat i) (seq 0 n).
Lemma in_zrange lo n x : lo <= x < lo + Z.of_nat n -> In x (zrange lo n).
Proof.
  intros H. unfold zrange. apply in_map_iff. exists (Z.to_nat (x - lo)). split; [lia|].
  apply in_seq. lia.
Qed.
Lemma forall_range (P : Z -> bool) lo n :
  forallb P (zrange lo n) = true -> forall x, lo <= x < lo + Z.of_nat n -> P x = true.
Proof. intros H x Hx. rewrite forallb_forall in H. apply H. apply in_zrange. exact Hx. Qed.

(* first byte of an option: byte(d<<4) | byte(l) for nibbles d, l <= 14 *)
Lemma nibble_byte d l : 0 <= d <= 14 -> 0 <= l <= 14 ->
  Z.lor ((d * 16) mod 256) (l mod 256) = d * 16 + l.
Proof.
  intros Hd Hl.
  assert (H : forallb (fun d => forallb (fun l => Z.lor ((d * 16) mod 256) (l mod 256) =? d * 16 + l) (zrange 0 15)) (zrange 0 15) = true) by (vm_compute; reflexivity).
  pose proof (forall_range _ _ _ H d ltac:(lia)) as H1. cbv beta in H1.
  pose proof (forall_range _ _ _ H1 l ltac:(lia)) as H2. cbv beta in H2.
  apply Z.eqb_eq. exact H2.
Qed.

Lemma land15 b : 0 <= b -> Z.land b 15 = b mod 16.
Proof. intros. change 15 with (Z.ones 4). rewrite Z.land_ones by lia. reflexivity. Qed.
Lemma land3 b : 0 <= b -> Z.land b 3 = b mod 4.
Proof. intros. change 3 with (Z.ones 2). rewrite Z.land_ones by lia. reflexivity. Qed.

(* ---------- the nibble classes ---------- *)
Definition nib_ok (v : Z) : Prop := 0 <= v <= 65804.

Lemma spec_nib_range v : nib_ok v -> 0 <= fst (spec_nib v) <= 14.
Proof.
  unfold nib_ok, spec_nib. intros H.
  destruct (v <? 13) eqn:E1; [apply Z.ltb_lt in E1; cbn [fst]; lia|].
  destruct (v <? 269) eqn:E2; cbn [fst]; lia.
Qed.

Lemma spec_nib_len v : 0 <= blen (snd (spec_nib v)) <= 2.
Proof. unfold spec_nib. destruct (v <? 13); [|destruct (v <? 269)]; unfold blen; cbn [snd length]; lia. Qed.

(* extendOpt + marshalOptionHeaderExt produce the RFC nibble and extension bytes *)
Lemma extend_opt_spec v : nib_ok v ->
  fst (extend_opt v) = fst (spec_nib v) /\
  forall d, hdr_ext_into d (fst (extend_opt v)) (snd (extend_opt v)) =
            if blen (snd (spec_nib v)) =? 0 then (0, false, [])
            else if avail d >=? blen (snd (spec_nib v)) then (blen (snd (spec_nib v)), false, snd (spec_nib v))
            else (blen (snd (spec_nib v)), true, []).
Proof.
  unfold nib_ok. intros Hv. unfold extend_opt, spec_nib, hdr_ext_into,
    ExtendOptionByteAddend, ExtendOptionWordAddend, ExtendOptionByteCode, ExtendOptionWordCode.
  destruct (v <? 13) eqn:E1.
  - apply Z.ltb_lt in E1. ff (v >=? 13).
    cbn [fst snd]. split; [reflexivity|]. intros d.
    ff (v =? 13). ff (v =? 14). reflexivity.
  - apply Z.ltb_ge in E1. tt (v >=? 13).
    destruct (v <? 269) eqn:E2.
    + apply Z.ltb_lt in E2. ff (v >=? 269).
      cbn [fst snd]. split; [reflexivity|]. intros d. change (13 =? 13) with true. cbv iota.
      rewrite (Z.mod_small (v - 13) 256) by lia.
      change (blen [v - 13]) with 1. change (1 =? 0) with false. cbv iota.
      destruct (avail d >? 0) eqn:E3.
      * apply Z.gtb_lt in E3. tt (avail d >=? 1). reflexivity.
      * rewrite Z.gtb_ltb in E3. apply Z.ltb_ge in E3. ff (avail d >=? 1). reflexivity.
    + apply Z.ltb_ge in E2. tt (v >=? 269).
      cbn [fst snd]. split; [reflexivity|]. intros d. change (14 =? 13) with false. change (14 =? 14) with true. cbv iota.
      rewrite (Z.mod_small (v - 269) 65536) by lia.
      change (blen [(v - 269) / 256; (v - 269) mod 256]) with 2. change (2 =? 0) with false. cbv iota.
      destruct (avail d >? 1) eqn:E3.
      * apply Z.gtb_lt in E3. tt (avail d >=? 2). reflexivity.
      * rewrite Z.gtb_ltb in E3. apply Z.ltb_ge in E3. ff (avail d >=? 2). reflexivity.
Qed.

(* parseExtOpt inverts the extension for every class: 0-12, 13-268, 269-65804 *)
Lemma parse_ext_spec v tail : nib_ok v -> bytes_ok (snd (spec_nib v)) = true ->
  parse_ext (snd (spec_nib v) ++ tail) (fst (spec_nib v)) = Ok (blen (snd (spec_nib v)), v).
Proof.
  unfold nib_ok, spec_nib, parse_ext, ExtendOptionByteCode, ExtendOptionWordCode, ExtendOptionByteAddend, ExtendOptionWordAddend.
  intros Hv _.
  destruct (v <? 13) eqn:E1.
  - apply Z.ltb_lt in E1. cbn [fst snd app].
    replace (v =? 13) with false by (symmetry; apply Z.eqb_neq; lia).
    replace (v =? 14) with false by (symmetry; apply Z.eqb_neq; lia). reflexivity.
  - apply Z.ltb_ge in E1. destruct (v <? 269) eqn:E2.
    + cbn [fst snd app Z.eqb Pos.eqb]. rewrite blen_cons. pose proof (blen_nonneg tail).
      replace (1 + blen tail <? 1) with false by (symmetry; apply Z.ltb_ge; lia).
      rewrite idx_0. cbn [bind]. f_equal. f_equal. lia.
    + apply Z.ltb_ge in E2. cbn [fst snd app Z.eqb Pos.eqb]. rewrite !blen_cons. pose proof (blen_nonneg tail).
      replace (1 + (1 + blen tail) <? 2) with false by (symmetry; apply Z.ltb_ge; lia).
      rewrite sl_to_2. cbn [bind]. rewrite idx_0. cbn [bind]. rewrite idx_1. cbn [bind].
      f_equal. f_equal. lia.
Qed.

Lemma spec_nib_bytes_ok v : nib_ok v -> bytes_ok (snd (spec_nib v)) = true.
Proof.
  unfold nib_ok, spec_nib. intros Hv.
  destruct (v <? 13) eqn:E1; [reflexivity|]. apply Z.ltb_ge in E1.
  destruct (v <? 269) eqn:E2; cbn [snd bytes_ok forallb]; unfold byte_ok; rewrite ?andb_true_r.
  - apply Z.ltb_lt in E2. apply andb_true_iff. split; [apply Z.leb_le|apply Z.ltb_lt]; lia.
  - apply Z.ltb_ge in E2.
    assert (H1 : 0 <= (v - 269) / 256 < 256) by (split; [apply Z.div_pos; lia | apply Z.div_lt_upper_bound; lia]).
    assert (H2 : 0 <= (v - 269) mod 256 < 256) by (apply Z.mod_pos_bound; lia).
    tt (0 <=? (v - 269) / 256). tt ((v - 269) / 256 <? 256). tt (0 <=? (v - 269) mod 256). tt ((v - 269) mod 256 <? 256). reflexivity.
Qed.

(* ---------- Options.Marshal: both passes agree with the RFC encoding ---------- *)
Lemma blen0_nil {A} (l : list A) : blen l = 0 -> l = [].
Proof. destruct l; [reflexivity|]. rewrite blen_cons. pose proof (blen_nonneg l). lia. Qed.

Lemma hdr_ext_fits v d : nib_ok v -> blen (snd (spec_nib v)) <= avail d ->
  hdr_ext_into d (fst (extend_opt v)) (snd (extend_opt v)) = (blen (snd (spec_nib v)), false, snd (spec_nib v)).
Proof.
  intros Hv Hfit. destruct (extend_opt_spec v Hv) as [_ H]. rewrite H.
  destruct (blen (snd (spec_nib v)) =? 0) eqn:E.
  - apply Z.eqb_eq in E. rewrite (blen0_nil _ E). reflexivity.
  - tt (avail d >=? blen (snd (spec_nib v))). reflexivity.
Qed.
Lemma hdr_ext_none v : nib_ok v ->
  hdr_ext_into None (fst (extend_opt v)) (snd (extend_opt v)) =
  (blen (snd (spec_nib v)), negb (blen (snd (spec_nib v)) =? 0), []).
Proof.
  intros Hv. destruct (extend_opt_spec v Hv) as [_ H]. rewrite H. cbn [avail].
  pose proof (spec_nib_len v) as Hl.
  destruct (blen (snd (spec_nib v)) =? 0) eqn:E.
  - apply Z.eqb_eq in E. rewrite E. reflexivity.
  - apply Z.eqb_neq in E. ff (0 >=? blen (snd (spec_nib v))). reflexivity.
Qed.

Definition spec_hdr (delta len : Z) : list Z :=
  [fst (spec_nib delta) * 16 + fst (spec_nib len)] ++ snd (spec_nib delta) ++ snd (spec_nib len).

Lemma spec_option_eq prev o : spec_option prev o = spec_hdr (fst o - prev) (blen (snd o)) ++ snd o.
Proof.
  unfold spec_option, spec_hdr. destruct (spec_nib (fst o - prev)) as [dn de]. destruct (spec_nib (blen (snd o))) as [ln le].
  cbn [fst snd]. rewrite <- !app_assoc. reflexivity.
Qed.

Lemma spec_hdr_len delta len : blen (spec_hdr delta len) = 1 + blen (snd (spec_nib delta)) + blen (snd (spec_nib len)).
Proof. unfold spec_hdr. rewrite !blen_app. change (blen [_]) with 1. lia. Qed.

Lemma option_header_fits a delta len : nib_ok delta -> nib_ok len -> blen (spec_hdr delta len) <= a ->
  option_header_into (Some a) delta len = (blen (spec_hdr delta len), false, spec_hdr delta len).
Proof.
  intros Hd Hl Hfit. rewrite spec_hdr_len in Hfit.
  pose proof (spec_nib_len delta) as L1. pose proof (spec_nib_len len) as L2.
  unfold option_header_into.
  destruct (extend_opt_spec delta Hd) as [Hd1 _]. destruct (extend_opt_spec len Hl) as [Hl1 _].
  pose proof (hdr_ext_fits delta) as Fd. pose proof (hdr_ext_fits len) as Fl.
  destruct (extend_opt delta) as [d dx]. destruct (extend_opt len) as [l lx]. cbn [fst snd] in *. subst d l.
  pose proof (spec_nib_range delta Hd) as Rd. pose proof (spec_nib_range len Hl) as Rl.
  rewrite nibble_byte by lia.
  cbn [avail]. tt (a >? 0). cbn [adv].
  rewrite (Fd (Some (a - 1)) Hd) by (cbn [avail]; lia). cbv iota beta.
  cbn [adv]. rewrite (Fl (Some (a - (1 + blen (snd (spec_nib delta))))) Hl) by (cbn [avail]; lia). cbv iota beta.
  rewrite spec_hdr_len. unfold spec_hdr. reflexivity.
Qed.

Lemma option_header_none delta len : nib_ok delta -> nib_ok len ->
  exists X, option_header_into None delta len = (blen (spec_hdr delta len), true, X).
Proof.
  intros Hd Hl. unfold option_header_into.
  pose proof (hdr_ext_none delta Hd) as Fd. pose proof (hdr_ext_none len Hl) as Fl.
  destruct (extend_opt delta) as [d dx]. destruct (extend_opt len) as [l lx]. cbn [fst snd] in *.
  cbn [avail]. change (0 >? 0) with false. cbv iota beta. cbn [adv].
  rewrite Fd. cbv iota beta.
  replace (if negb (blen (snd (spec_nib delta)) =? 0) then None else None) with (@None Z) by (destruct (negb _); reflexivity).
  cbn [adv]. rewrite Fl. cbv iota beta.
  rewrite spec_hdr_len. destruct (negb (blen (snd (spec_nib len)) =? 0)); eexists; reflexivity.
Qed.

Definition opt_ok (prev : Z) (o : opt) : Prop := nib_ok (fst o - prev) /\ nib_ok (blen (snd o)).
Fixpoint opts_ok (prev : Z) (os : list opt) : Prop :=
  match os with [] => True | o :: r => opt_ok prev o /\ opts_ok (fst o) r end.

Lemma option_into_fits a prev o : opt_ok prev o -> blen (spec_option prev o) <= a ->
  option_into (Some a) prev o = (blen (spec_option prev o), false, spec_option prev o).
Proof.
  intros [Hd Hl] Hfit. rewrite spec_option_eq in *. rewrite blen_app in Hfit.
  pose proof (blen_nonneg (snd o)) as Hv.
  unfold option_into. unfold value_into at 1. cbn [avail].
  destruct (0 <? blen (snd o)); cbv iota beta;
  (rewrite option_header_fits by (assumption || lia); cbv iota beta; cbn [adv];
   unfold value_into; cbn [avail];
   ff (a - blen (spec_hdr (fst o - prev) (blen (snd o))) <? blen (snd o)); cbv iota beta;
   rewrite blen_app; reflexivity).
Qed.

Lemma option_into_none prev o : opt_ok prev o ->
  exists X, option_into None prev o = (blen (spec_option prev o), true, X).
Proof.
  intros [Hd Hl]. rewrite spec_option_eq, blen_app.
  unfold option_into. unfold value_into at 1. cbn [avail].
  destruct (option_header_none _ _ Hd Hl) as [X HX].
  destruct (0 <? blen (snd o)); cbv iota beta; rewrite HX; cbv iota beta; cbn [adv];
    unfold value_into; cbn [avail]; destruct (0 <? blen (snd o)); cbv iota beta; eexists; reflexivity.
Qed.

Lemma options_loop_fits os : forall a prev length, opts_ok prev os -> 0 <= length ->
  length + blen (spec_options prev os) <= a ->
  options_into_loop (Some a) prev length os = (length + blen (spec_options prev os), false, spec_options prev os).
Proof.
  induction os as [|o r IH]; intros a prev length Hok Hlen Hfit; cbn [options_into_loop spec_options].
  - rewrite blen_nil, Z.add_0_r. reflexivity.
  - destruct Hok as [Ho Hr]. cbn [spec_options] in Hfit. rewrite blen_app in Hfit.
    pose proof (blen_nonneg (spec_option prev o)). pose proof (blen_nonneg (spec_options (fst o) r)).
    cbn [avail]. ff (length >? a). cbn [adv].
    rewrite option_into_fits by (assumption || lia). cbv iota beta.
    rewrite IH by (assumption || lia). rewrite blen_app. f_equal. f_equal. lia.
Qed.

Lemma options_loop_none os : forall prev length, opts_ok prev os ->
  exists X, options_into_loop None prev length os = (length + blen (spec_options prev os), true, X).
Proof.
  induction os as [|o r IH]; intros prev length Hok; cbn [options_into_loop spec_options].
  - rewrite blen_nil, Z.add_0_r. eexists. reflexivity.
  - destruct Hok as [Ho Hr].
    replace (if length >? avail None then None else None) with (@None Z) by (destruct (_ >? _); reflexivity).
    cbn [adv]. destruct (option_into_none prev o Ho) as [X HX]. rewrite HX. cbv iota beta.
    destruct (IH (fst o) (length + blen (spec_option prev o)) Hr) as [Y HY]. rewrite HY.
    rewrite blen_app. eexists. f_equal. f_equal. lia.
Qed.

(* Options.Marshal(nil): the size pass *)
Theorem options_into_size os : opts_ok 0 os ->
  exists X, options_into None os = (blen (spec_options 0 os), true, X).
Proof. intros H. destruct (options_loop_none os 0 0 H) as [X HX]. exists X. exact HX. Qed.

(* Options.Marshal(buf): the write pass *)
Theorem options_into_write os a : opts_ok 0 os -> blen (spec_options 0 os) <= a ->
  options_into (Some a) os = (blen (spec_options 0 os), false, spec_options 0 os).
Proof. intros H Hfit. unfold options_into. rewrite options_loop_fits by (assumption || lia). reflexivity. Qed.

(* ---------- Options.Unmarshal inverts the RFC encoding ---------- *)
Lemma unmarshal_opts_S f defs data prev processed len cap acc :
  unmarshal_opts (S f) defs data prev processed len cap acc =
    if blen data >? 0 then
      do b0 <- idx data 0;
      if b0 =? 255 then Ok (processed + 1, acc)
      else
        let delta := b0 / 16 in
        let length := Z.land b0 15 in
        if (delta =? ExtendOptionError) || (length =? ExtendOptionError) then Err EOptMarker
        else
          do data <- sl_from data 1;
          let processed := processed + 1 in
          do (proc, delta) <- parse_ext data delta;
          let processed := processed + proc in
          do data <- sl_from data proc;
          do (proc, length) <- parse_ext data length;
          let processed := processed + proc in
          do data <- sl_from data proc;
          if blen data <? length then Err EOptTrunc
          else
            let oid := prev + delta in
            if (oid >? 65535) || (oid <? 0) then Err EOptNum
            else
              do v <- sl_to data length;
              let keep := option_keep defs oid (blen v) in
              let proc := blen v in
              if cap =? len then Err EOptCap
              else
                let app := keep && negb (oid =? 0) in
                let acc := if app then acc ++ [(oid, v)] else acc in
                let len := if app then len + 1 else len in
                let processed := processed + proc in
                do data <- sl_from data proc;
                unmarshal_opts f defs data oid processed len cap acc
    else Ok (processed, acc).
Proof. reflexivity. Qed.

Lemma unmarshal_step f defs delta v tail prev processed len cap acc :
  nib_ok delta -> nib_ok (blen v) -> 0 <= prev + delta <= 65535 ->
  unmarshal_opts (S f) defs (spec_hdr delta (blen v) ++ v ++ tail) prev processed len cap acc =
    if cap =? len then Err EOptCap
    else
      let app := option_keep defs (prev + delta) (blen v) && negb (prev + delta =? 0) in
      unmarshal_opts f defs tail (prev + delta)
        (processed + 1 + blen (snd (spec_nib delta)) + blen (snd (spec_nib (blen v))) + blen v)
        (if app then len + 1 else len) cap (if app then acc ++ [(prev + delta, v)] else acc).
Proof.
  intros Hd Hl Hid. rewrite unmarshal_opts_S. unfold spec_hdr.
  pose proof (spec_nib_range delta Hd) as Rd. pose proof (spec_nib_range (blen v) Hl) as Rl.
  pose proof (parse_ext_spec delta) as Pd. pose proof (parse_ext_spec (blen v)) as Pl.
  pose proof (spec_nib_bytes_ok delta Hd) as Bd. pose proof (spec_nib_bytes_ok (blen v) Hl) as Bl.
  destruct (spec_nib delta) as [dn de]. destruct (spec_nib (blen v)) as [ln le]. cbn [fst snd] in *.
  cbn [app]. rewrite <- !app_assoc.
  set (rest := de ++ le ++ v ++ tail).
  rewrite blen_cons. pose proof (blen_nonneg rest) as Hr. tt (1 + blen rest >? 0).
  rewrite idx_0. cbn [bind]. ff (dn * 16 + ln =? 255).
  replace ((dn * 16 + ln) / 16) with dn by lia.
  rewrite land15 by lia. replace ((dn * 16 + ln) mod 16) with ln by lia.
  cbv zeta. unfold ExtendOptionError. ff (dn =? 15). ff (ln =? 15). cbn [orb].
  rewrite sl_from_1. cbn [bind]. subst rest.
  rewrite (Pd (le ++ v ++ tail) Hd Bd). cbn [bind]. cbv iota beta.
  rewrite sl_from_app. cbn [bind].
  rewrite (Pl (v ++ tail) Hl Bl). cbn [bind]. cbv iota beta.
  rewrite sl_from_app. cbn [bind].
  rewrite blen_app. pose proof (blen_nonneg tail). ff (blen v + blen tail <? blen v).
  ff (prev + delta >? 65535). ff (prev + delta <? 0). cbn [orb].
  rewrite sl_to_app. cbn [bind].
  destruct (cap =? len); [reflexivity|].
  rewrite sl_from_app. cbn [bind]. reflexivity.
Qed.

(* conditions under which an option survives decoding with table [defs] *)
Fixpoint opts_dec_ok (defs : optdefs) (prev : Z) (os : list opt) : Prop :=
  match os with
  | [] => True
  | o :: r => opt_ok prev o /\ 0 < fst o <= 65535 /\ option_keep defs (fst o) (blen (snd o)) = true
              /\ opts_dec_ok defs (fst o) r
  end.

Lemma opts_dec_ok_ok defs os : forall prev, opts_dec_ok defs prev os -> opts_ok prev os.
Proof. induction os as [|o r IH]; intros prev H; cbn in *; [exact I|]. destruct H as (H1 & _ & _ & H4). split; [exact H1|apply IH; exact H4]. Qed.

Definition rest_ok (rest : list Z) : Prop := rest = [] \/ exists p, rest = 255 :: p.
Definition rest_len (rest : list Z) : Z := match rest with [] => 0 | _ => 1 end.

Lemma unmarshal_rest f defs rest prev processed len cap acc : rest_ok rest ->
  unmarshal_opts (S f) defs rest prev processed len cap acc = Ok (processed + rest_len rest, acc).
Proof.
  intros [->|[p ->]]; rewrite unmarshal_opts_S.
  - cbn. rewrite Z.add_0_r. reflexivity.
  - rewrite blen_cons. pose proof (blen_nonneg p). tt (1 + blen p >? 0). rewrite idx_0. cbn [bind rest_len].
    change (255 =? 255) with true. reflexivity.
Qed.

(* Options.Unmarshal (spec_options os ++ rest): all options back, or -- exactly
   when the capacity does not suffice -- ErrOptionsTooSmall *)
Theorem unmarshal_spec_options defs os : forall fuel prev processed len cap acc rest,
  opts_dec_ok defs prev os -> rest_ok rest -> (length os < fuel)%nat -> len <= cap ->
  unmarshal_opts fuel defs (spec_options prev os ++ rest) prev processed len cap acc =
    if len + blen os <=? cap
    then Ok (processed + blen (spec_options prev os) + rest_len rest, acc ++ os)
    else Err EOptCap.
Proof.
  induction os as [|o r IH]; intros fuel prev processed len cap acc rest Hok Hrest Hfuel Hcap.
  - cbn [spec_options app]. destruct fuel as [|f]; [cbn in Hfuel; lia|].
    rewrite unmarshal_rest by exact Hrest. rewrite blen_nil, !Z.add_0_r, app_nil_r. tt (len <=? cap). reflexivity.
  - destruct fuel as [|f]; [cbn in Hfuel; lia|]. cbn [length] in Hfuel.
    destruct Hok as ([Hd Hl] & Hid & Hkeep & Hr).
    cbn [spec_options]. rewrite spec_option_eq. rewrite <- !app_assoc.
    replace (fst o) with (prev + (fst o - prev)) at 2 by lia.
    rewrite blen_cons. pose proof (blen_nonneg r) as Hrn.
    rewrite unmarshal_step by (assumption || lia).
    replace (prev + (fst o - prev)) with (fst o) by lia.
    destruct (cap =? len) eqn:E.
    + apply Z.eqb_eq in E. ff (len + (1 + blen r) <=? cap). reflexivity.
    + apply Z.eqb_neq in E. cbv zeta. rewrite Hkeep. ff (fst o =? 0). cbn [andb negb].
      rewrite IH by (assumption || lia).
      replace (len + 1 + blen r) with (len + (1 + blen r)) by lia.
      destruct (len + (1 + blen r) <=? cap); [|reflexivity].
      rewrite <- app_assoc. cbn [app]. destruct o as [id v]. cbn [fst snd].
      rewrite !blen_app, spec_hdr_len. f_equal. f_equal. lia.
Qed.
