(* C02, stream coder: DecodeHeader and Decode agree with the RFC 8323 reference
   parsers on every byte string (shorter than 4 GiB). *)
From Coq Require Import ZArith List Bool Lia.
From GoCoap Require Import Base.Bytes Gen.OptionDefs Gen.TcpConsts Codec.Options Codec.Udp Codec.Tcp Codec.Pool
     Codec.Spec Codec.ProofsOpt Codec.ProofsC01 Codec.ProofsC02.
Import ListNotations.
Open Scope Z_scope.
Ltac Zify.zify_post_hook ::= Z.div_mod_to_equations.

Definition ext_size (ln : Z) : nat :=
  if ln <? 13 then 0%nat else if ln =? 13 then 1%nat else if ln =? 14 then 2%nat else 4%nat.
Definition len_base (ln : Z) : Z := if ln <? 13 then ln else if ln =? 13 then 13 else if ln =? 14 then 269 else 65805.

Lemma ext_len_agree ln r off : 0 <= ln <= 15 -> bytes_ok r = true ->
  match split_at (ext_size ln) r with
  | None => tcp_ext_len ln r off = Err EShortRead
  | Some (e, r1) =>
      0 <= be e < W32 /\ (ln <> 15 -> be e < 65536) /\ suffix r1 r /\ blen r = Z.of_nat (ext_size ln) + blen r1 /\
      if (ln =? 15) && (be e >? messageMaxLen) then tcp_ext_len ln r off = Err EInvalidEncoding
      else tcp_ext_len ln r off = Ok (len_base ln + be e, r1, off + Z.of_nat (ext_size ln))
  end.
Proof.
  intros Hn Hb. unfold W32, ext_size, len_base, tcp_ext_len, MessageLength13Base, MessageLength14Base, MessageLength15Base.
  destruct (ln <? 13) eqn:E1.
  { cbn [split_at]. apply Z.ltb_lt in E1. ff (ln =? 15). cbn [andb]. unfold be. cbn [fold_left].
    change (Z.of_nat 0) with 0. rewrite !Z.add_0_r.
    split; [lia|]. split; [lia|]. split; [apply suffix_refl|]. split; [lia|reflexivity]. }
  apply Z.ltb_ge in E1. destruct (ln =? 13) eqn:E2.
  { apply Z.eqb_eq in E2. subst ln. cbn [split_at]. destruct r as [|a r1]; [reflexivity|].
    apply bytes_ok_cons in Hb. destruct Hb as [Ha _]. change (13 =? 15) with false. cbn [andb].
    rewrite !blen_cons. pose proof (blen_nonneg r1). ff (1 + blen r1 <? 1). rewrite idx_0, sl_from_1. cbn [bind].
    unfold be. cbn [fold_left]. change (Z.of_nat 1) with 1. replace (0 * 256 + a) with a by lia.
    split; [lia|]. split; [lia|]. split; [apply suffix_cons|]. split; [lia|reflexivity]. }
  apply Z.eqb_neq in E2. destruct (ln =? 14) eqn:E3.
  { apply Z.eqb_eq in E3. subst ln. cbn [split_at]. destruct r as [|a [|b r1]]; [reflexivity|reflexivity|].
    apply bytes_ok_cons in Hb. destruct Hb as [Ha Hb]. apply bytes_ok_cons in Hb. destruct Hb as [Hb' _].
    change (14 =? 15) with false. cbn [andb].
    rewrite !blen_cons. pose proof (blen_nonneg r1). ff (1 + (1 + blen r1) <? 2). rewrite idx_1, idx_0, sl_from_2. cbn [bind].
    unfold be. cbn [fold_left]. change (Z.of_nat 2) with 2. replace ((0 * 256 + a) * 256 + b) with (a * 256 + b) by lia.
    split; [lia|]. split; [lia|]. split; [exists [a; b]; reflexivity|]. split; [lia|reflexivity]. }
  apply Z.eqb_neq in E3. assert (ln = 15) by lia. subst ln. cbn [split_at]. change (15 =? 15) with true. cbn [andb].
  destruct r as [|a [|b [|c [|d r1]]]]; try reflexivity.
  apply bytes_ok_cons in Hb. destruct Hb as [Ha Hb]. apply bytes_ok_cons in Hb. destruct Hb as [Hb' Hb].
  apply bytes_ok_cons in Hb. destruct Hb as [Hc Hb]. apply bytes_ok_cons in Hb. destruct Hb as [Hd _].
  rewrite !blen_cons. pose proof (blen_nonneg r1). ff (1 + (1 + (1 + (1 + blen r1))) <? 4).
  rewrite idx_3, idx_0, idx_1, idx_2, sl_from_4. cbn [bind]. cbv zeta.
  unfold be. cbn [fold_left]. replace (((0 * 256 + a) * 256 + b) * 256 + c) with ((a * 256 + b) * 256 + c) by lia.
  change (Z.of_nat 4) with 4.
  split; [lia|]. split; [lia|]. split; [exists [a; b; c; d]; reflexivity|]. split; [lia|].
  destruct (((a * 256 + b) * 256 + c) * 256 + d >? messageMaxLen); reflexivity.
Qed.

Theorem tcp_header_agree bs : bytes_ok bs = true ->
  match ref_tcp_header messageMaxLen bs with
  | RShort => tcp_decode_header bs = Err EShortRead
  | RInvalid => exists e, tcp_decode_header bs = Err e /\ (e = ETokenLen \/ e = EInvalidEncoding)
  | RHdr hl tot code tok =>
      tcp_decode_header bs = Ok {| h_len := hl; h_mlen := tot; h_code := code; h_tok := tok |}
      /\ 0 <= hl <= tot /\ hl <= blen bs /\ tot < W32 /\ 0 <= code < 256
      /\ 2 <= hl /\ blen tok <= 8 /\ bytes_ok tok = true
  end.
Proof.
  intros Hb. unfold ref_tcp_header, tcp_decode_header.
  destruct bs as [|b0 r]; [reflexivity|].
  apply bytes_ok_cons in Hb. destruct Hb as [H0 Hb].
  rewrite blen_cons. pose proof (blen_nonneg r) as Hr. ff (1 + blen r =? 0).
  rewrite idx_0, sl_from_1. cbn [bind]. cbv zeta.
  rewrite land240 by lia. rewrite land15 by lia. unfold MaxTokenSize.
  destruct (9 <=? b0 mod 16) eqn:Et.
  { apply Z.leb_le in Et. tt (b0 mod 16 >? 8). eexists. split; [reflexivity|left; reflexivity]. }
  apply Z.leb_gt in Et. ff (b0 mod 16 >? 8).
  pose proof (ext_len_agree (b0 / 16) r 1 ltac:(lia) Hb) as A. fold (ext_size (b0 / 16)). fold (len_base (b0 / 16)).
  destruct (split_at (ext_size (b0 / 16)) r) as [[e r1]|]; [|rewrite A; reflexivity].
  destruct A as (He & He16 & Sf & Lr & A).
  destruct ((b0 / 16 =? 15) && (be e >? messageMaxLen)) eqn:Eo.
  { rewrite A. cbn [bind]. eexists. split; [reflexivity|right; reflexivity]. }
  rewrite A. cbn [bind]. cbv iota beta.
  assert (Hk : 0 <= Z.of_nat (ext_size (b0 / 16)) <= 4) by (unfold ext_size; destruct (b0 / 16 <? 13); [|destruct (b0 / 16 =? 13); [|destruct (b0 / 16 =? 14)]]; cbn; lia).
  assert (Hbase : 0 <= len_base (b0 / 16) <= 65805) by (unfold len_base; destruct (b0 / 16 <? 13) eqn:?; [apply Z.ltb_lt in Heqb; lia|destruct (b0 / 16 =? 13); [|destruct (b0 / 16 =? 14)]]; lia).
  unfold W32 in He.
  destruct r1 as [|code r2]; [reflexivity|].
  pose proof (suffix_bytes_ok _ _ Sf Hb) as Hb1. apply bytes_ok_cons in Hb1. destruct Hb1 as [Hc Hb2].
  rewrite blen_cons. pose proof (blen_nonneg r2) as Hr2. ff (1 + blen r2 <? 1).
  rewrite idx_0, sl_from_1. cbn [bind].
  pose proof (split_agree (b0 mod 16) r2 ltac:(lia)) as SA.
  destruct (split_at (Z.to_nat (b0 mod 16)) r2) as [[tok r3]|]; [|tt (blen r2 <? b0 mod 16); reflexivity].
  destruct SA as (T & Sf2 & Lt & Lr2 & E2). pose proof (blen_nonneg r3). ff (blen r2 <? b0 mod 16).
  assert (Htok : (if b0 mod 16 >? 0 then sl_to r2 (b0 mod 16) else Ok []) = Ok tok).
  { destruct (b0 mod 16 >? 0) eqn:E; [exact T|]. rewrite Z.gtb_ltb in E. apply Z.ltb_ge in E.
    rewrite (blen0_nil tok) by lia. reflexivity. }
  rewrite Htok. cbn [bind].
  assert (Hmax : be e <= 2147418112).
  { destruct (b0 / 16 =? 15) eqn:E15; cbn [andb] in Eo.
    - rewrite Z.gtb_ltb in Eo. apply Z.ltb_ge in Eo. unfold messageMaxLen in Eo. exact Eo.
    - apply Z.eqb_neq in E15. specialize (He16 E15). lia. }
  rewrite blen_cons in Lr.
  unfold u32, W32. repeat rewrite Z.mod_small by lia.
  assert (Hbt : bytes_ok tok = true) by (rewrite E2 in Hb2; apply bytes_ok_app in Hb2; tauto).
  split; [f_equal; f_equal; lia|]. unfold W32. repeat split; try lia; exact Hbt.
Qed.

Lemma bytes_ok_firstn n d : bytes_ok d = true -> bytes_ok (firstn n d) = true.
Proof. intros H. rewrite <- (firstn_skipn n d) in H. apply bytes_ok_app in H. tauto. Qed.
Lemma bytes_ok_skipn n d : bytes_ok d = true -> bytes_ok (skipn n d) = true.
Proof. intros H. rewrite <- (firstn_skipn n d) in H. apply bytes_ok_app in H. tauto. Qed.
Lemma sl_to_ok d n : 0 <= n <= blen d -> sl_to d n = Ok (firstn (Z.to_nat n) d).
Proof. intros H. unfold sl_to. tt (0 <=? n). tt (n <=? blen d). reflexivity. Qed.
Lemma sl_from_ok d n : 0 <= n <= blen d -> sl_from d n = Ok (skipn (Z.to_nat n) d).
Proof. intros H. unfold sl_from. tt (0 <=? n). tt (n <=? blen d). reflexivity. Qed.
Lemma blen_firstn n (d : list Z) : 0 <= n <= blen d -> blen (firstn (Z.to_nat n) d) = n.
Proof. intros H. unfold blen in *. rewrite firstn_length_le by lia. lia. Qed.
Lemma blen_skipn n (d : list Z) : 0 <= n <= blen d -> blen (skipn (Z.to_nat n) d) = blen d - n.
Proof. intros H. unfold blen in *. rewrite skipn_length. lia. Qed.

(* stream decoder = reference parser on every byte string shorter than 4 GiB *)
Theorem tcp_agree cap bs : bytes_ok bs = true -> blen bs < W32 ->
  match ref_tcp messageMaxLen bs with
  | None => exists e, tcp_decode cap bs = Err e /\ (e = EOptCap -> cap < blen bs)
  | Some (m, tot) => tcp_decode cap bs = Ok (m, tot) \/ (tcp_decode cap bs = Err EOptCap /\ cap < blen bs)
  end.
Proof.
  intros Hb Hlen. unfold ref_tcp, tcp_decode. pose proof (tcp_header_agree bs Hb) as H.
  pose proof (blen_nonneg bs) as Hbs.
  destruct (ref_tcp_header messageMaxLen bs) as [| |hl tot code tok].
  - rewrite H. cbn [bind]. rej.
  - destruct H as [e [H1 H2]]. rewrite H1. cbn [bind]. exists e. split; [reflexivity|]. destruct H2 as [->| ->]; discriminate.
  - destruct H as (H & Hhl & Hle & Htot & Hcode & _). rewrite H. cbn [bind h_mlen h_len].
    replace (u32 (blen bs)) with (blen bs) by (unfold u32; rewrite Z.mod_small by lia; reflexivity).
    destruct (blen bs <? tot) eqn:Es; [rej|]. apply Z.ltb_ge in Es.
    rewrite sl_to_ok by lia. cbn [bind].
    rewrite sl_from_ok by (rewrite blen_firstn by lia; lia). cbn [bind].
    set (body := skipn (Z.to_nat hl) (firstn (Z.to_nat tot) bs)).
    assert (Hbb : bytes_ok body = true) by (apply bytes_ok_skipn, bytes_ok_firstn; exact Hb).
    assert (Lb : blen body = tot - hl) by (subst body; rewrite blen_skipn by (rewrite blen_firstn by lia; lia); rewrite blen_firstn by lia; reflexivity).
    unfold tcp_decode_with_header. cbn [h_code h_len h_tok].
    pose proof (loop_agree (defs_for_code code) (rfc_registry_for_code code) (tcp_keep code) (S (length body)) (length body) body 0 0 0 cap []
                  Hbb ltac:(lia) ltac:(lia) ltac:(lia)) as L.
    destruct (ref_options (length body) (rfc_registry_for_code code) 0 body) as [[os pay]|].
    + destruct L as [[L1 L2]|[L1 L2]].
      * right. rewrite L1. cbn [bind]. split; [reflexivity|lia].
      * left. rewrite L1. cbn [bind]. cbv iota beta. rewrite Z.add_0_l, (suffix_sl_from _ _ L2). cbn [bind].
        pose proof (suffix_len _ _ L2) as Hpl. pose proof (blen_nonneg pay) as Hpn.
        unfold u32, W32 in *. repeat rewrite Z.mod_small by lia.
        f_equal. f_equal. lia.
    + destruct L as [e [L LC]]. rewrite L. cbn [bind]. exists e. split; [reflexivity|intros He; specialize (LC He); lia].
Qed.

Theorem tcp_total cap bs : bytes_ok bs = true -> blen bs < W32 ->
  (exists m n, tcp_decode cap bs = Ok (m, n)) \/ (exists e, tcp_decode cap bs = Err e).
Proof.
  intros Hb Hl. pose proof (tcp_agree cap bs Hb Hl) as A. destruct (ref_tcp messageMaxLen bs) as [[m tot]|].
  - destruct A as [A|[A _]]; [left; exists m, tot; exact A|right; eexists; exact A].
  - right. destruct A as [e [A _]]. exists e. exact A.
Qed.

Theorem tcp_header_total bs : bytes_ok bs = true -> (exists h, tcp_decode_header bs = Ok h) \/ (exists e, tcp_decode_header bs = Err e).
Proof.
  intros Hb. pose proof (tcp_header_agree bs Hb) as A. destruct (ref_tcp_header messageMaxLen bs).
  - right. eexists. exact A.
  - right. destruct A as [e [A _]]. exists e. exact A.
  - left. destruct A as [A _]. eexists. exact A.
Qed.

Theorem tcp_retry_terminates bs cap : bytes_ok bs = true -> blen bs < W32 -> 0 <= cap ->
  pool_decode (pool_fuel bs) tcp_decode cap bs <> Fuel.
Proof.
  intros Hb Hl Hc. apply pool_decode_terminates; [| |exact Hc].
  - intros c _ E. pose proof (tcp_agree c bs Hb Hl) as A. destruct (ref_tcp messageMaxLen bs) as [[m tot]|].
    + destruct A as [A|[_ A]]; [rewrite A in E; discriminate|exact A].
    + destruct A as [e [A AC]]. rewrite A in E. injection E as ->. apply AC. reflexivity.
  - intros c _ E. destruct (tcp_total c bs Hb Hl) as [[m [n T]]|[e T]]; rewrite T in E; discriminate.
Qed.
