(* Specification side of C01 / C02, written from the property texts, RFC 7252
   section 3 (message format, 3.1 option format, registry 5.10 / 12.2 with the
   later registrations of RFC 7641, 7959, 7967) and RFC 8323 section 3.2 / 3.3
   (stream framing) and 5 (signalling options).  Nothing here refers to the Go
   code or to the model; only the message record type is shared. *)
From Coq Require Import ZArith List Bool.
From GoCoap Require Import Base.Bytes Codec.Options Codec.Udp.
Import ListNotations.
Open Scope Z_scope.

(* ---- option-number registry: number -> (min, max) value length ---- *)
Definition registry := list (Z * (Z * Z)).
Definition rfc_coap_registry : registry :=
  [ (1, (0, 8));      (* If-Match *)
    (3, (1, 255));    (* Uri-Host *)
    (4, (1, 8));      (* ETag *)
    (5, (0, 0));      (* If-None-Match *)
    (6, (0, 3));      (* Observe, RFC 7641 *)
    (7, (0, 2));      (* Uri-Port *)
    (8, (0, 255));    (* Location-Path *)
    (11, (0, 255));   (* Uri-Path *)
    (12, (0, 2));     (* Content-Format *)
    (14, (0, 4));     (* Max-Age *)
    (15, (0, 255));   (* Uri-Query *)
    (17, (0, 2));     (* Accept *)
    (20, (0, 255));   (* Location-Query *)
    (23, (0, 3));     (* Block2, RFC 7959 *)
    (27, (0, 3));     (* Block1 *)
    (28, (0, 4));     (* Size2 *)
    (35, (1, 1034));  (* Proxy-Uri *)
    (39, (1, 255));   (* Proxy-Scheme *)
    (60, (0, 4));     (* Size1 *)
    (258, (0, 1)) ].  (* No-Response, RFC 7967 *)
(* RFC 8323 section 5: options of the signalling codes 7.01 - 7.05 *)
Definition rfc_csm_registry : registry := [(2, (0, 4)); (4, (0, 0))].
Definition rfc_pingpong_registry : registry := [(2, (0, 0))].
Definition rfc_release_registry : registry := [(2, (1, 255)); (4, (0, 3))].
Definition rfc_abort_registry : registry := [(2, (0, 2))].
Definition rfc_registry_for_code (code : Z) : registry :=
  if code =? 225 then rfc_csm_registry
  else if (code =? 226) || (code =? 227) then rfc_pingpong_registry
  else if code =? 228 then rfc_release_registry
  else if code =? 229 then rfc_abort_registry
  else rfc_coap_registry.

Fixpoint reg_find (r : registry) (id : Z) : option (Z * Z) :=
  match r with
  | [] => None
  | (k, b) :: r' => if k =? id then Some b else reg_find r' id
  end.
Definition legal_len (r : registry) (id len : Z) : bool :=
  match reg_find r id with
  | Some (mn, mx) => (mn <=? len) && (len <=? mx)
  | None => true
  end.

(* ---- wire-format preconditions of C01 ---- *)
Definition max_opt_value : Z := 65804.   (* 65535 + 269: the longest expressible option length *)

Fixpoint opts_wf (r : registry) (prev : Z) (os : list opt) : bool :=
  match os with
  | [] => true
  | (id, v) :: rest =>
      (prev <=? id) && (0 <? id) && (id <=? 65535) && legal_len r id (blen v)
      && (blen v <=? max_opt_value) && bytes_ok v && opts_wf r id rest
  end.

Definition wf_common (r : registry) (m : msg) : bool :=
  (blen (m_tok m) <=? 8) && bytes_ok (m_tok m) && (0 <=? m_code m) && (m_code m <=? 255)
  && opts_wf r 0 (m_opts m) && bytes_ok (m_pay m).

Definition wf_udp (m : msg) : bool :=
  wf_common rfc_coap_registry m && (0 <=? m_typ m) && (m_typ m <=? 3) && (0 <=? m_mid m) && (m_mid m <=? 65535).

(* ---- the wire encodings, RFC 7252 figure 7 - 9, RFC 8323 figure 4 ---- *)
(* nibble and extension bytes of an option delta / length *)
Definition spec_nib (v : Z) : Z * list Z :=
  if v <? 13 then (v, [])
  else if v <? 269 then (13, [v - 13])
  else (14, [(v - 269) / 256; (v - 269) mod 256]).

Definition spec_option (prev : Z) (o : opt) : list Z :=
  let '(dn, de) := spec_nib (fst o - prev) in
  let '(ln, le) := spec_nib (blen (snd o)) in
  [dn * 16 + ln] ++ de ++ le ++ snd o.

Fixpoint spec_options (prev : Z) (os : list opt) : list Z :=
  match os with
  | [] => []
  | o :: r => spec_option prev o ++ spec_options (fst o) r
  end.

Definition spec_payload (p : list Z) : list Z := match p with [] => [] | _ => 255 :: p end.

Definition spec_body (m : msg) : list Z := spec_options 0 (m_opts m) ++ spec_payload (m_pay m).

Definition spec_udp_bytes (m : msg) : list Z :=
  [64 + m_typ m * 16 + blen (m_tok m); m_code m; m_mid m / 256; m_mid m mod 256] ++ m_tok m ++ spec_body m.

(* RFC 8323 3.2: Len nibble and Extended Length for a body of n bytes *)
Definition spec_len_field (n : Z) : Z * list Z :=
  if n <? 13 then (n, [])
  else if n <? 269 then (13, [n - 13])
  else if n <? 65805 then (14, [(n - 269) / 256; (n - 269) mod 256])
  else let e := n - 65805 in (15, [e / 16777216; (e / 65536) mod 256; (e / 256) mod 256; e mod 256]).

Definition spec_tcp_bytes (m : msg) : list Z :=
  let body := spec_body m in
  let '(ln, ext) := spec_len_field (blen body) in
  [ln * 16 + blen (m_tok m)] ++ ext ++ [m_code m] ++ m_tok m ++ body.

(* wf for the stream coder; [limit] is the implementation's bound on the body
   length (the 4-byte extended length could express up to 2^32 + 65804) *)
Definition wf_tcp (limit : Z) (m : msg) : bool :=
  wf_common (rfc_registry_for_code (m_code m)) m && (blen (spec_body m) <? limit).

(* the message as the stream coder transports it (no type, no message ID) *)
Definition tcp_view (m : msg) : msg :=
  {| m_tok := m_tok m; m_code := m_code m; m_opts := m_opts m; m_pay := m_pay m; m_mid := 0; m_typ := 0 |}.

(* ---- reference parsers (C02) ---- *)
(* Leniencies of the library that the reference adopts:
   L1 an option whose value length is outside the registry bounds is dropped;
   L2 an option with number 0 is dropped;
   L3 a payload marker followed by nothing means "no payload";
   L4 the emptiness rule for Code 0.00 (RFC 7252 section 3: no token, nothing
      after the message ID) is not enforced by the codec (see notes/C02.md). *)

Fixpoint split_at (n : nat) (d : list Z) : option (list Z * list Z) :=
  match n with
  | O => Some ([], d)
  | S n' => match d with
            | [] => None
            | x :: r => match split_at n' r with Some (a, b) => Some (x :: a, b) | None => None end
            end
  end.

(* value of a delta/length nibble with its extension, RFC 7252 3.1; 15 is reserved *)
Definition ref_ext (nib : Z) (d : list Z) : option (Z * list Z) :=
  if nib <? 13 then Some (nib, d)
  else if nib =? 13 then match d with a :: r => Some (a + 13, r) | _ => None end
  else if nib =? 14 then match d with a :: b :: r => Some (a * 256 + b + 269, r) | _ => None end
  else None.

(* options and payload; [fuel] bounds the number of options (>= length d suffices) *)
Fixpoint ref_options (fuel : nat) (r : registry) (prev : Z) (d : list Z) : option (list opt * list Z) :=
  match d with
  | [] => Some ([], [])
  | b :: d1 =>
    if b =? 255 then Some ([], d1)
    else
      match fuel with
      | O => None
      | S f =>
        match ref_ext (b / 16) d1 with
        | None => None
        | Some (delta, d2) =>
          match ref_ext (b mod 16) d2 with
          | None => None
          | Some (len, d3) =>
            match split_at (Z.to_nat len) d3 with
            | None => None
            | Some (v, d4) =>
              let num := prev + delta in
              if num >? 65535 then None
              else
                match ref_options f r num d4 with
                | None => None
                | Some (os, pay) =>
                  Some (if legal_len r num len && negb (num =? 0) then (num, v) :: os else os, pay)
                end
            end
          end
        end
      end
  end.

(* RFC 7252 section 3: Ver(2) T(2) TKL(4) Code(8) Message-ID(16) Token Options [0xFF Payload] *)
Definition ref_udp (bs : list Z) : option msg :=
  match bs with
  | b0 :: code :: m1 :: m0 :: r =>
    if negb (b0 / 64 =? 1) then None
    else
      let tkl := b0 mod 16 in
      if 9 <=? tkl then None
      else
        match split_at (Z.to_nat tkl) r with
        | None => None
        | Some (tok, r') =>
          match ref_options (length r') rfc_coap_registry 0 r' with
          | None => None
          | Some (os, pay) =>
            Some {| m_tok := tok; m_code := code; m_opts := os; m_pay := pay;
                    m_mid := m1 * 256 + m0; m_typ := (b0 / 16) mod 4 |}
          end
        end
  | _ => None
  end.

(* RFC 8323 3.2: Len(4) TKL(4) [Extended Length] Code Token ... *)
Inductive ref_hdr := RShort | RInvalid | RHdr (hdr_len total code : Z) (tok : list Z).

Definition ref_tcp_header (limit : Z) (bs : list Z) : ref_hdr :=
  match bs with
  | [] => RShort
  | b0 :: r =>
    let ln := b0 / 16 in
    let tkl := b0 mod 16 in
    if 9 <=? tkl then RInvalid
    else
      let k := if ln <? 13 then 0%nat else if ln =? 13 then 1%nat else if ln =? 14 then 2%nat else 4%nat in
      match split_at k r with
      | None => RShort
      | Some (e, r1) =>
        let base := if ln <? 13 then ln else if ln =? 13 then 13 else if ln =? 14 then 269 else 65805 in
        if (ln =? 15) && (be e >? limit) then RInvalid
        else
          match r1 with
          | [] => RShort
          | code :: r2 =>
            match split_at (Z.to_nat tkl) r2 with
            | None => RShort
            | Some (tok, _) =>
              let hl := 1 + Z.of_nat k + 1 + tkl in
              RHdr hl (hl + base + be e) code tok
            end
          end
      end
  end.

(* a whole frame at the start of bs: the message and the frame's length *)
Definition ref_tcp (limit : Z) (bs : list Z) : option (msg * Z) :=
  match ref_tcp_header limit bs with
  | RHdr hl total code tok =>
    if blen bs <? total then None
    else
      let body := skipn (Z.to_nat hl) (firstn (Z.to_nat total) bs) in
      match ref_options (length body) (rfc_registry_for_code code) 0 body with
      | None => None
      | Some (os, pay) =>
        Some ({| m_tok := tok; m_code := code; m_opts := os; m_pay := pay; m_mid := 0; m_typ := 0 |}, total)
      end
  | _ => None
  end.
