(* C02, stream coder: accepted frames are well-formed (the canonical re-encoding of an
   accepted body is never longer than the body), hence they canonicalise. *)
From Coq Require Import ZArith List Bool Lia.
From GoCoap Require Import Base.Bytes Gen.OptionDefs Gen.TcpConsts Codec.Options Codec.Udp Codec.Tcp Codec.Pool
     Codec.Spec Codec.ProofsOpt Codec.ProofsC01 Codec.ProofsC02 Codec.ProofsC02Tcp.
Import ListNotations.
Open Scope Z_scope.
Ltac Zify.zify_post_hook ::= Z.div_mod_to_equations.

Definition nibext (v : Z) : Z := blen (snd (spec_nib v)).
Lemma nibext_cases v : nibext v = if v <? 13 then 0 else if v <? 269 then 1 else 2.
Proof. unfold nibext, spec_nib. destruct (v <? 13); [reflexivity|]. destruct (v <? 269); reflexivity. Qed.
Lemma nibext_subadd a b : 0 <= a -> 0 <= b -> nibext (a + b) <= 1 + nibext a + nibext b.
Proof.
  intros Ha Hb. rewrite !nibext_cases.
  destruct (Z.ltb_spec (a + b) 13), (Z.ltb_spec (a + b) 269), (Z.ltb_spec a 13), (Z.ltb_spec a 269), (Z.ltb_spec b 13), (Z.ltb_spec b 269); lia.
Qed.
Lemma nibext_nonneg v : 0 <= nibext v.
Proof. rewrite nibext_cases. destruct (v <? 13); [lia|]. destruct (v <? 269); lia. Qed.

Lemma ref_ext_len nib d v d' : 0 <= nib <= 15 -> bytes_ok d = true -> ref_ext nib d = Some (v, d') ->
  blen d = nibext v + blen d' /\ 0 <= v.
Proof.
  intros Hn Hb H. unfold ref_ext in H. rewrite nibext_cases.
  destruct (nib <? 13) eqn:E1.
  { apply Z.ltb_lt in E1. injection H as <- <-. tt (nib <? 13). lia. }
  apply Z.ltb_ge in E1. destruct (nib =? 13) eqn:E2.
  { destruct d as [|a r]; [discriminate|]. injection H as <- <-. apply bytes_ok_cons in Hb. destruct Hb as [Ha _].
    rewrite blen_cons. ff (a + 13 <? 13). tt (a + 13 <? 269). lia. }
  destruct (nib =? 14) eqn:E3; [|discriminate].
  destruct d as [|a [|b r]]; try discriminate. injection H as <- <-.
  apply bytes_ok_cons in Hb. destruct Hb as [Ha Hb]. apply bytes_ok_cons in Hb. destruct Hb as [Hb' _].
  rewrite !blen_cons. ff (a * 256 + b + 269 <? 13). ff (a * 256 + b + 269 <? 269). lia.
Qed.

Lemma spec_option_len p o : blen (spec_option p o) = 1 + nibext (fst o - p) + nibext (blen (snd o)) + blen (snd o).
Proof. rewrite spec_option_eq, blen_app, spec_hdr_len. unfold nibext. lia. Qed.

Lemma canon_len reg : forall rf prev d os pay, bytes_ok d = true -> 0 <= prev ->
  ref_options rf reg prev d = Some (os, pay) ->
  forall p c, 0 <= p <= prev -> (prev = p /\ 0 <= c) \/ 1 + nibext (prev - p) <= c ->
  blen (spec_options p os) + blen (spec_payload pay) <= c + blen d.
Proof.
  induction rf as [|rf IH]; intros prev d os pay Hb Hp H p c Hpp Hc.
  - assert (Hc0 : 0 <= c) by (pose proof (nibext_nonneg (prev - p)); lia).
    destruct d as [|b d1]; cbn [ref_options] in H; [injection H as <- <-; cbn; unfold blen; cbn; lia|].
    destruct (b =? 255); [|discriminate]. injection H as <- <-. cbn [spec_options]. rewrite spec_payload_len, blen_cons, blen_nil.
    pose proof (blen_nonneg d1). destruct (blen d1 >? 0); lia.
  - assert (Hc0 : 0 <= c) by (pose proof (nibext_nonneg (prev - p)); lia).
    destruct d as [|b d1]; cbn [ref_options] in H; [injection H as <- <-; cbn; unfold blen; cbn; lia|].
    apply bytes_ok_cons in Hb. destruct Hb as [Hbb Hb1].
    destruct (b =? 255).
    { injection H as <- <-. cbn [spec_options]. rewrite spec_payload_len, blen_cons, blen_nil.
      pose proof (blen_nonneg d1). destruct (blen d1 >? 0); lia. }
    destruct (ref_ext (b / 16) d1) as [[delta d2]|] eqn:E1; [|discriminate].
    destruct (ref_ext_facts (b / 16) d1 delta d2 ltac:(lia) Hb1 E1) as [Hv1 Sf1]. pose proof (suffix_bytes_ok _ _ Sf1 Hb1) as Hb2.
    destruct (ref_ext_len (b / 16) d1 delta d2 ltac:(lia) Hb1 E1) as [L1 _].
    destruct (ref_ext (b mod 16) d2) as [[olen d3]|] eqn:E2; [|discriminate].
    destruct (ref_ext_facts (b mod 16) d2 olen d3 ltac:(lia) Hb2 E2) as [Hv2 Sf2]. pose proof (suffix_bytes_ok _ _ Sf2 Hb2) as Hb3.
    destruct (ref_ext_len (b mod 16) d2 olen d3 ltac:(lia) Hb2 E2) as [L2 _].
    pose proof (split_agree olen d3 ltac:(lia)) as A3.
    destruct (split_at (Z.to_nat olen) d3) as [[v d4]|]; [|discriminate].
    destruct A3 as (_ & _ & Lv & L3 & E3). rewrite E3 in Hb3. apply bytes_ok_app in Hb3. destruct Hb3 as [Hbv Hb4].
    destruct (prev + delta >? 65535) eqn:Eo; [discriminate|].
    destruct (ref_options rf reg (prev + delta) d4) as [[os' pay']|] eqn:ER; [|discriminate].
    assert (Hpd : 0 <= prev + delta) by lia.
    pose proof (nibext_subadd (prev - p) delta ltac:(lia) ltac:(lia)) as SA.
    replace (prev - p + delta) with (prev + delta - p) in SA by lia.
    pose proof (nibext_nonneg delta). pose proof (nibext_nonneg olen). pose proof (nibext_nonneg (prev - p)).
    rewrite blen_cons.
    injection H as <- <-.
    destruct (legal_len reg (prev + delta) olen && negb (prev + delta =? 0)).
    + cbn [spec_options fst]. rewrite blen_app, spec_option_len. cbn [fst snd]. rewrite Lv.
      pose proof (IH _ _ _ _ Hb4 Hpd ER (prev + delta) 0 ltac:(lia) ltac:(left; lia)) as I.
      assert (nibext (prev + delta - p) <= c + nibext delta).
      { destruct Hc as [[-> _]|Hc]; [replace (p + delta - p) with delta by lia; lia|lia]. }
      lia.
    + pose proof (IH _ _ _ _ Hb4 Hpd ER p (c + 1 + nibext delta + nibext olen + olen) ltac:(lia)) as I.
      assert (Hd : prev + delta = p /\ 0 <= c + 1 + nibext delta + nibext olen + olen \/
                   1 + nibext (prev + delta - p) <= c + 1 + nibext delta + nibext olen + olen).
      { right. destruct Hc as [[-> _]|Hc]; [replace (p + delta - p) with delta by lia; lia|lia]. }
      specialize (I Hd). lia.
Qed.

Theorem ref_tcp_wf bs m tot : bytes_ok bs = true -> ref_tcp messageMaxLen bs = Some (m, tot) -> tot <= messageMaxLen ->
  wf_tcp messageMaxLen m = true /\ tot <= blen bs.
Proof.
  intros Hb H Hlim. unfold ref_tcp in H. pose proof (tcp_header_agree bs Hb) as HA.
  destruct (ref_tcp_header messageMaxLen bs) as [| |hl tot' code tok] eqn:EH; try discriminate.
  destruct HA as (_ & Hhl & Hle & Htot & Hcode & Hhl2 & Htk & Hbt).
  destruct (blen bs <? tot') eqn:Es; [discriminate|]. apply Z.ltb_ge in Es.
  set (body := skipn (Z.to_nat hl) (firstn (Z.to_nat tot') bs)) in *.
  assert (Hbb : bytes_ok body = true) by (apply bytes_ok_skipn, bytes_ok_firstn; exact Hb).
  assert (Lb : blen body = tot' - hl) by (subst body; rewrite blen_skipn by (rewrite blen_firstn by lia; lia); rewrite blen_firstn by lia; reflexivity).
  destruct (ref_options (length body) (rfc_registry_for_code code) 0 body) as [[os pay]|] eqn:ER; [|discriminate].
  injection H as <- <-. split; [|exact Es].
  destruct (ref_options_wf _ _ _ _ _ _ Hbb (Z.le_refl 0) ER) as [W P].
  pose proof (canon_len _ _ _ _ _ _ Hbb (Z.le_refl 0) ER 0 0 ltac:(lia) ltac:(left; lia)) as CL.
  unfold wf_tcp, wf_common. cbn [m_tok m_code m_opts m_pay]. rewrite Hbt, W, P.
  tt (blen tok <=? 8). tt (0 <=? code). tt (code <=? 255). cbn [andb].
  apply Z.ltb_lt. unfold spec_body. cbn [m_opts m_pay]. rewrite blen_app. lia.
Qed.

(* what the stream decoder accepts (frames up to messageMaxLen bytes) is well-formed *)
Theorem tcp_decode_wf cap bs m n : bytes_ok bs = true -> blen bs < W32 -> tcp_decode cap bs = Ok (m, n) -> n <= messageMaxLen ->
  wf_tcp messageMaxLen m = true /\ n <= blen bs /\ ref_tcp messageMaxLen bs = Some (m, n).
Proof.
  intros Hb Hl H Hn. pose proof (tcp_agree cap bs Hb Hl) as A. destruct (ref_tcp messageMaxLen bs) as [[m' tot]|] eqn:ER.
  - destruct A as [A|[A _]]; rewrite A in H; [|discriminate]. injection H as <- <-.
    destruct (ref_tcp_wf bs m' tot Hb ER Hn) as [W L]. split; [exact W|]. split; [exact L|reflexivity].
  - destruct A as [e [A _]]. rewrite A in H. discriminate.
Qed.

Lemma tcp_view_idem m : m_mid m = 0 -> m_typ m = 0 -> tcp_view m = m.
Proof. destruct m. cbn. intros -> ->. reflexivity. Qed.

Theorem tcp_canonical cap bs m n : bytes_ok bs = true -> blen bs < W32 -> tcp_decode cap bs = Ok (m, n) -> n <= messageMaxLen ->
  let bs' := spec_tcp_bytes m in
  tcp_size m = Ok (blen bs') /\
  tcp_encode_into m (repeat 0 (length bs')) = EOk (blen bs') bs' /\
  forall cap', blen (m_opts m) <= cap' -> tcp_decode cap' bs' = Ok (m, blen bs').
Proof.
  intros Hb Hl H Hn bs'. destruct (tcp_decode_wf cap bs m n Hb Hl H Hn) as (W & _ & R). subst bs'.
  split; [apply tcp_size_spec; exact W|]. split.
  - rewrite (tcp_encode_cases m _ W).
    replace (blen (repeat 0 (length (spec_tcp_bytes m))) <? blen (spec_tcp_bytes m)) with false
      by (symmetry; apply Z.ltb_ge; unfold blen; rewrite repeat_length; lia).
    unfold overwrite. rewrite skipn_all2 by (rewrite repeat_length; lia). rewrite app_nil_r. reflexivity.
  - intros cap' Hc. rewrite (tcp_decode_spec m cap' W Hc). f_equal. f_equal.
    apply tcp_view_idem.
    + unfold ref_tcp in R. destruct (ref_tcp_header messageMaxLen bs); try discriminate.
      destruct (blen bs <? total); [discriminate|].
      destruct (ref_options _ _ _ _) as [[os pay]|]; [|discriminate]. injection R as <- _. reflexivity.
    + unfold ref_tcp in R. destruct (ref_tcp_header messageMaxLen bs); try discriminate.
      destruct (blen bs <? total); [discriminate|].
      destruct (ref_options _ _ _ _) as [[os pay]|]; [|discriminate]. injection R as <- _. reflexivity.
Qed.
