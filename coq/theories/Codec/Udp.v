(* Model of udp/coder/coder.go: Coder.Size, Coder.Encode, Coder.Decode.
   Transcribed from the Go code as it is (after the repairs recorded in
   KNOWN_FINDINGS.txt; ValidateType still admits 0..255, finding F9). *)
From Coq Require Import ZArith List Bool.
From GoCoap Require Import Base.Bytes Gen.OptionDefs Codec.Options.
Import ListNotations.
Open Scope Z_scope.

(* message.Message; MessageID is int32, Type is int16, Code is uint16 *)
Record msg := { m_tok : list Z; m_code : Z; m_opts : list opt; m_pay : list Z; m_mid : Z; m_typ : Z }.

(* result of Encode(m, buf): the returned int, the error class, and the buffer afterwards *)
Inductive eres :=
| EOk (n : Z) (buf : list Z)
| ESmall (n : Z) (buf : list Z)     (* (size, ErrTooSmall) *)
| EErr (e : err)                    (* (-1, err) *)
| EPanic.                           (* a write beyond len(buf) *)

(* copy(buf, bytes) at the start of buf, all of [bytes] fitting *)
Definition overwrite (buf bytes : list Z) : list Z := bytes ++ skipn (length bytes) buf.

(* message.ValidateMID / message.ValidateType *)
Definition validate_mid (mid : Z) : bool := (0 <=? mid) && (mid <=? 65535).
Definition validate_type (t : Z) : bool := (0 <=? t) && (t <=? 255).

(* func (c *Coder) Size(m message.Message) (int, error) *)
Definition udp_size (m : msg) : res Z :=
  if blen (m_tok m) >? MaxTokenSize then Err ETokenLen
  else
    let size := 4 + blen (m_tok m) in
    let payloadLen := blen (m_pay m) in
    let '(optionsLen, small, _) := options_into None (m_opts m) in
    (* if !errors.Is(err, ErrTooSmall) { return -1, err }: Marshal(nil) always reports ErrTooSmall *)
    if negb small then Panic
    else
      let payloadLen := if payloadLen >? 0 then payloadLen + 1 else payloadLen in
      Ok (size + payloadLen + optionsLen).

(* func (c *Coder) Encode(m message.Message, buf []byte) (int, error) *)
Definition udp_encode_into (m : msg) (buf : list Z) : eres :=
  if negb (validate_mid (m_mid m)) then EErr EMid
  else if negb (validate_type (m_typ m)) then EErr EType
  else
    match udp_size m with
    | Err e => EErr e
    | Panic | Fuel => EPanic
    | Ok size =>
      if blen buf <? size then ESmall size buf
      else
        let mid := (m_mid m) mod 65536 in
        (* buf[0] = (1 << 6) | byte(m.Type)<<4 | byte(0xf&len(m.Token)) *)
        let b0 := Z.lor (Z.lor 64 ((((m_typ m) mod 256) * 16) mod 256)) (Z.land 15 (blen (m_tok m))) in
        let hdr := [b0; (m_code m) mod 256; mid / 256; mid mod 256] in
        if blen (m_tok m) >? MaxTokenSize then EErr ETokenLen
        else
          let rest := Some (blen buf - 4 - blen (m_tok m)) in
          let '(optionsLen, small, obytes) := options_into rest (m_opts m) in
          if small then ESmall size buf    (* unreachable when Size is right; buffer content then unspecified *)
          else
            let tail := if blen (m_pay m) >? 0 then 255 :: m_pay m else [] in
            let bytes := hdr ++ m_tok m ++ obytes ++ tail in
            if blen bytes >? blen buf then EPanic
            else EOk size (overwrite buf bytes)
    end.

(* func (c *Coder) Decode(data []byte, m *message.Message) (int, error)
   cap: capacity of m.Options (its length is 0: fresh or Reset message) *)
Definition udp_decode (cap : Z) (data : list Z) : res (msg * Z) :=
  let size := blen data in
  if size <? 4 then Err ETrunc
  else
    do b0 <- idx data 0;
    if negb (b0 / 64 =? 1) then Err EVersion
    else
      let typ := Z.land (b0 / 16) 3 in
      let tokenLen := Z.land b0 15 in
      if tokenLen >? 8 then Err ETokenLen
      else
        do code <- idx data 1;
        do s <- sl_to data 4; do s <- sl_from s 2;     (* data[2:4] *)
        do m1 <- idx s 0; do m0 <- idx s 1;
        let mid := m1 * 256 + m0 in
        do data <- sl_from data 4;
        if blen data <? tokenLen then Err ETrunc
        else
          do token <- sl_to data tokenLen;
          do data <- sl_from data tokenLen;
          do (proc, os) <- unmarshal_opts (S (length data)) CoapOptionDefs data 0 0 0 cap [];
          do data <- sl_from data proc;
          Ok ({| m_tok := token; m_code := code; m_opts := os; m_pay := data; m_mid := mid; m_typ := typ |}, size).
