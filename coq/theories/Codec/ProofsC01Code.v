(* C01, "every code byte" for datagram framing.  The datagram decoder does not
   look at the Code field: it copies that byte into the result and nothing else
   depends on it -- in particular not the option-definition table ([udp_decode]
   validates against CoapOptionDefs whatever the code is; only the stream coder's
   DecodeWithHeader selects a signalling table by code).  So a well-formed
   message round-trips with EVERY code byte, 7.01-7.05 included, and its options
   are judged by the CoAP registry alone. *)
From Coq Require Import ZArith List Bool Lia.
From GoCoap Require Import Base.Bytes Gen.OptionDefs Gen.TcpConsts Codec.Options Codec.Udp Codec.Tcp
     Codec.Spec Codec.SpecCode Codec.ProofsOpt Codec.ProofsC01.
Import ListNotations.
Open Scope Z_scope.
Ltac Zify.zify_post_hook ::= Z.div_mod_to_equations.

(* ---------- Spec side: the preconditions and the encoding ---------- *)
Lemma wf_udp_with_code m c : wf_udp m = true -> 0 <= c <= 255 -> wf_udp (with_code m c) = true.
Proof.
  intros Hwf Hc. unfold wf_udp, wf_common in *. cbn [with_code m_tok m_code m_opts m_pay m_mid m_typ].
  rewrite !andb_true_iff in *.
  destruct Hwf as (((((((((H1 & H2) & H3) & H4) & H5) & H6) & H7) & H8) & H9) & H10).
  repeat split; try assumption; apply Z.leb_le; lia.
Qed.

Lemma spec_udp_with_code m c : spec_udp_bytes (with_code m c) = put_code (spec_udp_bytes m) c.
Proof. reflexivity. Qed.

Lemma spec_udp_with_code_len m c : blen (spec_udp_bytes (with_code m c)) = blen (spec_udp_bytes m).
Proof. rewrite !spec_udp_len. reflexivity. Qed.

(* ---------- the well-formed round trip with any code byte ---------- *)
Theorem udp_decode_any_code m cap c : wf_udp m = true -> blen (m_opts m) <= cap -> 0 <= c <= 255 ->
  udp_decode cap (put_code (spec_udp_bytes m) c) = Ok (with_code m c, blen (spec_udp_bytes m)).
Proof.
  intros Hwf Hcap Hc. rewrite <- spec_udp_with_code, <- (spec_udp_with_code_len m c).
  apply udp_decode_spec; [apply wf_udp_with_code; assumption|exact Hcap].
Qed.

(* ---------- the decoder on ANY datagram ---------- *)
Definition res_code (c : Z) (r : res (msg * Z)) : res (msg * Z) :=
  match r with
  | Ok (m, n) => Ok (with_code m c, n)
  | Err e => Err e
  | Panic => Panic
  | Fuel => Fuel
  end.

Lemma sl_to_4 b0 x rest : 2 <= blen rest -> sl_to (b0 :: x :: rest) 4 = Ok (b0 :: x :: firstn 2 rest).
Proof.
  intros H. unfold sl_to. rewrite !blen_cons. tt (0 <=? 4). tt (4 <=? 1 + (1 + blen rest)). reflexivity.
Qed.
Lemma sl_from_4 b0 x rest : 2 <= blen rest -> sl_from (b0 :: x :: rest) 4 = Ok (skipn 2 rest).
Proof.
  intros H. unfold sl_from. rewrite !blen_cons. tt (0 <=? 4). tt (4 <=? 1 + (1 + blen rest)). reflexivity.
Qed.

Theorem udp_decode_ignores_code cap b0 c c' rest :
  udp_decode cap (b0 :: c' :: rest) = res_code c' (udp_decode cap (b0 :: c :: rest)).
Proof.
  unfold udp_decode. rewrite !blen_cons.
  destruct (1 + (1 + blen rest) <? 4) eqn:Hs; [reflexivity|].
  apply Z.ltb_ge in Hs. assert (Hr : 2 <= blen rest) by lia.
  rewrite !idx_0. cbn [bind].
  destruct (negb (b0 / 64 =? 1)); [reflexivity|].
  destruct (Z.land b0 15 >? 8); [reflexivity|].
  rewrite !idx_1. cbn [bind].
  rewrite !(sl_to_4 _ _ _ Hr). cbn [bind]. rewrite !sl_from_2. cbn [bind].
  destruct (idx (firstn 2 rest) 0) as [m1| | |]; cbn [bind res_code]; try reflexivity.
  destruct (idx (firstn 2 rest) 1) as [m0| | |]; cbn [bind res_code]; try reflexivity.
  rewrite !(sl_from_4 _ _ _ Hr). cbn [bind].
  destruct (blen (skipn 2 rest) <? Z.land b0 15); [reflexivity|].
  destruct (sl_to (skipn 2 rest) (Z.land b0 15)) as [tok| | |]; cbn [bind res_code]; try reflexivity.
  destruct (sl_from (skipn 2 rest) (Z.land b0 15)) as [d| | |]; cbn [bind res_code]; try reflexivity.
  destruct (unmarshal_opts (S (length d)) CoapOptionDefs d 0 0 0 cap []) as [[proc os]| | |]; cbn [bind res_code]; try reflexivity.
  destruct (sl_from d proc) as [pay| | |]; cbn [bind res_code]; reflexivity.
Qed.

(* the same, phrased with [put_code]: for EVERY byte string (malformed ones included) *)
Theorem udp_decode_put_code cap data c : udp_decode cap (put_code data c) = res_code c (udp_decode cap data).
Proof.
  destruct data as [|b0 [|x rest]]; [reflexivity|reflexivity|]. apply udp_decode_ignores_code.
Qed.

(* contrast: the stream coder DOES select the registry by code (RFC 8323 section 5).  The
   same body -- option 2 with five bytes, ETag with four -- keeps both options under code
   2.05 and loses both under 7.01 (CSM: option 2 at most 4 bytes, option 4 empty). *)
Example tcp_decode_selects_by_code :
  let os := [(2, [1; 2; 3; 4; 5]); (4, [222; 173; 190; 239])] in
  let m c os := {| m_tok := [7]; m_code := c; m_opts := os; m_pay := [1]; m_mid := 0; m_typ := 0 |} in
  tcp_decode 2 (spec_tcp_bytes (m 69 os)) = Ok (m 69 os, blen (spec_tcp_bytes (m 69 os))) /\
  tcp_decode 2 (spec_tcp_bytes (m 225 os)) = Ok (m 225 [], blen (spec_tcp_bytes (m 225 os))) /\
  udp_decode 2 (spec_udp_bytes (m 225 os)) = Ok (m 225 os, blen (spec_udp_bytes (m 225 os))).
Proof. vm_compute. repeat split. Qed.
