(* Correspondence evaluator of C01.  A case carries a message and everything
   observed on the Go implementation for it. *)
From Coq Require Import ZArith NArith List Bool.
From GoCoap Require Import Base.Bytes Base.Cases Gen.OptionDefs Gen.TcpConsts
     Codec.Options Codec.Udp Codec.Tcp Codec.Pool Codec.Spec Codec.SpecCode.
From GoCoap Require Export Codec.Run.
Import ListNotations.
Open Scope Z_scope.

Inductive case :=
(* coder: 0 datagram, 1 stream.
   o_size: (kind, n) of Size.
   o_bufs: per destination length L: (L, (kind, n, csum of buf[:L] afterwards), bytes after len untouched).
   cap / o_dec: capacity given to Decode and its result on the bytes Encode produced (None: nothing was produced).
   o_hdr: DecodeHeader on those bytes (stream coder).
   o_pm: MarshalWithEncoder of a pooled message holding m: (kind, length, csum).
   o_pu: UnmarshalWithDecoder of those bytes into a fresh pooled message, and the final capacity of its options. *)
| Enc (coder : Z) (m : msg) (o_size : Z * Z) (o_bufs : list (Z * eobs * bool))
      (cap : Z) (o_dec : option dobs) (o_hdr : option hobs)
      (o_pm : eobs) (o_pu : option (dobs * Z))
(* Stream buffer: the frames the stream coder produces for ms, back to back, followed by
   [tail] (nothing, or the beginning of one more frame).  The buffer is taken apart from the
   front: at each position Decode (option capacity cap), DecodeHeader and the pooled
   UnmarshalWithDecoder see ALL the remaining bytes; the position advances by the count
   Decode returned; at most |ms| + 1 positions.  o_frames: what was observed per position. *)
| Strm (ms : list msg) (tail : list Z) (cap : Z) (o_frames : list (dobs * hobs * dobs))
(* Datagram, every code byte: m is encoded ONCE by the datagram coder; then, for each c of
   [codes], the Code field (offset 1) of a copy of the produced bytes is overwritten with c and
   the copy goes through Decode (option capacity cap) and through the pooled
   UnmarshalWithDecoder.  o_codes: per code (Decode, pooled).  Empty when the coder refused m. *)
| UCodes (m : msg) (cap : Z) (codes : list Z) (o_codes : list (dobs * dobs)).

(* the harness loop of a Strm case, on the model *)
Fixpoint frames_obs (fuel : nat) (cap : Z) (data : list Z) : list (dobs * hobs * dobs) :=
  match fuel with
  | O => []
  | S f =>
    if blen data =? 0 then []
    else
      let r := tcp_decode cap data in
      (dobs_of r, hobs_of (tcp_decode_header data), fst (pu_obs (pool_decode (pool_fuel data) tcp_decode 16 data))) ::
      match r with
      | Ok (_, n) => if (0 <? n) && (n <=? blen data) then frames_obs f cap (skipn (Z.to_nat n) data) else []
      | _ => []
      end
  end.

Fixpoint concat_some (l : list (option (list Z))) : option (list Z) :=
  match l with
  | [] => Some []
  | None :: _ => None
  | Some b :: r => match concat_some r with Some c => Some (b ++ c) | None => None end
  end.

Definition frame_obs_eqb (a b : dobs * hobs * dobs) : bool :=
  let '(d1, h1, p1) := a in let '(d2, h2, p2) := b in dobs_eqb d1 d2 && hobs_eqb h1 h2 && dobs_eqb p1 p2.

Definition pair_obs_eqb (a b : dobs * dobs) : bool := dobs_eqb (fst a) (fst b) && dobs_eqb (snd a) (snd b).

Definition agrees (c : case) : bool :=
  match c with
  | UCodes m cap codes o_codes =>
    match model_bytes 0 m with
    | Some bs =>
      list_eqb pair_obs_eqb
        (map (fun c => let b := put_code bs c in
                       (dobs_of (udp_decode cap b), fst (pu_obs (pool_decode (pool_fuel b) udp_decode 16 b)))) codes)
        o_codes
    | None => match o_codes with [] => true | _ => false end
    end
  | Strm ms tail cap o_frames =>
    match concat_some (map (model_bytes 1) ms) with
    | Some bs => list_eqb frame_obs_eqb (frames_obs (S (length ms)) cap (bs ++ tail)) o_frames
    | None => false
    end
  | Enc coder m o_size o_bufs cap o_dec o_hdr o_pm o_pu =>
    let '(sk, sn) := size_obs (size_of coder m) in
    (sk =? fst o_size) && (sn =? snd o_size) &&
    forallb (fun '(L, o, intact) => eobs_eqb (eobs_of (encode_into coder m (sbuf L)) (sbuf L)) o && intact) o_bufs &&
    let mb := model_bytes coder m in
    opt_eqb dobs_eqb (option_map (fun b => dobs_of (decode coder cap b)) mb) o_dec &&
    (if coder =? 0 then match o_hdr with None => true | _ => false end
     else opt_eqb hobs_eqb (option_map (fun b => hobs_of (tcp_decode_header b)) mb) o_hdr) &&
    let pm := pool_marshal (size_of coder) (encode_into coder) 256 m in
    eobs_eqb (pm_obs pm) o_pm &&
    match pm, o_pu with
    | Ok b, Some (d, fc) =>
        let '(d', fc') := pu_obs (pool_decode (pool_fuel b) (decode coder) 16 b) in
        dobs_eqb d' d && (fc' =? fc)
    | Ok _, None => false
    | _, Some _ => false
    | _, None => true
    end
  end.

(* ---- the property on the OBSERVED output, from Spec only ----
   classes: 1 size differs from the length of the RFC encoding, 2 too-small
   buffer not reported with the size / buffer touched, 3 bytes differ from the
   RFC encoding or memory after the buffer touched, 4 decode(encode m) differs
   from m or consumes a different length, 5 stream header pre-parse differs,
   6 pooled marshal/unmarshal differs, 7 message outside the preconditions
   accepted, 9 datagram type 4..255 accepted and truncated (F9),
   8 stream Decode of a buffer that continues after the frame: message differs or the
   consumed count is not the number of bytes the encoder produced for that frame,
   10 datagram framing: the decoded options / payload / header fields of a well-formed
   message depend on its code byte (datagram framing has ONE option registry; a code byte
   225..229 does not select the RFC 8323 signalling option tables there). *)
Definition tcp_limit : Z := messageMaxLen.

Definition view_of (coder : Z) (m : msg) : msg := if coder =? 0 then m else tcp_view m.

(* expected observation for frame m at the front of a longer buffer, from Spec only *)
Definition strm_class (m : msg) (o : dobs * hobs * dobs) : N :=
  let '(d, h, p) := o in
  let n := blen (spec_tcp_bytes m) in
  if negb (dobs_eqb d (DOk (proj (tcp_view m)) n)) then 8%N
  else if negb (match h with
                | HOk hl ml code tok => (ml =? n) && (code =? m_code m) && bytes_eqb tok (m_tok m) && (hl =? n - blen (spec_body m))
                | _ => false end) then 5%N
  else if negb (dobs_eqb p (DOk (proj (tcp_view m)) n)) then 6%N
  else 0%N.

Fixpoint strm_classes (ms : list msg) (os : list (dobs * hobs * dobs)) : N :=
  match ms with
  | [] => 0%N
  | m :: mr =>
    match os with
    | [] => 8%N      (* a frame that was produced was never returned *)
    | o :: or => match strm_class m o with 0%N => strm_classes mr or | k => k end
    end
  end.

(* expected observation for code c, from Spec / SpecCode only *)
Definition ucode_class (m : msg) (c : Z) (o : dobs * dobs) : N :=
  let want := DOk (proj (with_code m c)) (blen (spec_udp_bytes m)) in
  if dobs_eqb (fst o) want && dobs_eqb (snd o) want then 0%N else 10%N.

Fixpoint ucode_classes (m : msg) (codes : list Z) (os : list (dobs * dobs)) : N :=
  match codes with
  | [] => 0%N
  | c :: cr =>
    match os with
    | [] => 10%N     (* the encoder produced bytes (m is well-formed) but nothing was decoded *)
    | o :: or => match ucode_class m c o with 0%N => ucode_classes m cr or | k => k end
    end
  end.

Definition pclass (c : case) : N :=
  match c with
  | UCodes m cap codes o_codes =>
    if wf_udp m && (blen (m_opts m) <=? cap) && forallb code_ok codes
    then ucode_classes m codes o_codes
    else 0%N
  | Strm ms tail cap o_frames =>
    if forallb (fun m => wf_tcp tcp_limit m && (blen (m_opts m) <=? cap)) ms
    then strm_classes ms o_frames
    else 0%N
  | Enc coder m o_size o_bufs cap o_dec o_hdr o_pm o_pu =>
    let wf := if coder =? 0 then wf_udp m else wf_tcp tcp_limit m in
    let big_tok := blen (m_tok m) >? 8 in
    let bad_mid := (coder =? 0) && negb ((0 <=? m_mid m) && (m_mid m <=? 65535)) in
    let bad_typ := (coder =? 0) && negb ((0 <=? m_typ m) && (m_typ m <=? 3)) in
    if wf then
      let expected := if coder =? 0 then spec_udp_bytes m else spec_tcp_bytes m in
      let n := blen expected in
      if negb ((fst o_size =? 0) && (snd o_size =? n)) then 1%N
      else if negb (forallb (fun '(L, (k, sz, cs), intact) =>
                 if L <? n then true else (k =? 0) && (sz =? n) && (cs =? csum (expected ++ sbuf (L - n))) && intact) o_bufs) then 3%N
      else if negb (forallb (fun '(L, (k, sz, cs), intact) =>
                 if L <? n then (k =? 1) && (sz =? n) && (cs =? csum (sbuf L)) && intact else true) o_bufs) then 2%N
      (* Decode is given an option slice of capacity cap: when that cannot hold the options the
         documented answer is ErrOptionsTooSmall (class 6 of the error numbering) *)
      else if negb (match o_dec with
                    | Some d => if cap <? blen (m_opts m) then dobs_eqb d (DErr 6)
                                else dobs_eqb d (DOk (proj (view_of coder m)) n)
                    | None => false end) then 4%N
      else if negb ((coder =? 0) ||
                    match o_hdr with
                    | Some (HOk hl ml code tok) =>
                        (ml =? n) && (code =? m_code m) && bytes_eqb tok (m_tok m) && (hl =? n - blen (spec_body m))
                    | _ => false end) then 5%N
      else if negb (eobs_eqb o_pm (0, n, csum expected) &&
                    match o_pu with Some (d, _) => dobs_eqb d (DOk (proj (view_of coder m)) n) | None => false end) then 6%N
      else 0%N
    else if big_tok || bad_mid || bad_typ then
      let refused := forallb (fun '(L, (k, sz, cs), intact) => negb (k =? 0) && negb (k =? 1) && (cs =? csum (sbuf L)) && intact) o_bufs
                     && negb (fst (fst o_pm) =? 0) in
      if refused then 0%N
      else if negb big_tok && negb bad_mid && (4 <=? m_typ m) && (m_typ m <=? 255) then 9%N
      else 7%N
    else 0%N
  end.

Definition mismatches (cs : list case) : list N := bad_indices (fun c => negb (agrees c)) cs.
Definition property_failures (cs : list case) : list (N * N) := classes pclass cs.
