(* Observe/Proofs.v -- the model of Observe/Model.v satisfies the predicates of Observe/Spec.v
   for all sequence numbers, times and event histories. *)
From Coq Require Import ZArith List Bool Lia.
From GoCoap Require Import Base.Bytes Gen.Timing Gen.ObserveConsts Observe.Model Observe.Spec.
Import ListNotations.
Open Scope Z_scope.

Ltac Zify.zify_post_hook ::= Z.div_mod_to_equations.

(* ------------------------------------------------------------------ *)
(* A. the freshness predicate                                          *)
(* ------------------------------------------------------------------ *)

(* the constant the code uses is the RFC's 128 seconds; the codes are 2.05 / 2.03 *)
Lemma timeout_is_rfc : ObservationSequenceTimeout = rfc_128s.
Proof. reflexivity. Qed.
Lemma code_ok_rfc c : code_ok c = rfc_code_ok c.
Proof. reflexivity. Qed.

Lemma time_sub_gt t u c : minDuration <= c -> c < maxDuration ->
  (time_sub t u >? c) = (t - u >? c).
Proof.
  intros Hlo Hhi. unfold time_sub.
  destruct (Z.gtb_spec (t - u) maxDuration) as [Hg|Hg].
  - rewrite (proj2 (Z.gtb_lt _ _)) by lia. symmetry. apply Z.gtb_lt. lia.
  - destruct (Z.ltb_spec (t - u) minDuration) as [Hl|Hl].
    + destruct (Z.gtb_spec minDuration c); destruct (Z.gtb_spec (t - u) c); try reflexivity; lia.
    + reflexivity.
Qed.

Lemma valid_rfc_uint32 v1 v2 t1 t2 :
  0 <= v1 < 2 ^ 32 -> 0 <= v2 < 2 ^ 32 ->
  valid v1 v2 t1 t2 = rfc_fresh v1 v2 t1 t2.
Proof.
  intros H1 H2. unfold valid, rfc_fresh, u32.
  rewrite time_sub_gt by (rewrite timeout_is_rfc; unfold minDuration, maxDuration, rfc_128s; lia).
  rewrite timeout_is_rfc.
  change (2 ^ 32) with 4294967296 in *. change (2 ^ 23) with 8388608.
  rewrite !Z.gtb_ltb.
  replace (t1 + rfc_128s <? t2) with (rfc_128s <? t2 - t1)
    by (destruct (Z.ltb_spec rfc_128s (t2 - t1)); destruct (Z.ltb_spec (t1 + rfc_128s) t2); try reflexivity; lia).
  destruct (Z.ltb_spec v1 v2) as [Hlt|Hge]; cbn [andb orb].
  - rewrite (Z.mod_small (v2 - v1)) by lia.
    destruct (v2 - v1 <? 8388608); cbn [orb]; [reflexivity|].
    rewrite (proj2 (Z.ltb_ge v2 v1)) by lia. cbn [andb orb].
    destruct (rfc_128s <? t2 - t1); reflexivity.
  - destruct (Z.ltb_spec v2 v1) as [Hgt|Hle]; cbn [andb orb].
    + rewrite (Z.mod_small (v1 - v2)) by lia.
      destruct (8388608 <? v1 - v2); cbn [orb]; [reflexivity|].
      destruct (rfc_128s <? t2 - t1); reflexivity.
    + destruct (rfc_128s <? t2 - t1); reflexivity.
Qed.

Lemma valid_rfc v1 v2 t1 t2 :
  0 <= v1 < 2 ^ 24 -> 0 <= v2 < 2 ^ 24 ->
  valid v1 v2 t1 t2 = rfc_fresh v1 v2 t1 t2.
Proof.
  intros H1 H2. apply valid_rfc_uint32; change (2 ^ 24) with 16777216 in *; change (2 ^ 32) with 4294967296; lia.
Qed.

(* RFC 7641 3.4 is serial-number arithmetic on 24 bits: V2 is fresher than V1 iff it is
   1 .. 2^23-1 steps ahead of V1 modulo 2^24 (or 128 s have passed) *)
Definition serial_fresh (v1 v2 t1 t2 : Z) : bool :=
  ((0 <? (v2 - v1) mod 2 ^ 24) && ((v2 - v1) mod 2 ^ 24 <? 2 ^ 23)) || (t2 - t1 >? rfc_128s).

Lemma rfc_serial v1 v2 t1 t2 :
  0 <= v1 < 2 ^ 24 -> 0 <= v2 < 2 ^ 24 ->
  rfc_fresh v1 v2 t1 t2 = serial_fresh v1 v2 t1 t2.
Proof.
  intros H1 H2. unfold rfc_fresh, serial_fresh.
  change (2 ^ 24) with 16777216 in *. change (2 ^ 23) with 8388608.
  rewrite !Z.gtb_ltb.
  replace (t1 + rfc_128s <? t2) with (rfc_128s <? t2 - t1)
    by (destruct (Z.ltb_spec rfc_128s (t2 - t1)); destruct (Z.ltb_spec (t1 + rfc_128s) t2); try reflexivity; lia).
  f_equal.
  destruct (Z.ltb_spec v1 v2); destruct (Z.ltb_spec (v2 - v1) 8388608); destruct (Z.ltb_spec v2 v1);
    destruct (Z.ltb_spec 8388608 (v1 - v2)); destruct (Z.ltb_spec 0 ((v2 - v1) mod 16777216));
    destruct (Z.ltb_spec ((v2 - v1) mod 16777216) 8388608); cbn [andb orb]; try reflexivity; lia.
Qed.

Lemma valid_serial v1 v2 t1 t2 :
  0 <= v1 < 2 ^ 24 -> 0 <= v2 < 2 ^ 24 ->
  valid v1 v2 t1 t2 = serial_fresh v1 v2 t1 t2.
Proof. intros H1 H2. rewrite valid_rfc by assumption. apply rfc_serial; assumption. Qed.

(* within 128 s: duplicates are not fresh, and "fresher" is antisymmetric *)
Lemma valid_duplicate v t1 t2 : 0 <= v < 2 ^ 24 -> valid v v t1 t2 = (t2 - t1 >? rfc_128s).
Proof.
  intros H. rewrite valid_serial by assumption. unfold serial_fresh.
  rewrite Z.sub_diag. reflexivity.
Qed.

Lemma valid_antisym v1 v2 t1 t2 t1' t2' :
  0 <= v1 < 2 ^ 24 -> 0 <= v2 < 2 ^ 24 -> t2 - t1 <= rfc_128s -> t2' - t1' <= rfc_128s ->
  valid v1 v2 t1 t2 = true -> valid v2 v1 t1' t2' = false.
Proof.
  intros H1 H2 Ht Ht'. rewrite !valid_serial by assumption. unfold serial_fresh.
  change (2 ^ 24) with 16777216 in *. change (2 ^ 23) with 8388608.
  rewrite !Z.gtb_ltb.
  rewrite (proj2 (Z.ltb_ge rfc_128s (t2 - t1))) by lia.
  rewrite (proj2 (Z.ltb_ge rfc_128s (t2' - t1'))) by lia.
  rewrite !orb_false_r. intros Hf. apply andb_true_iff in Hf. destruct Hf as [Ha Hb].
  apply Z.ltb_lt in Ha, Hb. apply andb_false_iff.
  destruct (Z.ltb_spec ((v1 - v2) mod 16777216) 8388608); [left|right; reflexivity].
  apply Z.ltb_ge. lia.
Qed.

(* ------------------------------------------------------------------ *)
(* B. wantBeNotified: the state changes only on delivery               *)
(* ------------------------------------------------------------------ *)

Lemma want_dropped o sq now o' : want o sq now = (o', false) -> o' = o.
Proof.
  unfold want. destruct sq as [v|]; [|intros H; inversion H].
  destruct (valid (o_seq o) v (o_last o) now); intros H; inversion H; reflexivity.
Qed.

Lemma want_no_seq o now : want o None now = (o, true).
Proof. reflexivity. Qed.

Lemma want_delivered o v now o' :
  want o (Some v) now = (o', true) ->
  valid (o_seq o) v (o_last o) now = true /\
  o_seq o' = v /\ o_last o' = now /\ o_id o' = o_id o /\ o_tok o' = o_tok o /\ o_wait o' = o_wait o.
Proof.
  unfold want. destruct (valid (o_seq o) v (o_last o) now); intros H; inversion H.
  repeat split; reflexivity.
Qed.

Lemma want_id o sq now : o_id (fst (want o sq now)) = o_id o /\ o_tok (fst (want o sq now)) = o_tok o.
Proof.
  unfold want. destruct sq as [v|]; [|split; reflexivity].
  destruct (valid (o_seq o) v (o_last o) now); split; reflexivity.
Qed.

(* ------------------------------------------------------------------ *)
(* C. the table                                                        *)
(* ------------------------------------------------------------------ *)

Lemma tget_tdel_same k t : tget k (tdel k t) = None.
Proof.
  induction t as [|[k' o] r IH]; cbn [tdel tget]; [reflexivity|].
  destruct (Z.eqb_spec k' k) as [E|N]; [exact IH|].
  cbn [tget]. destruct (Z.eqb_spec k' k); [contradiction|exact IH].
Qed.

Lemma tget_tdel_other k k' t : k' <> k -> tget k' (tdel k t) = tget k' t.
Proof.
  intros Hn. induction t as [|[k0 o] r IH]; cbn [tdel tget]; [reflexivity|].
  destruct (Z.eqb_spec k0 k) as [E|N].
  - rewrite IH. destruct (Z.eqb_spec k0 k'); [subst; contradiction|reflexivity].
  - cbn [tget]. rewrite IH. reflexivity.
Qed.

Lemma tget_tset_same k o t : tget k (tset k o t) = Some o.
Proof. unfold tset. cbn [tget]. rewrite Z.eqb_refl. reflexivity. Qed.

Lemma tget_tset_other k k' o t : k' <> k -> tget k' (tset k o t) = tget k' t.
Proof.
  intros Hn. unfold tset. cbn [tget].
  destruct (Z.eqb_spec k k'); [subst; contradiction|]. apply tget_tdel_other. exact Hn.
Qed.

(* ------------------------------------------------------------------ *)
(* D. lists, traces                                                    *)
(* ------------------------------------------------------------------ *)

Fixpoint last_opt {A} (l : list A) : option A :=
  match l with
  | [] => None
  | a :: r => match r with [] => Some a | _ => last_opt r end
  end.

Lemma last_opt_snoc {A} (l : list A) a : last_opt (l ++ [a]) = Some a.
Proof.
  induction l as [|b r IH]; [reflexivity|].
  cbn [app last_opt]. destruct (r ++ [a]) eqn:E; [destruct r; discriminate|]. exact IH.
Qed.

Lemma chain_ok_snoc l v t :
  chain_ok l = true ->
  match last_opt l with None => True | Some (v1, t1) => rfc_fresh v1 v t1 t = true end ->
  chain_ok (l ++ [(v, t)]) = true.
Proof.
  induction l as [|[v0 t0] r IH]; intros Hc Hl; [reflexivity|].
  destruct r as [|[v1 t1] r'].
  - cbn [app chain_ok]. cbn [last_opt] in Hl. rewrite Hl. reflexivity.
  - cbn [app chain_ok] in *. apply andb_true_iff in Hc. destruct Hc as [Hc1 Hc2].
    rewrite Hc1. cbn [andb]. apply IH; [exact Hc2|exact Hl].
Qed.

Definition ev_toks (e : ev) : list (list Z) := match e with EReg tok => [tok] | _ => [] end.

Lemma reg_tokens_app tr1 tr2 : reg_tokens (tr1 ++ tr2) = reg_tokens tr1 ++ reg_tokens tr2.
Proof.
  induction tr1 as [|[e os] r IH]; [reflexivity|].
  cbn [app reg_tokens]. destruct e; rewrite IH; reflexivity.
Qed.

Lemma reg_tokens_snoc tr e os : reg_tokens (tr ++ [(e, os)]) = reg_tokens tr ++ ev_toks e.
Proof. rewrite reg_tokens_app. destruct e; reflexivity. Qed.

Lemma deliveries_snoc id tr x : deliveries id (tr ++ [x]) = deliveries id tr ++ deliveries_ev id x.
Proof. unfold deliveries. rewrite flat_map_app. cbn [flat_map]. rewrite app_nil_r. reflexivity. Qed.

Definition ended_in (id : nat) (tr : trace) : bool := existsb (fun x => existsb (ends id) (snd x)) tr.

Lemma ended_in_snoc id tr x : ended_in id (tr ++ [x]) = ended_in id tr || existsb (ends id) (snd x).
Proof. unfold ended_in. rewrite existsb_app. cbn [existsb]. rewrite orb_false_r. reflexivity. Qed.

Lemma no_cb_snoc id tr x : no_cb id (tr ++ [x]) = no_cb id tr && negb (existsb (is_cb id) (snd x)).
Proof. unfold no_cb. rewrite forallb_app. cbn [forallb]. rewrite andb_true_r. reflexivity. Qed.

Lemma after_ok_snoc id tr x :
  after_ok id tr = true ->
  (ended_in id tr = true -> existsb (is_cb id) (snd x) = false) ->
  after_ok id (tr ++ [x]) = true.
Proof.
  induction tr as [|y r IH]; intros Ha He.
  - cbn [app after_ok]. destruct (existsb (ends id) (snd x)); reflexivity.
  - cbn [app after_ok] in *. unfold ended_in in He. cbn [existsb] in He.
    destruct (existsb (ends id) (snd y)).
    + rewrite no_cb_snoc, Ha. cbn [andb]. rewrite He by reflexivity. reflexivity.
    + apply IH; [exact Ha|exact He].
Qed.

(* ------------------------------------------------------------------ *)
(* E. invariant of a run                                               *)
(* ------------------------------------------------------------------ *)

(* sequence numbers are uint32 (what r.Observe() returns) *)
Definition wf_ev (dec : msg -> option Z) (e : ev) : Prop :=
  match e with
  | EMsg m _ => match dec m with Some v => 0 <= v < 2 ^ 32 | None => True end
  | _ => True
  end.

(* what the code guarantees about tokens: equality of Token.Hash() *)
Definition own_hash (toks : list (list Z)) (o : out) : Prop :=
  match o with
  | Cb i tok _ _ => exists t, nth_error toks i = Some t /\ crc64 t = crc64 tok
  | _ => True
  end.

Definition reg_hash (toks : list (list Z)) (e : ev) (o : out) : Prop :=
  match o with
  | RegRet i cls =>
      (cls = 0 \/ cls = 1 -> exists m now t, e = EMsg m now /\ code_ok (m_code m) = true /\
                                           nth_error toks i = Some t /\ crc64 t = crc64 (m_tok m)) /\
      (cls = 2 -> exists m now, e = EMsg m now /\ code_ok (m_code m) = false)
  | _ => True
  end.

Lemma nth_error_app_l {A} (l l' : list A) n x : nth_error l n = Some x -> nth_error (l ++ l') n = Some x.
Proof.
  intros H. rewrite nth_error_app1; [exact H|]. apply nth_error_Some. rewrite H. discriminate.
Qed.

Lemma own_hash_mono toks l o : own_hash toks o -> own_hash (toks ++ l) o.
Proof.
  destruct o as [i tok sq tag| | |]; cbn [own_hash]; try (intros; exact I).
  intros [t [Hn Hc]]. exists t. split; [apply nth_error_app_l; exact Hn|exact Hc].
Qed.

Lemma reg_hash_mono toks l e o : reg_hash toks e o -> reg_hash (toks ++ l) e o.
Proof.
  destruct o as [| |i cls|]; cbn [reg_hash]; try (intros; exact I).
  intros [H1 H2]. split; [|exact H2].
  intros Hc. destruct (H1 Hc) as [m [now [t [He [Hk [Hn Hh]]]]]].
  exists m, now, t. repeat split; try assumption. apply nth_error_app_l; exact Hn.
Qed.

(* W stands for "every sequence number of the history is a uint32"; only the facts that
   need it (freshness of consecutive deliveries) are guarded by it *)
Section Invariant.
Variable W : Prop.

Record Inv (s : st) (tr : trace) : Prop := {
  inv_regs : reg_tokens tr = regs s;
  inv_ent : forall k o, tget k (tbl s) = Some o ->
      nth_error (regs s) (o_id o) = Some (o_tok o) /\ crc64 (o_tok o) = k /\ (W -> 0 <= o_seq o < 2 ^ 32);
  inv_last : forall k o, tget k (tbl s) = Some o ->
      match last_opt (deliveries (o_id o) tr) with
      | None => True
      | Some (v, t) => v = o_seq o /\ t = o_last o
      end;
  inv_chain : forall id, W -> chain_ok (deliveries id tr) = true;
  inv_nodel : forall id, (length (regs s) <= id)%nat -> deliveries id tr = [];
  inv_noend : forall id, (length (regs s) <= id)%nat -> ended_in id tr = false;
  inv_ended : forall id, ended_in id tr = true -> forall k o, tget k (tbl s) = Some o -> o_id o <> id;
  inv_after : forall id, after_ok id tr = true;
  inv_own : Forall (fun x => Forall (own_hash (regs s)) (snd x)) tr;
  inv_reg : Forall (fun x => Forall (reg_hash (regs s) (fst x)) (snd x)) tr
}.

Lemma inv0 : Inv st0 [].
Proof.
  constructor; cbn; try reflexivity; try (intros; discriminate); try (intros; reflexivity); try constructor.
Qed.

Lemma inv_id_lt s tr k o : Inv s tr -> tget k (tbl s) = Some o -> (o_id o < length (regs s))%nat.
Proof.
  intros HI H. destruct (inv_ent _ _ HI _ _ H) as [Hn _]. apply nth_error_Some. rewrite Hn. discriminate.
Qed.

Lemma inv_unique s tr k1 k2 o1 o2 : Inv s tr ->
  tget k1 (tbl s) = Some o1 -> tget k2 (tbl s) = Some o2 -> o_id o1 = o_id o2 -> k1 = k2.
Proof.
  intros HI H1 H2 He.
  destruct (inv_ent _ _ HI _ _ H1) as [Hn1 [Hc1 _]]. destruct (inv_ent _ _ HI _ _ H2) as [Hn2 [Hc2 _]].
  rewrite He in Hn1. rewrite Hn1 in Hn2. inversion Hn2 as [Ht]. rewrite <- Hc1, <- Hc2, Ht. reflexivity.
Qed.

Lemma Forall_mono_in {A} (P Q : A -> Prop) l : (forall x, P x -> Q x) -> Forall P l -> Forall Q l.
Proof. intros H HF. induction HF; constructor; auto. Qed.

(* events during which no callback runs *)
Lemma inv_quiet s tr e os s' :
  Inv s tr ->
  (forall id, deliveries_ev id (e, os) = []) ->
  (forall id, existsb (is_cb id) os = false) ->
  regs s' = regs s ++ ev_toks e ->
  (forall k o, tget k (tbl s') = Some o ->
      tget k (tbl s) = Some o \/
      (o_id o = length (regs s) /\ o_seq o = 0 /\ ev_toks e = [o_tok o] /\ crc64 (o_tok o) = k)) ->
  (forall id, existsb (ends id) os = true ->
      (id < length (regs s'))%nat /\ forall k o, tget k (tbl s') = Some o -> o_id o <> id) ->
  Forall (own_hash (regs s')) os -> Forall (reg_hash (regs s') e) os ->
  Inv s' (tr ++ [(e, os)]).
Proof.
  intros HI Hd Hcb Hregs Hent Hends Hown Hreg.
  assert (Hdel : forall id, deliveries id (tr ++ [(e, os)]) = deliveries id tr).
  { intros id. rewrite deliveries_snoc, Hd, app_nil_r. reflexivity. }
  assert (Hlen : (length (regs s) <= length (regs s'))%nat).
  { rewrite Hregs, app_length. lia. }
  constructor.
  - rewrite reg_tokens_snoc, (inv_regs _ _ HI). symmetry. exact Hregs.
  - intros k o H. destruct (Hent _ _ H) as [Hold|[Hid [Hseq [Htok Hk]]]].
    + destruct (inv_ent _ _ HI _ _ Hold) as [Hn [Hc Hr]]. repeat split; try assumption; try lia.
      rewrite Hregs. apply nth_error_app_l. exact Hn.
    + repeat split; try assumption; try (rewrite Hseq; change (2 ^ 32) with 4294967296; lia).
      rewrite Hregs, Htok, Hid. rewrite nth_error_app2 by lia. rewrite Nat.sub_diag. reflexivity.
  - intros k o H. rewrite Hdel. destruct (Hent _ _ H) as [Hold|[Hid _]].
    + exact (inv_last _ _ HI _ _ Hold).
    + rewrite (inv_nodel _ _ HI (o_id o)) by lia. exact I.
  - intros id. rewrite Hdel. apply (inv_chain _ _ HI).
  - intros id Hge. rewrite Hdel. apply (inv_nodel _ _ HI). lia.
  - intros id Hge. rewrite ended_in_snoc. rewrite (inv_noend _ _ HI) by lia. cbn [orb snd].
    destruct (existsb (ends id) os) eqn:E; [|reflexivity].
    destruct (Hends _ E) as [Hlt _]. lia.
  - intros id He k o H. rewrite ended_in_snoc in He. cbn [snd] in He.
    destruct (existsb (ends id) os) eqn:E.
    + destruct (Hends _ E) as [_ Hne]. exact (Hne _ _ H).
    + rewrite orb_false_r in He. destruct (Hent _ _ H) as [Hold|[Hid _]].
      * exact (inv_ended _ _ HI _ He _ _ Hold).
      * intros Heq. rewrite (inv_noend _ _ HI id) in He by lia. discriminate.
  - intros id. apply after_ok_snoc; [apply (inv_after _ _ HI)|]. intros _. apply Hcb.
  - apply Forall_app. split.
    + eapply Forall_mono_in; [|exact (inv_own _ _ HI)]. intros x Hx.
      eapply Forall_mono_in; [|exact Hx]. intros o Ho. rewrite Hregs. apply own_hash_mono. exact Ho.
    + constructor; [exact Hown|constructor].
  - apply Forall_app. split.
    + eapply Forall_mono_in; [|exact (inv_reg _ _ HI)]. intros x Hx.
      eapply Forall_mono_in; [|exact Hx]. intros o Ho. rewrite Hregs. apply reg_hash_mono. exact Ho.
    + constructor; [exact Hreg|constructor].
Qed.

Lemma step_reg s tr tok s' os : Inv s tr -> reg s tok = (s', os) -> Inv s' (tr ++ [(EReg tok, os)]).
Proof.
  intros HI H. unfold reg in H.
  assert (Hnocb : forall c id, existsb (is_cb id) [RegRet (length (regs s)) c] = false) by reflexivity.
  destruct tok as [|b tk].
  - (* empty token *)
    inversion H; subst s' os; clear H.
    apply (inv_quiet s); try assumption; cbn [regs tbl]; try reflexivity.
    + intros k o Ho. left. exact Ho.
    + intros id He. cbn [existsb ends orb] in He. rewrite orb_false_r in He.
      apply andb_true_iff in He. destruct He as [He _]. apply Nat.eqb_eq in He. subst id.
      split; [rewrite app_length; cbn; lia|].
      intros k o Ho. pose proof (inv_id_lt _ _ _ _ HI Ho). lia.
    + constructor; [exact I|constructor].
    + constructor; [|constructor]. cbn [reg_hash]. split; intros Hc; [destruct Hc|]; discriminate.
  - remember (b :: tk) as tok eqn:Etok.
    destruct (tget (crc64 tok) (tbl s)) as [o0|] eqn:Eg.
    + (* token in use: refused; the table is left alone *)
      replace (match tok with [] => (mkSt (tbl s) (regs s ++ [tok]), [RegRet (length (regs s)) 5]) | _ :: _ => (mkSt (tbl s) (regs s ++ [tok]), [RegRet (length (regs s)) 3]) end)
        with (mkSt (tbl s) (regs s ++ [tok]), [RegRet (length (regs s)) 3]) in H by (subst tok; reflexivity).
      inversion H; subst s' os; clear H.
      apply (inv_quiet s); try assumption; cbn [regs tbl]; try reflexivity.
      * intros k o Ho. left. exact Ho.
      * intros id He. cbn [existsb ends orb] in He. rewrite orb_false_r in He.
        apply andb_true_iff in He. destruct He as [He _]. apply Nat.eqb_eq in He. subst id.
        split; [rewrite app_length; cbn; lia|].
        intros k o Ho. pose proof (inv_id_lt _ _ _ _ HI Ho). lia.
      * constructor; [exact I|constructor].
      * constructor; [|constructor]. cbn [reg_hash]. split; intros Hc; [destruct Hc|]; discriminate.
    + replace (match tok with [] => (mkSt (tbl s) (regs s ++ [tok]), [RegRet (length (regs s)) 5]) | _ :: _ => (mkSt (tset (crc64 tok) (mkObs (length (regs s)) tok 0 zeroTimeUnixNano true) (tbl s)) (regs s ++ [tok]), []) end)
        with (mkSt (tset (crc64 tok) (mkObs (length (regs s)) tok 0 zeroTimeUnixNano true) (tbl s)) (regs s ++ [tok]), @nil out) in H by (subst tok; reflexivity).
      inversion H; subst s' os; clear H.
      apply (inv_quiet s); try assumption; cbn [regs tbl]; try reflexivity.
      * intros k o Ho. destruct (Z.eq_dec k (crc64 tok)) as [E|N].
        -- subst k. rewrite tget_tset_same in Ho. inversion Ho; subst o. right. cbn. repeat split; reflexivity.
        -- rewrite tget_tset_other in Ho by exact N. left. exact Ho.
      * intros id He. discriminate.
      * constructor.
      * constructor.
Qed.

Lemma step_cancel_with s tr id cls e s' os :
  ev_toks e = [] -> (forall i l, deliveries_ev i (e, l) = []) ->
  Inv s tr -> cancel_with s id cls = (s', os) -> Inv s' (tr ++ [(e, os)]).
Proof.
  intros Hev Hnd HI H. unfold cancel_with in H.
  destruct (nth_error (regs s) id) as [tok|] eqn:En.
  - destruct (tget (crc64 tok) (tbl s)) as [o0|] eqn:Eg; inversion H; subst s' os; clear H.
    + apply (inv_quiet s); try assumption; cbn [regs tbl]; rewrite ?Hev; try reflexivity; try (rewrite app_nil_r; reflexivity); try (intros; apply Hnd).
      * intros k o Ho. left. destruct (Z.eq_dec k (crc64 tok)) as [E|N].
        -- subst k. rewrite tget_tdel_same in Ho. discriminate.
        -- rewrite tget_tdel_other in Ho by exact N. exact Ho.
      * intros id' He. cbn [existsb ends orb] in He. rewrite orb_false_r in He. apply Nat.eqb_eq in He. subst id'.
        split; [apply nth_error_Some; rewrite En; discriminate|].
        intros k o Ho Hid. destruct (Z.eq_dec k (crc64 tok)) as [E|N].
        -- subst k. rewrite tget_tdel_same in Ho. discriminate.
        -- rewrite tget_tdel_other in Ho by exact N.
           destruct (inv_ent _ _ HI _ _ Ho) as [Hn [Hc _]]. rewrite Hid, En in Hn. inversion Hn; subst tok.
           apply N. symmetry. exact Hc.
      * constructor; [exact I|constructor].
      * constructor; [exact I|constructor].
    + apply (inv_quiet s); try assumption; cbn [regs tbl]; rewrite ?Hev; try reflexivity; try (rewrite app_nil_r; reflexivity); try (intros; apply Hnd).
      * intros k o Ho. left. exact Ho.
      * intros id' He. cbn [existsb ends orb] in He. rewrite orb_false_r in He. apply Nat.eqb_eq in He. subst id'.
        split; [apply nth_error_Some; rewrite En; discriminate|].
        intros k o Ho Hid.
        destruct (inv_ent _ _ HI _ _ Ho) as [Hn [Hc _]]. rewrite Hid, En in Hn. inversion Hn; subst tok.
        rewrite Hc, Ho in Eg. discriminate.
      * constructor; [exact I|constructor].
      * constructor; [exact I|constructor].
  - inversion H; subst s' os; clear H.
    apply (inv_quiet s); try assumption; cbn [regs tbl]; rewrite ?Hev; try reflexivity; try (rewrite app_nil_r; reflexivity); try (intros; apply Hnd).
    + intros k o Ho. left. exact Ho.
    + intros id' He. discriminate.
    + constructor.
    + constructor.
Qed.

Lemma step_cancel s tr id code s' os : Inv s tr -> cancel s id code = (s', os) -> Inv s' (tr ++ [(ECancel id code, os)]).
Proof. intros HI H. exact (step_cancel_with s tr id _ (ECancel id code) s' os eq_refl (fun _ _ => eq_refl) HI H). Qed.

Lemma step_cancel_err s tr id s' os : Inv s tr -> cancel_err s id = (s', os) -> Inv s' (tr ++ [(ECancelErr id, os)]).
Proof. intros HI H. exact (step_cancel_with s tr id _ (ECancelErr id) s' os eq_refl (fun _ _ => eq_refl) HI H). Qed.

Lemma step_quiet s tr : Inv s tr -> Inv s (tr ++ [(EQuiet, [])]).
Proof.
  intros HI. apply (inv_quiet s); try assumption; cbn [ev_toks existsb]; try reflexivity; try (rewrite app_nil_r; reflexivity).
  - intros k o Ho. left. exact Ho.
  - intros id He. discriminate.
  - constructor.
  - constructor.
Qed.

(* shape of Handler.Handle on a message whose key is in the table *)
Lemma handle_msg_some dec s m now o :
  tget (crc64 (m_tok m)) (tbl s) = Some o ->
  exists tail tb,
    handle_msg dec s m now =
      (mkSt tb (regs s),
       (if snd (want o (dec m) now) then [Cb (o_id o) (m_tok m) (dec m) (m_tag m)] else []) ++ tail) /\
    ((tb = tset (crc64 (m_tok m)) (set_wait (fst (want o (dec m) now)) false) (tbl s) /\
      (tail = [] \/ (tail = [RegRet (o_id o) 0] /\ code_ok (m_code m) = true))) \/
     (tb = tdel (crc64 (o_tok o)) (tbl s) /\
      ((tail = [RegRet (o_id o) 1] /\ code_ok (m_code m) = true) \/
       (tail = [RegRet (o_id o) 2] /\ code_ok (m_code m) = false)))).
Proof.
  intros Hg. unfold handle_msg. rewrite Hg.
  destruct (want o (dec m) now) as [o1 d] eqn:Ew. cbn [fst snd].
  destruct (o_wait o).
  - destruct (code_ok (m_code m)) eqn:Ec.
    + destruct (dec m) as [v|].
      * eexists; eexists. split; [reflexivity|]. left. split; [reflexivity|]. right. split; reflexivity.
      * eexists; eexists. split; [reflexivity|]. right. split; [reflexivity|]. left. split; reflexivity.
    + eexists; eexists. split; [reflexivity|]. right. split; [reflexivity|]. right. split; reflexivity.
  - exists [], (tset (crc64 (m_tok m)) (set_wait o1 false) (tbl s)). split; [rewrite app_nil_r; reflexivity|].
    left. split; [reflexivity|]. left. reflexivity.
Qed.

Lemma deliveries_ev_msg id m now id0 (d : bool) sq tag tok tail :
  (forall o, In o tail -> cb_of id now o = []) ->
  deliveries_ev id (EMsg m now, (if d then [Cb id0 tok sq tag] else []) ++ tail) =
  if d then match sq with Some v => if Nat.eqb id0 id then [(v, now)] else [] | None => [] end else [].
Proof.
  intros Ht. unfold deliveries_ev. cbn [fst snd]. rewrite flat_map_app.
  assert (E : flat_map (cb_of id now) tail = []).
  { induction tail as [|a r IH]; [reflexivity|]. cbn [flat_map]. rewrite (Ht a) by (left; reflexivity).
    apply IH. intros o Ho. apply Ht. right. exact Ho. }
  rewrite E, app_nil_r. destruct d; [|reflexivity]. cbn [flat_map cb_of]. rewrite app_nil_r.
  destruct sq; reflexivity.
Qed.

Lemma step_msg dec s tr m now s' os :
  Inv s tr -> (W -> wf_ev dec (EMsg m now)) -> handle_msg dec s m now = (s', os) ->
  Inv s' (tr ++ [(EMsg m now, os)]).
Proof.
  intros HI Hwf H.
  destruct (tget (crc64 (m_tok m)) (tbl s)) as [o|] eqn:Eg.
  2:{ (* nobody observes this key: handed to the next handler *)
    unfold handle_msg in H. rewrite Eg in H. inversion H; subst s' os; clear H.
    apply (inv_quiet s); try assumption; cbn [regs tbl ev_toks]; try reflexivity; try (rewrite app_nil_r; reflexivity).
    - intros k o Ho. left. exact Ho.
    - intros id He. discriminate.
    - constructor; [exact I|constructor].
    - constructor; [exact I|constructor]. }
  destruct (handle_msg_some dec s m now o Eg) as [tail [tb [Hh Hcases]]].
  rewrite Hh in H. inversion H; subst s' os; clear H Hh.
  set (k := crc64 (m_tok m)) in *.
  destruct (inv_ent _ _ HI _ _ Eg) as [Hn0 [Hc0 Hr0]].
  pose proof (inv_id_lt _ _ _ _ HI Eg) as Hlt0.
  destruct (want o (dec m) now) as [o1 d] eqn:Ew. cbn [fst snd] in *.
  pose proof (want_id o (dec m) now) as Hwid. rewrite Ew in Hwid. cbn [fst] in Hwid. destruct Hwid as [Hid1 Htok1].
  (* facts about the tail *)
  assert (Htail_cb : forall id o', In o' tail -> cb_of id now o' = []).
  { intros id o' Hin. destruct Hcases as [[_ [Ht|[Ht _]]]|[_ [[Ht _]|[Ht _]]]]; subst tail;
      try (destruct Hin as [Hin|[]]; subst o'; reflexivity). destruct Hin. }
  assert (Htail_iscb : forall id, existsb (is_cb id) tail = false).
  { intros id. destruct Hcases as [[_ [Ht|[Ht _]]]|[_ [[Ht _]|[Ht _]]]]; subst tail; reflexivity. }
  assert (Hdel : forall id, deliveries id (tr ++ [(EMsg m now, (if d then [Cb (o_id o) (m_tok m) (dec m) (m_tag m)] else []) ++ tail)]) =
            deliveries id tr ++ (if d then match dec m with Some v => if Nat.eqb (o_id o) id then [(v, now)] else [] | None => [] end else [])).
  { intros id. rewrite deliveries_snoc. rewrite deliveries_ev_msg by (apply Htail_cb). reflexivity. }
  (* the observation's new state *)
  assert (Hseq1 : W -> 0 <= o_seq o1 < 2 ^ 32).
  { intros HW. specialize (Hwf HW). specialize (Hr0 HW). unfold want in Ew. cbn [wf_ev] in Hwf. destruct (dec m) as [v|].
    - destruct (valid (o_seq o) v (o_last o) now); inversion Ew; subst; cbn; assumption.
    - inversion Ew; subst; assumption. }
  (* entries of the new table come from the old one or are the updated observation *)
  assert (Hent' : forall k' o', tget k' tb = Some o' ->
            (k' <> k /\ tget k' (tbl s) = Some o') \/ (k' = k /\ o' = set_wait o1 false /\ tb = tset k (set_wait o1 false) (tbl s))).
  { intros k' o' Ho. destruct Hcases as [[Htb _]|[Htb _]]; subst tb.
    - destruct (Z.eq_dec k' k) as [E|N].
      + subst k'. rewrite tget_tset_same in Ho. inversion Ho. right. repeat split; reflexivity.
      + rewrite tget_tset_other in Ho by exact N. left. split; assumption.
    - rewrite Hc0 in Ho. destruct (Z.eq_dec k' k) as [E|N].
      + subst k'. rewrite tget_tdel_same in Ho. discriminate.
      + rewrite tget_tdel_other in Ho by exact N. left. split; assumption. }
  assert (Hother : forall k' o', k' <> k -> tget k' (tbl s) = Some o' -> o_id o' <> o_id o).
  { intros k' o' Hne Ho Hid. apply Hne. exact (inv_unique _ _ _ _ _ _ HI Ho Eg Hid). }
  constructor; cbn [regs tbl].
  - rewrite reg_tokens_snoc. cbn [ev_toks]. rewrite app_nil_r. apply (inv_regs _ _ HI).
  - intros k' o' Ho. destruct (Hent' _ _ Ho) as [[Hne Hold]|[Hk [Ho' _]]].
    + exact (inv_ent _ _ HI _ _ Hold).
    + subst k' o'. cbn [set_wait o_id o_tok o_seq]. rewrite Hid1, Htok1. split; [assumption|]. split; [assumption|]. exact Hseq1.
  - intros k' o' Ho. rewrite Hdel. destruct (Hent' _ _ Ho) as [[Hne Hold]|[Hk [Ho' _]]].
    + replace (if d then match dec m with Some v => if Nat.eqb (o_id o) (o_id o') then [(v, now)] else [] | None => [] end else [])
        with (@nil (Z * Z)).
      * rewrite app_nil_r. exact (inv_last _ _ HI _ _ Hold).
      * destruct d; [|reflexivity]. destruct (dec m); [|reflexivity].
        destruct (Nat.eqb_spec (o_id o) (o_id o')) as [E|N]; [|reflexivity].
        exfalso. exact (Hother _ _ Hne Hold (eq_sym E)).
    + subst k' o'. cbn [set_wait o_id o_seq o_last]. rewrite Hid1, Nat.eqb_refl.
      destruct d.
      * destruct (dec m) as [v|] eqn:Ed.
        -- rewrite last_opt_snoc. destruct (want_delivered _ _ _ _ Ew) as [_ [Hs [Hl _]]]. split; congruence.
        -- rewrite app_nil_r. cbn in Ew. inversion Ew; subst o1. exact (inv_last _ _ HI _ _ Eg).
      * rewrite app_nil_r. rewrite (want_dropped _ _ _ _ Ew). exact (inv_last _ _ HI _ _ Eg).
  - intros id. rewrite Hdel. destruct d; [|rewrite app_nil_r; apply (inv_chain _ _ HI)].
    destruct (dec m) as [v|] eqn:Ed; [|rewrite app_nil_r; apply (inv_chain _ _ HI)].
    destruct (Nat.eqb_spec (o_id o) id) as [E|N]; [|rewrite app_nil_r; apply (inv_chain _ _ HI)].
    subst id. intros HW. apply chain_ok_snoc; [apply (inv_chain _ _ HI); exact HW|].
    pose proof (inv_last _ _ HI _ _ Eg) as Hl.
    destruct (last_opt (deliveries (o_id o) tr)) as [[v1 t1]|]; [|exact I].
    destruct Hl as [Hv Ht]. subst v1 t1.
    destruct (want_delivered _ _ _ _ Ew) as [Hvalid _].
    specialize (Hwf HW). cbn [wf_ev] in Hwf. rewrite Ed in Hwf.
    rewrite <- valid_rfc_uint32 by (try assumption; apply Hr0; exact HW). exact Hvalid.
  - intros id Hge. rewrite Hdel. rewrite (inv_nodel _ _ HI) by exact Hge.
    destruct d; [|reflexivity]. destruct (dec m); [|reflexivity].
    destruct (Nat.eqb_spec (o_id o) id) as [E|N]; [lia|reflexivity].
  - intros id Hge. rewrite ended_in_snoc, (inv_noend _ _ HI) by exact Hge. cbn [orb snd].
    rewrite existsb_app. destruct d; cbn [existsb ends orb].
    + destruct Hcases as [[_ [Ht|[Ht _]]]|[_ [[Ht _]|[Ht _]]]]; subst tail; cbn [existsb ends orb]; try reflexivity;
        destruct (Nat.eqb_spec (o_id o) id) as [E|N]; try lia; reflexivity.
    + destruct Hcases as [[_ [Ht|[Ht _]]]|[_ [[Ht _]|[Ht _]]]]; subst tail; cbn [existsb ends orb]; try reflexivity;
        destruct (Nat.eqb_spec (o_id o) id) as [E|N]; try lia; reflexivity.
  - intros id He k' o' Ho. rewrite ended_in_snoc in He. cbn [snd] in He.
    destruct (ended_in id tr) eqn:Eold.
    + destruct (Hent' _ _ Ho) as [[Hne Hold]|[Hk [Ho' _]]].
      * exact (inv_ended _ _ HI _ Eold _ _ Hold).
      * subst k' o'. cbn [set_wait o_id]. rewrite Hid1. exact (inv_ended _ _ HI _ Eold _ _ Eg).
    + cbn [orb] in He. rewrite existsb_app in He.
      assert (Hcbends : existsb (ends id) (if d then [Cb (o_id o) (m_tok m) (dec m) (m_tag m)] else []) = false)
        by (destruct d; reflexivity).
      rewrite Hcbends in He. cbn [orb] in He.
      destruct Hcases as [[_ [Ht|[Ht _]]]|[Htb [[Ht _]|[Ht _]]]]; subst tail; cbn [existsb ends orb] in He;
        try discriminate; try (rewrite andb_false_r in He; discriminate).
      rewrite orb_false_r, andb_true_r in He. apply Nat.eqb_eq in He. subst id.
      destruct (Hent' _ _ Ho) as [[Hne Hold]|[Hk [_ Htb']]].
      * exact (Hother _ _ Hne Hold).
      * exfalso. subst k'. rewrite Htb, Hc0, tget_tdel_same in Ho. discriminate.
  - intros id. apply after_ok_snoc; [apply (inv_after _ _ HI)|]. intros He. cbn [snd].
    rewrite existsb_app, Htail_iscb, orb_false_r. destruct d; [|reflexivity]. cbn [existsb is_cb]. rewrite orb_false_r.
    apply Nat.eqb_neq. exact (inv_ended _ _ HI _ He _ _ Eg).
  - apply Forall_app. split; [exact (inv_own _ _ HI)|]. constructor; [|constructor]. cbn [snd].
    apply Forall_app. split.
    + destruct d; constructor; [|constructor]. cbn [own_hash]. exists (o_tok o). split; [exact Hn0|exact Hc0].
    + destruct Hcases as [[_ [Ht|[Ht _]]]|[_ [[Ht _]|[Ht _]]]]; subst tail; constructor; try exact I; constructor.
  - apply Forall_app. split; [exact (inv_reg _ _ HI)|]. constructor; [|constructor]. cbn [snd fst].
    apply Forall_app. split.
    + destruct d; constructor; [exact I|constructor].
    + destruct Hcases as [[_ [Ht|[Ht Hc]]]|[_ [[Ht Hc]|[Ht Hc]]]]; subst tail.
      * constructor.
      * constructor; [|constructor]. cbn [reg_hash].
        split; [intros _|intros Hx; discriminate]. exists m, now, (o_tok o). repeat split; assumption.
      * constructor; [|constructor]. cbn [reg_hash].
        split; [intros _|intros Hx; discriminate]. exists m, now, (o_tok o). repeat split; assumption.
      * constructor; [|constructor]. cbn [reg_hash].
        split; [intros [Hx|Hx]; discriminate|intros _]. exists m, now. split; [reflexivity|exact Hc].
Qed.

Lemma step_inv dec s tr e s' os :
  Inv s tr -> (W -> wf_ev dec e) -> step dec s e = (s', os) -> Inv s' (tr ++ [(e, os)]).
Proof.
  intros HI Hwf H. destruct e as [tok|m now|id code|id|]; cbn [step] in H.
  - exact (step_reg _ _ _ _ _ HI H).
  - exact (step_msg _ _ _ _ _ _ _ HI Hwf H).
  - exact (step_cancel _ _ _ _ _ _ HI H).
  - exact (step_cancel_err _ _ _ _ _ HI H).
  - inversion H; subst s' os. exact (step_quiet _ _ HI).
Qed.

Lemma run_from_inv dec evs : forall s tr0,
  Inv s tr0 -> (W -> Forall (wf_ev dec) evs) ->
  Inv (fst (run_from dec s evs)) (tr0 ++ snd (run_from dec s evs)).
Proof.
  induction evs as [|e r IH]; intros s tr0 HI Hwf.
  - cbn [run_from fst snd]. rewrite app_nil_r. exact HI.
  - cbn [run_from]. destruct (step dec s e) as [s1 os] eqn:Es.
    assert (HI1 : Inv s1 (tr0 ++ [(e, os)])).
    { apply (step_inv dec s tr0 e s1 os HI); [|exact Es]. intros HW. specialize (Hwf HW). inversion Hwf; assumption. }
    assert (Hwf1 : W -> Forall (wf_ev dec) r).
    { intros HW. specialize (Hwf HW). inversion Hwf; assumption. }
    specialize (IH s1 (tr0 ++ [(e, os)]) HI1 Hwf1).
    destruct (run_from dec s1 r) as [s2 tr] eqn:Er. cbn [fst snd] in *.
    rewrite <- app_assoc in IH. exact IH.
Qed.

End Invariant.

Lemma run_inv (W : Prop) dec evs : (W -> Forall (wf_ev dec) evs) -> Inv W (fst (run dec evs)) (snd (run dec evs)).
Proof. intros Hwf. exact (run_from_inv W dec evs st0 [] (inv0 W) Hwf). Qed.

(* ------------------------------------------------------------------ *)
(* F. the theorems                                                     *)
(* ------------------------------------------------------------------ *)

Definition wf_evs (dec : msg -> option Z) (evs : list ev) : Prop := Forall (wf_ev dec) evs.

(* FORWARD: in any history, for every registration, each notification handed to the callback is
   fresher (RFC 7641 3.4) than the one handed to it before *)
Theorem monotone dec evs id : wf_evs dec evs -> forward_ok id (snd (run dec evs)) = true.
Proof. intros H. exact (inv_chain _ _ _ (run_inv True dec evs (fun _ => H)) id I). Qed.

(* a notification that is not ahead of the last delivered one by 1..2^23-1 (mod 2^24) -- a duplicate,
   a stale one, one exactly half-way -- is dropped and changes nothing, unless 128 s passed *)
Lemma want_not_ahead_dropped o v now :
  0 <= o_seq o < 2 ^ 24 -> 0 <= v < 2 ^ 24 ->
  ~ (0 < (v - o_seq o) mod 2 ^ 24 < 2 ^ 23) -> now - o_last o <= rfc_128s ->
  want o (Some v) now = (o, false).
Proof.
  intros Ho Hv Hna Ht. unfold want. rewrite valid_serial by assumption. unfold serial_fresh.
  rewrite Z.gtb_ltb, (proj2 (Z.ltb_ge rfc_128s (now - o_last o))) by lia. rewrite orb_false_r.
  destruct (Z.ltb_spec 0 ((v - o_seq o) mod 2 ^ 24)); destruct (Z.ltb_spec ((v - o_seq o) mod 2 ^ 24) (2 ^ 23));
    cbn [andb]; try reflexivity. exfalso. apply Hna. split; assumption.
Qed.

(* AFTER CANCEL / FAILED REGISTRATION: nothing is delivered to that callback in any later event *)
Theorem after_cancel dec evs id : after_ok id (snd (run dec evs)) = true.
Proof. exact (inv_after _ _ _ (run_inv False dec evs (fun f : False => match f with end)) id). Qed.

(* OWN TOKEN, as far as the code goes: the token of a delivered message has the same Token.Hash()
   as the token of the registration whose callback receives it *)
Theorem own_token_hash dec evs :
  let tr := snd (run dec evs) in
  Forall (fun x => Forall (own_hash (reg_tokens tr)) (snd x)) tr.
Proof.
  cbn zeta. pose proof (run_inv False dec evs (fun f : False => match f with end)) as HI.
  rewrite (inv_regs _ _ _ HI). exact (inv_own _ _ _ HI).
Qed.

Theorem register_hash dec evs :
  let tr := snd (run dec evs) in
  Forall (fun x => Forall (reg_hash (reg_tokens tr) (fst x)) (snd x)) tr.
Proof.
  cbn zeta. pose proof (run_inv False dec evs (fun f : False => match f with end)) as HI.
  rewrite (inv_regs _ _ _ HI). exact (inv_reg _ _ _ HI).
Qed.

(* plumbing: the events of the trace are the events given; a callback sees the token of its event's message *)
Lemma run_from_events dec evs : forall s, map fst (snd (run_from dec s evs)) = evs.
Proof.
  induction evs as [|e r IH]; intros s; [reflexivity|].
  cbn [run_from]. destruct (step dec s e) as [s1 os]. specialize (IH s1).
  destruct (run_from dec s1 r) as [s2 tr]. cbn [fst snd map] in *. rewrite IH. reflexivity.
Qed.

Lemma step_cb_tok dec s e s' os i tok sq tag :
  step dec s e = (s', os) -> In (Cb i tok sq tag) os -> exists m now, e = EMsg m now /\ tok = m_tok m.
Proof.
  intros H Hin. destruct e as [t|m now|id code|id|]; cbn [step] in H.
  - unfold reg in H. destruct t; [|destruct (tget _ _)]; inversion H; subst os; cbn in Hin;
      repeat (destruct Hin as [Hin|Hin]; try discriminate); destruct Hin.
  - exists m, now. split; [reflexivity|].
    destruct (tget (crc64 (m_tok m)) (tbl s)) as [o|] eqn:Eg.
    + destruct (handle_msg_some dec s m now o Eg) as [tail [tb [Hh Hc]]]. rewrite Hh in H. inversion H; subst os.
      apply in_app_or in Hin. destruct Hin as [Hin|Hin].
      * destruct (snd (want o (dec m) now)); [|destruct Hin]. destruct Hin as [Hin|[]]. inversion Hin. reflexivity.
      * exfalso. destruct Hc as [[_ [Ht|[Ht _]]]|[_ [[Ht _]|[Ht _]]]]; subst tail;
          repeat (destruct Hin as [Hin|Hin]; try discriminate); destruct Hin.
    + unfold handle_msg in H. rewrite Eg in H. inversion H; subst os. destruct Hin as [Hin|[]]. discriminate.
  - unfold cancel, cancel_with in H. destruct (nth_error _ _); [destruct (tget _ _)|]; inversion H; subst os; cbn in Hin;
      repeat (destruct Hin as [Hin|Hin]; try discriminate); destruct Hin.
  - unfold cancel_err, cancel_with in H. destruct (nth_error _ _); [destruct (tget _ _)|]; inversion H; subst os; cbn in Hin;
      repeat (destruct Hin as [Hin|Hin]; try discriminate); destruct Hin.
  - inversion H; subst os. destruct Hin.
Qed.

Lemma run_from_cb_tok dec evs : forall s x i tok sq tag,
  In x (snd (run_from dec s evs)) -> In (Cb i tok sq tag) (snd x) ->
  exists m now, fst x = EMsg m now /\ tok = m_tok m.
Proof.
  induction evs as [|e r IH]; intros s x i tok sq tag Hx Hin; [destruct Hx|].
  cbn [run_from] in Hx. destruct (step dec s e) as [s1 os] eqn:Es. specialize (IH s1).
  destruct (run_from dec s1 r) as [s2 tr]. cbn [snd] in *. destruct Hx as [Hx|Hx].
  - subst x. cbn [fst snd] in *. exact (step_cb_tok _ _ _ _ _ _ _ _ _ Es Hin).
  - exact (IH _ _ _ _ _ Hx Hin).
Qed.

Lemma reg_tokens_events tr : reg_tokens tr = flat_map ev_toks (map fst tr).
Proof.
  induction tr as [|[e os] r IH]; [reflexivity|]. cbn [reg_tokens map fst flat_map]. rewrite IH. destruct e; reflexivity.
Qed.

Definition ev_all_toks (e : ev) : list (list Z) :=
  match e with EReg t => [t] | EMsg m _ => [m_tok m] | _ => [] end.
Definition all_tokens (evs : list ev) : list (list Z) := flat_map ev_all_toks evs.
(* no two tokens used in the history have the same CRC-64 *)
Definition hash_injective_on (toks : list (list Z)) : Prop :=
  forall t t', In t toks -> In t' toks -> crc64 t = crc64 t' -> t = t'.

Lemma reg_token_in_all evs t : In t (flat_map ev_toks evs) -> In t (all_tokens evs).
Proof.
  unfold all_tokens. rewrite !in_flat_map. intros [e [He Ht]]. exists e. split; [exact He|].
  destruct e; cbn in *; try exact Ht. destruct Ht.
Qed.

Lemma bytes_eqb_refl l : bytes_eqb l l = true.
Proof. induction l as [|a r IH]; [reflexivity|]. cbn. rewrite Z.eqb_refl. exact IH. Qed.

(* OWN TOKEN: when the tokens in play have distinct hashes, every callback sees only messages
   carrying the token of its own registration *)
Theorem own_token dec evs : hash_injective_on (all_tokens evs) -> own_ok (snd (run dec evs)) = true.
Proof.
  intros Hinj. unfold own_ok. apply forallb_forall. intros x Hx. apply forallb_forall. intros o Ho.
  destruct o as [i tok sq tag| | |]; try reflexivity. cbn [own_out].
  pose proof (own_token_hash dec evs) as Hown. cbn zeta in Hown.
  rewrite Forall_forall in Hown. specialize (Hown x Hx). rewrite Forall_forall in Hown. specialize (Hown _ Ho).
  cbn [own_hash] in Hown. destruct Hown as [t [Hn Hc]]. rewrite Hn.
  assert (Hev : map fst (snd (run dec evs)) = evs) by apply run_from_events.
  destruct (run_from_cb_tok dec evs st0 x i tok sq tag Hx Ho) as [m [now [Hf Htok]]].
  assert (t = tok); [|subst; apply bytes_eqb_refl].
  apply Hinj; [| |exact Hc].
  - apply reg_token_in_all. rewrite <- Hev, <- reg_tokens_events. exact (nth_error_In _ _ Hn).
  - unfold all_tokens. apply in_flat_map. exists (fst x). split.
    + rewrite <- Hev. apply in_map. exact Hx.
    + rewrite Hf. left. symmetry. exact Htok.
Qed.

(* ... and it is false without that hypothesis: tokens 42 and 422ff4422ff442b2 have the same CRC-64/ISO *)
Definition collision_history : list ev :=
  [EReg [66];
   EMsg (mkMsg [66] 69 (Some [5]) 1) 0;
   EMsg (mkMsg [66; 47; 244; 66; 47; 244; 66; 178] 69 (Some [6]) 2) 0].
Theorem own_token_refuted : own_ok (snd (run observe_wire collision_history)) = false.
Proof. vm_compute. reflexivity. Qed.

(* REGISTER: Observe() returns an observation only when the first answer has code 2.05 or 2.03
   (and carries the registration's token); it fails with "unexpected code" only otherwise *)
Theorem register dec evs : hash_injective_on (all_tokens evs) -> register_ok (snd (run dec evs)) = true.
Proof.
  intros Hinj. unfold register_ok. apply forallb_forall. intros x Hx. apply forallb_forall. intros o Ho.
  destruct o as [| |i cls|]; try reflexivity. cbn [reg_out_ok].
  pose proof (register_hash dec evs) as Hreg. cbn zeta in Hreg.
  rewrite Forall_forall in Hreg. specialize (Hreg x Hx). rewrite Forall_forall in Hreg. specialize (Hreg _ Ho).
  cbn [reg_hash] in Hreg. destruct Hreg as [H01 H2].
  assert (Hev : map fst (snd (run dec evs)) = evs) by apply run_from_events.
  destruct ((cls =? 0) || (cls =? 1)) eqn:E01.
  - apply orb_true_iff in E01. rewrite !Z.eqb_eq in E01.
    destruct (H01 E01) as [m [now [t [Hf [Hk [Hn Hc]]]]]]. rewrite Hf, Hn, <- code_ok_rfc, Hk. cbn [andb].
    assert (t = m_tok m); [|subst; apply bytes_eqb_refl].
    apply Hinj; [| |exact Hc].
    + apply reg_token_in_all. rewrite <- Hev, <- reg_tokens_events. exact (nth_error_In _ _ Hn).
    + unfold all_tokens. apply in_flat_map. exists (fst x). split.
      * rewrite <- Hev. apply in_map. exact Hx.
      * rewrite Hf. left. reflexivity.
  - destruct (Z.eqb_spec cls 2) as [E2|N2]; [|reflexivity].
    destruct (H2 E2) as [m [now [Hf Hk]]]. rewrite Hf, <- code_ok_rfc, Hk. reflexivity.
Qed.

Lemma first_bad_false f n : (forall k, f k = true) -> first_bad f n = false.
Proof. intros H. induction n as [|k IH]; [reflexivity|]. cbn [first_bad]. rewrite H, IH. reflexivity. Qed.

(* the whole property predicate holds of every history of the model *)
Theorem c08_holds dec evs :
  wf_evs dec evs -> hash_injective_on (all_tokens evs) -> c08_class (snd (run dec evs)) = 0%N.
Proof.
  intros Hwf Hinj. unfold c08_class.
  rewrite first_bad_false by (intros k; apply monotone; exact Hwf).
  rewrite own_token by exact Hinj. rewrite register by exact Hinj. cbn [negb].
  rewrite first_bad_false by (intros k; apply after_cancel). reflexivity.
Qed.

(* corollaries around 0, 2^23 and 2^24-1 (within 128 s) *)
Ltac dec_cmp :=
  rewrite ?Z.gtb_ltb;
  repeat match goal with |- context [?a <? ?b] => destruct (Z.ltb_spec a b) end;
  cbn [andb orb]; try reflexivity; try lia.

Lemma wrap_instances t1 t2 : t2 - t1 <= rfc_128s ->
  valid (2 ^ 24 - 1) 0 t1 t2 = true /\ valid (2 ^ 24 - 1) 3 t1 t2 = true /\
  valid 0 (2 ^ 24 - 1) t1 t2 = false /\ valid 3 (2 ^ 24 - 1) t1 t2 = false /\
  valid 0 1 t1 t2 = true /\ valid 1 0 t1 t2 = false /\
  (forall v, 0 <= v -> v + 2 ^ 23 < 2 ^ 24 ->
     valid v (v + 2 ^ 23 - 1) t1 t2 = true /\ valid (v + 2 ^ 23 - 1) v t1 t2 = false /\
     valid v (v + 2 ^ 23) t1 t2 = false /\ valid (v + 2 ^ 23) v t1 t2 = false) /\
  (forall v, 0 <= v -> v + 2 ^ 23 + 1 < 2 ^ 24 ->
     valid (v + 2 ^ 23 + 1) v t1 t2 = true /\ valid v (v + 2 ^ 23 + 1) t1 t2 = false).
Proof.
  intros Ht. change (2 ^ 24) with 16777216. change (2 ^ 23) with 8388608.
  repeat split; intros;
    (rewrite valid_rfc by (change (2 ^ 24) with 16777216; lia)); unfold rfc_fresh; change (2 ^ 23) with 8388608; dec_cmp.
Qed.

(* sequence numbers decoded from a datagram are below 2^24 when the option bytes are bytes *)
Lemma observe_wire_range m v :
  match m_obs m with Some bs => bytes_ok bs = true | None => True end ->
  observe_wire m = Some v -> 0 <= v < 2 ^ 24.
Proof.
  unfold observe_wire. destruct (m_obs m) as [bs|]; [|discriminate]. intros Hb.
  destruct ((ObserveMinLen <=? blen bs) && (blen bs <=? ObserveMaxLen)) eqn:E; [|discriminate].
  intros H. inversion H; subst v; clear H.
  apply andb_true_iff in E. destruct E as [_ E]. apply Z.leb_le in E. change ObserveMaxLen with 3 in E.
  unfold blen in E. change (2 ^ 24) with 16777216.
  destruct bs as [|a [|b [|c [|d r]]]]; cbn [length] in E; try lia;
    unfold bytes_ok in Hb; cbn [forallb] in Hb;
    repeat (apply andb_true_iff in Hb; destruct Hb as [?Hx Hb]);
    unfold byte_ok in *;
    repeat match goal with Hx : (_ <=? _) && (_ <? _) = true |- _ =>
      apply andb_true_iff in Hx; destruct Hx as [?Hl ?Hu]; apply Z.leb_le in Hl; apply Z.ltb_lt in Hu end;
    cbn [be fold_left]; lia.
Qed.

Lemma wire_wf evs :
  Forall (fun e => match e with
                   | EMsg m _ => match m_obs m with Some bs => bytes_ok bs = true | None => True end
                   | _ => True end) evs ->
  wf_evs observe_wire evs.
Proof.
  intros H. unfold wf_evs. eapply Forall_mono_in; [|exact H].
  intros e He. destruct e as [|m now| | |]; cbn [wf_ev]; try exact I.
  destruct (observe_wire m) as [v|] eqn:E; [|exact I].
  pose proof (observe_wire_range m v He E) as Hr. change (2 ^ 24) with 16777216 in Hr. change (2 ^ 32) with 4294967296. lia.
Qed.
