(* Observe/Run.v -- evaluators for the correspondence cases written by harness/c08.go *)
From Coq Require Import ZArith NArith List Bool.
From GoCoap Require Import Base.Cases Base.Bytes Observe.Model Observe.Spec Observe.BwModel Observe.BwSpec.
Import ListNotations.
Open Scope Z_scope.

Inductive case :=
(* observation.ValidSequenceNumber(old, new0+i, last, now) for i in [0,n): bit i of [bits] = result.
   Times are nanoseconds since the Unix epoch; last = Gen.Timing.zeroTimeUnixNano is time.Time{} *)
| Tab (old new0 : Z) (n : N) (last now : Z) (bits : Z)
(* a history driven through the real Handler/Observation:
   wire = true: over a udp/client.Conn on an in-memory session (datagrams through Conn.Process);
   wire = false: messages handed to observation.Handler.Handle directly.
   outs: what was observed per event; livemask: per registration, is its token's key in the
   table at the end; pending: registrations whose Observe() had not returned at the end *)
| Hist (wire : bool) (evs : list ev) (outs : list (list out)) (livemask : list bool) (pending : list nat)
(* a wire-level history on a udp/client.Conn with block-wise transfer enabled (notifications may be
   block-wise): per event what the application saw (outs) and what the block-wise layer did (acts:
   the GET written for the next block, an error reported); livemask / pending as above *)
| BHist (evs : list bev) (outs : list (list out)) (acts : list (list bact)) (livemask : list bool) (pending : list nat).

Definition M := mkMsg.
Definition W := mkW.

Definition tab_of (f : Z -> bool) (new0 : Z) (n : N) : Z :=
  snd (N.iter n (fun '(i, acc) => (i + 1, if f (new0 + i) then Z.lor acc (Z.shiftl 1 i) else acc)) (0, 0)).

Definition opt_eqb {A} (eqb : A -> A -> bool) (a b : option A) : bool :=
  match a, b with
  | Some x, Some y => eqb x y
  | None, None => true
  | _, _ => false
  end.

Definition out_eqb (a b : out) : bool :=
  match a, b with
  | Cb i t s g, Cb i' t' s' g' => Nat.eqb i i' && bytes_eqb t t' && opt_eqb Z.eqb s s' && (g =? g')
  | Nx t g, Nx t' g' => bytes_eqb t t' && (g =? g')
  | RegRet i c, RegRet i' c' => Nat.eqb i i' && (c =? c')
  | CanRet i c, CanRet i' c' => Nat.eqb i i' && (c =? c')
  | _, _ => false
  end.

Definition bact_eqb (a b : bact) : bool :=
  match a, b with
  | BGet t z n, BGet t' z' n' => bytes_eqb t t' && (z =? z') && (n =? n')
  | BErr, BErr => true
  | BOther, BOther => true
  | _, _ => false
  end.

Definition dec_of (wire : bool) : msg -> option Z := if wire then observe_wire else observe_direct.

(* registrations without a RegRet in the trace *)
Definition returned (tr : trace) (id : nat) : bool :=
  existsb (fun x => existsb (fun o => match o with RegRet i _ => Nat.eqb i id | _ => false end) (snd x)) tr.
Definition pending_of (tr : trace) (n : nat) : list nat :=
  filter (fun id => negb (returned tr id)) (seq 0 n).

Definition agrees (c : case) : bool :=
  match c with
  | Tab old new0 n last now bits => tab_of (fun v => valid old v last now) new0 n =? bits
  | Hist wire evs outs lm pend =>
      let '(s, tr) := run (dec_of wire) evs in
      list_eqb (list_eqb out_eqb) (map snd tr) outs &&
      list_eqb Bool.eqb (map (live s) (regs s)) lm &&
      list_eqb Nat.eqb (pending_of tr (length (regs s))) pend
  | BHist evs outs acts lm pend =>
      let '(s, tr) := bw_run evs in
      let otr := obs_trace tr in
      list_eqb (list_eqb out_eqb) (map snd otr) outs &&
      list_eqb (list_eqb bact_eqb) (map snd tr) acts &&
      list_eqb Bool.eqb (map (live (b_o s)) (regs (b_o s))) lm &&
      list_eqb Nat.eqb (pending_of otr (length (regs (b_o s)))) pend
  end.

(* The recorded finding F18 is: the observation table is keyed by CRC-64 of the token, so two tokens with the
   SAME CRC-64 are confused.  A foreign-token delivery is attributed to that finding (class 7) only when every
   foreign token delivered really has the CRC-64 of the registration's token; any other foreign delivery keeps
   class 2 and is reported. *)
Definition crc_collision_out (toks : list (list Z)) (o : out) : bool :=
  match o with
  | Cb i tok _ _ => match nth_error toks i with
                    | Some t => bytes_eqb t tok || (crc64 t =? crc64 tok)
                    | None => false end
  | _ => true
  end.
Definition only_crc_collisions (tr : trace) : bool :=
  let toks := reg_tokens tr in
  forallb (fun x => forallb (crc_collision_out toks) (snd x)) tr.

(* C03, last sentence, for observe registrations (class 9, judged on the OBSERVED history and the observed
   final liveness map): a registration i that succeeded (RegRet i 0) and was never cancelled must still be
   registered at the end when a later registration with the same token was refused as a duplicate
   (RegRet j 3): the second request is rejected rather than displacing the first. *)
Definition reg_ok_of (tr : trace) (i : nat) : bool :=
  existsb (fun x => existsb (fun o => match o with RegRet k c => Nat.eqb k i && (c =? 0) | _ => false end) (snd x)) tr.
Definition cancelled_of (tr : trace) (i : nat) : bool :=
  existsb (fun x => existsb (fun o => match o with CanRet k _ => Nat.eqb k i | _ => false end) (snd x)) tr.
Definition refused_dup_of (tr : trace) (j : nat) : bool :=
  existsb (fun x => existsb (fun o => match o with RegRet k c => Nat.eqb k j && (c =? 3) | _ => false end) (snd x)) tr.
Definition displaced (tr : trace) (lm : list bool) : bool :=
  let toks := reg_tokens tr in
  existsb (fun i =>
    reg_ok_of tr i && negb (cancelled_of tr i) && negb (nth i lm true) &&
    existsb (fun j => Nat.ltb i j && refused_dup_of tr j &&
                      bytes_eqb (nth i toks []) (nth j toks [])) (seq 0 (length toks)))
    (seq 0 (length toks)).

(* property classes (bin/props.py): 1 not-fresher-delivered, 2 foreign-token, 7 foreign-token with the same CRC-64 (F18), 3 registration-outcome,
   4 delivered-after-end, 5 fresher-refused (predicate only), 6 malformed case *)
Definition pclass (c : case) : N :=
  match c with
  | Tab old new0 n last now bits =>
      if (0 <=? old) && (old <? 2 ^ 24) && (0 <=? new0) && (new0 + Z.of_N n <=? 2 ^ 24) then
        let spec := tab_of (fun v => rfc_fresh old v last now) new0 n in
        if spec =? bits then 0%N
        else if Z.land bits (Z.lnot spec) =? 0 then 5%N else 1%N
      else 0%N
  | Hist wire evs outs lm pend =>
      if Nat.eqb (length evs) (length outs) then
        let c := c08_class (combine evs outs) in
        if N.eqb c 0 then (if displaced (combine evs outs) lm then 9%N else 0%N)
        else if N.eqb c 2 && only_crc_collisions (combine evs outs) then 7%N else c
      else 6%N
  | BHist evs outs acts lm pend =>
      if Nat.eqb (length evs) (length outs) then c08b_class (combine evs outs) else 6%N
  end.

Definition mismatches (cs : list case) : list N := bad_indices (fun c => negb (agrees c)) cs.
Definition property_failures (cs : list case) : list (N * N) := classes pclass cs.
