(* Observe/Spec.v -- property C08 as executable predicates over an observed history,
   written from the property text and RFC 7641 (sections 3.2, 3.4, 3.6) only.

   A history is a list of events, each paired with what was observed while it was
   processed (callback invocations, returns of Observe()/Cancel()).  The types [ev],
   [out], [msg] are the vocabulary shared with the model; nothing below looks at the
   model's functions or at constants generated from the code. *)
From Coq Require Import ZArith List Bool.
From GoCoap Require Import Base.Bytes Observe.Model.
Import ListNotations.
Open Scope Z_scope.

(* RFC 7641, 3.4: a notification (V2 received at T2) is fresher than the freshest one
   known so far (V1 at T1) iff
       (V1 < V2 and V2 - V1 < 2^23) or (V1 > V2 and V1 - V2 > 2^23) or (T2 > T1 + 128 seconds)
   Times in nanoseconds. *)
Definition rfc_128s : Z := 128 * 1000000000.
Definition rfc_fresh (v1 v2 t1 t2 : Z) : bool :=
  ((v1 <? v2) && (v2 - v1 <? 2 ^ 23)) || ((v1 >? v2) && (v1 - v2 >? 2 ^ 23)) || (t2 >? t1 + rfc_128s).

(* response codes 2.05 Content and 2.03 Valid (RFC 7252, 12.1.2: class*32 + detail) *)
Definition rfc_content : Z := 2 * 32 + 5.
Definition rfc_valid : Z := 2 * 32 + 3.
Definition rfc_code_ok (c : Z) : bool := (c =? rfc_content) || (c =? rfc_valid).

(* --- forward in time: the notifications (messages with a sequence number) delivered to
   the callback of registration id, with their arrival times, in order of delivery --- *)
Definition cb_of (id : nat) (now : Z) (o : out) : list (Z * Z) :=
  match o with
  | Cb i _ (Some v) _ => if Nat.eqb i id then [(v, now)] else []
  | _ => []
  end.
Definition deliveries_ev (id : nat) (x : ev * list out) : list (Z * Z) :=
  match fst x with
  | EMsg _ now => flat_map (cb_of id now) (snd x)
  | _ => []
  end.
Definition deliveries (id : nat) (tr : trace) : list (Z * Z) := flat_map (deliveries_ev id) tr.

Fixpoint chain_ok (l : list (Z * Z)) : bool :=
  match l with
  | (v1, t1) :: (((v2, t2) :: _) as r) => rfc_fresh v1 v2 t1 t2 && chain_ok r
  | _ => true
  end.
Definition forward_ok (id : nat) (tr : trace) : bool := chain_ok (deliveries id tr).

(* --- own token only --- *)
Fixpoint reg_tokens (tr : trace) : list (list Z) :=
  match tr with
  | [] => []
  | (EReg tok, _) :: r => tok :: reg_tokens r
  | _ :: r => reg_tokens r
  end.
Definition own_out (toks : list (list Z)) (o : out) : bool :=
  match o with
  | Cb i tok _ _ => match nth_error toks i with Some t => bytes_eqb t tok | None => false end
  | _ => true
  end.
Definition own_ok (tr : trace) : bool :=
  let toks := reg_tokens tr in
  forallb (fun x => forallb (own_out toks) (snd x)) tr.

(* --- registration succeeds only on a 2.05 / 2.03 answer (carrying the registration's token) ---
   class 0/1 = Observe() returned an observation; 2 = refused because of the answer's code *)
Definition reg_out_ok (toks : list (list Z)) (e : ev) (o : out) : bool :=
  match o with
  | RegRet i cls =>
      if (cls =? 0) || (cls =? 1) then
        match e with
        | EMsg m _ => rfc_code_ok (m_code m) &&
                      match nth_error toks i with Some t => bytes_eqb t (m_tok m) | None => false end
        | _ => false
        end
      else if cls =? 2 then
        match e with EMsg m _ => negb (rfc_code_ok (m_code m)) | _ => false end
      else true
  | _ => true
  end.
Definition register_ok (tr : trace) : bool :=
  let toks := reg_tokens tr in
  forallb (fun x => forallb (reg_out_ok toks (fst x)) (snd x)) tr.

(* --- nothing after Cancel() returned / after a failed registration --- *)
Definition ends (id : nat) (o : out) : bool :=
  match o with
  | CanRet i _ => Nat.eqb i id
  | RegRet i cls => Nat.eqb i id && negb ((cls =? 0) || (cls =? 1))
  | _ => false
  end.
Definition is_cb (id : nat) (o : out) : bool :=
  match o with Cb i _ _ _ => Nat.eqb i id | _ => false end.
Definition no_cb (id : nat) (tr : trace) : bool :=
  forallb (fun x => negb (existsb (is_cb id) (snd x))) tr.
Fixpoint after_ok (id : nat) (tr : trace) : bool :=
  match tr with
  | [] => true
  | x :: r => if existsb (ends id) (snd x) then no_cb id r else after_ok id r
  end.

(* the whole property on a history with n registrations; the number says which clause fails:
   1 delivered although not fresher, 2 foreign token, 3 registration outcome, 4 delivery after end *)
Fixpoint first_bad (f : nat -> bool) (n : nat) : bool :=
  match n with O => false | S k => negb (f k) || first_bad f k end.
Definition c08_class (tr : trace) : N :=
  let n := length (reg_tokens tr) in
  if first_bad (fun id => forward_ok id tr) n then 1%N
  else if negb (own_ok tr) then 2%N
  else if negb (register_ok tr) then 3%N
  else if first_bad (fun id => after_ok id tr) n then 4%N
  else 0%N.
