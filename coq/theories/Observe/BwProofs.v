(* Observe/BwProofs.v -- block-wise notifications in front of the observation handler
   (Observe/BwModel.v) satisfy the property as stated in Observe/BwSpec.v.

   A. the observation layer's part of a block-wise run IS a run of Observe/Model.v
   B. on runs of Observe/Model.v, judging a delivery by the event's notification is the same as
      judging it by what the callback saw
   C. a viewed wire history and the observation layer's history are related event by event, and
      the predicates of the property do not tell related histories apart
   D. the reassembly cache: every entry carries token, code and Observe option of the first block
      of the notification whose transfer it belongs to (invariant [J]); one step of [bw_layer]
   E. the theorems *)
From Coq Require Import ZArith NArith List Bool Lia.
From GoCoap Require Import Base.Bytes Gen.ObserveConsts Block.Model
  Observe.Model Observe.Spec Observe.Proofs Observe.BwModel Observe.BwSpec.
Import ListNotations.
Open Scope Z_scope.

(* ------------------------------------------------------------------ *)
(* A. refinement                                                       *)
(* ------------------------------------------------------------------ *)

Definition devs (tr : list bentry) : list ev := map (fun x => snd (fst (fst x))) tr.

Lemma bw_run_from_obs evs : forall s,
  run_from observe_wire (b_o s) (devs (snd (bw_run_from s evs))) =
  (b_o (fst (bw_run_from s evs)), obs_trace (snd (bw_run_from s evs))).
Proof.
  induction evs as [|e r IH]; intros s; [reflexivity|].
  cbn [bw_run_from]. unfold bw_step.
  destruct (derive s e) as [[c' oe] acts].
  destruct (step observe_wire (b_o s) oe) as [o' os] eqn:Es.
  specialize (IH (mkB o' c')).
  destruct (bw_run_from (mkB o' c') r) as [s2 tr] eqn:Er.
  cbn [fst snd devs map obs_trace run_from] in *. rewrite Es.
  change (map (fun x : bentry => snd (fst (fst x))) tr) with (devs tr).
  cbn [b_o] in IH. rewrite IH. reflexivity.
Qed.

Theorem bw_obs_refines evs :
  obs_trace (snd (bw_run evs)) = snd (run observe_wire (devs (snd (bw_run evs)))).
Proof. unfold bw_run, run. pose proof (bw_run_from_obs evs bst0) as H. cbn [b_o bst0] in H. rewrite H. reflexivity. Qed.

Lemma wire_trace_events evs : forall s, map fst (wire_trace (snd (bw_run_from s evs))) = evs.
Proof.
  induction evs as [|e r IH]; intros s; [reflexivity|].
  cbn [bw_run_from]. destruct (bw_step s e) as [[[s1 oe] os] acts]. specialize (IH s1).
  destruct (bw_run_from s1 r) as [s2 tr]. cbn [snd wire_trace map fst] in *. rewrite IH. reflexivity.
Qed.

(* ------------------------------------------------------------------ *)
(* B. attribution on runs of the observation layer                     *)
(* ------------------------------------------------------------------ *)

Lemma blen_nonneg {A} (l : list A) : 0 <= blen l.
Proof. unfold blen. lia. Qed.

Lemma observe_wire_rfc m : observe_wire m = rfc_seq (m_obs m).
Proof.
  unfold observe_wire, rfc_seq. destruct (m_obs m) as [bs|]; [|reflexivity].
  unfold ObserveMinLen, ObserveMaxLen. pose proof (blen_nonneg bs) as H.
  destruct (Z.leb_spec 0 (blen bs)); [|lia]. reflexivity.
Qed.

Lemma obs_opt_ok_rfc o : obs_opt_ok o = match rfc_seq o with Some _ => true | None => false end.
Proof.
  unfold obs_opt_ok, rfc_seq. destruct o as [bs|]; [|reflexivity].
  unfold ObserveMinLen, ObserveMaxLen. pose proof (blen_nonneg bs) as H.
  destruct (Z.leb_spec 0 (blen bs)); [|lia]. cbn [andb]. destruct (blen bs <=? 3); reflexivity.
Qed.

Lemma existsb_app_cb id (a b : list out) : existsb (is_cb id) (a ++ b) = existsb (is_cb id) a || existsb (is_cb id) b.
Proof. apply existsb_app. Qed.

Lemma step_adeliveries s e s' os id :
  step observe_wire s e = (s', os) -> adeliveries_ev id (e, os) = deliveries_ev id (e, os).
Proof.
  intros H. destruct e as [tok|m now|i code|i|]; try reflexivity.
  cbn [step] in H. unfold adeliveries_ev. cbn [fst snd].
  destruct (tget (crc64 (m_tok m)) (tbl s)) as [o|] eqn:Eg.
  - destruct (handle_msg_some observe_wire s m now o Eg) as [tail [tb [Hh Hc]]]. rewrite Hh in H. inversion H; subst os; clear H.
    assert (Ht : forall x, In x tail -> cb_of id now x = [] /\ is_cb id x = false).
    { intros x Hx. destruct Hc as [[_ [Ht|[Ht _]]]|[_ [[Ht _]|[Ht _]]]]; subst tail;
        repeat (destruct Hx as [Hx|Hx]; [subst x; split; reflexivity|]); destruct Hx. }
    rewrite deliveries_ev_msg by (intros x Hx; apply (Ht x Hx)).
    rewrite existsb_app_cb.
    assert (Et : existsb (is_cb id) tail = false).
    { clear -Ht. induction tail as [|a r IH]; [reflexivity|]. cbn [existsb].
      rewrite (proj2 (Ht a (or_introl eq_refl))). apply IH. intros x Hx. apply Ht. right. exact Hx. }
    rewrite Et, orb_false_r. rewrite <- observe_wire_rfc.
    destruct (snd (want o (observe_wire m) now)); [|reflexivity].
    cbn [existsb is_cb orb]. rewrite orb_false_r.
    destruct (Nat.eqb (o_id o) id); destruct (observe_wire m); reflexivity.
  - unfold handle_msg in H. rewrite Eg in H. inversion H; subst os. reflexivity.
Qed.

Lemma run_from_adeliveries evs id : forall s,
  adeliveries id (snd (run_from observe_wire s evs)) = deliveries id (snd (run_from observe_wire s evs)).
Proof.
  induction evs as [|e r IH]; intros s; [reflexivity|].
  cbn [run_from]. destruct (step observe_wire s e) as [s1 os] eqn:Es. specialize (IH s1).
  destruct (run_from observe_wire s1 r) as [s2 tr]. cbn [snd] in *.
  unfold adeliveries, deliveries in *. cbn [flat_map]. rewrite IH, (step_adeliveries _ _ _ _ id Es). reflexivity.
Qed.

(* FORWARD, judged by the event's own notification *)
Theorem amonotone evs id : wf_evs observe_wire evs -> aforward_ok id (snd (run observe_wire evs)) = true.
Proof.
  intros H. unfold aforward_ok, run. rewrite run_from_adeliveries. exact (monotone observe_wire evs id H).
Qed.

Theorem c08a_holds evs :
  wf_evs observe_wire evs -> hash_injective_on (all_tokens evs) -> c08a_class (snd (run observe_wire evs)) = 0%N.
Proof.
  intros Hwf Hinj. unfold c08a_class.
  rewrite first_bad_false by (intros k; apply amonotone; exact Hwf).
  rewrite own_token by exact Hinj. rewrite register by exact Hinj. cbn [negb].
  rewrite first_bad_false by (intros k; apply after_cancel). reflexivity.
Qed.

(* ------------------------------------------------------------------ *)
(* C. related histories                                                *)
(* ------------------------------------------------------------------ *)

Definition quiet (os : list out) : bool := forallb (fun o => match o with Nx _ _ => true | _ => false end) os.
Definition msg_same (a b : msg) : Prop := m_tok a = m_tok b /\ m_code a = m_code b /\ m_obs a = m_obs b.

Definition ev_rel (a b : ev) (os : list out) : Prop :=
  match a, b with
  | EReg t, EReg t' => t = t'
  | ECancel _ _, ECancel _ _ => True
  | ECancel _ _, ECancelErr _ => True
  | ECancelErr _, ECancelErr _ => True
  | EMsg ma now, EMsg mb now' => now = now' /\ (quiet os = true \/ msg_same ma mb)
  | EMsg _ _, EQuiet => os = []
  | _, _ => False
  end.
Definition R (x y : ev * list out) : Prop := snd x = snd y /\ ev_rel (fst x) (fst y) (snd x).

Lemma quiet_no_cb os id : quiet os = true -> existsb (is_cb id) os = false.
Proof.
  induction os as [|o r IH]; [reflexivity|]. cbn [quiet forallb existsb]. intros H.
  apply andb_true_iff in H. destruct H as [Ho Hr]. destruct o; try discriminate. cbn [is_cb orb]. apply IH. exact Hr.
Qed.

Lemma R_reg_tokens V D : Forall2 R V D -> reg_tokens V = reg_tokens D.
Proof.
  induction 1 as [|[a os] [b os'] V D [Hs He] _ IH]; [reflexivity|].
  cbn [fst snd] in *. cbn [reg_tokens]. rewrite IH.
  destruct a, b; cbn [ev_rel] in He; try contradiction; try reflexivity. subst. reflexivity.
Qed.

Lemma R_no_cb V D id : Forall2 R V D -> no_cb id V = no_cb id D.
Proof.
  induction 1 as [|x y V D [Hs _] _ IH]; [reflexivity|]. unfold no_cb in *. cbn [forallb]. rewrite Hs, IH. reflexivity.
Qed.

Lemma R_after_ok V D id : Forall2 R V D -> after_ok id V = after_ok id D.
Proof.
  induction 1 as [|x y V D [Hs He] HF IH]; [reflexivity|]. cbn [after_ok]. rewrite Hs, IH, (R_no_cb V D id HF). reflexivity.
Qed.

Lemma R_own toks V D : Forall2 R V D ->
  forallb (fun x => forallb (own_out toks) (snd x)) V = forallb (fun x => forallb (own_out toks) (snd x)) D.
Proof. induction 1 as [|x y V D [Hs _] _ IH]; [reflexivity|]. cbn [forallb]. rewrite Hs, IH. reflexivity. Qed.

Lemma R_own_ok V D : Forall2 R V D -> own_ok V = own_ok D.
Proof. intros H. unfold own_ok. rewrite (R_reg_tokens V D H). apply R_own. exact H. Qed.

Lemma quiet_reg_out toks e os : quiet os = true -> forallb (reg_out_ok toks e) os = true.
Proof.
  induction os as [|o r IH]; [reflexivity|]. cbn [quiet forallb]. intros H.
  apply andb_true_iff in H. destruct H as [Ho Hr]. destruct o; try discriminate. cbn [reg_out_ok andb]. apply IH. exact Hr.
Qed.

Lemma R_reg_out toks x y : R x y ->
  forallb (reg_out_ok toks (fst x)) (snd x) = forallb (reg_out_ok toks (fst y)) (snd y).
Proof.
  destruct x as [a os], y as [b os']. intros [Hs He]. cbn [fst snd] in *. subst os'.
  assert (Hn : forall e1 e2, (forall m n, e1 <> EMsg m n) -> (forall m n, e2 <> EMsg m n) ->
               forallb (reg_out_ok toks e1) os = forallb (reg_out_ok toks e2) os).
  { clear He. intros e1 e2 H1 H2. induction os as [|o r IH]; [reflexivity|]. cbn [forallb]. rewrite IH. f_equal.
    destruct o as [| |i cls|]; try reflexivity. cbn [reg_out_ok].
    destruct e1 as [|m n| | |]; [|exfalso; exact (H1 m n eq_refl)| | |];
      (destruct e2 as [|m' n'| | |]; [|exfalso; exact (H2 m' n' eq_refl)| | |]); reflexivity. }
  destruct a as [t|ma now|i c|i|], b as [t'|mb now'|i' c'|i'|]; cbn [ev_rel] in He; try contradiction;
    try (apply Hn; intros; discriminate).
  - destruct He as [_ [Hq|[Ht [Hc Ho]]]].
    + rewrite !quiet_reg_out by exact Hq. reflexivity.
    + clear Hn. induction os as [|o r IH]; [reflexivity|]. cbn [forallb]. rewrite IH. f_equal.
      destruct o as [| |j cls|]; try reflexivity. cbn [reg_out_ok]. rewrite Ht, Hc. reflexivity.
  - subst os. reflexivity.
Qed.

Lemma R_register toks V D : Forall2 R V D ->
  forallb (fun x => forallb (reg_out_ok toks (fst x)) (snd x)) V =
  forallb (fun x => forallb (reg_out_ok toks (fst x)) (snd x)) D.
Proof.
  induction 1 as [|x y V D HR _ IH]; [reflexivity|]. cbn [forallb]. rewrite IH, (R_reg_out toks x y HR). reflexivity.
Qed.

Lemma R_register_ok V D : Forall2 R V D -> register_ok V = register_ok D.
Proof. intros H. unfold register_ok. rewrite (R_reg_tokens V D H). apply R_register. exact H. Qed.

Lemma R_adeliveries_ev id x y : R x y -> adeliveries_ev id x = adeliveries_ev id y.
Proof.
  destruct x as [a os], y as [b os']. intros [Hs He]. cbn [fst snd] in *. subst os'.
  unfold adeliveries_ev. cbn [fst snd].
  destruct a as [t|ma now|i c|i|], b as [t'|mb now'|i' c'|i'|]; cbn [ev_rel] in He; try contradiction; try reflexivity.
  - destruct He as [Hn [Hq|[Ht [Hc Ho]]]]; subst now'.
    + rewrite (quiet_no_cb os id Hq). reflexivity.
    + rewrite Ho. reflexivity.
  - subst os. reflexivity.
Qed.

Lemma R_aforward V D id : Forall2 R V D -> aforward_ok id V = aforward_ok id D.
Proof.
  intros H. unfold aforward_ok, adeliveries. f_equal.
  induction H as [|x y V D HR _ IH]; [reflexivity|]. cbn [flat_map]. rewrite IH, (R_adeliveries_ev id x y HR). reflexivity.
Qed.

Lemma first_bad_ext f g n : (forall k, f k = g k) -> first_bad f n = first_bad g n.
Proof. intros H. induction n as [|k IH]; [reflexivity|]. cbn [first_bad]. rewrite H, IH. reflexivity. Qed.

Lemma R_class V D : Forall2 R V D -> c08a_class V = c08a_class D.
Proof.
  intros H. unfold c08a_class. rewrite (R_reg_tokens V D H), (R_own_ok V D H), (R_register_ok V D H).
  rewrite (first_bad_ext (fun id => aforward_ok id V) (fun id => aforward_ok id D)) by (intros k; apply R_aforward; exact H).
  rewrite (first_bad_ext (fun id => after_ok id V) (fun id => after_ok id D)) by (intros k; apply R_after_ok; exact H).
  reflexivity.
Qed.

(* ------------------------------------------------------------------ *)
(* D. the reassembly cache                                             *)
(* ------------------------------------------------------------------ *)

Lemma bytes_eqb_eq a : forall b, bytes_eqb a b = true -> a = b.
Proof.
  induction a as [|x a IH]; intros [|y b]; cbn; try discriminate; [reflexivity|].
  intros H. apply andb_true_iff in H. destruct H as [H1 H2]. apply Z.eqb_eq in H1. subst y. f_equal. apply IH. exact H2.
Qed.

Lemma rget_rdel_same k t : rget k (rdel k t) = None.
Proof.
  induction t as [|[k' o] r IH]; cbn [rdel rget]; [reflexivity|].
  destruct (Z.eqb_spec k' k) as [E|N]; [exact IH|].
  cbn [rget]. destruct (Z.eqb_spec k' k); [contradiction|exact IH].
Qed.

Lemma rget_rdel_other k k' t : k' <> k -> rget k' (rdel k t) = rget k' t.
Proof.
  intros Hn. induction t as [|[k0 o] r IH]; cbn [rdel rget]; [reflexivity|].
  destruct (Z.eqb_spec k0 k) as [E|N].
  - rewrite IH. destruct (Z.eqb_spec k0 k'); [subst; contradiction|reflexivity].
  - cbn [rget]. rewrite IH. reflexivity.
Qed.

Lemma rget_rset_same k o t : rget k (rset k o t) = Some o.
Proof. unfold rset. cbn [rget]. rewrite Z.eqb_refl. reflexivity. Qed.

Lemma rget_rset_other k k' o t : k' <> k -> rget k' (rset k o t) = rget k' t.
Proof.
  intros Hn. unfold rset. cbn [rget].
  destruct (Z.eqb_spec k k'); [subst; contradiction|]. apply rget_rdel_other. exact Hn.
Qed.

(* tokens of a wire history: of registrations, of messages, and the ones drawn for block-wise notifications *)
Definition bev_toks (e : bev) : list (list Z) :=
  match e with
  | BReg t => [t]
  | BMsg m f _ => w_tok m :: (if opens_transfer m then [f] else [])
  | _ => []
  end.
Definition ball_tokens (evs : list bev) : list (list Z) := flat_map bev_toks evs.
Definition breg_toks (evs : list bev) : list (list Z) :=
  flat_map (fun e => match e with BReg t => [t] | _ => [] end) evs.
Definition bfresh_toks (evs : list bev) : list (list Z) :=
  flat_map (fun e => match e with BMsg m f _ => if opens_transfer m then [f] else [] | _ => [] end) evs.

Lemma bfresh_in_all evs t : In t (bfresh_toks evs) -> In t (ball_tokens evs).
Proof.
  unfold bfresh_toks, ball_tokens. rewrite !in_flat_map. intros [e [He Ht]]. exists e. split; [exact He|].
  destruct e as [|m f now| |]; cbn [bev_toks] in *; try contradiction. right. exact Ht.
Qed.

Lemma breg_in_all evs t : In t (breg_toks evs) -> In t (ball_tokens evs).
Proof.
  unfold breg_toks, ball_tokens. rewrite !in_flat_map. intros [e [He Ht]]. exists e. split; [exact He|].
  destruct e as [|m f now| |]; cbn [bev_toks] in *; try contradiction. exact Ht.
Qed.

Lemma msg_tok_in_all evs m f now : In (BMsg m f now) evs -> In (w_tok m) (ball_tokens evs).
Proof. intros H. unfold ball_tokens. apply in_flat_map. exists (BMsg m f now). split; [exact H|]. left. reflexivity. Qed.

Lemma origin_cons_msg m f now prev t :
  origin (BMsg m f now :: prev) t = if opens_transfer m && bytes_eqb f t then Some m else origin prev t.
Proof. reflexivity. Qed.

Lemma origin_in prev t m0 : origin prev t = Some m0 ->
  exists now0, In (BMsg m0 t now0) prev /\ opens_transfer m0 = true.
Proof.
  induction prev as [|e r IH]; [discriminate|].
  destruct e as [tok|m f now|i c|i]; cbn [origin];
    try (intros H; destruct (IH H) as [n [Hi Ho]]; exists n; split; [right; exact Hi|exact Ho]).
  destruct (opens_transfer m && bytes_eqb f t) eqn:E.
  - intros H. inversion H; subst m0. apply andb_true_iff in E. destruct E as [E1 E2].
    apply bytes_eqb_eq in E2. subst f. exists now. split; [left; reflexivity|exact E1].
  - intros H. destruct (IH H) as [n [Hi Ho]]. exists n. split; [right; exact Hi|exact Ho].
Qed.

Lemma origin_fresh_in prev t : origin prev t <> None -> In t (bfresh_toks prev).
Proof.
  destruct (origin prev t) as [m0|] eqn:E; [intros _|intros H; contradiction].
  destruct (origin_in prev t m0 E) as [n [Hi Ho]]. unfold bfresh_toks. apply in_flat_map.
  exists (BMsg m0 t n). split; [exact Hi|]. rewrite Ho. left. reflexivity.
Qed.

(* every entry of the reassembly cache carries token, code and Observe option of a message of the
   history: of the notification that opened the transfer the entry's key stands for, or - for an entry
   that was opened under a drawn token by a block of an unknown transfer - of that block *)
Definition entry_ok (prev : list bev) (k : Z) (cm : cmsg) : Prop :=
  exists m0 f0 now0, In (BMsg m0 f0 now0) prev /\
    c_tok cm = w_tok m0 /\ c_code cm = w_code m0 /\ c_obs cm = w_obs m0 /\
    ((exists f, origin prev f = Some m0 /\ k = crc64 f) \/
     (k = crc64 (w_tok m0) /\ origin prev (w_tok m0) <> None)).

Definition J (c : caches) (prev : list bev) : Prop :=
  forall k cm, rget k (ca_recv c) = Some cm -> entry_ok prev k cm.

Lemma entry_ok_fields prev k cm cm' :
  c_tok cm' = c_tok cm -> c_code cm' = c_code cm -> c_obs cm' = c_obs cm -> entry_ok prev k cm -> entry_ok prev k cm'.
Proof.
  intros Ht Hc Ho [m0 [f0 [n0 [Hi [H1 [H2 [H3 H4]]]]]]]. exists m0, f0, n0.
  rewrite Ht, Hc, Ho. repeat split; assumption.
Qed.

Lemma entry_ok_cons_msg prev k cm m f now :
  (opens_transfer m = true -> ~ In f (ball_tokens prev)) ->
  entry_ok prev k cm -> entry_ok (BMsg m f now :: prev) k cm.
Proof.
  intros Hf [m0 [f0 [n0 [Hi [H1 [H2 [H3 H4]]]]]]]. exists m0, f0, n0.
  split; [right; exact Hi|]. repeat split; try assumption.
  destruct H4 as [[f1 [Ho Hk]]|[Hk Ho]].
  - left. exists f1. split; [|exact Hk]. rewrite origin_cons_msg.
    destruct (opens_transfer m && bytes_eqb f f1) eqn:E; [|exact Ho]. exfalso.
    apply andb_true_iff in E. destruct E as [E1 E2]. apply bytes_eqb_eq in E2. subst f1.
    apply (Hf E1). apply bfresh_in_all. apply origin_fresh_in. rewrite Ho. discriminate.
  - right. split; [exact Hk|]. rewrite origin_cons_msg.
    destruct (opens_transfer m && bytes_eqb f (w_tok m0)); [discriminate|exact Ho].
Qed.

Lemma entry_ok_cons_other prev k cm e :
  (forall m f now, e <> BMsg m f now) -> entry_ok prev k cm -> entry_ok (e :: prev) k cm.
Proof.
  intros He [m0 [f0 [n0 [Hi [H1 [H2 [H3 H4]]]]]]]. exists m0, f0, n0.
  split; [right; exact Hi|]. repeat split; try assumption.
  assert (Ho : forall t, origin (e :: prev) t = origin prev t).
  { intros t. destruct e as [|m f now| |]; try reflexivity. exfalso. exact (He m f now eq_refl). }
  destruct H4 as [[f1 [Hf Hk]]|[Hk Hf]].
  - left. exists f1. rewrite Ho. split; assumption.
  - right. rewrite Ho. split; assumption.
Qed.

Lemma retag_fields cm m :
  c_tok (retag cm m) = c_tok cm /\ c_code (retag cm m) = c_code cm /\ c_obs (retag cm m) = c_obs cm.
Proof.
  unfold retag. destruct (w_etag m); [|repeat split]. destruct (c_etag cm); [|repeat split].
  destruct (bytes_eqb l l0); repeat split.
Qed.

(* the reassembly step, for any property P of entries that depends on token, code and Observe option only *)
Lemma bw_reasm_ok (P : Z -> cmsg -> Prop) c1 tok m szx num more c' d acts :
  (forall k cm, rget k (ca_recv c1) = Some cm -> P k cm) ->
  (forall k cm cm', c_tok cm' = c_tok cm -> c_code cm' = c_code cm -> c_obs cm' = c_obs cm -> P k cm -> P k cm') ->
  (more = true -> rget (crc64 tok) (ca_recv c1) = None -> P (crc64 tok) (open_entry m)) ->
  bw_reasm c1 tok m szx num more = (c', d, acts) ->
  (forall k cm, rget k (ca_recv c') = Some cm -> P k cm) /\
  (forall dm, d = Some dm -> dm = plain m \/
     exists cm0, rget (crc64 tok) (ca_recv c1) = Some cm0 /\
                 m_tok dm = c_tok cm0 /\ m_code dm = c_code cm0 /\ m_obs dm = c_obs cm0).
Proof.
  intros HP Hf Hnew H. unfold bw_reasm in H.
  assert (Hcommon : forall cm0, P (crc64 tok) cm0 ->
      (rget (crc64 tok) (ca_recv c1) = Some cm0 \/ more = true) ->
      (let cm1 := retag cm0 m in
       if num * size szx =? bsize (c_body cm1) then
         let cm2 := mkC (c_tok cm1) (c_code cm1) (c_obs cm1) (c_etag cm1) (add_chunk (c_body cm1) (w_tag m) (w_len m)) in
         if negb more then
           (mkCa (if bytes_eqb (c_tok cm2) tok then ca_send c1 else zdel (crc64 tok) (ca_send c1)) (rdel (crc64 tok) (ca_recv c1)),
            Some (mkMsg (c_tok cm2) (c_code cm2) (c_obs cm2) (btag (c_body cm2))), [])
         else (mkCa (ca_send c1) (rset (crc64 tok) cm2 (ca_recv c1)), None, [BGet tok szx (bsize (c_body cm2) / size szx)])
       else (mkCa (ca_send c1) (rset (crc64 tok) cm1 (ca_recv c1)), None, [BGet tok szx (bsize (c_body cm1) / size szx)]))
      = (c', d, acts) ->
      (forall k cm, rget k (ca_recv c') = Some cm -> P k cm) /\
      (forall dm, d = Some dm -> dm = plain m \/
         exists cm0, rget (crc64 tok) (ca_recv c1) = Some cm0 /\
                     m_tok dm = c_tok cm0 /\ m_code dm = c_code cm0 /\ m_obs dm = c_obs cm0)).
  { intros cm0 HP0 Hsrc Hx. cbn zeta in Hx.
    destruct (retag_fields cm0 m) as [R1 [R2 R3]].
    assert (HP1 : P (crc64 tok) (retag cm0 m)) by (apply (Hf _ cm0); assumption).
    assert (Hset : forall cmx, P (crc64 tok) cmx ->
              forall k cm, rget k (rset (crc64 tok) cmx (ca_recv c1)) = Some cm -> P k cm).
    { intros cmx Hx0 k cm Hg. destruct (Z.eq_dec k (crc64 tok)) as [E|N].
      - subst k. rewrite rget_rset_same in Hg. inversion Hg; subst cm. exact Hx0.
      - rewrite rget_rset_other in Hg by exact N. exact (HP _ _ Hg). }
    destruct (num * size szx =? bsize (c_body (retag cm0 m))).
    - destruct more; cbn [negb] in Hx.
      + inversion Hx; subst c' d acts; clear Hx. cbn [ca_recv]. split; [|intros dm Hd; discriminate].
        apply Hset. apply (Hf _ (retag cm0 m)); try reflexivity. exact HP1.
      + inversion Hx; subst c' d acts; clear Hx. cbn [ca_recv]. split.
        * intros k cm Hg. destruct (Z.eq_dec k (crc64 tok)) as [E|N].
          -- subst k. rewrite rget_rdel_same in Hg. discriminate.
          -- rewrite rget_rdel_other in Hg by exact N. exact (HP _ _ Hg).
        * intros dm Hd. inversion Hd; subst dm; clear Hd. right. exists cm0.
          destruct Hsrc as [Hs|Hs]; [|discriminate]. cbn [m_tok m_code m_obs c_tok c_code c_obs].
          split; [exact Hs|]. repeat split; assumption.
    - inversion Hx; subst c' d acts; clear Hx. cbn [ca_recv]. split; [|intros dm Hd; discriminate].
      apply Hset. exact HP1. }
  destruct (rget (crc64 tok) (ca_recv c1)) as [cm0|] eqn:Eg.
  - destruct more; apply (Hcommon cm0); try (apply HP; exact Eg); try (left; reflexivity); exact H.
  - destruct more.
    + apply (Hcommon (open_entry m)); [apply Hnew; reflexivity|right; reflexivity|exact H].
    + destruct (num =? 0); inversion H; subst c' d acts; (split; [exact HP|]); intros dm Hd;
        [inversion Hd; left; reflexivity|discriminate].
Qed.

Lemma resp_code_created c : resp_code c = true -> (codeCreated <=? c) = true.
Proof. unfold resp_code. intros H. apply andb_true_iff in H. destruct H as [H _]. apply andb_true_iff in H. destruct H as [H _]. exact H. Qed.

Lemma is_obs_opens m szx num :
  resp_code (w_code m) = true -> w_b2 m = Some (szx, num, true) -> opens_transfer m = is_obs m.
Proof.
  intros Hc Hb. unfold opens_transfer, is_obs. rewrite Hb, (resp_code_created _ Hc), andb_true_r, obs_opt_ok_rfc.
  destruct (rfc_seq (w_obs m)); reflexivity.
Qed.

(* what a delivered message has to do with the history *)
Definition delivered_ok (prev : list bev) (m : wmsg) (f : list Z) (now : Z) (dm : msg) : Prop :=
  (exists m1 f1 now1, In (BMsg m1 f1 now1) (BMsg m f now :: prev) /\ m_tok dm = w_tok m1 /\ m_obs dm = w_obs m1) /\
  ((m_tok dm = w_tok (notif_of prev m) /\ m_code dm = w_code (notif_of prev m) /\ m_obs dm = w_obs (notif_of prev m)) \/
   origin prev (m_tok dm) <> None).

Lemma plain_delivered_ok prev m f now : delivered_ok prev m f now (plain m).
Proof.
  split.
  - exists m, f, now. split; [left; reflexivity|]. split; reflexivity.
  - cbn [plain m_tok m_code m_obs]. unfold notif_of. destruct (origin prev (w_tok m)) eqn:E.
    + right. discriminate.
    + left. repeat split.
Qed.

(* one message through the block-wise layer *)
Lemma bw_layer_ok live c m f now prev U c' d acts :
  J c prev -> hash_injective_on U ->
  (forall t, In t (ball_tokens (BMsg m f now :: prev)) -> In t U) ->
  (forall szx num, w_b2 m = Some (szx, num, true) -> opens_transfer m = true \/ origin prev (w_tok m) <> None) ->
  (opens_transfer m = true -> ~ In f (ball_tokens prev)) ->
  bw_layer live c m f = (c', d, acts) ->
  J c' (BMsg m f now :: prev) /\ (forall dm, d = Some dm -> delivered_ok prev m f now dm).
Proof.
  intros HJ Hinj HU Hsc Hfr H.
  assert (HJ' : forall k cm, rget k (ca_recv c) = Some cm -> entry_ok (BMsg m f now :: prev) k cm).
  { intros k cm Hg. apply entry_ok_cons_msg; [exact Hfr|]. exact (HJ _ _ Hg). }
  assert (HUp : forall t, In t (ball_tokens prev) -> In t U).
  { intros t Ht. apply HU. unfold ball_tokens. cbn [flat_map]. apply in_or_app. right. exact Ht. }
  assert (HUm : In (w_tok m) U).
  { apply HU. unfold ball_tokens. cbn [flat_map bev_toks]. left. reflexivity. }
  assert (Hsame : (c', d, acts) = (c, Some (plain m), []) ->
            J c' (BMsg m f now :: prev) /\ (forall dm, d = Some dm -> delivered_ok prev m f now dm)).
  { intros E. inversion E; subst c' d acts. split; [exact HJ'|]. intros dm Hd. inversion Hd. apply plain_delivered_ok. }
  assert (Hnone : forall a, (c', d, acts) = (c, None, a) ->
            J c' (BMsg m f now :: prev) /\ (forall dm, d = Some dm -> delivered_ok prev m f now dm)).
  { intros a E. inversion E; subst c' d acts. split; [exact HJ'|]. intros dm Hd. discriminate. }
  unfold bw_layer in H. destruct (resp_code (w_code m)) eqn:Erc; cbn [negb] in H; [|apply (Hnone [BOther]); symmetry; exact H].
  destruct (w_tok m) as [|z l] eqn:Etok; [apply Hsame; symmetry; exact H|].
  destruct (w_b2 m) as [[[szx num] more]|] eqn:Eb; [|apply Hsame; symmetry; exact H].
  rewrite <- Etok in *. clear z l Etok.
  unfold bw_block in H.
  destruct ((0 <=? szx) && (szx <=? 6)); cbn [negb] in H; [|apply (Hnone [BOther]); symmetry; exact H].
  destruct (has_sent live c (w_tok m)); cbn [negb] in H; [|apply (Hnone [BErr]); symmetry; exact H].
  destruct (is_obs m) eqn:Eobs.
  - destruct more; cbn [negb] in H.
    + (* first block of a block-wise notification: a transfer is opened under the drawn token *)
      assert (Hop : opens_transfer m = true) by (rewrite (is_obs_opens m szx num Erc Eb); exact Eobs).
      destruct (zmem (crc64 f) (ca_send c)); [apply (Hnone [BErr]); symmetry; exact H|].
      assert (HUf : In f U).
      { apply HU. unfold ball_tokens. cbn [flat_map bev_toks]. rewrite Hop. right. left. reflexivity. }
      assert (Hnew : true = true -> rget (crc64 f) (ca_recv (mkCa (crc64 f :: ca_send c) (ca_recv c))) = None ->
                     entry_ok (BMsg m f now :: prev) (crc64 f) (open_entry m)).
      { intros _ _. exists m, f, now. split; [left; reflexivity|]. repeat split.
        left. exists f. split; [|reflexivity]. rewrite origin_cons_msg, Hop, bytes_eqb_refl. reflexivity. }
      destruct (bw_reasm_ok (entry_ok (BMsg m f now :: prev)) (mkCa (crc64 f :: ca_send c) (ca_recv c)) f m szx num true c' d acts
                  HJ' (fun k cm cm' => entry_ok_fields _ k cm cm') Hnew H) as [HJn Hdel].
      split; [exact HJn|]. intros dm Hd. destruct (Hdel dm Hd) as [Hp|[cm0 [Hg _]]].
      * subst dm. apply plain_delivered_ok.
      * (* an entry under the key of a token that has never been seen: impossible *)
        exfalso. cbn [ca_recv] in Hg. destruct (HJ _ _ Hg) as [m0 [f0 [n0 [Hi [_ [_ [_ [[f1 [Ho Hk]]|[Hk Ho]]]]]]]]].
        -- assert (Hf1 : In f1 (ball_tokens prev)).
           { apply bfresh_in_all. apply origin_fresh_in. rewrite Ho. discriminate. }
           assert (f = f1) by (apply Hinj; [exact HUf|apply HUp; exact Hf1|exact Hk]). subst f1.
           exact (Hfr Hop Hf1).
        -- assert (Hm0 : In (w_tok m0) (ball_tokens prev)) by (exact (msg_tok_in_all _ _ _ _ Hi)).
           assert (f = w_tok m0) by (apply Hinj; [exact HUf|apply HUp; exact Hm0|exact Hk]). subst f.
           exact (Hfr Hop Hm0).
    + destruct (num =? 0); [apply Hsame; symmetry; exact H|apply (Hnone [BErr]); symmetry; exact H].
  - (* a block without Observe option: of a transfer that runs under this message's token, if any *)
    assert (Hop : more = true -> opens_transfer m = false).
    { intros Hm. subst more. rewrite (is_obs_opens m szx num Erc Eb). exact Eobs. }
    assert (Hor : more = true -> forall t, origin (BMsg m f now :: prev) t = origin prev t).
    { intros Hm t. rewrite origin_cons_msg, (Hop Hm). reflexivity. }
    assert (Hnew : more = true -> rget (crc64 (w_tok m)) (ca_recv c) = None ->
                   entry_ok (BMsg m f now :: prev) (crc64 (w_tok m)) (open_entry m)).
    { intros Hm _. exists m, f, now. split; [left; reflexivity|]. repeat split.
      right. split; [reflexivity|]. rewrite (Hor Hm).
      subst more. destruct (Hsc szx num eq_refl) as [Hx|Hx]; [rewrite (Hop eq_refl) in Hx; discriminate|exact Hx]. }
    destruct (bw_reasm_ok (entry_ok (BMsg m f now :: prev)) c (w_tok m) m szx num more c' d acts HJ'
                (fun k cm cm' => entry_ok_fields _ k cm cm') Hnew H) as [HJn Hdel].
    split; [exact HJn|]. intros dm Hd. destruct (Hdel dm Hd) as [Hp|[cm0 [Hg [Ht [Hc Ho]]]]].
    + subst dm. apply plain_delivered_ok.
    + destruct (HJ _ _ Hg) as [m0 [f0 [n0 [Hi [E1 [E2 [E3 Hk]]]]]]]. split.
      * exists m0, f0, n0. split; [right; exact Hi|]. rewrite Ht, Ho, E1, E3. split; reflexivity.
      * destruct Hk as [[f1 [Hof Hk]]|[Hk Hof]].
        -- left. assert (Hf1 : In f1 (ball_tokens prev)).
           { apply bfresh_in_all. apply origin_fresh_in. rewrite Hof. discriminate. }
           assert (w_tok m = f1) by (apply Hinj; [exact HUm|apply HUp; exact Hf1|exact Hk]). subst f1.
           unfold notif_of. rewrite Hof, Ht, Hc, Ho, E1, E2, E3. repeat split.
        -- right. rewrite Ht, E1. exact Hof.
Qed.

(* ------------------------------------------------------------------ *)
(* E. the theorems                                                     *)
(* ------------------------------------------------------------------ *)

Definition obs_bytes_ok (m : wmsg) : Prop :=
  match w_obs m with Some bs => bytes_ok bs = true | None => True end.

(* hypotheses on a wire history, event by event ([prev]: the events before, latest first):
   - option values are bytes;
   - a Block2 option with M = 1 appears on the first block of a notification (with Observe option) or on
     a message under a token that was drawn for a transfer (RFC 7959 2.6: the remaining blocks of a
     notification); block-wise bodies of other responses under an observation's token are not covered;
   - the token drawn for a transfer is new: it occurs nowhere earlier in the history *)
Definition ev_ok (prev : list bev) (e : bev) : Prop :=
  match e with
  | BMsg m f _ =>
      obs_bytes_ok m /\
      (forall szx num, w_b2 m = Some (szx, num, true) -> opens_transfer m = true \/ origin prev (w_tok m) <> None) /\
      (opens_transfer m = true -> ~ In f (ball_tokens prev))
  | _ => True
  end.
Fixpoint hist_ok (prev evs : list bev) : Prop :=
  match evs with
  | [] => True
  | e :: r => ev_ok prev e /\ hist_ok (e :: prev) r
  end.

Definition ev_wire_wf (e : ev) : Prop :=
  match e with
  | EMsg m _ => match m_obs m with Some bs => bytes_ok bs = true | None => True end
  | _ => True
  end.

Lemma quiet_unknown_key s dm now s' os :
  tget (crc64 (m_tok dm)) (tbl s) = None -> handle_msg observe_wire s dm now = (s', os) -> quiet os = true.
Proof. intros Eg H. unfold handle_msg in H. rewrite Eg in H. inversion H. reflexivity. Qed.

Section Main.
Variables (U RG FR : list (list Z)).
Hypothesis Hinj : hash_injective_on U.
Hypothesis HRU : forall t, In t RG -> In t U.
Hypothesis HG : forall t, In t RG -> ~ In t FR.

Lemma bw_main : forall evs prev s D,
  Inv False (b_o s) D -> J (b_c s) prev ->
  (forall t, In t (regs (b_o s)) -> In t RG) ->
  (forall t, In t (ball_tokens prev) -> In t U) -> (forall t, In t (ball_tokens evs) -> In t U) ->
  (forall t, In t (bfresh_toks prev) -> In t FR) -> (forall t, In t (bfresh_toks evs) -> In t FR) ->
  (forall t, In t (breg_toks evs) -> In t RG) ->
  (forall m f now, In (BMsg m f now) prev -> obs_bytes_ok m) ->
  hist_ok prev evs ->
  Forall2 R (view_from prev (wire_trace (snd (bw_run_from s evs)))) (obs_trace (snd (bw_run_from s evs))) /\
  (forall t, In t (all_tokens (devs (snd (bw_run_from s evs)))) -> In t U) /\
  Forall ev_wire_wf (devs (snd (bw_run_from s evs))).
Proof.
  induction evs as [|e r IH]; intros prev s D HI HJ Hregs HUp HUe HFp HFe HRe Hbytes Hok.
  { cbn. repeat split; try constructor. intros t []. }
  destruct Hok as [Hev Hok].
  cbn [bw_run_from]. unfold bw_step.
  destruct (derive s e) as [[c' oe] acts] eqn:Ed.
  destruct (step observe_wire (b_o s) oe) as [o' os] eqn:Es.
  assert (HI' : Inv False o' (D ++ [(oe, os)])).
  { apply (step_inv False observe_wire (b_o s) D oe o' os HI); [intros []|exact Es]. }
  assert (Hregs' : regs o' = regs (b_o s) ++ ev_toks oe).
  { rewrite <- (inv_regs _ _ _ HI'), <- (inv_regs _ _ _ HI). apply reg_tokens_snoc. }
  assert (HUe1 : forall t, In t (bev_toks e) -> In t U).
  { intros t Ht. apply HUe. unfold ball_tokens. cbn [flat_map]. apply in_or_app. left. exact Ht. }
  assert (HUp' : forall t, In t (ball_tokens (e :: prev)) -> In t U).
  { intros t Ht. unfold ball_tokens in Ht. cbn [flat_map] in Ht. apply in_app_or in Ht. destruct Ht as [Ht|Ht]; [apply HUe1|apply HUp]; exact Ht. }
  assert (HUr : forall t, In t (ball_tokens r) -> In t U).
  { intros t Ht. apply HUe. unfold ball_tokens. cbn [flat_map]. apply in_or_app. right. exact Ht. }
  assert (HRr : forall t, In t (breg_toks r) -> In t RG).
  { intros t Ht. apply HRe. unfold breg_toks. cbn [flat_map]. apply in_or_app. right. exact Ht. }
  (* the facts about this event: related heads, invariants for the rest *)
  assert (Hhead :
    R (view_ev prev e, os) (oe, os) /\ (forall t, In t (ev_all_toks oe) -> In t U) /\ ev_wire_wf oe /\
    J c' (e :: prev) /\ (forall t, In t (regs o') -> In t RG) /\
    (forall m f now, In (BMsg m f now) (e :: prev) -> obs_bytes_ok m)).
  { destruct e as [tok|m f now|id code|id].
    - (* Observe() *)
      cbn [derive] in Ed. inversion Ed; subst c' oe acts; clear Ed.
      split; [split; [reflexivity|reflexivity]|]. split.
      { intros t Ht. apply HUe1. exact Ht. }
      split; [exact I|]. split.
      { intros k cm Hg. apply entry_ok_cons_other; [intros; discriminate|]. exact (HJ _ _ Hg). }
      split.
      { intros t Ht. rewrite Hregs' in Ht. apply in_app_or in Ht. destruct Ht as [Ht|Ht]; [exact (Hregs _ Ht)|].
        apply HRe. unfold breg_toks. cbn [flat_map]. apply in_or_app. left. exact Ht. }
      intros m f now [Hx|Hx]; [discriminate|exact (Hbytes _ _ _ Hx)].
    - (* a message from the peer *)
      cbn [derive] in Ed.
      destruct (bw_layer (obs_live_of (b_o s)) (b_c s) m f) as [[c2 d] a] eqn:El. inversion Ed; subst c' oe acts; clear Ed.
      destruct Hev as [Hb [Hsc Hfr]].
      destruct (bw_layer_ok _ _ _ _ now prev U _ _ _ HJ Hinj HUp' Hsc Hfr El) as [HJn Hdel].
      assert (Hbytes' : forall m1 f1 now1, In (BMsg m1 f1 now1) (BMsg m f now :: prev) -> obs_bytes_ok m1).
      { intros m1 f1 now1 [Hx|Hx]; [inversion Hx; subst; exact Hb|exact (Hbytes _ _ _ Hx)]. }
      assert (Hregs2 : forall t, In t (regs o') -> In t RG).
      { intros t Ht. rewrite Hregs' in Ht. apply in_app_or in Ht. destruct Ht as [Ht|Ht]; [exact (Hregs _ Ht)|].
        destruct d; destruct Ht. }
      destruct d as [dm|].
      + destruct (Hdel dm eq_refl) as [[m1 [f1 [now1 [Hi [Ht1 Ho1]]]]] Hsame].
        cbn [step] in Es.
        split.
        { split; [reflexivity|]. cbn [fst snd view_ev ev_rel]. split; [reflexivity|].
          destruct Hsame as [[Ea [Eb Ec]]|Hfresh].
          - right. unfold msg_same. cbn [m_tok m_code m_obs]. repeat split; symmetry; assumption.
          - left. destruct (tget (crc64 (m_tok dm)) (tbl (b_o s))) as [o|] eqn:Eg; [|exact (quiet_unknown_key _ _ _ _ _ Eg Es)].
            exfalso. destruct (inv_ent _ _ _ HI _ _ Eg) as [Hn [Hc _]].
            assert (Hrg : In (o_tok o) RG) by (apply Hregs; exact (nth_error_In _ _ Hn)).
            assert (Hfr1 : In (m_tok dm) (bfresh_toks prev)) by (apply origin_fresh_in; exact Hfresh).
            assert (o_tok o = m_tok dm).
            { apply Hinj; [apply HRU; exact Hrg|apply HUp; apply bfresh_in_all; exact Hfr1|exact Hc]. }
            apply (HG (o_tok o) Hrg). rewrite H. apply HFp. exact Hfr1. }
        split.
        { intros t Ht. cbn [ev_all_toks] in Ht. destruct Ht as [Ht|[]]. subst t. rewrite Ht1.
          apply HUp'. exact (msg_tok_in_all _ _ _ _ Hi). }
        split.
        { cbn [ev_wire_wf]. rewrite Ho1. exact (Hbytes' _ _ _ Hi). }
        split; [exact HJn|]. split; [exact Hregs2|exact Hbytes'].
      + cbn [step] in Es. inversion Es; subst o' os.
        split; [split; [reflexivity|reflexivity]|]. split; [intros t []|]. split; [exact I|].
        split; [exact HJn|]. split; [exact Hregs2|exact Hbytes'].
    - (* Cancel() *)
      cbn [derive] in Ed. inversion Ed; subst c' oe acts; clear Ed.
      split.
      { split; [reflexivity|]. cbn [fst snd view_ev].
        destruct (match nth_error (regs (b_o s)) id with Some tok => zmem (crc64 tok) (ca_send (b_c s)) | None => false end); exact I. }
      split.
      { intros t Ht. destruct (match nth_error (regs (b_o s)) id with Some tok => zmem (crc64 tok) (ca_send (b_c s)) | None => false end); destruct Ht. }
      split.
      { destruct (match nth_error (regs (b_o s)) id with Some tok => zmem (crc64 tok) (ca_send (b_c s)) | None => false end); exact I. }
      split.
      { intros k cm Hg. apply entry_ok_cons_other; [intros; discriminate|]. exact (HJ _ _ Hg). }
      split.
      { intros t Ht. rewrite Hregs' in Ht. apply in_app_or in Ht. destruct Ht as [Ht|Ht]; [exact (Hregs _ Ht)|].
        destruct (match nth_error (regs (b_o s)) id with Some tok => zmem (crc64 tok) (ca_send (b_c s)) | None => false end); destruct Ht. }
      intros m f now [Hx|Hx]; [discriminate|exact (Hbytes _ _ _ Hx)].
    - cbn [derive] in Ed. inversion Ed; subst c' oe acts; clear Ed.
      split; [split; [reflexivity|exact I]|]. split; [intros t []|]. split; [exact I|]. split.
      { intros k cm Hg. apply entry_ok_cons_other; [intros; discriminate|]. exact (HJ _ _ Hg). }
      split.
      { intros t Ht. rewrite Hregs' in Ht. apply in_app_or in Ht. destruct Ht as [Ht|Ht]; [exact (Hregs _ Ht)|destruct Ht]. }
      intros m f now [Hx|Hx]; [discriminate|exact (Hbytes _ _ _ Hx)]. }
  destruct Hhead as [HR [Htok [Hwf [HJ' [Hregs2 Hbytes']]]]].
  assert (HFp' : forall t, In t (bfresh_toks (e :: prev)) -> In t FR).
  { intros t Ht. unfold bfresh_toks in Ht. cbn [flat_map] in Ht. apply in_app_or in Ht. destruct Ht as [Ht|Ht]; [|exact (HFp _ Ht)].
    apply HFe. unfold bfresh_toks. cbn [flat_map]. apply in_or_app. left. exact Ht. }
  assert (HFr : forall t, In t (bfresh_toks r) -> In t FR).
  { intros t Ht. apply HFe. unfold bfresh_toks. cbn [flat_map]. apply in_or_app. right. exact Ht. }
  specialize (IH (e :: prev) (mkB o' c') (D ++ [(oe, os)]) HI' HJ' Hregs2 HUp' HUr HFp' HFr HRr Hbytes' Hok).
  destruct (bw_run_from (mkB o' c') r) as [s2 tr] eqn:Er. cbn [snd] in *.
  destruct IH as [IH1 [IH2 IH3]].
  cbn [wire_trace obs_trace devs map fst snd view_from]. split; [constructor; [exact HR|exact IH1]|]. split.
  - intros t Ht. unfold all_tokens in Ht. cbn [flat_map] in Ht. apply in_app_or in Ht.
    destruct Ht as [Ht|Ht]; [exact (Htok _ Ht)|exact (IH2 _ Ht)].
  - constructor; [exact Hwf|exact IH3].
Qed.
End Main.

(* the history hypotheses, for a whole history *)
Definition bw_hist_ok (evs : list bev) : Prop :=
  hist_ok [] evs /\
  hash_injective_on (ball_tokens evs) /\
  (forall t, In t (breg_toks evs) -> ~ In t (bfresh_toks evs)).

Lemma bw_main_top evs : bw_hist_ok evs ->
  Forall2 R (view (wire_trace (snd (bw_run evs)))) (obs_trace (snd (bw_run evs))) /\
  (forall t, In t (all_tokens (devs (snd (bw_run evs)))) -> In t (ball_tokens evs)) /\
  Forall ev_wire_wf (devs (snd (bw_run evs))).
Proof.
  intros [Hok [Hinj HG]]. unfold view, bw_run.
  apply (bw_main (ball_tokens evs) (breg_toks evs) (bfresh_toks evs) Hinj (breg_in_all evs) HG evs [] bst0 []).
  - apply inv0.
  - intros k cm Hg. discriminate.
  - intros t [].
  - intros t [].
  - intros t Ht. exact Ht.
  - intros t [].
  - intros t Ht. exact Ht.
  - intros t Ht. exact Ht.
  - intros m f now [].
  - exact Hok.
Qed.

(* VIEW: event by event, what the observation handler is given is the notification the event belongs to
   (its token, code and Observe option: those of the FIRST block when the body was reassembled), or the
   event does not concern any callback or registration *)
Theorem bw_view_related evs : bw_hist_ok evs ->
  Forall2 R (view (wire_trace (snd (bw_run evs)))) (obs_trace (snd (bw_run evs))).
Proof. intros H. exact (proj1 (bw_main_top evs H)). Qed.

(* the whole property on wire histories with block-wise notifications *)
Theorem bw_holds evs : bw_hist_ok evs -> c08b_class (wire_trace (snd (bw_run evs))) = 0%N.
Proof.
  intros H. destruct (bw_main_top evs H) as [HR [Htok Hwf]]. destruct H as [_ [Hinj _]].
  unfold c08b_class. rewrite (R_class _ _ HR), bw_obs_refines. apply c08a_holds.
  - apply wire_wf. eapply Forall_mono_in; [|exact Hwf]. intros e He. destruct e; exact He.
  - intros t t' Ht Ht'. apply Hinj; apply Htok; assumption.
Qed.

Theorem bw_forward evs id : bw_hist_ok evs -> aforward_ok id (view (wire_trace (snd (bw_run evs)))) = true.
Proof.
  intros H. destruct (bw_main_top evs H) as [HR [_ Hwf]].
  rewrite (R_aforward _ _ id HR), bw_obs_refines. apply amonotone.
  apply wire_wf. eapply Forall_mono_in; [|exact Hwf]. intros e He. destruct e; exact He.
Qed.

(* AFTER CANCEL, unconditionally: the application-level observations of a wire history are those of a run
   of the observation layer *)
Lemma view_from_snd prev tr : map snd (view_from prev tr) = map snd tr.
Proof. revert prev. induction tr as [|[e os] r IH]; intros prev; [reflexivity|]. cbn [view_from map snd]. rewrite IH. reflexivity. Qed.

Lemma no_cb_snd id (a b : trace) : map snd a = map snd b -> no_cb id a = no_cb id b.
Proof.
  revert b. induction a as [|x a IH]; intros [|y b] H; try discriminate; [reflexivity|].
  cbn [map] in H. inversion H. unfold no_cb in *. cbn [forallb]. rewrite H1, (IH b H2). reflexivity.
Qed.

Lemma after_ok_snd id (a b : trace) : map snd a = map snd b -> after_ok id a = after_ok id b.
Proof.
  revert b. induction a as [|x a IH]; intros [|y b] H; try discriminate; [reflexivity|].
  cbn [map] in H. inversion H. cbn [after_ok]. rewrite H1, (IH b H2), (no_cb_snd id a b H2). reflexivity.
Qed.

Theorem bw_after_cancel evs id : after_ok id (view (wire_trace (snd (bw_run evs)))) = true.
Proof.
  rewrite (after_ok_snd id _ (obs_trace (snd (bw_run evs)))).
  - rewrite bw_obs_refines. apply after_cancel.
  - unfold view. rewrite view_from_snd. unfold wire_trace, obs_trace. rewrite !map_map. reflexivity.
Qed.

(* the reassembly step never touches the Observe option of the entry: restarting a transfer because the
   ETag changed replaces the ETag and the body only *)
Theorem retag_keeps_observe cm m :
  c_obs (retag cm m) = c_obs cm /\ c_tok (retag cm m) = c_tok cm /\ c_code (retag cm m) = c_code cm.
Proof. destruct (retag_fields cm m) as [A [B C]]. repeat split; assumption. Qed.

(* a Cancel whose deregistration exchange fails has removed the observation all the same *)
Theorem cancel_err_removes s id tok s' os :
  nth_error (regs s) id = Some tok -> cancel_err s id = (s', os) -> live s' tok = false.
Proof.
  intros Hn H. unfold cancel_err, cancel_with in H. rewrite Hn in H. unfold live.
  destruct (tget (crc64 tok) (tbl s)) eqn:Eg; inversion H; subst s' os; cbn [tbl].
  - rewrite tget_tdel_same. reflexivity.
  - rewrite Eg. reflexivity.
Qed.
