(* Observe/Hash.v -- Token.Hash (CRC-64/ISO, [crc64] of Observe/Model.v) and tokens that differ only by
   leading zero bytes.

   The observation table (and the token-handler containers) are keyed by Token.Hash().  The theorems of
   Observe/Proofs.v about "own token only" hold up to equality of the hash, resp. under the hypothesis
   [hash_injective_on] for the tokens in play.  This file discharges that hypothesis for the family of
   tokens a length-blind key (e.g. "pack the bytes into the uint64") confuses: t, 00 t, 00 00 t, ...
   ({} vs {00}; {2a} vs {00 2a} vs {00 00 2a}).

   Why CRC-64 as computed by Go keeps them apart: the register starts at all-ones (crc = ^crc), one byte
   step c -> crc_byte c b is a bijection of the 64-bit register for every fixed b (the polynomial has its
   top bit set, so the bit shifted out can be read off the result), hence processing the same bytes t from
   two DIFFERENT registers ends in different registers; and k zero bytes (1 <= k <= 8) move the all-ones
   register away from all-ones (computed). *)
From Coq Require Import ZArith List Bool Lia.
From GoCoap Require Import Base.Bytes Observe.Model Observe.Spec Observe.Proofs.
Import ListNotations.
Open Scope Z_scope.

Definition w64 (x : Z) : Prop := 0 <= x < 2 ^ 64.

(* ---------- bit-level facts ---------- *)

Lemma lxor_w n a b : 0 <= n -> 0 <= a < 2 ^ n -> 0 <= b < 2 ^ n -> 0 <= Z.lxor a b < 2 ^ n.
Proof.
  intros Hn [Ha0 Ha] [Hb0 Hb]. split; [apply Z.lxor_nonneg; split; intros; assumption|].
  destruct (Z.eq_dec (Z.lxor a b) 0) as [E|N]; [rewrite E; apply Z.pow_pos_nonneg; lia|].
  assert (Hx0 : 0 <= Z.lxor a b) by (apply Z.lxor_nonneg; split; intros; assumption).
  apply Z.log2_lt_pow2; [lia|].
  pose proof (Z.log2_lxor a b Ha0 Hb0) as Hl.
  assert (Hla : a = 0 \/ Z.log2 a < n) by (destruct (Z.eq_dec a 0); [left; assumption|right; apply Z.log2_lt_pow2; lia]).
  assert (Hlb : b = 0 \/ Z.log2 b < n) by (destruct (Z.eq_dec b 0); [left; assumption|right; apply Z.log2_lt_pow2; lia]).
  assert (Hn' : 0 < n).
  { destruct (Z.eq_dec n 0) as [En|]; [|lia]. subst n. change (2 ^ 0) with 1 in *.
    assert (a = 0) by lia. assert (b = 0) by lia. subst a b. exfalso. apply N. reflexivity. }
  destruct Hla as [Ea|Hla]; destruct Hlb as [Eb|Hlb]; subst; cbn [Z.log2] in Hl; lia.
Qed.

Lemma lxor_cancel_r a b c : Z.lxor a c = Z.lxor b c -> a = b.
Proof.
  intros H. assert (E : Z.lxor (Z.lxor a c) c = Z.lxor (Z.lxor b c) c) by (rewrite H; reflexivity).
  rewrite !Z.lxor_assoc, Z.lxor_nilpotent, !Z.lxor_0_r in E. exact E.
Qed.

Lemma shiftr1 c : Z.shiftr c 1 = c / 2.
Proof. rewrite Z.shiftr_div_pow2 by lia. reflexivity. Qed.

Lemma half_range c : w64 c -> 0 <= c / 2 < 2 ^ 63.
Proof. unfold w64. intros H. change (2 ^ 64) with (2 * 2 ^ 63) in H. split; [apply Z.div_pos; lia|apply Z.div_lt_upper_bound; lia]. Qed.

Lemma poly_range : 0 <= crc_poly < 2 ^ 64.
Proof. unfold crc_poly. split; [|reflexivity]. cbv. discriminate. Qed.

Lemma bit63_small a : 0 <= a < 2 ^ 63 -> Z.testbit a 63 = false.
Proof. intros H. apply Z.testbit_false; [lia|]. rewrite Z.div_small by exact H. reflexivity. Qed.

Lemma bit63_poly : Z.testbit crc_poly 63 = true.
Proof. reflexivity. Qed.

Lemma crc_bit_range c : w64 c -> w64 (crc_bit c).
Proof.
  intros H. pose proof (half_range c H) as Hh. unfold crc_bit, w64. rewrite shiftr1.
  destruct (Z.odd c).
  - apply lxor_w; [lia| |exact poly_range]. change (2 ^ 64) with (2 * 2 ^ 63). lia.
  - change (2 ^ 64) with (2 * 2 ^ 63). lia.
Qed.

Lemma odd_half c : c = 2 * (c / 2) + (if Z.odd c then 1 else 0).
Proof. rewrite <- Zmod_odd. apply Z.div_mod. lia. Qed.

(* one shift step of the register is injective: bit 63 of the result tells whether the polynomial was added *)
Lemma crc_bit_inj x y : w64 x -> w64 y -> crc_bit x = crc_bit y -> x = y.
Proof.
  intros Hx Hy H. pose proof (half_range x Hx) as Hhx. pose proof (half_range y Hy) as Hhy.
  unfold crc_bit in H. rewrite !shiftr1 in H.
  rewrite (odd_half x), (odd_half y).
  destruct (Z.odd x) eqn:Ox; destruct (Z.odd y) eqn:Oy.
  - apply lxor_cancel_r in H. rewrite H. reflexivity.
  - exfalso. assert (E : Z.testbit (Z.lxor (x / 2) crc_poly) 63 = Z.testbit (y / 2) 63) by (rewrite H; reflexivity).
    rewrite Z.lxor_spec, bit63_poly, !bit63_small in E by assumption. discriminate.
  - exfalso. assert (E : Z.testbit (x / 2) 63 = Z.testbit (Z.lxor (y / 2) crc_poly) 63) by (rewrite H; reflexivity).
    rewrite Z.lxor_spec, bit63_poly, !bit63_small in E by assumption. discriminate.
  - rewrite H. reflexivity.
Qed.

Lemma iter_bit_range n c : w64 c -> w64 (Nat.iter n crc_bit c).
Proof. intros H. induction n as [|n IH]; [exact H|]. cbn [Nat.iter]. apply crc_bit_range. exact IH. Qed.

Lemma iter_bit_inj n x y : w64 x -> w64 y -> Nat.iter n crc_bit x = Nat.iter n crc_bit y -> x = y.
Proof.
  intros Hx Hy. induction n as [|n IH]; [intros H; exact H|].
  cbn [Nat.iter]. intros H. apply IH. apply crc_bit_inj; [apply iter_bit_range; exact Hx|apply iter_bit_range; exact Hy|exact H].
Qed.

Lemma crc_byte_iter c b : crc_byte c b = Nat.iter 8 crc_bit (Z.lxor c b).
Proof. reflexivity. Qed.

Definition byte (b : Z) : Prop := 0 <= b < 256.

Lemma xor_byte_range c b : w64 c -> byte b -> w64 (Z.lxor c b).
Proof. intros Hc Hb. apply lxor_w; [lia|exact Hc|]. unfold byte in Hb. change (2 ^ 64) with 18446744073709551616. lia. Qed.

Lemma crc_byte_range c b : w64 c -> byte b -> w64 (crc_byte c b).
Proof. intros Hc Hb. rewrite crc_byte_iter. apply iter_bit_range. apply xor_byte_range; assumption. Qed.

(* for a fixed byte, the byte step is injective in the register *)
Lemma crc_byte_inj c c' b : w64 c -> w64 c' -> byte b -> crc_byte c b = crc_byte c' b -> c = c'.
Proof.
  intros Hc Hc' Hb H. rewrite !crc_byte_iter in H.
  apply iter_bit_inj in H; [|apply xor_byte_range; assumption|apply xor_byte_range; assumption].
  apply lxor_cancel_r in H. exact H.
Qed.

Lemma fold_range l : Forall byte l -> forall s, w64 s -> w64 (fold_left crc_byte l s).
Proof.
  induction 1 as [|b l Hb Hl IH]; intros s Hs; [exact Hs|].
  cbn [fold_left]. apply IH. apply crc_byte_range; assumption.
Qed.

(* the same bytes processed from two registers: equal results only for equal registers *)
Lemma fold_inj l : Forall byte l -> forall s s', w64 s -> w64 s' ->
  fold_left crc_byte l s = fold_left crc_byte l s' -> s = s'.
Proof.
  induction 1 as [|b l Hb Hl IH]; intros s s' Hs Hs' H; [exact H|].
  cbn [fold_left] in H. apply IH in H; [|apply crc_byte_range; assumption|apply crc_byte_range; assumption].
  apply crc_byte_inj in H; assumption.
Qed.

Lemma bytes_ok_Forall l : bytes_ok l = true -> Forall byte l.
Proof.
  unfold bytes_ok. rewrite forallb_forall. intros H. apply Forall_forall. intros b Hb.
  specialize (H b Hb). unfold byte_ok in H. apply andb_prop in H. destruct H as [H1 H2].
  apply Z.leb_le in H1. apply Z.ltb_lt in H2. unfold byte. lia.
Qed.

Lemma M64_range : w64 M64.
Proof. unfold w64, M64. split; [cbv; discriminate|reflexivity]. Qed.

(* ---------- leading zero bytes ---------- *)

Definition zeros (k : nat) : list Z := repeat 0 k.

Lemma zeros_bytes k : Forall byte (zeros k).
Proof. apply Forall_forall. intros b Hb. apply repeat_spec in Hb. subst b. unfold byte. lia. Qed.

(* k zero bytes move the initial register (all ones) away from itself, for every k a token can have *)
Lemma zeros_move k : (1 <= k <= 8)%nat -> fold_left crc_byte (zeros k) M64 <> M64.
Proof.
  intros Hk. do 9 (destruct k as [|k]; [first [lia | vm_compute; discriminate]|]). lia.
Qed.

Theorem hash_leading_zeros t k : bytes_ok t = true -> (1 <= k <= 8)%nat -> crc64 (zeros k ++ t) <> crc64 t.
Proof.
  intros Ht Hk H. apply bytes_ok_Forall in Ht. unfold crc64 in H. apply lxor_cancel_r in H.
  rewrite fold_left_app in H. apply fold_inj in H; [|exact Ht| |exact M64_range].
  - exact (zeros_move k Hk H).
  - apply fold_range; [apply zeros_bytes|exact M64_range].
Qed.

Lemma zeros_add j d : zeros (d + j) = zeros d ++ zeros j.
Proof. unfold zeros. apply repeat_app. Qed.

Theorem hash_zero_padded_distinct t j k : bytes_ok t = true -> (j <= 8)%nat -> (k <= 8)%nat ->
  crc64 (zeros j ++ t) = crc64 (zeros k ++ t) -> j = k.
Proof.
  intros Ht Hj Hk H.
  assert (Hb : forall n, bytes_ok (zeros n ++ t) = true).
  { intros n. unfold bytes_ok. rewrite forallb_app. apply andb_true_intro. split; [|exact Ht].
    apply forallb_forall. intros b Hb. apply repeat_spec in Hb. subst b. reflexivity. }
  destruct (lt_eq_lt_dec j k) as [[L|E]|L]; [|exact E|]; exfalso.
  - replace k with ((k - j) + j)%nat in H by lia. rewrite zeros_add, <- app_assoc in H.
    symmetry in H. revert H. apply hash_leading_zeros; [apply Hb|lia].
  - replace j with ((j - k) + k)%nat in H by lia. rewrite zeros_add, <- app_assoc in H.
    revert H. apply hash_leading_zeros; [apply Hb|lia].
Qed.

(* tok is t with up to 8 zero bytes in front *)
Definition zero_padded (t tok : list Z) : Prop := exists k, (k <= 8)%nat /\ tok = zeros k ++ t.

Theorem zero_padded_injective t toks : bytes_ok t = true ->
  (forall x, In x toks -> zero_padded t x) -> hash_injective_on toks.
Proof.
  intros Ht Hall a b Ha Hb H.
  destruct (Hall a Ha) as [j [Hj Ea]]. destruct (Hall b Hb) as [k [Hk Eb]]. subst a b.
  rewrite (hash_zero_padded_distinct t j k Ht Hj Hk H). reflexivity.
Qed.

(* ---------- the property for histories over such a family ---------- *)

Theorem own_token_zero_padded dec evs t : bytes_ok t = true ->
  (forall x, In x (all_tokens evs) -> zero_padded t x) -> own_ok (snd (run dec evs)) = true.
Proof. intros Ht H. apply own_token. exact (zero_padded_injective t _ Ht H). Qed.

Theorem register_zero_padded dec evs t : bytes_ok t = true ->
  (forall x, In x (all_tokens evs) -> zero_padded t x) -> register_ok (snd (run dec evs)) = true.
Proof. intros Ht H. apply register. exact (zero_padded_injective t _ Ht H). Qed.

Theorem c08_holds_zero_padded dec evs t : wf_evs dec evs -> bytes_ok t = true ->
  (forall x, In x (all_tokens evs) -> zero_padded t x) -> c08_class (snd (run dec evs)) = 0%N.
Proof. intros Hw Ht H. apply c08_holds; [exact Hw|]. exact (zero_padded_injective t _ Ht H). Qed.
