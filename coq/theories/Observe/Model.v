(* Observe/Model.v -- executable transcription of the client side of CoAP Observe
   in plgd-dev/go-coap, as the code is:

     net/observation/observation.go   ValidSequenceNumber            -> [valid]
     net/observation/handler.go       Observation.wantBeNotified     -> [want]
                                      Observation.handle             -> inside [handle_msg]
                                      Handler.Handle                 -> [handle_msg]
                                      Handler.NewObservation         -> [reg] (up to the wait for the first
                                                                        response) + the first-response branch
                                                                        of [handle_msg] (code check, cleanUp)
                                      Observation.cleanUp / Cancel   -> [cancel]
     message/getToken.go              Token.Hash (CRC-64/ISO)        -> [crc64]
     message/option.go                Option.Unmarshal length filter -> [observe_wire]

   Conventions: bytes and integers are Z; uint32 subtraction is written [u32 (a - b)];
   time.Time is Z nanoseconds since the Unix epoch (unbounded, so the zero Time fits),
   time.Duration is Z nanoseconds and Time.Sub saturates like the Go function.
   Registrations are numbered 0,1,2,... in the order Observe() was called (a [nat]). *)
From Coq Require Import ZArith List Bool.
From GoCoap Require Import Base.Bytes Gen.Timing Gen.ObserveConsts.
Import ListNotations.
Open Scope Z_scope.

(* ---------- time.Time.Sub ---------- *)
Definition maxDuration : Z := 2 ^ 63 - 1.
Definition minDuration : Z := - 2 ^ 63.
Definition time_sub (t u : Z) : Z :=
  let d := t - u in
  if d >? maxDuration then maxDuration else if d <? minDuration then minDuration else d.

(* ---------- ValidSequenceNumber(oldValue, newValue uint32, lastEventOccurs, now) ---------- *)
Definition u32 (x : Z) : Z := x mod 2 ^ 32.

Definition valid (old new last now : Z) : bool :=
  if (old <? new) && (u32 (new - old) <? 2 ^ 23) then true
  else if (old >? new) && (u32 (old - new) >? 2 ^ 23) then true
  else if time_sub now last >? ObservationSequenceTimeout then true
  else false.

(* ---------- Token.Hash(): crc64.Checksum(t, crc64.MakeTable(crc64.ISO)) ---------- *)
Definition crc_poly : Z := 216 * 2 ^ 56.           (* 0xD800000000000000 *)
Definition M64 : Z := Z.ones 64.
Definition crc_bit (c : Z) : Z :=
  if Z.odd c then Z.lxor (Z.shiftr c 1) crc_poly else Z.shiftr c 1.
Definition crc_byte (c b : Z) : Z :=
  crc_bit (crc_bit (crc_bit (crc_bit (crc_bit (crc_bit (crc_bit (crc_bit (Z.lxor c b)))))))).
Definition crc64 (l : list Z) : Z := Z.lxor (fold_left crc_byte l M64) M64.

(* ---------- messages as the observation layer sees them ---------- *)
Record msg := mkMsg {
  m_tok : list Z;            (* token *)
  m_code : Z;                (* response code *)
  m_obs : option (list Z);   (* value bytes of the (first) Observe option, if the datagram carries one *)
  m_tag : Z                  (* stands for the payload *)
}.

(* r.Observe() on a message decoded from the wire: the datagram decoder drops an
   option whose length is outside its definition (Observe: 0..3 bytes), so such a
   message reaches the observation layer without Observe option. *)
Definition observe_wire (m : msg) : option Z :=
  match m_obs m with
  | Some bs => if (ObserveMinLen <=? blen bs) && (blen bs <=? ObserveMaxLen) then Some (be bs) else None
  | None => None
  end.

(* r.Observe() on a message handed to Handler.Handle directly (no wire decoding):
   DecodeUint32 reads at most the first four bytes. *)
Definition observe_direct (m : msg) : option Z :=
  match m_obs m with
  | Some bs => Some (be (firstn 4 bs))
  | None => None
  end.

(* ---------- Observation ---------- *)
Record obs := mkObs {
  o_id : nat;        (* which registration created it (identity of the callback) *)
  o_tok : list Z;    (* req.Token *)
  o_seq : Z;         (* private.obsSequence *)
  o_last : Z;        (* private.lastEvent *)
  o_wait : bool      (* waitForResponse *)
}.

Definition set_wait (o : obs) (w : bool) : obs := mkObs (o_id o) (o_tok o) (o_seq o) (o_last o) w.

(* wantBeNotified: [sq] is r.Observe() (None = error, i.e. no Observe option) *)
Definition want (o : obs) (sq : option Z) (now : Z) : obs * bool :=
  match sq with
  | None => (o, true)
  | Some v =>
      if valid (o_seq o) v (o_last o) now
      then (mkObs (o_id o) (o_tok o) v now (o_wait o), true)
      else (o, false)
  end.

(* ---------- Handler.observations : coapSync.Map[uint64]*Observation ---------- *)
Definition table := list (Z * obs).
Fixpoint tget (k : Z) (t : table) : option obs :=
  match t with
  | [] => None
  | (k', o) :: r => if k' =? k then Some o else tget k r
  end.
Fixpoint tdel (k : Z) (t : table) : table :=
  match t with
  | [] => []
  | (k', o) :: r => if k' =? k then tdel k r else (k', o) :: tdel k r
  end.
Definition tset (k : Z) (o : obs) (t : table) : table := (k, o) :: tdel k t.

Record st := mkSt {
  tbl : table;
  regs : list (list Z)     (* token of registration 0,1,2,...: the Observation objects the callers hold *)
}.
Definition st0 : st := mkSt [] [].

(* what can be observed from outside *)
Inductive out :=
| Cb (id : nat) (tok : list Z) (sq : option Z) (tag : Z)   (* observeFunc of registration id invoked with this message *)
| Nx (tok : list Z) (tag : Z)                              (* message passed on to the connection's own handler *)
| RegRet (id : nat) (cls : Z)     (* NewObservation returned: 0 ok, 1 ok but peer does not observe (entry removed),
                                     2 unexpected code, 3 token already in use, 5 empty token *)
| CanRet (id : nat) (cls : Z).    (* Cancel returned: 0 nothing to do (nil), 1 deregistered (nil), 2 deregistration answered
                                     with an unexpected code (error), 3 the deregistration exchange failed (error) *)

Definition code_ok (c : Z) : bool := (c =? codeContent) || (c =? codeValid).

(* Handler.Handle -> Observation.handle; when the observation still waits for its
   first response the blocked NewObservation resumes (code check, cleanUp). *)
Definition handle_msg (dec : msg -> option Z) (s : st) (m : msg) (now : Z) : st * list out :=
  let k := crc64 (m_tok m) in
  match tget k (tbl s) with
  | None => (s, [Nx (m_tok m) (m_tag m)])
  | Some o =>
      let sq := dec m in
      let '(o1, deliver) := want o sq now in
      let o2 := set_wait o1 false in
      let cb := if deliver then [Cb (o_id o) (m_tok m) sq (m_tag m)] else [] in
      if o_wait o then
        if code_ok (m_code m) then
          match sq with
          | None => (mkSt (tdel (crc64 (o_tok o)) (tbl s)) (regs s), cb ++ [RegRet (o_id o) 1])
          | Some _ => (mkSt (tset k o2 (tbl s)) (regs s), cb ++ [RegRet (o_id o) 0])
          end
        else (mkSt (tdel (crc64 (o_tok o)) (tbl s)) (regs s), cb ++ [RegRet (o_id o) 2])
      else (mkSt (tset k o2 (tbl s)) (regs s), cb)
  end.

(* Handler.NewObservation up to the point where it waits for the first response.
   A token that is already in use is refused (ErrKeyAlreadyExists) and the entry of the
   observation that uses it is left alone: the deferred cleanUp is installed only after a
   successful LoadOrStore (before the repair it was installed earlier and deleted that entry). *)
Definition reg (s : st) (tok : list Z) : st * list out :=
  let id := length (regs s) in
  let rs := regs s ++ [tok] in
  match tok with
  | [] => (mkSt (tbl s) rs, [RegRet id 5])
  | _ =>
      let k := crc64 tok in
      match tget k (tbl s) with
      | Some _ => (mkSt (tbl s) rs, [RegRet id 3])
      | None => (mkSt (tset k (mkObs id tok 0 zeroTimeUnixNano true) (tbl s)) rs, [])
      end
  end.

(* Observation.Cancel on the object returned by registration id.  cleanUp() comes first: when the
   token's key is no longer in the table there is nothing to do (nil); otherwise the entry is
   removed and the deregistration request (GET, Observe: 1) is sent through [do].  [cls] is how
   Cancel returns after that: 1 the request was answered 2.05 / 2.03, 2 it was answered with
   another code (error), 3 the exchange itself failed -- [do] returned an error (context
   cancelled or expired, request or answer lost, write failure) -- and Cancel returns that error.
   In no case is the entry put back. *)
Definition cancel_with (s : st) (id : nat) (cls : Z) : st * list out :=
  match nth_error (regs s) id with
  | None => (s, [])
  | Some tok =>
      let k := crc64 tok in
      match tget k (tbl s) with
      | None => (s, [CanRet id 0])
      | Some _ => (mkSt (tdel k (tbl s)) (regs s), [CanRet id cls])
      end
  end.

(* [code] is the code of the answer to the deregistration request; this is
   [cancel_with s id (if code_ok code then 1 else 2)], written out *)
Definition cancel (s : st) (id : nat) (code : Z) : st * list out :=
  match nth_error (regs s) id with
  | None => (s, [])
  | Some tok =>
      let k := crc64 tok in
      match tget k (tbl s) with
      | None => (s, [CanRet id 0])
      | Some _ => (mkSt (tdel k (tbl s)) (regs s), [CanRet id (if code_ok code then 1 else 2)])
      end
  end.

(* the deregistration exchange failed *)
Definition cancel_err (s : st) (id : nat) : st * list out := cancel_with s id 3.

Inductive ev :=
| EReg (tok : list Z)              (* Observe() called; the request carries this token *)
| EMsg (m : msg) (now : Z)         (* a message from the peer is processed at time now *)
| ECancel (id : nat) (code : Z)    (* Cancel() on registration id, deregistration answered with code *)
| ECancelErr (id : nat)            (* Cancel() on registration id, the deregistration exchange fails *)
| EQuiet.                          (* a message from the peer that is consumed below the observation layer
                                      (a block of a block-wise transfer in progress, a message the
                                      block-wise layer refuses): Handler.Handle is not called *)

Definition step (dec : msg -> option Z) (s : st) (e : ev) : st * list out :=
  match e with
  | EReg tok => reg s tok
  | EMsg m now => handle_msg dec s m now
  | ECancel id code => cancel s id code
  | ECancelErr id => cancel_err s id
  | EQuiet => (s, [])
  end.

Definition trace := list (ev * list out).

Fixpoint run_from (dec : msg -> option Z) (s : st) (evs : list ev) : st * trace :=
  match evs with
  | [] => (s, [])
  | e :: r =>
      let '(s1, os) := step dec s e in
      let '(s2, tr) := run_from dec s1 r in
      (s2, (e, os) :: tr)
  end.

Definition run (dec : msg -> option Z) (evs : list ev) : st * trace := run_from dec st0 evs.

(* is a token's key in the table (Client.GetObservationRequest finds it) *)
Definition live (s : st) (tok : list Z) : bool :=
  match tget (crc64 tok) (tbl s) with Some _ => true | None => false end.
