(* Observe/BwSpec.v -- property C08 on histories in which notifications may be transferred
   block-wise (RFC 7959 2.6), written from the property text and the RFCs only.

   RFC 7959 2.6: a notification whose body does not fit carries the Observe option and a Block2
   option with M = 1 in its first block only; the client retrieves the rest with GET requests that
   use a NEW token and carry no Observe option.  So the answers to those GETs - which arrive under
   the new token, without Observe option - belong to the notification that opened the transfer,
   and when the application callback is finally invoked with the reassembled body, it is invoked
   FOR THAT NOTIFICATION: its sequence number (RFC 7641 3.4) is the one of the first block, whatever
   the options of the message handed to the callback say.

   [view] rewrites a wire-level history into the vocabulary of Observe/Spec.v: every message
   event becomes the notification it belongs to (token, code, Observe option of the first block).
   Freshness is judged on the sequence number of THE EVENT's notification ([adeliveries_ev]), not
   on what the delivered message claims. The time of a block-wise notification is the time at
   which its last block arrived (when it was received in full). *)
From Coq Require Import ZArith NArith List Bool.
From GoCoap Require Import Base.Bytes Observe.Model Observe.Spec Observe.BwModel.
Import ListNotations.
Open Scope Z_scope.

(* RFC 7641 2: the Observe option value is an unsigned integer of 0..3 bytes *)
Definition rfc_seq (o : option (list Z)) : option Z :=
  match o with
  | Some bs => if blen bs <=? 3 then Some (be bs) else None
  | None => None
  end.

(* first block of a block-wise notification *)
Definition opens_transfer (m : wmsg) : bool :=
  match rfc_seq (w_obs m), w_b2 m with
  | Some _, Some (_, _, true) => true
  | _, _ => false
  end.

(* the notification in whose transfer the token [tok] was introduced; [prev]: earlier events, latest first *)
Fixpoint origin (prev : list bev) (tok : list Z) : option wmsg :=
  match prev with
  | [] => None
  | BMsg m0 f _ :: r => if opens_transfer m0 && bytes_eqb f tok then Some m0 else origin r tok
  | _ :: r => origin r tok
  end.

Definition notif_of (prev : list bev) (m : wmsg) : wmsg :=
  match origin prev (w_tok m) with Some m0 => m0 | None => m end.

Definition view_ev (prev : list bev) (e : bev) : ev :=
  match e with
  | BReg tok => EReg tok
  | BMsg m _ now => let n := notif_of prev m in EMsg (mkMsg (w_tok n) (w_code n) (w_obs n) (w_tag m)) now
  | BCancel id code => ECancel id code
  | BCancelErr id => ECancelErr id
  end.

Fixpoint view_from (prev : list bev) (tr : btrace) : trace :=
  match tr with
  | [] => []
  | (e, os) :: r => (view_ev prev e, os) :: view_from (e :: prev) r
  end.
Definition view (tr : btrace) : trace := view_from [] tr.

(* deliveries to the callback of registration id: (sequence number of the event's notification, time) *)
Definition adeliveries_ev (id : nat) (x : ev * list out) : list (Z * Z) :=
  match fst x with
  | EMsg m now =>
      if existsb (is_cb id) (snd x) then
        match rfc_seq (m_obs m) with Some v => [(v, now)] | None => [] end
      else []
  | _ => []
  end.
Definition adeliveries (id : nat) (tr : trace) : list (Z * Z) := flat_map (adeliveries_ev id) tr.
Definition aforward_ok (id : nat) (tr : trace) : bool := chain_ok (adeliveries id tr).

(* the property on a viewed history; same numbering as c08_class *)
Definition c08a_class (tr : trace) : N :=
  let n := length (reg_tokens tr) in
  if first_bad (fun id => aforward_ok id tr) n then 1%N
  else if negb (own_ok tr) then 2%N
  else if negb (register_ok tr) then 3%N
  else if first_bad (fun id => after_ok id tr) n then 4%N
  else 0%N.

Definition c08b_class (tr : btrace) : N := c08a_class (view tr).
