(* C08, work package C08k: the same notification handled by several goroutines at once.

   Observation.wantBeNotified reads the clock, then takes private.mutex and, in ONE critical
   section, tests ValidSequenceNumber against the recorded (sequence, time) and records the
   new pair.  Concurrent calls are therefore serialised by the mutex: a batch of goroutines
   behaves like [want] folded over the batch in the order in which the lock is taken
   ([batch]); the time stamps are read BEFORE the lock, so along that order they need not be
   monotone.

   [batch_once]: copies of one notification (same 24-bit sequence number, clock readings at
   most 128 s apart, in any order) reach the callback at most once, from any state.
   [split_*]: if the test and the recording are two critical sections (goroutine = two
   atomic steps, [TCheck] then [TRecord]), there is a schedule of two copies under which both
   are delivered - the atomicity is what the property rests on. *)
From Coq Require Import ZArith List Bool Lia.
From GoCoap Require Import Base.Bytes Observe.Model Observe.Spec Observe.Proofs.
Import ListNotations.
Open Scope Z_scope.

(* goroutines handling copies of notification [v]; [ts] = their clock readings in lock order *)
Fixpoint batch (o : obs) (v : Z) (ts : list Z) : obs * list bool :=
  match ts with
  | [] => (o, [])
  | t :: r =>
      let '(o1, d) := want o (Some v) t in
      let '(o2, ds) := batch o1 v r in (o2, d :: ds)
  end.

Definition delivered (ds : list bool) : nat := length (filter (fun b => b) ds).

Lemma batch_after o v ts :
  0 <= v < 2 ^ 24 -> o_seq o = v -> (forall t, In t ts -> t - o_last o <= rfc_128s) ->
  delivered (snd (batch o v ts)) = 0%nat /\ fst (batch o v ts) = o.
Proof.
  intros Hv Hs. induction ts as [|t r IH]; intros Ht; [split; reflexivity|].
  cbn [batch want]. rewrite Hs, (valid_duplicate v (o_last o) t Hv).
  assert (Hle : t - o_last o <= rfc_128s) by (apply Ht; left; reflexivity).
  assert (Hf : (t - o_last o >? rfc_128s) = false) by (rewrite Z.gtb_ltb; apply Z.ltb_ge; exact Hle).
  rewrite Hf.
  destruct IH as [IH1 IH2]; [intros t' Ht'; apply Ht; right; exact Ht'|].
  destruct (batch o v r) as [o2 ds] eqn:E. cbn in *. split; assumption.
Qed.

Theorem batch_once : forall ts o v,
  0 <= v < 2 ^ 24 ->
  (forall t t', In t ts -> In t' ts -> t' - t <= rfc_128s) ->
  (delivered (snd (batch o v ts)) <= 1)%nat.
Proof.
  induction ts as [|t r IH]; intros o v Hv Ht; [cbn; lia|].
  cbn [batch want].
  destruct (valid (o_seq o) v (o_last o) t) eqn:Ev.
  - pose (o1 := mkObs (o_id o) (o_tok o) v t (o_wait o)).
    destruct (batch_after o1 v r Hv eq_refl) as [H0 _].
    { intros t' Ht'. cbn. apply Ht; [left; reflexivity|right; exact Ht']. }
    fold o1. destruct (batch o1 v r) as [o2 ds]. cbn in *. unfold delivered in *. cbn. lia.
  - specialize (IH o v Hv). 
    assert (Hr : forall t0 t', In t0 r -> In t' r -> t' - t0 <= rfc_128s)
      by (intros; apply Ht; right; assumption).
    specialize (IH Hr). destruct (batch o v r) as [o2 ds]. cbn in *. exact IH.
Qed.

(* ---- test and recording as two critical sections (what must NOT happen) ---- *)
Definition check (o : obs) (v now : Z) : bool := valid (o_seq o) v (o_last o) now.
Definition record (o : obs) (v now : Z) : obs := mkObs (o_id o) (o_tok o) v now (o_wait o).

Lemma want_check_record o v now :
  want o (Some v) now = if check o v now then (record o v now, true) else (o, false).
Proof. reflexivity. Qed.

Inductive tstep := TCheck (g : nat) | TRecord (g : nat).

(* goroutine g handles (v, now g); passed g = its test succeeded; a goroutine records (and calls
   back) only after a successful test *)
Fixpoint split_run (v : Z) (now : nat -> Z) (sched : list tstep) (o : obs) (passed : nat -> bool)
  : obs * list nat :=
  match sched with
  | [] => (o, [])
  | TCheck g :: r =>
      let p := check o v (now g) in
      split_run v now r o (fun h => if Nat.eqb h g then p else passed h)
  | TRecord g :: r =>
      if passed g
      then let '(o', cb) := split_run v now r (record o v (now g)) passed in (o', g :: cb)
      else split_run v now r o passed
  end.

(* both copies of notification 2 are delivered although the second is not fresher than the first *)
Theorem split_not_once :
  let o := mkObs 0 [1] 1 1000 false in
  snd (split_run 2 (fun _ => 2000) [TCheck 0; TCheck 1; TRecord 0; TRecord 1] o (fun _ => false)) = [0%nat; 1%nat]
  /\ rfc_fresh 2 2 2000 2000 = false
  /\ snd (batch o 2 [2000; 2000]) = [true; false].
Proof. vm_compute. repeat split; reflexivity. Qed.
