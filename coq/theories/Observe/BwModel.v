(* Observe/BwModel.v -- block-wise notifications: the receive path of net/blockwise in front of
   the observation handler, on a udp/client.Conn with block-wise transfer enabled, as the code is:

     udp/client/conn.go          Conn.handle: blockWise.Handle(w, m, szx, max, next) with
                                 next = token handler, else observationHandler.Handle        -> [bw_msg]
     net/blockwise/blockwise.go  Handle -> handleReceivedMessage (response codes: the default
                                 branch) -> processReceivedMessage(.., Block2, Size2)         -> [bw_layer]
                                 isObserveResponse, handleObserveResponse (RFC 7959 2.6: the
                                 rest of a block-wise notification is fetched with GETs under a
                                 NEW token)                                                   -> [is_obs], the [fresh] input
                                 getSentRequest (sendingMessagesCache, else the observation
                                 registered for the token: Conn.GetObservationRequest)        -> [has_sent]
                                 getCachedReceivedMessage (the cached message takes over ALL
                                 options of the block that opens the entry, its token, its code) -> [open_entry]
                                 getPayloadFromCachedReceivedMessage (ETag of the block differs
                                 from the cached one: ONLY the ETag is replaced, the body is
                                 truncated: the transfer restarts)                            -> [retag]
                                 copyToPayloadFromOffset guarded by off == payloadSize, the
                                 completion branch (entry removed, next(w, cached message)),
                                 the request for the next block (NUM = payloadSize / size)    -> [bw_layer]
   below it: Observe/Model.v ([handle_msg], [reg], [cancel_with]).

   Scope.  Messages from the peer with a response code (2.01 .. 5.31 except 2.31 Continue); other
   codes take branches of Handle this file does not transcribe ([BOther], nothing delivered).
   SZX 0..6 (BERT is not offered by the datagram client).  Events are atomic and no housekeeping
   tick (CheckExpirations) runs between them, i.e. cache entries do not expire: an expired entry
   is simply absent, which is the behaviour of a transfer that was never started.
   The token drawn by message.GetToken() in handleObserveResponse is an input of the event
   ([fresh]).  When the notification has no further block (M = 0) the drawn token never shows on
   the wire; its entry in sendingMessagesCache can never be addressed by the peer and is left out
   of the state (as in Blockwise/Model.v).
   A body is a list of chunks (tag, length): one chunk per appended block payload; the tag stands
   for the first two bytes of the payload (what the harness reads back from a delivered body). *)
From Coq Require Import ZArith List Bool.
From GoCoap Require Import Base.Bytes Gen.ObserveConsts Block.Model Observe.Model.
Import ListNotations.
Open Scope Z_scope.

(* a message from the peer as the block-wise layer sees it *)
Record wmsg := mkW {
  w_tok : list Z;
  w_code : Z;
  w_obs : option (list Z);            (* value bytes of the Observe option *)
  w_etag : option (list Z);           (* value bytes of the ETag option *)
  w_b2 : option (Z * Z * bool);       (* Block2: SZX, NUM, M *)
  w_tag : Z;                          (* payload: tag (first two bytes) ... *)
  w_len : Z                           (* ... and length; 0 = no payload *)
}.

(* cachedReceivedMessage: token, code and options of the block that opened the entry; body so far *)
Record cmsg := mkC {
  c_tok : list Z;
  c_code : Z;
  c_obs : option (list Z);
  c_etag : option (list Z);
  c_body : list (Z * Z)
}.

Definition bsize (b : list (Z * Z)) : Z := fold_left (fun a c => a + snd c) b 0.
Definition btag (b : list (Z * Z)) : Z := match b with [] => -1 | (t, _) :: _ => t end.
Definition add_chunk (b : list (Z * Z)) (tag len : Z) : list (Z * Z) :=
  if len =? 0 then b else b ++ [(tag, len)].

(* receivingMessagesCache, sendingMessagesCache (only the entries made by handleObserveResponse
   matter here: key = Token.Hash() of the drawn token, value = copy of the observation request) *)
Definition rtable := list (Z * cmsg).
Fixpoint rget (k : Z) (t : rtable) : option cmsg :=
  match t with
  | [] => None
  | (k', c) :: r => if k' =? k then Some c else rget k r
  end.
Fixpoint rdel (k : Z) (t : rtable) : rtable :=
  match t with
  | [] => []
  | (k', c) :: r => if k' =? k then rdel k r else (k', c) :: rdel k r
  end.
Definition rset (k : Z) (c : cmsg) (t : rtable) : rtable := (k, c) :: rdel k t.

Definition zmem (k : Z) (l : list Z) : bool := existsb (Z.eqb k) l.
Definition zdel (k : Z) (l : list Z) : list Z := filter (fun x => negb (x =? k)) l.

Record caches := mkCa { ca_send : list Z; ca_recv : rtable }.
Definition ca0 : caches := mkCa [] [].

Definition codeCreated : Z := 65.
Definition codeContinue : Z := 95.

(* the codes of the transcribed branch *)
Definition resp_code (c : Z) : bool := (codeCreated <=? c) && (c <? 224) && negb (c =? codeContinue).

(* r.GetOptionUint32(Observe) succeeds on a message decoded from the wire *)
Definition obs_opt_ok (o : option (list Z)) : bool :=
  match o with
  | Some bs => (ObserveMinLen <=? blen bs) && (blen bs <=? ObserveMaxLen)
  | None => false
  end.
(* isObserveResponse *)
Definition is_obs (m : wmsg) : bool := obs_opt_ok (w_obs m) && (codeCreated <=? w_code m).

(* a message handed to [next] as it is *)
Definition plain (m : wmsg) : msg := mkMsg (w_tok m) (w_code m) (w_obs m) (if w_len m =? 0 then -1 else w_tag m).

(* getCachedReceivedMessage on a miss: msg.ResetOptionsTo(r.Options()); SetToken; SetCode; empty body *)
Definition open_entry (m : wmsg) : cmsg := mkC (w_tok m) (w_code m) (w_obs m) (w_etag m) [].

(* getPayloadFromCachedReceivedMessage: both carry an ETag and the values differ -> the cached message
   gets the new ETag (SetOptionBytes(ETag, ..): no other option is touched) and its body is dropped *)
Definition retag (cm : cmsg) (m : wmsg) : cmsg :=
  match w_etag m, c_etag cm with
  | Some a, Some b => if bytes_eqb a b then cm else mkC (c_tok cm) (c_code cm) (c_obs cm) (Some a) []
  | _, _ => cm
  end.

(* what the block-wise layer does besides delivering *)
Inductive bact :=
| BGet (tok : list Z) (szx num : Z)   (* a GET for block NUM is written, under this token *)
| BErr                                 (* handleReceivedMessage returned an error (errors callback, 4.08 written) *)
| BOther.                              (* a branch of Handle that is not transcribed *)

(* getSentRequest(token) != nil: [obs_live k] = an observation is registered under key k *)
Definition has_sent (obs_live : Z -> bool) (c : caches) (tok : list Z) : bool :=
  zmem (crc64 tok) (ca_send c) || obs_live (crc64 tok).

(* processReceivedMessage from the cache look-up on: [tok] is the token under which the transfer runs
   (the drawn one for a notification, the message's own otherwise), [c1] the caches after
   handleObserveResponse *)
Definition bw_reasm (c1 : caches) (tok : list Z) (m : wmsg) (szx num : Z) (more : bool)
  : caches * option msg * list bact :=
  let key := crc64 tok in
  match rget key (ca_recv c1), more with
  | None, false =>
      (* no transfer under way and no further block: forwarded as it is; a last block with NUM > 0 is refused *)
      if num =? 0 then (c1, Some (plain m), []) else (c1, None, [BErr])
  | cached, _ =>
      let cm0 := match cached with Some cm => cm | None => open_entry m end in
      let cm1 := retag cm0 m in
      if num * size szx =? bsize (c_body cm1) then
        let cm2 := mkC (c_tok cm1) (c_code cm1) (c_obs cm1) (c_etag cm1) (add_chunk (c_body cm1) (w_tag m) (w_len m)) in
        if negb more then
          let r2 := rdel key (ca_recv c1) in
          let s2 := if bytes_eqb (c_tok cm2) tok then ca_send c1 else zdel key (ca_send c1) in
          (mkCa s2 r2, Some (mkMsg (c_tok cm2) (c_code cm2) (c_obs cm2) (btag (c_body cm2))), [])
        else
          (mkCa (ca_send c1) (rset key cm2 (ca_recv c1)), None, [BGet tok szx (bsize (c_body cm2) / size szx)])
      else
        (mkCa (ca_send c1) (rset key cm1 (ca_recv c1)), None, [BGet tok szx (bsize (c_body cm1) / size szx)])
  end.

(* processReceivedMessage for a message with a token and a Block2 option *)
Definition bw_block (obs_live : Z -> bool) (c : caches) (m : wmsg) (fresh : list Z) (szx num : Z) (more : bool)
  : caches * option msg * list bact :=
  if negb ((0 <=? szx) && (szx <=? 6)) then (c, None, [BOther])
  else if negb (has_sent obs_live c (w_tok m)) then (c, None, [BErr])   (* "cannot request body without paired request" *)
  else if is_obs m then
    if negb more then
      (* a token is drawn and stored but never used; nothing is cached under it *)
      if num =? 0 then (c, Some (plain m), []) else (c, None, [BErr])
    else if zmem (crc64 fresh) (ca_send c) then (c, None, [BErr])
    else bw_reasm (mkCa (crc64 fresh :: ca_send c) (ca_recv c)) fresh m szx num true
  else bw_reasm c (w_tok m) m szx num more.

(* blockWise.Handle for one message: new caches, the message handed to [next] (if any), the other effect.
   A message without token or without Block2 option is handed on as it is. *)
Definition bw_layer (obs_live : Z -> bool) (c : caches) (m : wmsg) (fresh : list Z)
  : caches * option msg * list bact :=
  if negb (resp_code (w_code m)) then (c, None, [BOther])
  else match w_tok m, w_b2 m with
       | _ :: _, Some (szx, num, more) => bw_block obs_live c m fresh szx num more
       | _, _ => (c, Some (plain m), [])
       end.

(* ---------- the connection: block-wise layer + observation handler ---------- *)
Record bst := mkB { b_o : st; b_c : caches }.
Definition bst0 : bst := mkB st0 ca0.

Inductive bev :=
| BReg (tok : list Z)                               (* Observe() *)
| BMsg (m : wmsg) (fresh : list Z) (now : Z)        (* a message from the peer; [fresh]: the token drawn while it is processed *)
| BCancel (id : nat) (code : Z)                     (* Cancel(), deregistration answered with code *)
| BCancelErr (id : nat).                            (* Cancel(), the deregistration exchange fails *)

Definition obs_live_of (s : st) (k : Z) : bool :=
  match tget k (tbl s) with Some _ => true | None => false end.

(* what one event is for the observation layer *)
Definition derive (s : bst) (e : bev) : caches * ev * list bact :=
  match e with
  | BReg tok => (b_c s, EReg tok, [])
  | BMsg m fresh now =>
      let '(c', d, acts) := bw_layer (obs_live_of (b_o s)) (b_c s) m fresh in
      (c', match d with Some dm => EMsg dm now | None => EQuiet end, acts)
  | BCancel id code =>
      (* Cancel goes through blockWise.Do, which refuses a token that is a key of sendingMessagesCache
         ("invalid token"): the exchange fails after cleanUp *)
      let busy := match nth_error (regs (b_o s)) id with
                  | Some tok => zmem (crc64 tok) (ca_send (b_c s))
                  | None => false end in
      (b_c s, if busy then ECancelErr id else ECancel id code, [])
  | BCancelErr id => (b_c s, ECancelErr id, [])
  end.

Definition bw_step (s : bst) (e : bev) : bst * ev * list out * list bact :=
  let '(c', oe, acts) := derive s e in
  let '(o', os) := step observe_wire (b_o s) oe in
  (mkB o' c', oe, os, acts).

(* one entry per event: the event, what it was for the observation layer, what the application
   saw (callbacks, returns), what the block-wise layer did *)
Definition bentry := (bev * ev * list out * list bact)%type.

Fixpoint bw_run_from (s : bst) (evs : list bev) : bst * list bentry :=
  match evs with
  | [] => (s, [])
  | e :: r =>
      let '(s1, oe, os, acts) := bw_step s e in
      let '(s2, tr) := bw_run_from s1 r in
      (s2, (e, oe, os, acts) :: tr)
  end.
Definition bw_run (evs : list bev) : bst * list bentry := bw_run_from bst0 evs.

(* the history as the outside sees it: events and application-level observations *)
Definition btrace := list (bev * list out).
Definition wire_trace (tr : list bentry) : btrace := map (fun x => (fst (fst (fst x)), snd (fst x))) tr.
(* the same run as the observation layer sees it *)
Definition obs_trace (tr : list bentry) : trace := map (fun x => (snd (fst (fst x)), snd (fst x))) tr.
