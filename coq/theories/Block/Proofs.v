From Coq Require Import ZArith List Bool Lia.
From GoCoap Require Import Gen.BlockConsts Block.Model Block.Spec.
Import ListNotations.
Open Scope Z_scope.

Ltac Zify.zify_post_hook ::= Z.div_mod_to_equations.

Lemma land7 v : 0 <= v -> Z.land v 7 = v mod 8.
Proof. intros; change 7 with (Z.ones 3); rewrite Z.land_ones by lia; reflexivity. Qed.

Lemma land8 v : 0 <= v -> (Z.land v 8 =? 0) = negb ((v / 8) mod 2 =? 1).
Proof.
  intros Hv.
  assert (H8 : Z.land v 8 = (if Z.testbit v 3 then 8 else 0)).
  { apply Z.bits_inj'; intros n Hn. rewrite Z.land_spec.
    destruct (Z.eq_dec n 3) as [->|Hne].
    - change (Z.testbit 8 3) with true. rewrite andb_true_r.
      destruct (Z.testbit v 3); reflexivity.
    - replace (Z.testbit 8 n) with false.
      + rewrite andb_false_r. destruct (Z.testbit v 3).
        * change 8 with (2^3). rewrite Z.pow2_bits_eqb by lia.
          symmetry. apply Z.eqb_neq. lia.
        * symmetry; apply Z.bits_0.
      + change 8 with (2^3). rewrite Z.pow2_bits_eqb by lia.
        symmetry. apply Z.eqb_neq. lia. }
  rewrite H8. destruct (Z.testbit v 3) eqn:T.
  - apply Z.testbit_true in T; [|lia]. change (2^3) with 8 in T. rewrite T. reflexivity.
  - apply Z.testbit_false in T; [|lia]. change (2^3) with 8 in T. rewrite T. reflexivity.
Qed.

(* ---- decoder ---- *)

Theorem decode_total : forall v, dec_dom v = true ->
  decode v = {| d_szx := spec_szx v; d_num := spec_num v; d_more := spec_more v; d_err := None |}.
Proof.
  intros v Hd. unfold dec_dom in Hd. apply andb_prop in Hd as [H0 H1].
  apply Z.leb_le in H0. apply Z.ltb_lt in H1.
  unfold decode, maxBlockValue, szxMask, moreBlocksFollowingMask, maxBlockNumber.
  destruct (v >? 16777215) eqn:E; [lia|].
  rewrite land7 by lia. rewrite land8 by lia. rewrite negb_involutive.
  rewrite Z.shiftr_div_pow2 by lia. change (2^4) with 16.
  unfold spec_szx, spec_num, spec_more.
  destruct (v / 16 >? 1048575) eqn:E2; [lia|]. reflexivity.
Qed.

Theorem decode_rejects : forall v, 16777216 <= v -> d_err (decode v) = Some ErrBlockInvalidSize.
Proof.
  intros v Hv. unfold decode, maxBlockValue.
  destruct (v >? 16777215) eqn:E; [reflexivity|lia].
Qed.

(* ---- encoder ---- *)

Theorem encode_total : forall szx num more, enc_dom szx num = true ->
  encode szx num more = inr (spec_value szx num more).
Proof.
  intros szx num more Hd. unfold enc_dom in Hd.
  repeat (apply andb_prop in Hd as [Hd ?]).
  apply Z.leb_le in Hd. apply Z.leb_le in H1. apply Z.leb_le in H0. apply Z.ltb_lt in H.
  unfold encode, szxBERT, maxBlockNumber, spec_value, u32, W32.
  destruct (szx >? 7) eqn:E1; [lia|].
  destruct (num <? 0) eqn:E2; [lia|].
  destruct (num >? 1048575) eqn:E3; [lia|].
  rewrite Z.shiftl_mul_pow2 by lia. change (2^4) with 16.
  f_equal. destruct more; cbn [Z.shiftl Pos.iter]; lia.
Qed.

Theorem encode_rejects : forall szx num more,
  0 <= szx -> (7 < szx \/ num < 0 \/ 1048576 <= num) -> exists e, encode szx num more = inl e.
Proof.
  intros szx num more H0 H. unfold encode, szxBERT, maxBlockNumber.
  destruct (szx >? 7) eqn:E1; [eexists; reflexivity|].
  destruct (num <? 0) eqn:E2; [eexists; reflexivity|].
  destruct (num >? 1048575) eqn:E3; [eexists; reflexivity|]. lia.
Qed.

(* ---- mutual inverse ---- *)

Theorem decode_encode : forall szx num more v, enc_dom szx num = true ->
  encode szx num more = inr v ->
  decode v = {| d_szx := szx; d_num := num; d_more := more; d_err := None |}.
Proof.
  intros szx num more v Hd He. rewrite encode_total in He by assumption.
  injection He as <-. unfold enc_dom in Hd.
  repeat (apply andb_prop in Hd as [Hd ?]).
  apply Z.leb_le in Hd. apply Z.leb_le in H1. apply Z.leb_le in H0. apply Z.ltb_lt in H.
  rewrite decode_total.
  - unfold spec_szx, spec_num, spec_more, spec_value. f_equal.
    + destruct more; lia.
    + destruct more; lia.
    + destruct more.
      * apply Z.eqb_eq. lia.
      * apply Z.eqb_neq. lia.
  - unfold dec_dom, spec_value. apply andb_true_intro; split.
    + apply Z.leb_le. destruct more; lia.
    + apply Z.ltb_lt. destruct more; lia.
Qed.

Theorem encode_decode : forall v, dec_dom v = true ->
  let d := decode v in
  enc_dom (d_szx d) (d_num d) = true /\ encode (d_szx d) (d_num d) (d_more d) = inr v.
Proof.
  intros v Hd. cbv zeta. rewrite decode_total by assumption. cbn [d_szx d_num d_more].
  unfold dec_dom in Hd. apply andb_prop in Hd as [H0 H1].
  apply Z.leb_le in H0. apply Z.ltb_lt in H1.
  assert (Hdom : enc_dom (spec_szx v) (spec_num v) = true).
  { unfold enc_dom, spec_szx, spec_num.
    repeat (apply andb_true_intro; split); try apply Z.leb_le; try apply Z.ltb_lt; lia. }
  split; [exact Hdom|]. rewrite encode_total by exact Hdom. f_equal.
  unfold spec_value, spec_szx, spec_num, spec_more.
  destruct ((v / 8) mod 2 =? 1) eqn:E.
  - apply Z.eqb_eq in E. lia.
  - apply Z.eqb_neq in E. lia.
Qed.

(* ---- sizes ---- *)

Theorem size_spec : forall szx, 0 <= szx <= 7 -> size szx = spec_size szx.
Proof.
  intros szx H.
  assert (szx = 0 \/ szx = 1 \/ szx = 2 \/ szx = 3 \/ szx = 4 \/ szx = 5 \/ szx = 6 \/ szx = 7) by lia.
  repeat (destruct H0 as [->|H0]); try subst szx; reflexivity.
Qed.

Theorem size_outside : forall szx, 7 < szx -> size szx = -1.
Proof.
  intros szx H. unfold size, szxToSize. cbn [zlookup].
  repeat match goal with |- context [szx =? ?k] => destruct (Z.eqb_spec szx k); [lia|] end.
  reflexivity.
Qed.

Theorem bert_buffer : forall m, 1024 <= m ->
  buffer_size 7 m = 1024 * (m / 1024) /\ buffer_size 7 m <= m /\ 1024 <= buffer_size 7 m
  /\ buffer_size 7 m mod 1024 = 0.
Proof.
  intros m Hm. unfold buffer_size, szxBERT. change (7 <? 7) with false. cbv iota.
  change (size 7) with 1024. rewrite Z.quot_div_nonneg by lia. lia.
Qed.

Theorem nonbert_buffer : forall szx m, 0 <= szx <= 6 -> buffer_size szx m = 2 ^ (szx + 4).
Proof.
  intros szx m H. unfold buffer_size, szxBERT.
  destruct (szx <? 7) eqn:E; [|lia]. rewrite size_spec by lia. unfold spec_size.
  destruct (szx =? 7) eqn:E7; [lia|reflexivity].
Qed.

Theorem bert_buffer_small : forall m, 0 <= m < 1024 -> buffer_size 7 m = 0.
Proof.
  intros m Hm. unfold buffer_size, szxBERT. change (7 <? 7) with false. cbv iota.
  change (size 7) with 1024. rewrite Z.quot_div_nonneg by lia. lia.
Qed.
