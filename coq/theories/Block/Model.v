(* Model of net/blockwise: EncodeBlockOption, DecodeBlockOption, SZX.Size, bufferSize.
   Transcribed from the Go code; constants come from Gen.BlockConsts (regenerated
   from /repo on every run).  Integers are Z with the uint32 wrap written out. *)
From Coq Require Import ZArith List Bool.
From GoCoap Require Import Gen.BlockConsts.
Import ListNotations.
Open Scope Z_scope.

Inductive berr := ErrInvalidSZX | ErrBlockNumberExceedLimit | ErrBlockInvalidSize.

Definition W32 : Z := 4294967296.
Definition u32 (x : Z) : Z := x mod W32.

(* func EncodeBlockOption(szx SZX, blockNumber int64, more bool) (uint32, error)
   szx : uint8 (0..255), blockNumber : int64 *)
Definition encode (szx num : Z) (more : bool) : berr + Z :=
  if szx >? szxBERT then inl ErrInvalidSZX
  else if num <? 0 then inl ErrBlockNumberExceedLimit
  else if num >? maxBlockNumber then inl ErrBlockNumberExceedLimit
  else
    let v := u32 (Z.shiftl num 4) in
    let v := u32 (v + Z.shiftl (if more then 1 else 0) 3) in
    inr (u32 (v + szx)).

(* func DecodeBlockOption(blockVal uint32) (szx, blockNumber, more, err):
   all four results are returned even when err is set *)
Record dres := { d_szx : Z; d_num : Z; d_more : bool; d_err : option berr }.

Definition decode (v : Z) : dres :=
  if v >? maxBlockValue then {| d_szx := 0; d_num := 0; d_more := false; d_err := Some ErrBlockInvalidSize |}
  else
    let szx := Z.land v szxMask in
    let more := negb (Z.land v moreBlocksFollowingMask =? 0) in
    let num := Z.shiftr v 4 in
    {| d_szx := szx; d_num := num; d_more := more;
       d_err := if num >? maxBlockNumber then Some ErrBlockNumberExceedLimit else None |}.

Fixpoint zlookup (l : list (Z * Z)) (k : Z) : option Z :=
  match l with
  | [] => None
  | (k', v) :: r => if k =? k' then Some v else zlookup r k
  end.

(* func (s SZX) Size() int64 *)
Definition size (szx : Z) : Z :=
  match zlookup szxToSize szx with Some v => v | None => -1 end.

(* func bufferSize(szx SZX, maxMessageSize uint32) int64 ; Go's / truncates, operands >= 0 here *)
Definition buffer_size (szx maxmsg : Z) : Z :=
  if szx <? szxBERT then size szx
  else Z.quot maxmsg (size szx) * size szx.
