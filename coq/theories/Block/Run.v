(* Evaluators used by the correspondence shards of C19. A case carries the
   input and the output observed on the Go implementation. *)
From Coq Require Import ZArith NArith List Bool.
From GoCoap Require Import Base.Cases Gen.BlockConsts Block.Model Block.Spec.
Import ListNotations.
Open Scope Z_scope.

(* error codes as the harness writes them: 0 none, 1 ErrInvalidSZX,
   2 ErrBlockNumberExceedLimit, 3 ErrBlockInvalidSize, 9 any other error *)
Definition err_code (e : option berr) : Z :=
  match e with None => 0 | Some ErrInvalidSZX => 1 | Some ErrBlockNumberExceedLimit => 2
             | Some ErrBlockInvalidSize => 3 end.

Inductive case :=
| Dec (v : Z) (o_szx o_num : Z) (o_more : bool) (o_err : Z)
| Enc (szx num : Z) (more : bool) (o_val : Z) (o_err : Z)
| Size (szx : Z) (o : Z)
| Buf (szx maxmsg : Z) (o : Z)
(* decoder sweep over [lo, lo+n): o = checksum of the observed results *)
| DecSweep (lo : Z) (n : N) (o : Z)
| EncSweep (szx : Z) (more : bool) (lo : Z) (n : N) (o : Z).

Definition M60 : Z := Z.ones 60.
Definition mix (h x : Z) : Z := Z.land (h * 1000003 + x + 1) M60.

Definition dec_word (d : dres) : Z :=
  d_szx d + 8 * (if d_more d then 1 else 0) + 16 * err_code (d_err d) + 64 * d_num d.

Definition dec_sweep_model (lo : Z) (n : N) : Z :=
  snd (N.iter n (fun '(v, h) => (v + 1, mix h (dec_word (decode v)))) (lo, 0)).

Definition spec_dec_word (v : Z) : Z :=
  if dec_dom v then spec_szx v + 8 * (if spec_more v then 1 else 0) + 64 * spec_num v
  else 16 * 3.

Definition dec_sweep_spec (lo : Z) (n : N) : Z :=
  snd (N.iter n (fun '(v, h) => (v + 1, mix h (spec_dec_word v))) (lo, 0)).

Definition enc_word (r : berr + Z) : Z :=
  match r with inr v => 4 * v | inl e => err_code (Some e) end.

Definition enc_sweep_model (szx : Z) (more : bool) (lo : Z) (n : N) : Z :=
  snd (N.iter n (fun '(v, h) => (v + 1, mix h (enc_word (encode szx v more)))) (lo, 0)).

Definition enc_sweep_spec (szx : Z) (more : bool) (lo : Z) (n : N) : Z :=
  snd (N.iter n (fun '(v, h) => (v + 1, mix h (if enc_dom szx v then 4 * spec_value szx v more else 2))) (lo, 0)).

(* does the observed output equal the model's? *)
Definition agrees (c : case) : bool :=
  match c with
  | Dec v s n m e =>
      let d := decode v in
      (err_code (d_err d) =? e) &&
      (* Go returns zero values together with ErrBlockInvalidSize; with
         ErrBlockNumberExceedLimit the fields are set *)
      (d_szx d =? s) && (d_num d =? n) && Bool.eqb (d_more d) m
  | Enc s n m v e =>
      match encode s n m with
      | inr v' => (e =? 0) && (v' =? v)
      | inl er => err_code (Some er) =? e
      end
  | Size s o => size s =? o
  | Buf s m o => buffer_size s m =? o
  | DecSweep lo n o => dec_sweep_model lo n =? o
  | EncSweep s m lo n o => enc_sweep_model s m lo n =? o
  end.

(* Property predicate on the OBSERVED output, from Spec only.
   0 = satisfied; classes: 1 decoder wrong/refusing inside the 24-bit domain,
   2 decoder accepts a value above 24 bits, 3 encoder wrong/refusing inside its
   domain, 4 encoder accepts arguments outside the domain, 5 size table,
   6 BERT buffer size. *)
Definition pclass (c : case) : N :=
  match c with
  | Dec v s n m e =>
      if dec_dom v then
        if (e =? 0) && (s =? spec_szx v) && (n =? spec_num v) && Bool.eqb m (spec_more v) then 0%N else 1%N
      else if e =? 0 then 2%N else 0%N
  | Enc s n m v e =>
      if enc_dom s n then
        if (e =? 0) && (v =? spec_value s n m) then 0%N else 3%N
      else if e =? 0 then 4%N else 0%N
  | Size s o =>
      if (0 <=? s) && (s <=? 7) then if o =? spec_size s then 0%N else 5%N else 0%N
  | Buf s m o =>
      if (0 <=? s) && (s <=? 6) then if o =? spec_size s then 0%N else 6%N
      else if (s =? 7) && (0 <=? m) then if o =? 1024 * (m / 1024) then 0%N else 6%N  (* whole multiples of 1024 bounded by the maximum message size: 0 when it is below 1024 *)
      else 0%N
  | DecSweep lo n o => if dec_sweep_spec lo n =? o then 0%N else 1%N
  | EncSweep s m lo n o => if enc_sweep_spec s m lo n =? o then 0%N else 3%N
  end.

Definition mismatches (cs : list case) : list N := bad_indices (fun c => negb (agrees c)) cs.
Definition property_failures (cs : list case) : list (N * N) := classes pclass cs.
