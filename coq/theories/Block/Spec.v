(* RFC 7959 section 2.2, written from the RFC and the property text only
   (no reference to the Go code or to its constants). *)
From Coq Require Import ZArith List Bool.
Open Scope Z_scope.

(* the value of a block option: NUM * 16 + M * 8 + SZX *)
Definition spec_value (szx num : Z) (more : bool) : Z :=
  num * 16 + (if more then 8 else 0) + szx.

Definition spec_szx (v : Z) : Z := v mod 8.
Definition spec_more (v : Z) : bool := (v / 8) mod 2 =? 1.
Definition spec_num (v : Z) : Z := v / 16.

(* domain of the decoder: every 24-bit value; of the encoder: szx 0..7, 20-bit NUM *)
Definition dec_dom (v : Z) : bool := (0 <=? v) && (v <? 16777216).
Definition enc_dom (szx num : Z) : bool := (0 <=? szx) && (szx <=? 7) && (0 <=? num) && (num <? 1048576).

(* block size for exponent s: 2^(s+4); 1024 for BERT (s = 7) *)
Definition spec_size (szx : Z) : Z := if szx =? 7 then 1024 else 2 ^ (szx + 4).
