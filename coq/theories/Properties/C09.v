(* C09 -- Blocking calls always end on cancellation or close; close is clean.
   Statements only; proofs in Liveness/Proofs.v.

   PARTIAL (see notes/C09.md).  What is proved: (a) over the inventory of waits
   REGENERATED from the syntax tree of the current source on every run
   (Gen/WakeSets.v), every wait of every blocking operation listens to the
   caller's context and to the connection context, or is released by operations
   that do; in the wait automaton such an operation returns within (number of
   remaining waits) schedulings once its context is cancelled or the connection
   closed, whatever the peer does; (b) the close protocol of the three session
   types runs every callback exactly once and completes Done exactly once under
   every schedule of any number of concurrent Close calls.  Not provable here
   (exercised by watchdog runs only): fairness of the Go scheduler, the kernel
   sockets (a blocked Read/Write is released only by closing the socket),
   pion/dtls internals, real-time bounds. *)
From Coq Require Import List Bool String Arith.
From GoCoap Require Import Liveness.Model Liveness.Close Liveness.Spec Liveness.Proofs Gen.WakeSets.
Import ListNotations.
Local Open Scope list_scope.

(* every function of the generated inventory has a role and meets the requirement of its role; in particular ... *)
Theorem C09_wakes : forall f, In f inventory ->
  exists r, role_of (f_name f) roles = Some r /\ meets r inventory f = true.
Proof. exact wakes. Qed.
Print Assumptions C09_wakes.

(* ... every blocking wait of every client operation listens to the request context AND to the connection
   context, or is released by operations (Model.releasers) all of whose waits do, recursively *)
Theorem C09_wakes_client : forall f w,
  In f inventory -> role_of (f_name f) roles = Some ClientOp -> In w (f_waits f) -> blocking w = true ->
  has ReqCtx (w_chans w) = true /\
  (has ConnCtx (w_chans w) = true \/ released_ok fuel0 inventory f = true).
Proof. exact wakes_client. Qed.
Print Assumptions C09_wakes_client.

(* every function the property names is in the inventory (a renamed / removed one breaks the generator or this) *)
Theorem C09_inventory_complete : forall n r, In (n, r) roles -> exists f, lookup n inventory = Some f.
Proof. exact named_functions_present. Qed.
Print Assumptions C09_inventory_complete.

(* wait automaton: from ANY reachable state (any prefix tr0 of environment events and schedulings), once the
   context is cancelled or the connection closed, an operation whose waits listen has returned after at most
   max(1, number of remaining waits) further schedulings -- whatever environment events (silence, garbage,
   replies, more cancels/closes) are interleaved and however Go's select resolves ties *)
Theorem C09_returns : forall op tr0 tr1,
  op_listens op ->
  let s := run (init op) tr0 in
  cancelled s = true \/ closed s = true ->
  Nat.max 1 (List.length (rem s)) <= List.length tr1 ->
  ret (run s tr1) <> None.
Proof. exact returns. Qed.
Print Assumptions C09_returns.

(* ... and this applies to every API call, i.e. every concatenation of client-operation functions of the
   generated inventory *)
Theorem C09_ops_return : forall fs tr0 tr1,
  Forall (fun f => In f inventory /\ is_client f = true) fs ->
  let s := run (init (flat_map awaits_of fs)) tr0 in
  cancelled s = true \/ closed s = true ->
  Nat.max 1 (List.length (rem s)) <= List.length tr1 ->
  ret (run s tr1) <> None.
Proof. exact ops_return. Qed.
Print Assumptions C09_ops_return.

(* the converse (shape of F13): a wait that listens neither to the connection context nor is released never
   returns while the caller's context stays alive and nothing is delivered, however often the connection closes *)
Theorem C09_no_wake_hangs : forall tr s a rest,
  rem s = a :: rest -> has ConnCtx (a_chans a) = false -> has SrvCtx (a_chans a) = false -> a_released a = false ->
  cancelled s = false -> ready s = false -> ret s = None ->
  Forall (fun r => Forall quiet (fst r)) tr ->
  ret (run s tr) = None.
Proof. exact no_wake_hangs. Qed.
Print Assumptions C09_no_wake_hangs.

(* close protocol: a session (k = how Done is completed, cs = the session owns the socket) with callbacks cbs
   under ANY number nclose of concurrent Close calls, nshut >= 1 shutdown callers (Run exit; for udp/server also
   the server's per-connection close function; exactly one for the channel-based tcp/client and dtls/server) and
   concurrent AddOnClose calls, under ANY schedule: at every moment no callback has run twice, Done has been
   completed at most once, nothing has panicked, the socket was closed at most once; when all threads have
   finished every callback registered before the close ran exactly once and Done is completed *)
Theorem C09_close_once : forall k cs cbs nclose nshut adds sched,
  NoDup (cbs ++ adds) ->
  1 <= nshut -> (k = DoneChan -> nshut = 1) ->
  let x := exec k (init_st cbs, session_threads cs nclose nshut adds) sched in
  (forall f, count_occ Nat.eq_dec (c_ran (fst x)) f <= 1) /\
  c_completions (fst x) <= 1 /\ c_panics (fst x) = 0 /\ c_net_closes (fst x) <= 1 /\
  (c_done (fst x) = true <-> c_completions (fst x) = 1) /\
  (all_done (snd x) ->
     (forall f, In f cbs -> count_occ Nat.eq_dec (c_ran (fst x)) f = 1) /\
     c_done (fst x) = true /\ c_completions (fst x) = 1).
Proof. exact close_once. Qed.
Print Assumptions C09_close_once.

(* the same for ARBITRARY thread programs over the session's atomic actions (not only the library's shapes) *)
Theorem C09_close_once_general : forall k cbs ts0 sched,
  (forall f, total cbs ts0 f <= 1) ->
  (forall f, cnt_ts (w_run f) ts0 = 0) ->
  (k = DoneChan -> cnt_ts w_done ts0 <= 1) ->
  let x := exec k (init_st cbs, ts0) sched in
  (forall f, count_occ Nat.eq_dec (c_ran (fst x)) f <= 1) /\
  c_completions (fst x) <= 1 /\ c_panics (fst x) = 0 /\ c_net_closes (fst x) <= 1 /\
  (c_done (fst x) = true <-> c_completions (fst x) = 1) /\
  (all_done (snd x) ->
     (1 <= cnt_ts w_pop ts0 -> forall f, In f cbs -> count_occ Nat.eq_dec (c_ran (fst x)) f = 1) /\
     (1 <= cnt_ts w_done ts0 -> c_done (fst x) = true /\ c_completions (fst x) = 1)).
Proof. exact close_once_general. Qed.
Print Assumptions C09_close_once_general.

(* Close is idempotent: n+1 calls in a row, from ANY state, leave exactly what one call leaves; on a closed
   connection a Close changes nothing observable; what a Close sets is never reset by any thread *)
Theorem C09_close_idempotent : forall k cs n s, obs (closes k cs (S n) s) = obs (closes k cs 1 s).
Proof. exact close_idempotent. Qed.
Print Assumptions C09_close_idempotent.

Theorem C09_close_noop_when_closed : forall k cs s,
  c_cancelled s = true -> (cs = true -> c_sock_closed s = true) ->
  obs (run_prog k 2 (close_prog cs) s) = obs s.
Proof. exact close_noop_when_closed. Qed.
Print Assumptions C09_close_noop_when_closed.

Theorem C09_closed_stays_closed : forall k sched x,
  (c_cancelled (fst x) = true -> c_cancelled (fst (exec k x sched)) = true) /\
  (c_sock_closed (fst x) = true -> c_sock_closed (fst (exec k x sched)) = true) /\
  (c_done (fst x) = true -> c_done (fst (exec k x sched)) = true).
Proof. exact closed_stays_closed. Qed.
Print Assumptions C09_closed_stays_closed.

(* the hypotheses are satisfiable by non-trivial instances *)
(* all client-operation functions of the inventory, one after the other, as one operation *)
Example C09_instance_request :
  filter is_client inventory <> [] /\
  Forall (fun f => In f inventory /\ is_client f = true) (filter is_client inventory) /\
  9 <= List.length (flat_map awaits_of (filter is_client inventory)).
Proof.
  split.
  { intro H. assert (L : 9 <= List.length (filter is_client inventory)) by (vm_compute; repeat constructor).
    rewrite H in L. inversion L. }
  split.
  - apply Forall_forall. intros f Hf. apply filter_In in Hf. exact Hf.
  - vm_compute. repeat constructor.
Qed.

Example C09_instance_close :
  let x := exec DoneChan (init_st [1; 2; 3], session_threads true 3 1 [4]) [3; 0; 1; 3; 4; 2; 3; 0; 3; 1; 3; 2; 3; 3; 3] in
  all_done (snd x) /\ c_ran (fst x) <> [] /\ c_done (fst x) = true.
Proof. vm_compute. repeat split; try discriminate. repeat constructor. Qed.
