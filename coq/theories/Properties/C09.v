(* C09 -- Blocking calls always end on cancellation or close; close is clean.
   Statements only; proofs in Liveness/Proofs.v.

   PARTIAL (see notes/C09.md).  What is proved: (a) over the inventory of waits
   REGENERATED from the syntax tree of the current source on every run
   (Gen/WakeSets.v), every wait of every blocking operation listens to the
   caller's context and to the connection context, or is released by operations
   that do; in the wait automaton such an operation returns within (number of
   remaining waits) schedulings once its context is cancelled or the connection
   closed, whatever the peer does; (b) the close protocol of the three session
   types runs every callback exactly once and completes Done exactly once under
   every schedule of any number of concurrent Close calls.  Not provable here
   (exercised by watchdog runs only): fairness of the Go scheduler, the kernel
   sockets (a blocked Read/Write is released only by closing the socket),
   pion/dtls internals, real-time bounds. *)
From Coq Require Import List Bool String Arith.
From GoCoap Require Import Liveness.Model Liveness.Close Liveness.Spec Liveness.Proofs Liveness.Stall Liveness.StallProofs
  Liveness.Table Liveness.TableProofs Liveness.Stop Liveness.StopProofs
  Liveness.Reg Liveness.RegProofs Liveness.Accept Liveness.AcceptProofs Gen.WakeSets.
Import ListNotations.
Local Open Scope list_scope.

(* every function of the generated inventory has a role and meets the requirement of its role; in particular ... *)
Theorem C09_wakes : forall f, In f inventory ->
  exists r, role_of (f_name f) roles = Some r /\ meets r inventory f = true.
Proof. exact wakes. Qed.
Print Assumptions C09_wakes.

(* ... every blocking wait of every client operation listens to the request context AND to the connection
   context, or is released by operations (Model.releasers) all of whose waits do, recursively *)
Theorem C09_wakes_client : forall f w,
  In f inventory -> role_of (f_name f) roles = Some ClientOp -> In w (f_waits f) -> blocking w = true ->
  has ReqCtx (w_chans w) = true /\
  (has ConnCtx (w_chans w) = true \/ released_ok fuel0 inventory f = true).
Proof. exact wakes_client. Qed.
Print Assumptions C09_wakes_client.

(* every function the property names is in the inventory (a renamed / removed one breaks the generator or this) *)
Theorem C09_inventory_complete : forall n r, In (n, r) roles -> exists f, lookup n inventory = Some f.
Proof. exact named_functions_present. Qed.
Print Assumptions C09_inventory_complete.

(* wait automaton: from ANY reachable state (any prefix tr0 of environment events and schedulings), once the
   context is cancelled or the connection closed, an operation whose waits listen has returned after at most
   max(1, number of remaining waits) further schedulings -- whatever environment events (silence, garbage,
   replies, more cancels/closes) are interleaved and however Go's select resolves ties *)
Theorem C09_returns : forall op tr0 tr1,
  op_listens op ->
  let s := run (init op) tr0 in
  cancelled s = true \/ closed s = true ->
  Nat.max 1 (List.length (rem s)) <= List.length tr1 ->
  ret (run s tr1) <> None.
Proof. exact returns. Qed.
Print Assumptions C09_returns.

(* ... and this applies to every API call, i.e. every concatenation of client-operation functions of the
   generated inventory *)
Theorem C09_ops_return : forall fs tr0 tr1,
  Forall (fun f => In f inventory /\ is_client f = true) fs ->
  let s := run (init (flat_map awaits_of fs)) tr0 in
  cancelled s = true \/ closed s = true ->
  Nat.max 1 (List.length (rem s)) <= List.length tr1 ->
  ret (run s tr1) <> None.
Proof. exact ops_return. Qed.
Print Assumptions C09_ops_return.

(* the converse (shape of F13): a wait that listens neither to the connection context nor is released never
   returns while the caller's context stays alive and nothing is delivered, however often the connection closes *)
Theorem C09_no_wake_hangs : forall tr s a rest,
  rem s = a :: rest -> has ConnCtx (a_chans a) = false -> has SrvCtx (a_chans a) = false -> a_released a = false ->
  cancelled s = false -> ready s = false -> ret s = None ->
  Forall (fun r => Forall quiet (fst r)) tr ->
  ret (run s tr) = None.
Proof. exact no_wake_hangs. Qed.
Print Assumptions C09_no_wake_hangs.

(* close protocol: a session (k = how Done is completed, cs = the session owns the socket) with callbacks cbs
   under ANY number nclose of concurrent Close calls, nshut >= 1 shutdown callers (Run exit; for udp/server also
   the server's per-connection close function; exactly one for the channel-based tcp/client and dtls/server) and
   concurrent AddOnClose calls, under ANY schedule: at every moment no callback has run twice, Done has been
   completed at most once, nothing has panicked, the socket was closed at most once; when all threads have
   finished every callback registered before the close ran exactly once and Done is completed *)
Theorem C09_close_once : forall k cs cbs nclose nshut adds sched,
  NoDup (cbs ++ adds) ->
  1 <= nshut -> (k = DoneChan -> nshut = 1) ->
  let x := exec k (init_st cbs, session_threads cs nclose nshut adds) sched in
  (forall f, count_occ Nat.eq_dec (c_ran (fst x)) f <= 1) /\
  c_completions (fst x) <= 1 /\ c_panics (fst x) = 0 /\ c_net_closes (fst x) <= 1 /\
  (c_done (fst x) = true <-> c_completions (fst x) = 1) /\
  (all_done (snd x) ->
     (forall f, In f cbs -> count_occ Nat.eq_dec (c_ran (fst x)) f = 1) /\
     c_done (fst x) = true /\ c_completions (fst x) = 1).
Proof. exact close_once. Qed.
Print Assumptions C09_close_once.

(* the same for ARBITRARY thread programs over the session's atomic actions (not only the library's shapes) *)
Theorem C09_close_once_general : forall k cbs ts0 sched,
  (forall f, total cbs ts0 f <= 1) ->
  (forall f, cnt_ts (w_run f) ts0 = 0) ->
  (k = DoneChan -> cnt_ts w_done ts0 <= 1) ->
  let x := exec k (init_st cbs, ts0) sched in
  (forall f, count_occ Nat.eq_dec (c_ran (fst x)) f <= 1) /\
  c_completions (fst x) <= 1 /\ c_panics (fst x) = 0 /\ c_net_closes (fst x) <= 1 /\
  (c_done (fst x) = true <-> c_completions (fst x) = 1) /\
  (all_done (snd x) ->
     (1 <= cnt_ts w_pop ts0 -> forall f, In f cbs -> count_occ Nat.eq_dec (c_ran (fst x)) f = 1) /\
     (1 <= cnt_ts w_done ts0 -> c_done (fst x) = true /\ c_completions (fst x) = 1)).
Proof. exact close_once_general. Qed.
Print Assumptions C09_close_once_general.

(* Close is idempotent: n+1 calls in a row, from ANY state, leave exactly what one call leaves; on a closed
   connection a Close changes nothing observable; what a Close sets is never reset by any thread *)
Theorem C09_close_idempotent : forall k cs n s, obs (closes k cs (S n) s) = obs (closes k cs 1 s).
Proof. exact close_idempotent. Qed.
Print Assumptions C09_close_idempotent.

Theorem C09_close_noop_when_closed : forall k cs s,
  c_cancelled s = true -> (cs = true -> c_sock_closed s = true) ->
  obs (run_prog k 2 (close_prog cs) s) = obs s.
Proof. exact close_noop_when_closed. Qed.
Print Assumptions C09_close_noop_when_closed.

Theorem C09_closed_stays_closed : forall k sched x,
  (c_cancelled (fst x) = true -> c_cancelled (fst (exec k x sched)) = true) /\
  (c_sock_closed (fst x) = true -> c_sock_closed (fst (exec k x sched)) = true) /\
  (c_done (fst x) = true -> c_done (fst (exec k x sched)) = true).
Proof. exact closed_stays_closed. Qed.
Print Assumptions C09_closed_stays_closed.

(* ---------- Done => connection context cancelled ----------
   Completing Done and running the callbacks is what an application sees of a closed connection; what wakes the
   blocked operations (C09_returns: [closed]) is the cancellation of the connection context.  In the close protocol,
   for ARBITRARY thread programs in which every completion of Done is preceded in the same thread by s.cancel()
   (guarded), under every schedule and at every moment: Done completed => connection context cancelled. *)
Theorem C09_done_implies_cancelled : forall k cbs ts0 sched,
  Forall (fun p => guarded p = true) ts0 ->
  let x := exec k (init_st cbs, ts0) sched in
  c_done (fst x) = true -> c_cancelled (fst x) = true.
Proof. exact done_implies_cancelled. Qed.
Print Assumptions C09_done_implies_cancelled.

(* the library's sessions: any number of Close calls, Run exits / close-function callers and AddOnClose calls,
   whether or not the session owns the socket (the Run exit calls Close unconditionally) *)
Theorem C09_session_done_implies_cancelled : forall k cs cbs nclose nshut adds sched,
  let x := exec k (init_st cbs, session_threads cs nclose nshut adds) sched in
  c_done (fst x) = true -> c_cancelled (fst x) = true.
Proof. exact session_done_implies_cancelled. Qed.
Print Assumptions C09_session_done_implies_cancelled.

(* the hypothesis is needed: a Run exit that only shuts down (Close skipped because the socket belongs to the
   caller) completes Done, runs the callbacks and leaves the connection context alive *)
Theorem C09_run_exit_without_close_refuted :
  exists sched, let x := exec DoneCtx (init_st [7], [shutdown_prog]) sched in
    all_done (snd x) /\ c_done (fst x) = true /\ c_ran (fst x) = [7] /\ c_cancelled (fst x) = false.
Proof. exact run_exit_without_close_refuted. Qed.
Print Assumptions C09_run_exit_without_close_refuted.

(* ---------- Close while a write is stalled (blocking model, Liveness/Stall.v) ----------
   Threads over actions that can BLOCK: Lock of net.Conn's write mutex, the socket's Write when the peer has stopped
   reading (released only by closing the socket), the reader loop's Read (released by closing the socket or by the
   peer).  For ARBITRARY thread programs in which every Lock is followed by socket writes and the Unlock, whose
   net.Conn.Close is the library's (compare-and-swap, then the socket's Close, no lock), one of which is on its way
   to that compare-and-swap (a Close call; the reader loop if the peer has closed) and one of which shuts the session
   down; for every peer behaviour e and every schedule:
   - never stuck: while some thread has something left to do, some thread can take a step;
   - from the state reached, the system completes; and when every thread has returned (every Close call, every
     writer, the reader loop) the socket is closed and Done is completed. *)
Theorem C09_close_releases_stalled_write : forall e ts sched,
  good_start e ts ->
  let x := bexec e (b_init, ts) sched in
  (~ ball_done (snd x) -> exists tid, can_run e x tid = true) /\
  (exists ext, ball_done (snd (bexec e x ext))) /\
  (ball_done (snd x) -> b_sock (fst x) = true /\ b_done (fst x) = true).
Proof. exact close_releases_stalled_write. Qed.
Print Assumptions C09_close_releases_stalled_write.

(* every step taken costs at least one unit of a measure fixed by the programs (so at most [measure] steps are ever
   taken: with the above, every fair schedule completes), and a thread that cannot run leaves the system unchanged *)
Theorem C09_stall_steps_bounded : forall e x tid,
  (can_run e x tid = true -> measure (snd (bstep e x tid)) < measure (snd x)) /\
  (can_run e x tid = false -> bstep e x tid = x).
Proof. intros e x tid. split; [apply step_measure|apply bstep_idle]. Qed.
Print Assumptions C09_stall_steps_bounded.

(* the library: any number of writers with any number of socket writes each, stalled or not; nclose concurrent
   Close calls of a session that owns its socket and the reader loop; at least one Close call, or the peer closes *)
Theorem C09_close_while_write_stalled : forall e ks nclose sched,
  1 <= nclose \/ e_eof e = true ->
  let x := bexec e (b_init, stall_sys CloseLib ks nclose) sched in
  (~ ball_done (snd x) -> exists tid, can_run e x tid = true) /\
  (exists ext, ball_done (snd (bexec e x ext))) /\
  (ball_done (snd x) -> b_sock (fst x) = true /\ b_done (fst x) = true).
Proof. exact close_while_write_stalled. Qed.
Print Assumptions C09_close_while_write_stalled.

(* that net.Conn.Close takes no lock is essential: with a Close that takes the write lock between the
   compare-and-swap and the socket's Close, one stalled writer and one Close call reach a state in which the Close
   call, the writer and the reader loop are parked for ever, the socket open and Done not completed *)
Theorem C09_lock_before_close_deadlocks :
  exists sched,
    let e := mkEnv true false in
    let x := bexec e (b_init, stall_sys CloseLocked [1] 1) sched in
    (forall ext, bexec e x ext = x) /\ ~ ball_done (snd x) /\
    b_sock (fst x) = false /\ b_done (fst x) = false /\
    (forall tid, can_run e x tid = false).
Proof. exact lock_before_close_deadlocks. Qed.
Print Assumptions C09_lock_before_close_deadlocks.

(* FINDING (known: class operation-blocked-in-stalled-write-ignores-context).  The first sentence of the property
   is FALSE of the faithful model for an operation whose write is stalled: as long as no thread closes the socket
   and the peer neither reads nor closes, a thread that still has a socket write ahead never gets past it -- whatever
   else happens, in particular whatever happens to the context of the writer, which a blocked Write does not look
   at.  General form, then the library's system with no Close call. *)
Theorem C09_stalled_write_needs_close : forall e ts sched tid p,
  e_stalled e = true -> e_eof e = false ->
  Forall (fun q => noclose q = true) ts ->
  nth_error ts tid = Some p -> In BWrite p ->
  let x := bexec e (b_init, ts) sched in
  b_sock (fst x) = false /\ exists p', nth_error (snd x) tid = Some p' /\ In BWrite p'.
Proof. exact stalled_write_needs_close. Qed.
Print Assumptions C09_stalled_write_needs_close.

Theorem C09_stalled_write_returns_refuted :
  exists e ks tid, forall sched,
    let x := bexec e (b_init, stall_sys CloseLib ks 0) sched in
    b_sock (fst x) = false /\ nth_error (snd x) tid <> Some [].
Proof.
  exists (mkEnv true false), [1], 0. intros sched.
  destruct (stalled_write_hangs_without_close (mkEnv true false) [1] sched 0 0 eq_refl eq_refl eq_refl) as [Hs [p' [Hp Hin]]].
  cbv zeta. split; [exact Hs|]. rewrite Hp. intro H. injection H as ->. contradiction.
Qed.
Print Assumptions C09_stalled_write_returns_refuted.

(* ---------- the housekeeping and the table of pending message IDs (lock model, Liveness/Table.v) ----------
   Threads over the actions of a sync.RWMutex (RLock / RUnlock; Lock = announce, then acquire; Unlock), a reader
   waits while a writer holds the lock or is announced, a writer while anybody holds it.  For ARBITRARY thread
   programs made of complete, non-nested critical sections -- any number of housekeeping walks in the shape of
   Map.Range (read lock released around every callback, callbacks that remove entries or not), operations that
   store and later remove their entry, clean-ups of waiting operations, acknowledgements -- under every schedule:
   never stuck; from the state reached the system completes (every walk, every operation, every clean-up, i.e.
   every blocked call whose wait has ended, returns); and then the lock is free. *)
Theorem C09_table_never_stuck : forall ts sched,
  Forall (fun p => sec_ok p = true) ts ->
  let x := texec (t_init, ts) sched in
  (~ tall_done (snd x) -> exists tid, tcan_run x tid = true) /\
  (exists ext, tall_done (snd (texec x ext))) /\
  (tall_done (snd x) -> fst x = t_init).
Proof. exact table_never_stuck. Qed.
Print Assumptions C09_table_never_stuck.

(* every step taken shortens the programs by one action (so at most [tmeasure] steps are ever taken: with the above,
   every fair schedule completes), and a thread that cannot run leaves the system unchanged *)
Theorem C09_table_steps_bounded : forall x tid,
  (tcan_run x tid = true -> S (tmeasure (snd (tstep x tid))) = tmeasure (snd x)) /\
  (tcan_run x tid = false -> tstep x tid = x).
Proof. intros x tid. split; [apply tstep_measure|apply tstep_idle]. Qed.
Print Assumptions C09_table_steps_bounded.

(* the library: any number of concurrent housekeeping walks over any entries (each given up or not), any number of
   operations, clean-ups and acknowledgements *)
Theorem C09_housekeeping_never_blocks_operations : forall walks nops ncleanups nacks sched,
  let x := texec (t_init, lib_table_sys walks nops ncleanups nacks) sched in
  (~ tall_done (snd x) -> exists tid, tcan_run x tid = true) /\
  (exists ext, tall_done (snd (texec x ext))) /\
  (tall_done (snd x) -> fst x = t_init).
Proof. exact housekeeping_never_blocks_operations. Qed.
Print Assumptions C09_housekeeping_never_blocks_operations.

(* tie to the source: the walk Conn.CheckExpirations uses in the CURRENT source (Gen/WakeSets.v, regenerated on every
   run: which method of pkg/sync.Map, and whether its range loop releases the read lock around the callback) is of
   that shape, whatever the callbacks do *)
Theorem C09_mid_walk_shape : mid_walk_unlocks = true /\ forall dels, sec_ok (walk mid_walk_unlocks dels) = true.
Proof. split; [reflexivity|]. intros dels. change mid_walk_unlocks with true. apply walk_range_ok. Qed.
Print Assumptions C09_mid_walk_shape.

(* that the read lock is released around the callback is essential: a walk that keeps it (Map.Range2) and gives one
   message up parks on itself for ever, and so do the clean-up of the call that waits for that message (the call
   never returns, whatever happens to its context or to the connection) and every later operation *)
Theorem C09_walk_under_read_lock_deadlocks :
  exists pre, forall sched,
    let x := texec (t_init, tick_sys false true 1) (pre ++ sched) in
    nth_error (snd x) 0 = Some [TWAcq; TWUnlock; TRUnlock] /\
    nth_error (snd x) 1 = Some [TWAcq; TWUnlock] /\
    nth_error (snd x) 2 = Some (TWAcq :: TWUnlock :: wsec) /\
    forall tid, tcan_run x tid = false.
Proof. exact walk_under_read_lock_deadlocks. Qed.
Print Assumptions C09_walk_under_read_lock_deadlocks.

(* ---------- stopping a datagram server (Liveness/Stop.v) ----------
   Threads over: the server's cancel, closeSessions (take the peer table, then per peer Close + close function), a
   new peer entering the table, the server's doneCancel, a peer's close function, and the atomic actions of Close.v
   on a peer's session; a peer's Done() is completed by its own doneCancel OR by the server's (child context).
   For ARBITRARY programs that run callbacks only after popping them and register none, BOTH shapes of shutdown, every
   schedule, at every moment: no callback of any peer has run twice. *)
Theorem C09_stop_callbacks_at_most_once : forall v tbl cbs ts sched,
  Forall (fun p => forallb top_act p = true) ts ->
  (forall p, NoDup (cbs p)) ->
  let x := sexec v (s_init tbl cbs, ts) sched in
  forall p f, count_occ Nat.eq_dec (c_ran (s_peer (fst x) p)) f <= 1.
Proof. exact stop_callbacks_at_most_once. Qed.
Print Assumptions C09_stop_callbacks_at_most_once.

(* with the library's shutdown, for arbitrary programs in which every peer a thread admits is followed, in that
   thread, by a closeSessions and every pop by the completion of that peer's done signal, at least one closeSessions,
   any initial table, every schedule: when all threads have returned the table is empty and every callback of every
   peer that was in the table or was admitted meanwhile has run exactly once, nothing else has run, Done is completed *)
Theorem C09_stop_runs_every_callback_once : forall tbl cbs ts sched,
  Forall (fun p => forallb top_act p = true) ts ->
  Forall (fun p => ok_prog p = true) ts ->
  (tbl = [] \/ 1 <= scnt_ts ws_take ts) ->
  (forall p, NoDup (cbs p)) ->
  let x := sexec ShutLib (s_init tbl cbs, ts) sched in
  sall_done (snd x) ->
  s_table (fst x) = [] /\
  forall p, tracked tbl ts p ->
    (forall f, In f (cbs p) -> count_occ Nat.eq_dec (c_ran (s_peer (fst x) p)) f = 1) /\
    (forall f, ~ In f (cbs p) -> count_occ Nat.eq_dec (c_ran (s_peer (fst x) p)) f = 0) /\
    peer_done (fst x) p = true.
Proof. exact stop_runs_every_callback_once. Qed.
Print Assumptions C09_stop_runs_every_callback_once.

(* the library: any number of concurrent Stop calls, the exit path of Serve (which may still admit peers before it
   ends), any sweeps of the periodic tick / datagram path over any peers, any table, every schedule *)
Theorem C09_server_stop_clean : forall nstop news sweeps tbl cbs sched,
  (forall p, NoDup (cbs p)) ->
  let x := sexec ShutLib (s_init tbl cbs, server_threads nstop news sweeps) sched in
  (forall p f, count_occ Nat.eq_dec (c_ran (s_peer (fst x) p)) f <= 1) /\
  (sall_done (snd x) ->
     s_table (fst x) = [] /\
     forall p, In p tbl \/ In p news ->
       (forall f, In f (cbs p) -> count_occ Nat.eq_dec (c_ran (s_peer (fst x) p)) f = 1) /\
       peer_done (fst x) p = true).
Proof. exact server_stop_clean. Qed.
Print Assumptions C09_server_stop_clean.

(* tie to the source: udp/server.Session.shutdown in the CURRENT source (Gen/WakeSets.v, regenerated on every run) is
   exactly `defer s.doneCancel(); for _, f := range s.popOnClose() { f() }`, the ShutLib of the model *)
Theorem C09_udp_shutdown_shape : udp_shutdown_plain = true.
Proof. reflexivity. Qed.
Print Assumptions C09_udp_shutdown_shape.

(* that shutdown does not look at the done signal first is essential: with `if s.doneCtx.Err() != nil { return }` in
   front, one Stop call and the Serve exit over two peers have a schedule (Stop takes the table and starts on the first
   peer, Serve finishes and cancels the server's done context, Stop goes on) after which everything has returned,
   both peers show Done completed, and the callback of the second peer has never run *)
Theorem C09_shutdown_guard_on_done_refuted :
  exists sched,
    let x := sexec ShutGuarded (s_init [0; 1] (fun _ => [7]), server_threads 1 [] []) sched in
    sall_done (snd x) /\ s_table (fst x) = [] /\
    peer_done (fst x) 0 = true /\ peer_done (fst x) 1 = true /\
    c_ran (s_peer (fst x) 0) = [7] /\ c_ran (s_peer (fst x) 1) = [].
Proof. exact shutdown_guard_on_done_refuted. Qed.
Print Assumptions C09_shutdown_guard_on_done_refuted.

(* ================= round 4: callbacks registered during the shutdown; Stop while a connection is set up ============ *)

(* "runs every registered on-close callback exactly once" when callbacks are registered WHILE the session shuts down.
   The on-close list is modelled as the Go slice it is (Liveness/Reg.v: heap of backing arrays, append in place while
   there is room, the loop of shutdown reads element i of the popped slice at iteration i), popOnClose leaves nil
   behind.  For ALL callbacks that register callbacks when they run (regs), arbitrary thread programs of AddOnClose
   and popOnClose/shutdown, every schedule: at every moment nothing has run more often than it was registered; when
   all threads have returned and one of them shut the session down, every callback that was not registered again
   during the run has run exactly as often as it was registered before the close. *)
Theorem C09_callbacks_registered_during_shutdown : forall regs cbs ts sched,
  Forall (fun p => forallb user_act p = true) ts ->
  let x := rexec PopNil regs (r_init cbs, ts) sched in
  (forall f, ran_count (fst x) f <= count_occ Nat.eq_dec cbs f + count_occ Nat.eq_dec (r_added (fst x)) f) /\
  (rall_done (snd x) -> Exists (fun p => existsb is_pop p = true) ts ->
   forall f, ~ In f (r_added (fst x)) -> ran_count (fst x) f = count_occ Nat.eq_dec cbs f).
Proof. exact callbacks_registered_before_close_run_once. Qed.
Print Assumptions C09_callbacks_registered_during_shutdown.

(* ... and only callbacks named by an AddOnClose of some thread or registered by some callback are registered in a
   run (so "not registered again" is a static condition) *)
Theorem C09_registered_callbacks_sources : forall regs ts v cbs sched f,
  In f (r_added (fst (rexec v regs (r_init cbs, ts) sched))) ->
  (exists p, In p ts /\ In (RAdd f) p) \/ exists g, In f (regs g).
Proof. exact added_sources. Qed.
Print Assumptions C09_registered_callbacks_sources.

(* tie to the source: popOnClose of the three session types leaves `nil` behind (regenerated on every run from the
   syntax tree) *)
Theorem C09_pop_shape : udp_pop_shape = 0 /\ tcp_pop_shape = 0 /\ dtls_pop_shape = 0.
Proof. repeat split; reflexivity. Qed.
Print Assumptions C09_pop_shape.

(* with `s.onClose = s.onClose[:0]` the statement is false: a callback that registers two callbacks ... *)
Theorem C09_pop_truncate_nested_refuted :
  let regs := fun f => if Nat.eqb f 0 then [2; 3] else [] in
  let x := rexec PopTrunc regs (r_init [0; 1], [[RPop]]) (repeat 0 6) in
  rall_done (snd x) /\ ~ In 1 (r_added (fst x)) /\
  ran_count (fst x) 0 = 1 /\ ran_count (fst x) 1 = 0 /\ ran_count (fst x) 3 = 1 /\
  view (r_heap (fst x)) (r_on (fst x)) = [2; 3].
Proof. exact pop_trunc_nested_registration_loses_callback. Qed.
Print Assumptions C09_pop_truncate_nested_refuted.

(* ... or another goroutine registering while a callback runs overwrites what shutdown has not read yet *)
Theorem C09_pop_truncate_concurrent_refuted :
  let regs := fun _ : nat => @nil nat in
  let x := rexec PopTrunc regs (r_init [0; 1; 2; 3], [[RPop]; [RAdd 10; RAdd 11; RAdd 12; RAdd 13]])
                 [0; 0; 1; 1; 1; 1; 0; 0; 0] in
  rall_done (snd x) /\
  ran_count (fst x) 0 = 1 /\ ran_count (fst x) 1 = 0 /\ ran_count (fst x) 2 = 0 /\ ran_count (fst x) 3 = 0 /\
  ran_count (fst x) 11 = 1 /\ view (r_heap (fst x)) (r_on (fst x)) = [10; 11; 12; 13].
Proof. exact pop_trunc_concurrent_registration_loses_callbacks. Qed.
Print Assumptions C09_pop_truncate_concurrent_refuted.

(* "stopping a server ... completes the connection's done signal" for connections that are still being SET UP
   (Liveness/Accept.v: Stop, the exit path of Serve with connections.Close and wg.Wait, the goroutine of an accepted
   connection: TLS handshake under the connection context, OnNewConn hook, Store, read loop, deferred Close /
   shutdown / Delete; a connection context is a child of the server's context).  ARBITRARY thread programs in which
   the connection goroutines do not wait for their own WaitGroup and some thread is on its way to s.cancel(); every
   behaviour of the peers (silent for ever included); every schedule: never stuck, completes, and then the server
   context is cancelled and every connection that had its shutdown ahead has Done completed and its context done. *)
Theorem C09_stop_ends_connections_in_setup : forall n ts e sched,
  good_xstart n ts ->
  let x := xexec CtxServer e (x_init, ts) sched in
  (~ xall_done (snd x) -> exists tid, xcan_run CtxServer e x tid = true) /\
  (exists ext, xall_done (snd (xexec CtxServer e x ext))) /\
  (xall_done (snd x) ->
   x_srv (fst x) = true /\
   forall c, (exists t p, nth_error ts t = Some p /\ In (XShutdown c) p) ->
             mem c (x_done (fst x)) = true /\ ctx_done CtxServer (fst x) c = true).
Proof. exact stop_ends_connections_in_setup. Qed.
Print Assumptions C09_stop_ends_connections_in_setup.

(* every step taken shortens the programs by one action and a parked thread changes nothing: every fair schedule
   completes within [xmeasure] steps *)
Theorem C09_setup_steps_bounded : forall v e x tid,
  (xcan_run v e x tid = true -> S (xmeasure (snd (xstep v e x tid))) = xmeasure (snd x)) /\
  (xcan_run v e x tid = false -> xstep v e x tid = x).
Proof. intros v e x tid. split; [apply xstep_measure|apply xstep_idle]. Qed.
Print Assumptions C09_setup_steps_bounded.

(* the library: n accepted connections, each anywhere in its set-up (at c <= 3: before the handshake, in the hook,
   not yet stored, reading), over TLS or not, one or more Stop calls, Serve *)
Theorem C09_server_stop_with_connections_in_setup : forall n tls at_ nstop e sched,
  1 <= nstop -> (forall c, c < n -> at_ c <= 3) ->
  let x := xexec CtxServer e (x_init, server_sys n tls at_ nstop) sched in
  (~ xall_done (snd x) -> exists tid, xcan_run CtxServer e x tid = true) /\
  (exists ext, xall_done (snd (xexec CtxServer e x ext))) /\
  (xall_done (snd x) ->
   x_srv (fst x) = true /\
   forall c, c < n -> mem c (x_done (fst x)) = true /\ ctx_done CtxServer (fst x) c = true).
Proof. exact server_stop_with_connections_in_setup. Qed.
Print Assumptions C09_server_stop_with_connections_in_setup.

(* tie to the source: the stream servers derive the context of an accepted connection from their own context *)
Theorem C09_conn_ctx_shape : tcp_conn_ctx = "s.ctx"%string /\ dtls_conn_ctx = "s.ctx"%string.
Proof. split; reflexivity. Qed.
Print Assumptions C09_conn_ctx_shape.

(* with the connection contexts derived from the configured context: a connection whose OnNewConn hook runs while
   Serve closes its table is read for ever, Serve never returns, Done is never completed ... *)
Theorem C09_conn_ctx_from_configured_ctx_refuted :
  let ts := server_sys 1 (fun _ => false) (fun _ => 0) 1 in
  let x := xexec CtxParent silent (x_init, ts) [2; 2; 1; 1; 1; 0; 0] in
  ~ xall_done (snd x) /\
  (forall tid, xcan_run CtxParent silent x tid = false) /\
  (forall ext, xexec CtxParent silent x ext = x) /\
  x_srv (fst x) = true /\ mem 0 (x_done (fst x)) = false /\ ctx_done CtxParent (fst x) 0 = false.
Proof. exact parent_ctx_hook_stuck. Qed.
Print Assumptions C09_conn_ctx_from_configured_ctx_refuted.

(* ... and so does a TLS handshake with a peer that never sends its ClientHello *)
Theorem C09_conn_ctx_from_configured_ctx_tls_refuted :
  let ts := server_sys 1 (fun _ => true) (fun _ => 0) 1 in
  let x := xexec CtxParent silent (x_init, ts) [2; 2; 1; 1; 1] in
  ~ xall_done (snd x) /\
  (forall tid, xcan_run CtxParent silent x tid = false) /\
  (forall ext, xexec CtxParent silent x ext = x) /\
  x_srv (fst x) = true /\ mem 0 (x_done (fst x)) = false /\ ctx_done CtxParent (fst x) 0 = false.
Proof. exact parent_ctx_tls_stuck. Qed.
Print Assumptions C09_conn_ctx_from_configured_ctx_tls_refuted.


(* the hypotheses are satisfiable by non-trivial instances *)
(* all client-operation functions of the inventory, one after the other, as one operation *)
Example C09_instance_request :
  filter is_client inventory <> [] /\
  Forall (fun f => In f inventory /\ is_client f = true) (filter is_client inventory) /\
  9 <= List.length (flat_map awaits_of (filter is_client inventory)).
Proof.
  split.
  { intro H. assert (L : 9 <= List.length (filter is_client inventory)) by (vm_compute; repeat constructor).
    rewrite H in L. inversion L. }
  split.
  - apply Forall_forall. intros f Hf. apply filter_In in Hf. exact Hf.
  - vm_compute. repeat constructor.
Qed.

Example C09_instance_close :
  let x := exec DoneChan (init_st [1; 2; 3], session_threads true 3 1 [4]) [3; 0; 1; 3; 4; 2; 3; 0; 3; 1; 3; 2; 3; 3; 3] in
  all_done (snd x) /\ c_ran (fst x) <> [] /\ c_done (fst x) = true.
Proof. vm_compute. repeat split; try discriminate. repeat constructor. Qed.

(* three stalled writers, two Close calls, the reader loop: a schedule under which everything returns *)
Example C09_instance_stall :
  let e := mkEnv true false in
  good_start e (stall_sys CloseLib [2; 1; 3] 2) /\
  let x := bexec e (b_init, stall_sys CloseLib [2; 1; 3] 2) (rr 6 12) in
  ball_done (snd x) /\ b_done (fst x) = true /\ b_sock_closes (fst x) = 1.
Proof.
  split; [apply stall_sys_good; left; repeat constructor|].
  vm_compute. repeat split. repeat constructor.
Qed.

(* two concurrent housekeeping walks over three entries (one given up by each), two operations, a clean-up, an
   acknowledgement: a schedule under which everything returns and the lock is free *)
Example C09_instance_table :
  let ts := lib_table_sys [[false; true; false]; [true; false; false]] 2 1 1 in
  Forall (fun p => sec_ok p = true) ts /\
  let x := texec (t_init, ts) (rr 6 40) in
  tall_done (snd x) /\ fst x = t_init /\ 30 <= tmeasure ts.
Proof.
  split; [apply lib_table_sys_ok|].
  vm_compute. repeat split; repeat constructor.
Qed.

(* three Stop calls, the Serve exit admitting two more peers, a sweep: four peers with two callbacks each *)
Example C09_instance_stop :
  let ts := server_threads 3 [2; 3] [[0; 2]] in
  let x := sexec ShutLib (s_init [0; 1] (fun p => [10 * p; 10 * p + 1]), ts) (rr 5 40) in
  sall_done (snd x) /\ s_table (fst x) = [] /\
  map (fun p => List.length (c_ran (s_peer (fst x) p))) [0; 1; 2; 3] = [2; 2; 2; 2] /\
  forallb (peer_done (fst x)) [0; 1; 2; 3] = true.
Proof. vm_compute. repeat split; repeat constructor. Qed.

(* three callbacks; the second registers two more when it runs; meanwhile another goroutine registers a sixth; two
   shutdown callers: a schedule under which everything returns and the three ran once *)
Example C09_instance_reg :
  let regs := fun f => if Nat.eqb f 1 then [3; 4] else [] in
  let ts := [[RPop]; [RAdd 5]; [RPop]] in
  Forall (fun p => forallb user_act p = true) ts /\
  let x := rexec PopNil regs (r_init [0; 1; 2], ts) [0; 0; 1; 0; 0; 2; 0; 0; 2; 2; 2; 2] in
  rall_done (snd x) /\ map (ran_count (fst x)) [0; 1; 2] = [1; 1; 1].
Proof. split; [repeat constructor|]. vm_compute. split; repeat constructor. Qed.

(* three connections (TLS handshake not begun, inside the hook, reading), two Stop calls, silent peers *)
Example C09_instance_accept :
  let at_ := fun c => match c with 0 => 0 | 1 => 1 | _ => 3 end in
  let ts := server_sys 3 (fun c => Nat.eqb c 0) at_ 2 in
  good_xstart 3 ts /\
  let x := xexec CtxServer silent (x_init, ts) (rrx 6 12) in
  xall_done (snd x) /\ forallb (fun c => mem c (x_done (fst x))) [0; 1; 2] = true.
Proof. split; [apply server_sys_good; repeat constructor|]. vm_compute. split; repeat constructor. Qed.
