(* C05 -- Datagram duplicates never re-execute a handler (MID de-duplication).
   Statements only; proofs in Dedup/Proofs.v (sequential histories) and Dedup/Conc.v (threads).
   The model (Dedup/Model.v) is the request path of udp/client.Conn; one [step] is the processing of one
   received copy.  Part 1 quantifies over all sequential histories; part 2 (Dedup/Conc.v) splits a step
   into its atomic accesses to the shared state, runs one thread per copy under every schedule
   (Base/Interleave.v) and proves that the per-message-ID lock makes every execution equivalent to a
   sequential history -- the one in lock-acquisition order. *)
From Coq Require Import ZArith List Bool.
From GoCoap Require Import Base.Bytes Base.Interleave NoResp.Model Gen.DedupConsts Dedup.Model Dedup.Proofs Dedup.Conc.
From GoCoap Require Import Dedup.Method Dedup.Sweep Dedup.Unlock.
From GoCoap Require Dedup.Spec.
Import ListNotations.
Open Scope Z_scope.

(* The lifetime of a cached reply is generated from the source (udp/client.ExchangeLifetime, nanoseconds,
   Gen/DedupConsts.v); it is the EXCHANGE_LIFETIME of RFC 7252 (247 s) that the specification uses. *)
Theorem C05_lifetime_is_rfc : LIFETIME = Spec.SPEC_LIFETIME /\ ExchangeLifetime = Spec.SPEC_LIFETIME * 1000000.
Proof. exact lifetime_is_rfc. Qed.
Print Assumptions C05_lifetime_is_rfc.

(* ================= part 1: all sequential histories ================= *)

(* A first copy (handler ran) of a confirmable request, or of a non-confirmable one that got a
   reply, followed by ANY history lasting at most the exchange lifetime, then another copy with the
   same message ID: the handler is not called again and the copy is answered with one datagram of
   the same code, token, options and payload as the first reply, carrying the copy's message ID. *)
Theorem C05_once_same_reply : forall s typ mid tok code ro b s1 o1 evs typ2 tok2 code2 ro2 b2,
  step s (Req typ mid tok code ro b) = (s1, o1) ->
  is_cacheable_typ typ = true -> o_called o1 = true -> (typ = CON \/ o_out o1 <> []) ->
  ages_ok evs -> total_age evs <= LIFETIME ->
  is_cacheable_typ typ2 = true ->
  let o2 := snd (step (final s1 evs) (Req typ2 mid tok2 code2 ro2 b2)) in
  o_called o2 = false /\
  exists r1 r2, o_out o1 = [r1] /\ o_out o2 = [r2] /\ same_content r2 r1 /\ w_mid r2 = mid /\
                w_typ r2 = (if typ2 =? CON then ACK else NON).
Proof. exact dedup_once. Qed.
Print Assumptions C05_once_same_reply.

(* Once more than the lifetime has passed without a copy, the ID is fresh: the handler runs.
   Holds from every reachable state (any prefix history [pre]). *)
Theorem C05_fresh_after_lifetime : forall own0 pre evs typ mid tok code ro b,
  ages_ok pre -> ages_ok evs ->
  (forall e, In e evs -> is_req_on mid e = false) ->
  LIFETIME < total_age evs ->
  o_called (snd (step (final (final (init own0) pre) evs) (Req typ mid tok code ro b))) = true.
Proof. exact dedup_fresh_after_lifetime. Qed.
Print Assumptions C05_fresh_after_lifetime.

(* every copy is either handled or answered with exactly one datagram matched to its ID *)
Theorem C05_hit_or_handled : forall s typ mid tok code ro b,
  let o := snd (step s (Req typ mid tok code ro b)) in
  o_called o = true \/ (o_called o = false /\ exists r, o_out o = [r] /\ w_mid r = mid).
Proof. exact dedup_hit_or_handled. Qed.
Print Assumptions C05_hit_or_handled.

(* the connection's own message-ID counter is kept at distance >= 0xffff/4 from a confirmable peer ID *)
Theorem C05_own_mid_kept_away : forall mid own, 0 <= own ->
  let own' := check_my_mid 4 mid own in 16383 <= u16 (u16 mid - u16 own').
Proof. exact own_mid_kept_away. Qed.
Print Assumptions C05_own_mid_kept_away.

(* The same with the cacheability condition stated on the handler: whatever the handler left in the response
   writer -- a response, a replaced message (w.SetMessage), a Reset, an Empty code -- a confirmable request, and a
   non-confirmable one that got a reply, is handled once per lifetime. *)
Theorem C05_once_any_reply : forall s typ mid tok code ro b s1 o1 evs typ2 tok2 code2 ro2 b2,
  step s (Req typ mid tok code ro b) = (s1, o1) ->
  is_cacheable_typ typ = true -> o_called o1 = true -> (typ = CON \/ handler_result tok ro b <> None) ->
  ages_ok evs -> total_age evs <= LIFETIME ->
  is_cacheable_typ typ2 = true ->
  let o2 := snd (step (final s1 evs) (Req typ2 mid tok2 code2 ro2 b2)) in
  o_called o2 = false /\
  exists r1 r2, o_out o1 = [r1] /\ o_out o2 = [r2] /\ same_content r2 r1 /\ w_mid r2 = mid /\
                w_typ r2 = (if typ2 =? CON then ACK else NON).
Proof. exact dedup_once_replied. Qed.
Print Assumptions C05_once_any_reply.

(* Separate response: the handler of a confirmable request returns without setting a response.  The request gets
   a bare acknowledgement, and so does every copy for the lifetime, without reaching the handler -- whatever
   happens in between, in particular the application sending the response itself ([Send]). *)
Theorem C05_separate_response : forall s mid tok code ro b s1 o1 evs tok2 code2 ro2 b2,
  step s (Req CON mid tok code ro b) = (s1, o1) -> o_called o1 = true -> handler_result tok ro b = None ->
  ages_ok evs -> total_age evs <= LIFETIME ->
  let o2 := snd (step (final s1 evs) (Req CON mid tok2 code2 ro2 b2)) in
  o_out o1 = [bare_ack mid] /\ o_called o2 = false /\ o_out o2 = [bare_ack mid].
Proof. exact separate_response. Qed.
Print Assumptions C05_separate_response.

(* What the application sends on its own is an emission only: no handler, the response cache is untouched. *)
Theorem C05_send_is_emission : forall s typ tok code opts pay,
  cache (fst (step s (Send typ tok code opts pay))) = cache s /\
  o_called (snd (step s (Send typ tok code opts pay))) = false /\
  exists r, o_out (snd (step s (Send typ tok code opts pay))) = [r] /\
            w_typ r = typ /\ w_code r = code /\ w_tok r = tok /\ w_opts r = opts /\ w_pay r = pay.
Proof. exact send_is_emission. Qed.
Print Assumptions C05_send_is_emission.

(* A message withheld by the request monitor: no handler, nothing written, nothing cached. *)
Theorem C05_drop_unseen : forall s typ mid,
  cache (fst (step s (Drop typ mid))) = cache s /\ snd (step s (Drop typ mid)) = {| o_called := false; o_out := [] |}.
Proof. exact drop_unseen. Qed.
Print Assumptions C05_drop_unseen.

(* A ping is answered with a Reset carrying its message ID; the handler never sees it, nothing is cached. *)
Theorem C05_ping_unseen : forall s mid,
  cache (fst (step s (Ping mid))) = cache s /\ o_called (snd (step s (Ping mid))) = false /\
  o_out (snd (step s (Ping mid))) = [{| w_typ := RST; w_code := 0; w_mid := mid; w_tok := []; w_opts := []; w_pay := [] |}].
Proof. exact ping_unseen. Qed.
Print Assumptions C05_ping_unseen.

(* A handler that replaces the response message: the reply is that message, with its own token. *)
Theorem C05_set_message_reply : forall s typ mid tok code ro rc tok' o p,
  req_lookup typ mid (cache s) = None ->
  let ob := snd (step s (Req typ mid tok code ro (BMsg rc tok' o p))) in
  o_called ob = true /\
  exists r, o_out ob = [r] /\ w_code r = rc /\ w_tok r = tok' /\ w_opts r = o /\ w_pay r = p /\
            (typ = CON -> w_typ r = ACK /\ w_mid r = mid).
Proof. exact set_message_reply. Qed.
Print Assumptions C05_set_message_reply.

(* ================= part 1b: the request message is the handler's while it runs ================= *)
(* handleReq hands the received *pool.Message itself to the handler.  [ruse] is what the handler does with that object
   before it returns: nothing, re-labelling it (r.SetType / r.SetMessageID / r.SetToken: a forwarding proxy; another
   connection's Do), or hijacking it and releasing it to the pool (Reset: type Unset, message ID -1).  [step_u rp] is the
   processing of one copy with the request's type and message ID read at [rp]: RBefore = the code (locals taken before
   cc.handle), RAfter = the variant that reads req.Type()/req.MessageID() when it calls processResponse. *)

(* The code does not depend on what the handler does with the request: a copy is processed as [step] processes it,
   and so is every history. *)
Theorem C05_request_is_the_handlers : forall evs s,
  urun RBefore s evs = run s (map erase_use evs).
Proof. exact urun_erase. Qed.
Print Assumptions C05_request_is_the_handlers.

(* Hence C05 for all handler behaviours INCLUDING every use of the request message: first copy handled (its handler
   uses the request as u), any history of at most the lifetime (handlers using their requests in any way), another copy
   with the same message ID: not handed to the handler, answered with one datagram of the same code, token, options and
   payload carrying the copy's ID; and the acknowledgement of a confirmable first copy carries the request's ID. *)
Theorem C05_once_any_request_use : forall s u typ mid tok code ro b s1 o1 evs u2 typ2 tok2 code2 ro2 b2,
  step_u RBefore s u typ mid tok code ro b = (s1, o1) ->
  is_cacheable_typ typ = true -> o_called o1 = true -> (typ = CON \/ o_out o1 <> []) ->
  ages_ok (map erase_use evs) -> total_age (map erase_use evs) <= LIFETIME ->
  is_cacheable_typ typ2 = true ->
  let o2 := snd (step_u RBefore (fst (urun RBefore s1 evs)) u2 typ2 mid tok2 code2 ro2 b2) in
  o_called o2 = false /\
  exists r1 r2, o_out o1 = [r1] /\ o_out o2 = [r2] /\ same_content r2 r1 /\ w_mid r2 = mid /\
                w_typ r2 = (if typ2 =? CON then ACK else NON) /\
                (typ = CON -> w_typ r1 = ACK /\ w_mid r1 = mid).
Proof. exact dedup_once_any_use. Qed.
Print Assumptions C05_once_any_request_use.

(* The late-reading variant is the code exactly as long as handlers keep the request's labels ... *)
Theorem C05_late_read_same_if_kept : forall s u typ mid tok code ro b,
  use_req u {| r_typ := typ; r_mid := mid |} = {| r_typ := typ; r_mid := mid |} ->
  step_u RAfter s u typ mid tok code ro b = step_u RBefore s u typ mid tok code ro b.
Proof. exact late_read_same_if_kept. Qed.
Print Assumptions C05_late_read_same_if_kept.

(* ... and violates the property otherwise: from ANY state in which the ID is fresh, when the handler leaves the request
   with another message ID (re-labelled, or released: -1), every later copy reaches the handler again. *)
Theorem C05_late_read_reexecutes : forall s u typ mid tok code ro b u2 tok2 code2 ro2 b2,
  req_lookup typ mid (cache s) = None ->
  r_mid (use_req u {| r_typ := typ; r_mid := mid |}) <> mid ->
  let s1 := fst (step_u RAfter s u typ mid tok code ro b) in
  o_called (snd (step_u RAfter s1 u2 typ mid tok2 code2 ro2 b2)) = true.
Proof. exact late_read_reexecutes. Qed.
Print Assumptions C05_late_read_reexecutes.

(* Witnesses (also the non-vacuity example of this part): CON GET, ID 4660, handler re-labels the request with the
   upstream ID 9 / releases it / re-labels only its type; the same datagram again.  Per copy: (handler called, [(type, ID)
   of the datagram written]). *)
Theorem C05_late_read_refuted :
  demo_view RBefore (URelabel CON 9) = [(true, [(ACK, 4660)]); (false, [(ACK, 4660)])] /\
  demo_view RBefore URelease = [(true, [(ACK, 4660)]); (false, [(ACK, 4660)])] /\
  demo_view RAfter (URelabel CON 9) = [(true, [(ACK, 9)]); (true, [(ACK, 9)])] /\
  demo_view RAfter URelease = [(true, [(CON, 36864)]); (true, [(CON, 36866)])] /\
  demo_view RAfter (URelabel NON 4660) = [(true, [(CON, 36864)]); (false, [(ACK, 4660)])].
Proof. exact late_read_refuted. Qed.
Print Assumptions C05_late_read_refuted.

(* ================= part 2: threads, all schedules ================= *)
(* One thread per received copy.  Its program (Dedup.Conc.act) is the sequence of atomic accesses of
   udp/client.Conn to the shared state: own-ID check; Lock(mid) -- not enabled while the ID is held;
   cache lookup; handler + own-ID draw; cache store; Unlock; own-ID draw + write.  [cexec sched (cinit s0 progs)]
   runs the programs [progs] from the state s0 under the schedule [sched] (a list of thread numbers). *)

(* The split is the model: a thread that runs alone performs exactly one [step], own counter included. *)
Theorem C05_thread_alone_is_step : forall typ mid tok code ro b s,
  ~ In mid (held s) ->
  let o := Req typ mid tok code ro b in
  run_actions 7 o (init_loc o) s =
  Some ({| g := fst (step (g s) o); held := held s; acq := o :: acq s |}, (snd (step (g s) o), length (acq s))).
Proof. exact solo. Qed.
Print Assumptions C05_thread_alone_is_step.

(* (a) Every interleaved execution is equivalent to the sequential history A of the critical sections in
   lock-acquisition order: every call that has returned, with position p in that order, observed what the
   sequential run of A observes at p; the cache entry of every message ID that is not locked is the one the
   sequential run of A leaves; at most one thread is inside the section of a message ID.
   Equivalent = up to the own message-ID counter ([oeq] erases the ID of the reply to a handled request that is
   not confirmable, [kv] compares the code, token, options, payload and validity of a cache entry). *)
Theorem C05_sections_serialise : forall s0 progs sched,
  let c := cexec sched (cinit s0 progs) in
  let A := order c in
  (forall t n typ mid tok code ro b ob p, In (ERes t n (Req typ mid tok code ro b) (ob, p)) (rhist c) ->
     nth_error A p = Some (Req typ mid tok code ro b) /\
     exists ob', nth_error (snd (run s0 A)) p = Some ob' /\ oeq typ ob ob') /\
  (forall m, ~ In m (held (shared c)) -> kv (cache (g (shared c))) m = kv (cache (fst (run s0 A))) m) /\
  (forall t1 t2 th1 th2 m, nth_error (threads c) t1 = Some th1 -> nth_error (threads c) t2 = Some th2 ->
     insec (cur th1) m -> insec (cur th2) m -> t1 = t2).
Proof. exact sections_serialise. Qed.
Print Assumptions C05_sections_serialise.

(* ... and distinct calls have distinct positions in that order. *)
Theorem C05_positions_distinct : forall s0 progs sched t1 n1 t2 n2 typ1 mid1 tok1 code1 ro1 b1 typ2 mid2 tok2 code2 ro2 b2 ob1 ob2 p,
  let c := cexec sched (cinit s0 progs) in
  forall X Y, rhist c = X ++ ERes t1 n1 (Req typ1 mid1 tok1 code1 ro1 b1) (ob1, p) :: Y ->
  ~ In (ERes t2 n2 (Req typ2 mid2 tok2 code2 ro2 b2) (ob2, p)) (X ++ Y).
Proof. exact positions_distinct. Qed.
Print Assumptions C05_positions_distinct.

(* (b) Copies with DIFFERENT message IDs commute on the response cache: in either order every entry ends up with the
   same content and validity, and each copy observes the same in either position -- up to the own counter, the one
   location they share ... *)
Theorem C05_commute : forall s typ1 mid1 tok1 code1 ro1 b1 typ2 mid2 tok2 code2 ro2 b2,
  mid1 <> mid2 ->
  let e1 := Req typ1 mid1 tok1 code1 ro1 b1 in
  let e2 := Req typ2 mid2 tok2 code2 ro2 b2 in
  let s1 := fst (step s e1) in let s12 := fst (step s1 e2) in
  let s2 := fst (step s e2) in let s21 := fst (step s2 e1) in
  (forall k, kv (cache s12) k = kv (cache s21) k) /\
  oeq typ1 (snd (step s e1)) (snd (step s2 e1)) /\
  oeq typ2 (snd (step s1 e2)) (snd (step s e2)).
Proof. exact commute. Qed.
Print Assumptions C05_commute.

(* ... which itself does NOT commute (the own-ID check of a confirmable request depends on how far the other
   copy has advanced the counter): this is exactly what is projected out. *)
Theorem C05_commute_own_counter_refuted :
  exists s e1 e2, other 5 e1 = true /\ other 16383 e2 = true /\
    own (fst (step (fst (step s e1)) e2)) <> own (fst (step (fst (step s e2)) e1)).
Proof. exact commute_own_counter_refuted. Qed.
Print Assumptions C05_commute_own_counter_refuted.

(* (c) Hence, for ANY number of concurrently processed copies of one request e (a confirmable one, or one for which
   the handler produces a reply) with a fresh message ID m, together with any number of copies of requests with other
   message IDs, under EVERY schedule: there is one position p0 of the lock order -- the first copy to take the lock --
   such that a copy that has returned ran the handler iff it is the one at p0; every copy got one datagram with the
   same code, token, options and payload; for every copy but the one at p0 it is the stored reply, re-addressed. *)
Theorem C05_once_concurrent : forall typ m tok code ro b,
  is_cacheable_typ typ = true -> (typ = CON \/ handler_result tok ro b <> None) ->
  forall s0 progs sched,
  cache_load (cache s0) m = None ->
  (forall prog, In prog progs -> Forall (fun x => x = Req typ m tok code ro b \/ other m x = true) prog) ->
  let c := cexec sched (cinit s0 progs) in
  exists p0 r1, forall t n ob p, In (ERes t n (Req typ m tok code ro b) (ob, p)) (rhist c) ->
    (p = p0 -> o_called ob = true /\ exists r, o_out ob = [r] /\ same_content r r1) /\
    (p <> p0 -> o_called ob = false /\ exists r, o_out ob = [r] /\ same_content r r1 /\ w_mid r = m /\
                w_typ r = (if typ =? CON then ACK else NON)).
Proof. exact once_concurrent. Qed.
Print Assumptions C05_once_concurrent.

(* ... in particular, of two copies that have returned at most one ran the handler. *)
Theorem C05_handler_once : forall typ m tok code ro b,
  is_cacheable_typ typ = true -> (typ = CON \/ handler_result tok ro b <> None) ->
  forall s0 progs sched,
  cache_load (cache s0) m = None ->
  (forall prog, In prog progs -> Forall (fun x => x = Req typ m tok code ro b \/ other m x = true) prog) ->
  let c := cexec sched (cinit s0 progs) in
  forall X Y t1 n1 ob1 p1 t2 n2 ob2 p2,
    rhist c = X ++ ERes t1 n1 (Req typ m tok code ro b) (ob1, p1) :: Y ->
    In (ERes t2 n2 (Req typ m tok code ro b) (ob2, p2)) (X ++ Y) ->
    o_called ob1 = true -> o_called ob2 = false.
Proof. exact handler_once. Qed.
Print Assumptions C05_handler_once.

(* ================= part 1c: every request method (Dedup/Method.v) ================= *)

(* The statements of part 1 do not constrain the code of the request.  Spelled out for the request methods -- every
   code 0.01-0.31, FETCH 0.05 / PATCH 0.06 / iPATCH 0.07 of RFC 8132 included -- on the step whose decision to
   remember the reply is gated by a predicate on the request's code ([step_g]; the code has no gate: [gate_all]). *)
Theorem C05_every_method_code : forall s typ mid tok code ro b s1 o1 evs typ2 tok2 code2 ro2 b2,
  is_method_code code = true -> is_method_code code2 = true ->
  step_g gate_all s typ mid tok code ro b = (s1, o1) ->
  is_cacheable_typ typ = true -> o_called o1 = true -> (typ = CON \/ o_out o1 <> []) ->
  ages_ok evs -> total_age evs <= LIFETIME ->
  is_cacheable_typ typ2 = true ->
  let o2 := snd (step_g gate_all (final s1 evs) typ2 mid tok2 code2 ro2 b2) in
  o_called o2 = false /\
  exists r1 r2, o_out o1 = [r1] /\ o_out o2 = [r2] /\ same_content r2 r1 /\ w_mid r2 = mid /\
                w_typ r2 = (if typ2 =? CON then ACK else NON).
Proof. exact dedup_once_every_method. Qed.
Print Assumptions C05_every_method_code.

(* the ungated step is the model's step (the one the harness compares the implementation with) *)
Theorem C05_no_method_gate : forall s typ mid tok code ro b,
  step_g gate_all s typ mid tok code ro b = step s (Req typ mid tok code ro b).
Proof. exact step_g_all. Qed.
Print Assumptions C05_no_method_gate.

(* A gate is invisible on the codes it lets through ... *)
Theorem C05_method_gate_same_if_covered : forall gate s typ mid tok code ro b, gate code = true ->
  step_g gate s typ mid tok code ro b = step s (Req typ mid tok code ro b).
Proof. exact step_g_covered. Qed.
Print Assumptions C05_method_gate_same_if_covered.

(* ... and fatal on the others: from ANY state in which the ID is fresh, every copy of a request whose code the
   gate leaves out is handed to the handler again (nothing was remembered). *)
Theorem C05_method_gate_reexecutes : forall gate s typ mid tok code ro b typ2 tok2 ro2 b2,
  gate code = false ->
  cache_load (cache s) mid = None ->
  let '(s1, o1) := step_g gate s typ mid tok code ro b in
  let '(s2, o2) := step_g gate s1 typ2 mid tok2 code ro2 b2 in
  o_called o1 = true /\ o_called o2 = true /\ cache s2 = cache s.
Proof. exact gate_reexecutes. Qed.
Print Assumptions C05_method_gate_reexecutes.

(* The range GET..DELETE leaves out exactly the methods 0.05-0.31; witnesses FETCH, PATCH, iPATCH. *)
Theorem C05_method_range_misses : forall c, is_method_code c = true -> (gate_range c = false <-> 5 <= c <= 31).
Proof. exact range_misses. Qed.
Print Assumptions C05_method_range_misses.

Theorem C05_method_range_refuted :
  is_method_code FETCH = true /\ is_method_code PATCH = true /\ is_method_code IPATCH = true /\
  demo_calls gate_all FETCH = [true; false] /\ demo_calls gate_all PATCH = [true; false] /\ demo_calls gate_all IPATCH = [true; false] /\
  demo_calls gate_range 1 = [true; false] /\ demo_calls gate_range 4 = [true; false] /\
  demo_calls gate_range FETCH = [true; true] /\ demo_calls gate_range PATCH = [true; true] /\ demo_calls gate_range IPATCH = [true; true].
Proof. exact method_range_refuted. Qed.
Print Assumptions C05_method_range_refuted.

(* ================= part 2b: the lock is kept until the reply is stored (Dedup/Unlock.v) ================= *)

(* check - handle - store is one critical section per message ID.  The code, every number of threads, every program,
   every schedule: while a copy is between its Lock and its Unlock -- pc 2 lookup, 3 handler, 4 store, 5 Unlock; in
   particular when its handler has returned and its reply is still being stored, however long the (possibly
   application-supplied) response cache takes for it -- every other copy with that message ID is either not past its
   Lock or has finished its Unlock: none is looking into the cache, none is in the handler. *)
Theorem C05_store_in_section : forall s0 progs sched t1 t2 th1 th2 ty1 m tk1 cd1 ro1 b1 l1 ty2 tk2 cd2 ro2 b2 l2,
  let c := cexec sched (cinit s0 progs) in
  nth_error (Interleave.threads sh ev loc res c) t1 = Some th1 ->
  nth_error (Interleave.threads sh ev loc res c) t2 = Some th2 -> t1 <> t2 ->
  Interleave.cur ev loc res th1 = Running (Req ty1 m tk1 cd1 ro1 b1) l1 -> (2 <= pc l1 <= 5)%nat ->
  Interleave.cur ev loc res th2 = Running (Req ty2 m tk2 cd2 ro2 b2) l2 ->
  (pc l2 <= 1 \/ 6 <= pc l2)%nat.
Proof. exact store_in_section. Qed.
Print Assumptions C05_store_in_section.

(* The place of the Unlock as a parameter of the thread ([UAfterStore]: the code, [UBeforeStore]: released when the
   handler has returned, the reply is stored afterwards).  The code's setting is the thread of part 2 ... *)
Theorem C05_unlock_after_store_is_the_code : forall o l s, act_u UAfterStore o l s = act o l s.
Proof. exact unlock_code. Qed.
Print Assumptions C05_unlock_after_store_is_the_code.

(* ... a copy that is processed alone performs Dedup.Model.step under both orders (why sequential processing -- the
   single read loop of every existing test -- does not notice) ... *)
Theorem C05_early_unlock_same_if_alone : forall u typ mid tok code ro b s,
  ~ In mid (held s) ->
  let o := Req typ mid tok code ro b in
  run_u u 7 o (init_loc o) s =
  Some ({| g := fst (step (g s) o); held := held s; acq := o :: acq s |}, (snd (step (g s) o), length (acq s))).
Proof. exact early_unlock_solo. Qed.
Print Assumptions C05_early_unlock_same_if_alone.

(* ... but with the early Unlock, from ANY state in which the message ID is free and has no valid reply, for EVERY
   request and handler behaviour: "first copy up to and including its Unlock; second copy completely; rest of the
   first copy" is an execution, and both copies run the handler.  With the code's order that schedule does not exist:
   the second copy cannot take the lock. *)
Theorem C05_early_unlock_reexecutes : forall typ mid tok code ro b s,
  ~ In mid (held s) -> req_lookup typ mid (cache (g s)) = None ->
  let o := Req typ mid tok code ro b in
  (exists r1 r2, unlock_window UBeforeStore o s = Some (r1, r2) /\
                 o_called (fst r1) = true /\ o_called (fst r2) = true /\ snd r1 <> snd r2) /\
  unlock_window UAfterStore o s = None.
Proof. exact early_unlock_reexecutes. Qed.
Print Assumptions C05_early_unlock_reexecutes.

(* The complete machine of Base/Interleave.v, two copies of CON GET mid 17185 answered 2.05, one schedule (thread 0
   five actions, thread 1 nine turns, thread 0 to the end, thread 1 to the end): (thread, handler called) of the
   returned calls in the order they returned. *)
Theorem C05_early_unlock_refuted :
  unlock_demo_calls UAfterStore = [(0%nat, true); (1%nat, false)] /\
  unlock_demo_calls UBeforeStore = [(1%nat, true); (0%nat, true)].
Proof. exact early_unlock_refuted. Qed.
Print Assumptions C05_early_unlock_refuted.

(* ================= part 3: sweeps in flight (Dedup/Sweep.v) ================= *)

(* The housekeeping sweep is not atomic: between "this element is expired" and its removal the reader loop processes
   requests -- a message ID used again after the lifetime stores its fresh reply under the key the sweep is about to
   remove.  [SDel k e] is the removal step of a sweep that examined element e under key k at some earlier time;
   [DCas same] removes as the code does: only if the key still holds the examined element ([same]: the pointer
   comparison) and that element is expired.  For EVERY [same], every state with unique keys (every reachable one),
   every interleaving l of events and removal steps and every continuation: all observations are those of the
   history without the removal steps.  Hence parts 1 and 2 hold with any number of sweeps in flight. *)
Theorem C05_sweep_unobservable : forall same s l rest,
  nodupk (cache s) -> ages_ok (evs_of l) -> ages_ok rest ->
  snd (srun (DCas same) s l) = snd (run s (evs_of l)) /\
  snd (run (fst (srun (DCas same) s l)) rest) = snd (run (final s (evs_of l)) rest).
Proof. exact sweep_unobservable. Qed.
Print Assumptions C05_sweep_unobservable.

Theorem C05_sweep_unobservable_reachable : forall same own0 pre l rest,
  ages_ok (evs_of l) -> ages_ok rest ->
  let s := final (init own0) pre in
  snd (srun (DCas same) s l) = snd (run s (evs_of l)) /\
  snd (run (fst (srun (DCas same) s l)) rest) = snd (run (final s (evs_of l)) rest).
Proof. exact sweep_unobservable_reachable. Qed.
Print Assumptions C05_sweep_unobservable_reachable.

(* The property itself with sweeps in flight. *)
Theorem C05_once_same_reply_sweeps : forall same s typ mid tok code ro b s1 o1 l typ2 tok2 code2 ro2 b2,
  nodupk (cache s) ->
  step s (Req typ mid tok code ro b) = (s1, o1) ->
  is_cacheable_typ typ = true -> o_called o1 = true -> (typ = CON \/ o_out o1 <> []) ->
  ages_ok (evs_of l) -> total_age (evs_of l) <= LIFETIME ->
  is_cacheable_typ typ2 = true ->
  let o2 := snd (step (fst (srun (DCas same) s1 l)) (Req typ2 mid tok2 code2 ro2 b2)) in
  o_called o2 = false /\
  exists r1 r2, o_out o1 = [r1] /\ o_out o2 = [r2] /\ same_content r2 r1 /\ w_mid r2 = mid /\
                w_typ r2 = (if typ2 =? CON then ACK else NON).
Proof. exact dedup_once_sweeps. Qed.
Print Assumptions C05_once_same_reply_sweeps.

(* Removal by key ([DKey]: LoadAndDelete) instead: a request that re-uses the ID between examination and removal
   loses its reply -- from ANY state in which the ID has no valid reply, the next copy is handled again ... *)
Theorem C05_key_delete_reexecutes : forall s typ mid tok code ro b e tok2 code2 ro2 b2,
  is_cacheable_typ typ = true ->
  req_lookup typ mid (cache s) = None ->
  forall s1 os, srun DKey s [SEv (Req typ mid tok code ro b); SDel mid e; SEv (Req typ mid tok2 code2 ro2 b2)] = (s1, os) ->
  map o_called os = [true; true].
Proof. exact key_delete_reexecutes. Qed.
Print Assumptions C05_key_delete_reexecutes.

(* ... and a complete execution in which the removal step is justified by a real examination ([examined_ok]): first
   use of ID 9029 + copy, 248 s, the sweep sees the expired reply, the ID is used again, the sweep removes, copies of
   the second use at once / after 246 s.  The code calls the handler for the two uses only. *)
Theorem C05_key_delete_refuted :
  examined_ok DKey (init 4096) [] demo_items = true /\
  calls (DCas entry_same) = [true; false; false; true; false; false; false] /\
  calls (DCas (fun _ _ => true)) = [true; false; false; true; false; false; false] /\
  calls DKey = [true; false; false; true; true; false; false].
Proof. exact key_delete_refuted. Qed.
Print Assumptions C05_key_delete_refuted.

(* non-vacuity: a NON request answered 2.05, the same request again 246 s later (not re-executed,
   same reply, retargeted), and again after a further 2 s (fresh) *)
Example C05_instance :
  let r := Req NON 77 [170; 187] 1 [] (BResp 69 [] [1; 2; 3]) in
  map o_called (snd (run (init 4096) [r; Age 246000; r; Age 2000; r])) = [true; false; false; false; true].
Proof. vm_compute. reflexivity. Qed.

(* non-vacuity of part 1 on the new paths: a confirmable request with a separate response (bare ACK, the
   application sends the response later), a Reset reply, a replaced message with the Empty code -- each followed
   by a copy that is not handled again *)
Example C05_instance_paths :
  map o_called (snd (run (init 4096) [Req CON 7 [1] 1 [] BNone; Send NON [1] 69 [] [9]; Req CON 7 [1] 1 [] BNone;
                                       Req NON 8 [2] 1 [] BRst; Req NON 8 [2] 1 [] BRst;
                                       Req CON 9 [3] 1 [] (BMsg 0 [4] [] []); Drop CON 9; Ping 9; Req CON 9 [3] 1 [] (BMsg 0 [4] [] [])]))
  = [true; false; false; true; false; true; false; false; false].
Proof. vm_compute. reflexivity. Qed.

(* non-vacuity of part 2: three copies of a NON request (ID 77) and two copies of a CON request (ID 78) as five
   threads; the schedule lets thread 0 run up to the handler, then threads 1-4 up to their Lock (1, 2 blocked
   behind thread 0; 3 takes the lock of 78, 4 blocked), then everything to the end.  Five calls return; exactly
   the first holder of each lock ran the handler *)
Example C05_instance_threads :
  let a := Req NON 77 [170] 1 [] (BResp 69 [] [1; 2]) in
  let b := Req CON 78 [187] 1 [] BNone in
  let sched := [0; 0; 0; 0; 0; 1; 1; 1; 1; 2; 2; 2; 3; 3; 3; 3; 4; 4; 4; 4]%nat ++ concat (repeat [0; 1; 2; 3; 4]%nat 12) in
  let c := cexec sched (cinit (init 4096) [[a]; [a]; [a]; [b]; [b]]) in
  map (fun e => match e with ERes t _ _ (ob, p) => Some (t, o_called ob, p) | _ => None end)
      (filter (fun e => match e with ERes _ _ _ _ => true | _ => false end) (rhist c))
  = [Some (2, false, 4); Some (4, false, 3); Some (1, false, 2); Some (3, true, 1); Some (0, true, 0)]%nat.
Proof. vm_compute. reflexivity. Qed.
