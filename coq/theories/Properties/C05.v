(* C05 -- Datagram duplicates never re-execute a handler (MID de-duplication).
   Statements only; proofs in Dedup/Proofs.v.  The model (Dedup/Model.v) is the
   request path of udp/client.Conn; one [step] is one critical section of the
   per-message-ID mutex, so quantifying over all histories also quantifies over
   all orders in which concurrently processed copies enter that section. *)
From Coq Require Import ZArith List Bool.
From GoCoap Require Import Base.Bytes NoResp.Model Dedup.Model Dedup.Proofs.
Import ListNotations.
Open Scope Z_scope.

(* A first copy (handler ran) of a confirmable request, or of a non-confirmable one that got a
   reply, followed by ANY history lasting at most the exchange lifetime, then another copy with the
   same message ID: the handler is not called again and the copy is answered with one datagram of
   the same code, token, options and payload as the first reply, carrying the copy's message ID. *)
Theorem C05_once_same_reply : forall s typ mid tok code ro b s1 o1 evs typ2 tok2 code2 ro2 b2,
  step s (Req typ mid tok code ro b) = (s1, o1) ->
  is_cacheable_typ typ = true -> o_called o1 = true -> (typ = CON \/ o_out o1 <> []) ->
  ages_ok evs -> total_age evs <= LIFETIME ->
  is_cacheable_typ typ2 = true ->
  let o2 := snd (step (final s1 evs) (Req typ2 mid tok2 code2 ro2 b2)) in
  o_called o2 = false /\
  exists r1 r2, o_out o1 = [r1] /\ o_out o2 = [r2] /\ same_content r2 r1 /\ w_mid r2 = mid /\
                w_typ r2 = (if typ2 =? CON then ACK else NON).
Proof. exact dedup_once. Qed.
Print Assumptions C05_once_same_reply.

(* Once more than the lifetime has passed without a copy, the ID is fresh: the handler runs.
   Holds from every reachable state (any prefix history [pre]). *)
Theorem C05_fresh_after_lifetime : forall own0 pre evs typ mid tok code ro b,
  ages_ok pre -> ages_ok evs ->
  (forall e, In e evs -> is_req_on mid e = false) ->
  LIFETIME < total_age evs ->
  o_called (snd (step (final (final (init own0) pre) evs) (Req typ mid tok code ro b))) = true.
Proof. exact dedup_fresh_after_lifetime. Qed.
Print Assumptions C05_fresh_after_lifetime.

(* every copy is either handled or answered with exactly one datagram matched to its ID *)
Theorem C05_hit_or_handled : forall s typ mid tok code ro b,
  let o := snd (step s (Req typ mid tok code ro b)) in
  o_called o = true \/ (o_called o = false /\ exists r, o_out o = [r] /\ w_mid r = mid).
Proof. exact dedup_hit_or_handled. Qed.
Print Assumptions C05_hit_or_handled.

(* the connection's own message-ID counter is kept at distance >= 0xffff/4 from a confirmable peer ID *)
Theorem C05_own_mid_kept_away : forall mid own, 0 <= own ->
  let own' := check_my_mid 4 mid own in 16383 <= u16 (u16 mid - u16 own').
Proof. exact own_mid_kept_away. Qed.
Print Assumptions C05_own_mid_kept_away.

(* non-vacuity: a NON request answered 2.05, the same request again 246 s later (not re-executed,
   same reply, retargeted), and again after a further 2 s (fresh) *)
Example C05_instance :
  let r := Req NON 77 [170; 187] 1 [] (BResp 69 [] [1; 2; 3]) in
  map o_called (snd (run (init 4096) [r; Age 246000; r; Age 2000; r])) = [true; false; false; false; true].
Proof. vm_compute. reflexivity. Qed.
