(* C01 -- Wire codecs are exact inverses on every well-formed message (UDP and TCP).
   Statements only; proofs are in Codec/ProofsOpt.v and Codec/ProofsC01.v.
   Models: Codec/Options.v, Udp.v, Tcp.v (transcriptions of the Go code, over
   the constants and option tables regenerated from the source into Gen/).
   Spec: Codec/Spec.v (preconditions wf_udp / wf_tcp and the RFC encodings
   spec_udp_bytes / spec_tcp_bytes, written from RFC 7252 / RFC 8323). *)
From Coq Require Import ZArith List Bool.
From GoCoap Require Import Base.Bytes Gen.OptionDefs Gen.TcpConsts
     Codec.Options Codec.Udp Codec.Tcp Codec.Pool Codec.Spec Codec.SpecCode Codec.ProofsOpt Codec.ProofsC01 Codec.ProofsC02 Codec.ProofsC01Stream Codec.ProofsC01Code.
Import ListNotations.
Open Scope Z_scope.

(* The generated option-definition tables are the RFC registries (an edit of
   message.CoapOptionDefs or of the signal tables breaks these). *)
Theorem C01_option_table_is_registry :
  strip CoapOptionDefs = rfc_coap_registry /\ forall code, strip (defs_for_code code) = rfc_registry_for_code code.
Proof. exact (conj coap_defs_are_rfc signal_defs_are_rfc). Qed.
Print Assumptions C01_option_table_is_registry.

(* Option delta/length nibble + extension: extendOpt / marshalOptionHeaderExt
   write the RFC form, and parseExtOpt inverts it, for each of the three classes
   0-12, 13-268, 269-65804 (nib_ok v is 0 <= v <= 65804). *)
Theorem C01_option_ext_inverse : forall v tail, nib_ok v ->
  fst (extend_opt v) = fst (spec_nib v) /\
  (forall a, blen (snd (spec_nib v)) <= a ->
     hdr_ext_into (Some a) (fst (extend_opt v)) (snd (extend_opt v)) = (blen (snd (spec_nib v)), false, snd (spec_nib v))) /\
  parse_ext (snd (spec_nib v) ++ tail) (fst (spec_nib v)) = Ok (blen (snd (spec_nib v)), v).
Proof.
  intros v tail Hv. split; [exact (proj1 (extend_opt_spec v Hv))|]. split.
  - intros a Ha. apply hdr_ext_fits; [exact Hv|exact Ha].
  - apply parse_ext_spec; [exact Hv|apply spec_nib_bytes_ok; exact Hv].
Qed.
Print Assumptions C01_option_ext_inverse.

(* Options.Marshal: the nil-buffer pass returns the length of the RFC encoding,
   the write pass writes exactly that encoding. *)
Theorem C01_options_two_pass : forall os a, opts_ok 0 os ->
  (exists X, options_into None os = (blen (spec_options 0 os), true, X)) /\
  (blen (spec_options 0 os) <= a -> options_into (Some a) os = (blen (spec_options 0 os), false, spec_options 0 os)).
Proof. intros os a H. split; [apply options_into_size; exact H|intros Ha; apply options_into_write; assumption]. Qed.
Print Assumptions C01_options_two_pass.

(* Options.Unmarshal (marshal opts ++ rest), rest empty or a payload marker + payload:
   all options come back and exactly the option bytes (+ marker) are consumed; when the
   destination capacity is too small the answer is ErrOptionsTooSmall, nothing else. *)
Theorem C01_options_roundtrip : forall defs os fuel prev processed len cap acc rest,
  opts_dec_ok defs prev os -> rest_ok rest -> (length os < fuel)%nat -> len <= cap ->
  unmarshal_opts fuel defs (spec_options prev os ++ rest) prev processed len cap acc =
    if len + blen os <=? cap
    then Ok (processed + blen (spec_options prev os) + rest_len rest, acc ++ os)
    else Err EOptCap.
Proof. exact unmarshal_spec_options. Qed.
Print Assumptions C01_options_roundtrip.

(* Datagram coder, every well-formed message: Size is the length of the bytes
   Encode writes, these are the RFC 7252 encoding, the rest of the buffer is
   untouched, and Decode returns the same message consuming all of them. *)
Theorem C01_udp_roundtrip : forall m cap buf, wf_udp m = true -> blen (m_opts m) <= cap ->
  let bs := spec_udp_bytes m in
  udp_size m = Ok (blen bs) /\
  (blen bs <= blen buf -> udp_encode_into m buf = EOk (blen bs) (bs ++ skipn (length bs) buf)) /\
  udp_decode cap bs = Ok (m, blen bs).
Proof.
  intros m cap buf Hwf Hcap bs. subst bs. split; [apply udp_size_spec; exact Hwf|]. split.
  - intros Hfit. apply (udp_encode_spec m buf Hwf Hfit).
  - apply udp_decode_spec; assumption.
Qed.
Print Assumptions C01_udp_roundtrip.

(* Stream coder: the same, plus the header pre-parse (DecodeHeader) reports the
   header length, the total frame length, the code and the token. *)
Theorem C01_tcp_roundtrip : forall m cap buf, wf_tcp messageMaxLen m = true -> blen (m_opts m) <= cap ->
  let bs := spec_tcp_bytes m in
  tcp_size m = Ok (blen bs) /\
  (blen bs <= blen buf -> tcp_encode_into m buf = EOk (blen bs) (bs ++ skipn (length bs) buf)) /\
  tcp_decode_header bs = Ok {| h_len := blen bs - blen (spec_body m); h_mlen := blen bs; h_code := m_code m; h_tok := m_tok m |} /\
  tcp_decode cap bs = Ok (tcp_view m, blen bs).
Proof.
  intros m cap buf Hwf Hcap bs. subst bs. split; [apply tcp_size_spec; exact Hwf|]. split; [|split].
  - intros Hfit. rewrite (tcp_encode_cases m buf Hwf).
    replace (blen buf <? blen (spec_tcp_bytes m)) with false by (symmetry; apply Z.ltb_ge; exact Hfit). reflexivity.
  - rewrite (tcp_header_spec m Hwf). rewrite spec_tcp_eq, blen_app.
    replace (blen (spec_tcp_hdr m) + blen (spec_body m) - blen (spec_body m)) with (blen (spec_tcp_hdr m)) by apply Zplus_minus_eq, Z.add_comm.
    reflexivity.
  - apply tcp_decode_spec; assumption.
Qed.
Print Assumptions C01_tcp_roundtrip.

(* Stream coder, "consumes exactly the bytes produced": when the buffer goes on after the
   frame (the next frames of the TCP stream, a partial frame, ANY bytes [rest]), Decode still
   returns the same message and the number of bytes the encoder produced for it -- nothing
   behind the frame is read or counted -- and DecodeHeader reports the same frame.
   (The code casts len(data) to uint32, hence the bound on the buffer length.) *)
Theorem C01_tcp_stream_roundtrip : forall m cap rest, wf_tcp messageMaxLen m = true -> blen (m_opts m) <= cap ->
  blen (spec_tcp_bytes m) + blen rest < 4294967296 ->
  let bs := spec_tcp_bytes m in
  tcp_decode cap (bs ++ rest) = Ok (tcp_view m, blen bs) /\
  tcp_decode_header (bs ++ rest) = Ok {| h_len := blen bs - blen (spec_body m); h_mlen := blen bs; h_code := m_code m; h_tok := m_tok m |}.
Proof.
  intros m cap rest Hwf Hcap Hlen bs. subst bs. split; [apply tcp_decode_stream_spec; assumption|].
  rewrite spec_tcp_eq, <- app_assoc, (tcp_header_tail m _ Hwf), blen_app.
  replace (blen (spec_tcp_hdr m) + blen (spec_body m) - blen (spec_body m)) with (blen (spec_tcp_hdr m)) by apply Zplus_minus_eq, Z.add_comm.
  reflexivity.
Qed.
Print Assumptions C01_tcp_stream_roundtrip.

(* Every list of well-formed messages, encoded back to back into one stream buffer, is taken
   apart again by the loop "Decode at the front, advance by the returned count" (tcp_frames):
   each message comes back with exactly its own encoded length and the buffer is used up.
   When the last frame is there only in part (header complete, body not), all complete
   frames are returned and the partial one is answered ErrShortRead and left in place. *)
Theorem C01_tcp_frames : forall ms cap, msgs_ok cap ms -> blen (stream_bytes ms) < 4294967296 ->
  tcp_frames (S (length ms)) cap (stream_bytes ms) = (map frame_result ms, SEnd, []) /\
  (forall m tail, wf_tcp messageMaxLen m = true -> blen tail < blen (spec_body m) ->
     blen (stream_bytes ms) + blen (spec_tcp_hdr m ++ tail) < 4294967296 ->
     tcp_frames (S (length ms)) cap (stream_bytes ms ++ spec_tcp_hdr m ++ tail) =
       (map frame_result ms, SErr EShortRead, spec_tcp_hdr m ++ tail)).
Proof.
  intros ms cap Hok Hlen. split; [apply tcp_frames_spec; assumption|].
  intros m tail Hwf Hlt Hl. apply tcp_frames_partial; assumption.
Qed.
Print Assumptions C01_tcp_frames.

(* Option values are carried verbatim by both decoders: nothing is normalised.  In particular
   a uint-format option (Observe, Uri-Port, Content-Format, Max-Age, Accept, Block1/2,
   Size1/2, No-Response; the signalling options) whose registry-legal value starts with
   0x00 bytes comes back with them, and the bytes after it are parsed from the right place
   (the consumed count is the encoded length).  wf_udp / wf_tcp constrain only the LENGTH
   of a registry option's value, so such messages are inside the preconditions. *)
Theorem C01_values_verbatim : forall m cap m' n,
  (wf_udp m = true -> blen (m_opts m) <= cap -> udp_decode cap (spec_udp_bytes m) = Ok (m', n) ->
     m_opts m' = m_opts m /\ n = blen (spec_udp_bytes m)) /\
  (forall rest, wf_tcp messageMaxLen m = true -> blen (m_opts m) <= cap -> blen (spec_tcp_bytes m) + blen rest < 4294967296 ->
     tcp_decode cap (spec_tcp_bytes m ++ rest) = Ok (m', n) -> m_opts m' = m_opts m /\ n = blen (spec_tcp_bytes m)).
Proof.
  intros m cap m' n. split.
  - intros Hwf Hcap H. exact (udp_values_verbatim m cap m' n Hwf Hcap H).
  - intros rest Hwf Hcap Hl H. exact (tcp_values_verbatim m cap rest m' n Hwf Hcap Hl H).
Qed.
Print Assumptions C01_values_verbatim.

(* "every code byte", datagram framing (round 3).  Datagram framing has ONE option registry
   (RFC 7252 section 5.10 / 12.2); the option number spaces RFC 8323 section 5 gives to the
   signalling codes 7.01-7.05 exist in stream framing only.  So the datagram preconditions
   do not depend on the code: a well-formed message stays well-formed with every code byte
   c -- 225..229 included --, its encoding differs in that one byte only ([put_code]: offset 1),
   and Decode (direct, and pooled from any initial option capacity) of the encoding with
   that byte set to c returns the message with code c: all options, judged by the CoAP
   registry alone (a 4-byte ETag or a long option 2 survive under code 7.01), all bytes consumed. *)
Theorem C01_udp_every_code : forall m cap c, wf_udp m = true -> blen (m_opts m) <= cap -> 0 <= c <= 255 ->
  wf_udp (with_code m c) = true /\
  spec_udp_bytes (with_code m c) = put_code (spec_udp_bytes m) c /\
  udp_decode cap (put_code (spec_udp_bytes m) c) = Ok (with_code m c, blen (spec_udp_bytes m)) /\
  (forall cap0, 0 <= cap0 -> exists fc,
     pool_decode (pool_fuel (put_code (spec_udp_bytes m) c)) udp_decode cap0 (put_code (spec_udp_bytes m) c) =
       Ok (with_code m c, blen (spec_udp_bytes m), fc)).
Proof.
  intros m cap c Hwf Hcap Hc. split; [apply wf_udp_with_code; assumption|]. split; [apply spec_udp_with_code|].
  split; [apply udp_decode_any_code; assumption|].
  intros cap0 Hc0. rewrite <- spec_udp_with_code, <- (spec_udp_with_code_len m c).
  apply udp_pool_roundtrip; [apply wf_udp_with_code; assumption|exact Hc0].
Qed.
Print Assumptions C01_udp_every_code.

(* The datagram decoder does not look at the Code field at all: on EVERY byte string
   (malformed ones included) overwriting that byte changes nothing but the code of the
   result -- same options kept and dropped, same payload, same count, same error.  In
   particular it cannot select an option table by code. *)
Theorem C01_udp_decode_ignores_code : forall cap data c,
  udp_decode cap (put_code data c) =
    match udp_decode cap data with
    | Ok (m, n) => Ok (with_code m c, n)
    | Err e => Err e
    | Panic => Panic
    | Fuel => Fuel
    end.
Proof. exact udp_decode_put_code. Qed.
Print Assumptions C01_udp_decode_ignores_code.

(* Pooled path: MarshalWithEncoder returns exactly the encoding, and UnmarshalWithDecoder
   (copy + capacity-retry loop, from ANY initial option capacity >= 0) gives the message
   back, consuming all bytes. *)
Theorem C01_pool_roundtrip : forall m buflen cap, 0 <= cap ->
  (wf_udp m = true ->
     pool_marshal udp_size udp_encode_into buflen m = Ok (spec_udp_bytes m) /\
     exists c, pool_decode (pool_fuel (spec_udp_bytes m)) udp_decode cap (spec_udp_bytes m) = Ok (m, blen (spec_udp_bytes m), c)) /\
  (wf_tcp messageMaxLen m = true ->
     pool_marshal tcp_size tcp_encode_into buflen m = Ok (spec_tcp_bytes m) /\
     exists c, pool_decode (pool_fuel (spec_tcp_bytes m)) tcp_decode cap (spec_tcp_bytes m) = Ok (tcp_view m, blen (spec_tcp_bytes m), c)).
Proof.
  intros m buflen cap Hc. split; intros Hwf.
  - split; [apply pool_marshal_udp; exact Hwf|apply udp_pool_roundtrip; assumption].
  - split; [apply pool_marshal_tcp; exact Hwf|apply tcp_pool_roundtrip; assumption].
Qed.
Print Assumptions C01_pool_roundtrip.

(* The size reported in advance equals the number of bytes the encoder writes. *)
Theorem C01_size_is_length : forall m buf n k out,
  (wf_udp m = true -> udp_size m = Ok n -> udp_encode_into m buf = EOk k out -> k = n /\ firstn (Z.to_nat n) out = spec_udp_bytes m /\ n = blen (spec_udp_bytes m)) /\
  (wf_tcp messageMaxLen m = true -> tcp_size m = Ok n -> tcp_encode_into m buf = EOk k out -> k = n /\ firstn (Z.to_nat n) out = spec_tcp_bytes m /\ n = blen (spec_tcp_bytes m)).
Proof.
  intros m buf n k out. split; intros Hwf Hs He.
  - rewrite (udp_size_spec m Hwf) in Hs. injection Hs as <-.
    destruct (Z.ltb_spec (blen buf) (blen (spec_udp_bytes m))) as [Hlt|Hge].
    + rewrite (udp_encode_small m buf Hwf Hlt) in He. discriminate.
    + rewrite (udp_encode_spec m buf Hwf Hge) in He. injection He as <- <-. split; [reflexivity|]. split; [|reflexivity].
      unfold overwrite. rewrite to_nat_blen, firstn_app, firstn_all, Nat.sub_diag. cbn [firstn]. apply app_nil_r.
  - rewrite (tcp_size_spec m Hwf) in Hs. injection Hs as <-.
    rewrite (tcp_encode_cases m buf Hwf) in He.
    destruct (blen buf <? blen (spec_tcp_bytes m)); [discriminate|]. injection He as <- <-. split; [reflexivity|]. split; [|reflexivity].
    unfold overwrite. rewrite to_nat_blen, firstn_app, firstn_all, Nat.sub_diag. cbn [firstn]. apply app_nil_r.
Qed.
Print Assumptions C01_size_is_length.

(* Encoding into a too-small buffer fails by reporting that same size, and the
   buffer comes back unchanged (nothing was written, inside or beyond it). *)
Theorem C01_small_buffer : forall m buf n,
  (wf_udp m = true -> udp_size m = Ok n -> blen buf < n -> udp_encode_into m buf = ESmall n buf) /\
  (wf_tcp messageMaxLen m = true -> tcp_size m = Ok n -> blen buf < n -> tcp_encode_into m buf = ESmall n buf).
Proof.
  intros m buf n. split; intros Hwf Hs Hlt.
  - rewrite (udp_size_spec m Hwf) in Hs. injection Hs as <-. apply udp_encode_small; assumption.
  - rewrite (tcp_size_spec m Hwf) in Hs. injection Hs as <-. rewrite (tcp_encode_cases m buf Hwf).
    replace (blen buf <? blen (spec_tcp_bytes m)) with true by (symmetry; apply Z.ltb_lt; exact Hlt). reflexivity.
Qed.
Print Assumptions C01_small_buffer.

(* Refusal outside the preconditions.  Full statement of the property:
     blen (m_tok m) > 8 \/ m_mid m < 0 \/ m_mid m > 65535 \/ m_typ m < 0 \/ m_typ m > 3
       -> exists e, udp_encode_into m buf = EErr e
   It is FALSE of the code for types 4..255 (finding F9, C01_type_truncation_refuted
   below; kept as a known finding because an existing test requires Encode(Type: 255)
   to succeed).  Proved: the statement with the type bound the code enforces. *)
Theorem C01_refuses_partial : forall m buf,
  (blen (m_tok m) > 8 \/ m_mid m < 0 \/ m_mid m > 65535 \/ m_typ m < 0 \/ m_typ m > 255 ->
     exists e, udp_encode_into m buf = EErr e) /\
  (blen (m_tok m) > 8 -> tcp_encode_into m buf = EErr ETokenLen).
Proof. intros m buf. split; [apply udp_refuses|apply tcp_refuses]. Qed.
Print Assumptions C01_refuses_partial.

Theorem C01_type_truncation_refuted :
  exists m bs m' n, 4 <= m_typ m <= 255 /\
    udp_encode_into m (repeat 0 (Z.to_nat 9)) = EOk 9 bs /\ udp_decode 0 bs = Ok (m', n) /\ m_typ m' <> m_typ m.
Proof. exact type_truncation_refuted. Qed.
Print Assumptions C01_type_truncation_refuted.

(* non-vacuity: a well-formed message with a two-byte extended delta, one-byte and
   two-byte extended lengths, a repeated option, a registry option and a payload *)
Example C01_wf_inhabited :
  let m := {| m_tok := [1; 2; 3; 4; 5; 6; 7; 8]; m_code := 69;
              m_opts := [(11, [97; 98]); (11, gen_body 3 20); (300, gen_body 5 300); (65535, [])];
              m_pay := [1; 2; 3]; m_mid := 65535; m_typ := 3 |} in
  wf_udp m = true /\ wf_tcp messageMaxLen m = true /\ udp_decode 4 (spec_udp_bytes m) = Ok (m, 349).
Proof. vm_compute. repeat split. Qed.

(* non-vacuity of the two statements above: uint options with leading zero bytes
   (Observe 00 00 07, Content-Format 00 32, Max-Age 3c, Block2 00) are inside the
   preconditions and come back unchanged from both coders; two frames back to back
   followed by the first 3 bytes of a third are taken apart as stated *)
Example C01_leading_zero_and_stream_inhabited :
  let m := {| m_tok := [9]; m_code := 69;
              m_opts := [(6, [0; 0; 7]); (12, [0; 50]); (14, [60]); (23, [0])];
              m_pay := [1; 2]; m_mid := 7; m_typ := 2 |} in
  let m2 := {| m_tok := []; m_code := 1; m_opts := [(11, [97])]; m_pay := []; m_mid := 0; m_typ := 0 |} in
  wf_udp m = true /\ wf_tcp messageMaxLen m = true /\
  udp_decode 4 (spec_udp_bytes m) = Ok (m, blen (spec_udp_bytes m)) /\
  tcp_decode 4 (spec_tcp_bytes m ++ spec_tcp_bytes m2) = Ok (tcp_view m, 18) /\
  msgs_ok 4 [m; m2] /\
  tcp_frames 3 4 (stream_bytes [m; m2] ++ firstn 3 (spec_tcp_bytes m)) =
    ([(tcp_view m, 18); (tcp_view m2, 4)], SErr EShortRead, firstn 3 (spec_tcp_bytes m)).
Proof. vm_compute. repeat split; intro; discriminate. Qed.

(* non-vacuity of C01_udp_every_code, and the contrast with stream framing: option 2 with
   five bytes and a four-byte ETag are inside the datagram preconditions under code 7.01
   (225) and come back from the datagram decoder; the same message is OUTSIDE the stream
   preconditions (CSM: option 2 at most 4 bytes, option 4 empty), where the stream decoder
   drops both options *)
Example C01_signal_code_datagram_inhabited :
  let os := [(2, [1; 2; 3; 4; 5]); (4, [222; 173; 190; 239]); (11, [97])] in
  let m c os := {| m_tok := [7]; m_code := c; m_opts := os; m_pay := [1]; m_mid := 4711; m_typ := 1 |} in
  wf_udp (m 225 os) = true /\ wf_tcp messageMaxLen (m 225 os) = false /\ wf_tcp messageMaxLen (m 69 os) = true /\
  udp_decode 3 (put_code (spec_udp_bytes (m 69 os)) 225) = Ok (m 225 os, blen (spec_udp_bytes (m 69 os))) /\
  tcp_decode 3 (spec_tcp_bytes (m 225 os)) = Ok (tcp_view (m 225 [(11, [97])]), blen (spec_tcp_bytes (m 225 os))).
Proof. vm_compute. repeat split. Qed.
