(* C01 -- placeholder while the proofs are being built *)
From Coq Require Import ZArith Bool.
From GoCoap Require Import Codec.Options.
Open Scope Z_scope.
Theorem C01_placeholder : extend_opt 12 = (12, 0).
Proof. reflexivity. Qed.
Print Assumptions C01_placeholder.
