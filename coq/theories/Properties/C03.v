(* C03 -- every response reaches exactly the request that carries its token.

   The machine (Token/Model.v): any number of threads; a caller thread runs a
   list of [Call cid tok mode] (= doInternal: LoadOrStore; write; wait;
   deferred LoadAndDelete), a receive thread a list of [Deliver del r]
   (= handle: LoadAndDelete / Load; hijack + non-blocking send). [run hash
   progs sched] executes the schedule [sched] (a list of thread ids; every entry
   is one invocation, one critical section or one return). All theorems are for
   ALL programs (numbers of callers, tokens, response lists with any tokens,
   order and duplication, modes = outcome of the final select) and ALL
   schedules. [hash] is Token.Hash; the head theorems assume that it tells the
   tokens in play apart ([hash_inj_on]); without that the statement is false of
   the code (C03_own_token_refuted, finding F18). *)
From Coq Require Import ZArith List Bool Arith.
From GoCoap Require Import Base.Interleave Observe.Model Token.Model Token.Spec Token.Proofs
  Token.BwModel Token.BwSpec Token.BwProofs Token.WriterModel Token.WriterProofs
  Token.DedupModel Token.DedupSpec Token.DedupProofs
  Token.ReasmModel Token.ReasmProofs Token.RecycleModel Token.RecycleProofs
  Token.SourceModel Token.SourceSpec Token.SourceProofs.
Import ListNotations.
Local Open Scope nat_scope.

Notation hist c := (rhist st op loc res c).

(* ---- a successful call returns a response with its own token ... ---- *)
Theorem C03_own_token : forall hash progs sched,
  hash_inj_on hash (all_toks progs) ->
  forall t n cid tok m r,
    In (ERes t n (Call cid tok m) (ROk r)) (hist (run hash progs sched)) -> r_tok r = tok.
Proof. intros hash progs sched H. exact (own_token_holds hash progs sched H). Qed.
Print Assumptions C03_own_token.

(* ... and the content the peer produced for that request *)
Theorem C03_own_content : forall hash progs sched,
  hash_inj_on hash (all_toks progs) -> honest progs ->
  forall t n cid tok m r,
    In (ERes t n (Call cid tok m) (ROk r)) (hist (run hash progs sched)) -> r_for r = cid.
Proof. intros hash progs sched H1 H2. exact (own_content_holds hash progs sched H1 H2). Qed.
Print Assumptions C03_own_content.

(* without the hypothesis: own token up to Token.Hash, and what is returned was sent by the peer *)
Theorem C03_own_token_hash : forall hash progs sched t n cid tok m r,
  In (ERes t n (Call cid tok m) (ROk r)) (hist (run hash progs sched)) ->
  hash (r_tok r) = hash tok /\ (exists del, In (Deliver del r) (all_ops progs)).
Proof.
  intros hash progs sched t n cid tok m r H.
  destruct (own_token_hash hash progs sched t n cid tok m r H) as (H1 & H2 & _). split; assumption.
Qed.
Print Assumptions C03_own_token_hash.

(* ---- a response instance is returned by at most one call (never to two callers) ---- *)
Theorem C03_at_most_one : forall hash progs sched,
  NoDup (resp_ids progs) ->
  forall t n cid tok m r t' n' cid' tok' m' r',
    In (ERes t n (Call cid tok m) (ROk r)) (hist (run hash progs sched)) ->
    In (ERes t' n' (Call cid' tok' m') (ROk r')) (hist (run hash progs sched)) ->
    r_id r = r_id r' ->
    ERes t n (Call cid tok m) (ROk r) = ERes t' n' (Call cid' tok' m') (ROk r').
Proof. intros hash progs sched H. exact (at_most_one_holds hash progs sched H). Qed.
Print Assumptions C03_at_most_one.

(* ---- a request whose token('s key) is in the table is rejected and leaves the table as it is ---- *)
Theorem C03_dup_rejected : forall hash (c : Token.Model.config) t th cid tok m w,
  nth_error (threads st op loc res c) t = Some th ->
  cur op loc res th = Running (Call cid tok m) L0 ->
  tget (hash tok) (tbl (shared st op loc res c)) = Some w ->
  shared st op loc res (mstep hash c t) = shared st op loc res c /\
  nth_error (threads st op loc res (mstep hash c t)) t =
    Some (mkT op loc res (todo op loc res th) (Finished (Call cid tok m) RExists) (idx op loc res th)).
Proof. exact dup_rejected_step. Qed.
Print Assumptions C03_dup_rejected.

(* ... and a request is accepted only when the key is absent; it then owns the entry *)
Theorem C03_accepted_only_if_absent : forall hash cid tok m s l' s' d,
  act hash (Call cid tok m) L0 s = Some (l', s', d) -> d <> Some RExists ->
  tget (hash tok) (tbl s) = None /\ tget (hash tok) (tbl s') = Some (cid, tok).
Proof. exact accepted_act. Qed.
Print Assumptions C03_accepted_only_if_absent.

(* ... and a request is refused only because of a call with the very same token: given injective hashing on
   the tokens in play, the entry found by the refusing LoadOrStore belongs to a call of the programs whose
   token is the caller's token (distinct tokens are never treated as equal; without the hypothesis:
   C03_distinct_token_refused) *)
Theorem C03_refused_only_same_token : forall hash progs sched t th cid tok m w,
  hash_inj_on hash (all_toks progs) ->
  nth_error (threads st op loc res (run hash progs sched)) t = Some th ->
  cur op loc res th = Running (Call cid tok m) L0 ->
  tget (hash tok) (tbl (shared st op loc res (run hash progs sched))) = Some w ->
  snd w = tok /\ In w (calls progs).
Proof. intros hash progs sched t th cid tok m w H. exact (refused_same_token hash progs sched t th cid tok m w H). Qed.
Print Assumptions C03_refused_only_same_token.

(* ---- the deferred removal ----
   Full statement: "the deferred LoadAndDelete of a call never removes another call's entry".
   It is FALSE of the code for calls that use one token (C03_unregister_own_refuted);
   proved when the calls of the programs have pairwise different keys: *)
Theorem C03_unregister_own_partial : forall hash progs sched t th cid tok m x w,
  NoDup (map (fun p => hash (snd p)) (calls progs)) ->
  nth_error (threads st op loc res (run hash progs sched)) t = Some th ->
  cur op loc res th = Running (Call cid tok m) (LUnreg x) ->
  tget (hash tok) (tbl (shared st op loc res (run hash progs sched))) = Some w -> w = (cid, tok).
Proof. intros hash progs sched t th cid tok m x w H. exact (unregister_own_distinct hash progs sched t th cid tok m x w H). Qed.
Print Assumptions C03_unregister_own_partial.

Theorem C03_unregister_own_refuted :
  (let c := run crc64 steal_progs steal_prefix in
   nth_error (threads st op loc res c) 0 =
     Some (mkT op loc res [] (Running (Call 0 tokT MWait) (LUnreg (ROk (mkR 0 tokT 0)))) 0) /\
   tget (crc64 tokT) (tbl (shared st op loc res c)) = Some (1, tokT)) /\
  (let c := run crc64 steal_progs steal_sched in
   tbl (shared st op loc res c) = [] /\
   fall (shared st op loc res c) = [mkR 1 tokT 1] /\
   nth_error (threads st op loc res c) 1 = Some (mkT op loc res [] (Running (Call 1 tokT MWait) LWait) 0) /\
   enabled st op loc res (act crc64) c 1 = false /\
   (forall t, t <> 1 -> enabled st op loc res (act crc64) c t = false)).
Proof. exact unregister_own_refuted. Qed.
Print Assumptions C03_unregister_own_refuted.

(* ---- the hypothesis on the hash cannot be dropped (F18) ---- *)
Theorem C03_own_token_refuted :
  exists progs sched,
    NoDup (resp_ids progs) /\
    ~ (forall t n cid tok m r,
         In (ERes t n (Call cid tok m) (ROk r)) (hist (run crc64 progs sched)) -> r_tok r = tok).
Proof.
  exists collide_progs, collide_sched.
  destruct own_token_refuted as (H1 & _ & H3). split; [exact H1|exact H3].
Qed.
Print Assumptions C03_own_token_refuted.

Theorem C03_distinct_token_refused :
  crc64 tokA = crc64 tokB /\ tokA <> tokB /\
  In (ERes 1 0 (Call 1 tokB MWait) RExists) (hist (run crc64 collide_progs2 [0; 0; 0; 1; 1; 1])).
Proof. destruct crc_collision as [H1 H2]. split; [exact H1|]. split; [exact H2|exact distinct_token_refused]. Qed.
Print Assumptions C03_distinct_token_refused.

(* ---- all clauses together ---- *)
Theorem C03_holds : forall hash progs sched,
  hash_inj_on hash (all_toks progs) -> honest progs -> NoDup (resp_ids progs) ->
  own_token (hist (run hash progs sched)) /\
  own_content (hist (run hash progs sched)) /\
  at_most_one (hist (run hash progs sched)).
Proof.
  intros hash progs sched H1 H2 H3. split; [|split].
  - exact (own_token_holds hash progs sched H1).
  - exact (own_content_holds hash progs sched H1 H2).
  - exact (at_most_one_holds hash progs sched H3).
Qed.
Print Assumptions C03_holds.

(* ---- the hypotheses are satisfiable by a non-trivial instance: three callers (one of them
   re-uses a token after completion), responses out of order, one duplicated, one foreign;
   Token.Hash = CRC-64/ISO ---- *)
Definition ex_progs : list (list op) :=
  [[Call 0 [1; 2]%Z MWait; Call 3 [9]%Z MWait]; [Call 1 [3]%Z MCancel]; [Call 2 [4; 5; 6]%Z MWait];
   [Deliver true (mkR 0 [4; 5; 6]%Z 2); Deliver true (mkR 1 [1; 2]%Z 0); Deliver false (mkR 2 [1; 2]%Z 0);
    Deliver true (mkR 3 [8]%Z 99); Deliver true (mkR 4 [9]%Z 3)]].

Example C03_hypotheses_satisfiable :
  hash_inj_on crc64 (all_toks ex_progs) /\ honest ex_progs /\ NoDup (resp_ids ex_progs) /\
  length (hist (run crc64 ex_progs [0; 0; 0; 1; 1; 1; 2; 2; 2; 3; 3; 3; 3; 3; 3; 3; 3; 2; 2; 2; 0; 0; 0; 0])) = 10.
Proof.
  split; [|split; [|split]].
  - intros a b Ha Hb. cbn in Ha, Hb.
    repeat (destruct Ha as [<-|Ha]; [repeat (destruct Hb as [<-|Hb]; [vm_compute; intros E; first [reflexivity|discriminate E]|]); contradiction|]).
    contradiction.
  - intros del r Hr cid tok Hc E. cbn in Hr, Hc.
    repeat (destruct Hr as [Hr|Hr]; [try discriminate Hr; inversion Hr; subst; clear Hr;
      repeat (destruct Hc as [Hc|Hc]; [inversion Hc; subst; first [reflexivity|discriminate E]|]); contradiction|]).
    contradiction.
  - vm_compute. repeat constructor; cbn; intuition discriminate.
  - vm_compute. reflexivity.
Qed.

(* ================= the block-wise layer around the token table (Token/BwModel.v) =================
   [brun hash progs sched]: caller threads run lists of [BCall cid tok mode] (= BlockWise.Do: LoadOrStore on
   the sending cache, doInternal, deferred Delete installed after the check), receive threads lists of
   [BRecv del r blk] (= BlockWise.Handle for a whole response or for block (num, more) of one: paired
   request, reassembly, dispatch through the token table). ALL programs, ALL schedules. *)
Notation bhist c := (rhist bst bop bloc bres c).

(* ---- a successful Do returns a response with its own token and the content produced for it ---- *)
Theorem C03_bw_own_token : forall hash progs sched,
  hash_inj_on hash (ball_toks progs) ->
  forall t n cid tok m r,
    In (ERes t n (BCall cid tok m) (BRet (ROk r))) (bhist (brun hash progs sched)) -> r_tok r = tok.
Proof. intros hash progs sched H. exact (bw_own_token_holds hash progs sched H). Qed.
Print Assumptions C03_bw_own_token.

Theorem C03_bw_own_content : forall hash progs sched,
  hash_inj_on hash (ball_toks progs) -> bhonest progs ->
  forall t n cid tok m r,
    In (ERes t n (BCall cid tok m) (BRet (ROk r))) (bhist (brun hash progs sched)) -> r_for r = cid.
Proof. intros hash progs sched H1 H2. exact (bw_own_content_holds hash progs sched H1 H2). Qed.
Print Assumptions C03_bw_own_content.

(* ---- a second Do whose token('s key) is in the sending cache is rejected and leaves everything as it is ---- *)
Theorem C03_bw_dup_rejected : forall hash (c : bconfig) t th cid tok m w,
  nth_error (threads bst bop bloc bres c) t = Some th ->
  cur bop bloc bres th = Running (BCall cid tok m) B0 ->
  tget (hash tok) (sending (shared bst bop bloc bres c)) = Some w ->
  shared bst bop bloc bres (bstep hash c t) = shared bst bop bloc bres c /\
  nth_error (threads bst bop bloc bres (bstep hash c t)) t =
    Some (mkT bop bloc bres (todo bop bloc bres th) (Finished (BCall cid tok m) BInvalid) (idx bop bloc bres th)).
Proof. exact bw_dup_rejected_step. Qed.
Print Assumptions C03_bw_dup_rejected.

(* ---- ... rather than displacing the first: in every reachable configuration, every Do that has registered
   its request and not yet run its deferred Delete still finds ITS request in the sending cache (no hypothesis
   on the tokens or the hash: a Do with an equal key is refused for as long as the first one runs) ---- *)
Theorem C03_bw_first_not_displaced : forall hash progs sched, paired_kept hash (brun hash progs sched).
Proof. exact paired_kept_run. Qed.
Print Assumptions C03_bw_first_not_displaced.

(* ---- hence a block of the response for an outstanding Do is not refused for lack of the paired request:
   the receive path finds it, writes no 4.08 and goes on to the reassembly ---- *)
Theorem C03_bw_block_accepted : forall hash progs sched t th w t' th' del r num more,
  nth_error (threads bst bop bloc bres (brun hash progs sched)) t = Some th ->
  holds_request (cur bop bloc bres th) = Some w ->
  nth_error (threads bst bop bloc bres (brun hash progs sched)) t' = Some th' ->
  cur bop bloc bres th' = Running (BRecv del r (Some (num, more))) B0 ->
  hash (r_tok r) = hash (snd w) ->
  shared bst bop bloc bres (bstep hash (brun hash progs sched) t') = shared bst bop bloc bres (brun hash progs sched) /\
  nth_error (threads bst bop bloc bres (bstep hash (brun hash progs sched) t')) t' =
    Some (mkT bop bloc bres (todo bop bloc bres th') (Running (BRecv del r (Some (num, more))) BLook) (idx bop bloc bres th')).
Proof. intros hash progs sched. exact (block_not_refused hash progs sched). Qed.
Print Assumptions C03_bw_block_accepted.

(* ---- the position of the deferred Delete matters: installed BEFORE the register-if-absent check
   ([brun_early]) the refused second Do removes the request of the first, which is still waiting, and both
   blocks of its response are answered 4.08; on the machine of the code the same programs end with the first
   Do returning the response ---- *)
Theorem C03_bw_early_delete_refuted :
  (let c := brun_early crc64 displace_progs displace_sched in
   nth_error (threads bst bop bloc bres c) 0 =
     Some (mkT bop bloc bres [] (Running (BCall 0 tokD MWait) (BIn (Call 0 tokD MWait) LWait)) 0) /\
   In (ERes 1 0 (BCall 1 tokD MWait) BInvalid) (bhist c) /\
   sending (shared bst bop bloc bres c) = [] /\
   In (ERes 2 0 (BRecv true (mkR 1 tokD 0) (Some (0, true))) BIncomplete) (bhist c) /\
   In (ERes 2 1 (BRecv true (mkR 1 tokD 0) (Some (1, false))) BIncomplete) (bhist c)) /\
  (let c := brun crc64 displace_progs keep_sched in
   In (ERes 1 0 (BCall 1 tokD MWait) BInvalid) (bhist c) /\
   In (ERes 2 0 (BRecv true (mkR 1 tokD 0) (Some (0, true))) (BAsked 1)) (bhist c) /\
   In (ERes 0 0 (BCall 0 tokD MWait) (BRet (ROk (mkR 1 tokD 0)))) (bhist c) /\
   refused (shared bst bop bloc bres c) = [] /\ sending (shared bst bop bloc bres c) = []).
Proof. split; [exact early_delete_displaces|exact late_delete_keeps]. Qed.
Print Assumptions C03_bw_early_delete_refuted.

(* ================= the response-writer message on the receive path (Token/WriterModel.v) =================
   While it handles one received message the receive path releases the message it acquired for the writer,
   every message the handler put in its place (SetMessage: request for the next block, 4.08) and -- unless a
   waiting call was handed it -- the received message: each exactly once, whatever the handler does. A
   response handed to a caller is never released under it. *)
Theorem C03_writer_released_once : forall tcp orig req hijacked sets,
  NoDup (orig :: req :: sets) ->
  NoDup (process tcp orig req hijacked sets) /\
  (forall x, In x (process tcp orig req hijacked sets) <-> In x (orig :: sets) \/ (hijacked = false /\ x = req)).
Proof.
  intros tcp orig req hijacked sets H. split; [exact (process_once tcp orig req hijacked sets H)|].
  intros x. exact (process_perm tcp orig req hijacked sets x).
Qed.
Print Assumptions C03_writer_released_once.

Theorem C03_handed_over_response_not_released : forall tcp orig req sets,
  NoDup (orig :: req :: sets) -> ~ In req (process tcp orig req true sets).
Proof. exact hijacked_not_released. Qed.
Print Assumptions C03_handed_over_response_not_released.

(* with the release of the acquired message deferred before the handler runs, one SetMessage is enough:
   that message is released twice and the replacement never *)
Theorem C03_writer_early_release_refuted : forall orig req hijacked m sets,
  NoDup (orig :: req :: m :: sets) ->
  ~ NoDup (process_early orig req hijacked (m :: sets)) /\
  ~ In (wcur (run_handler orig (m :: sets))) (process_early orig req hijacked (m :: sets)).
Proof. exact early_release_refuted. Qed.
Print Assumptions C03_writer_early_release_refuted.

(* ---- the hypotheses are satisfiable by a non-trivial instance: three Do (one gives up), a response in
   two blocks with a whole response for another call in between, one block of a response nobody waits for
   (answered 4.08); the same-token instance is the one of C03_bw_early_delete_refuted ---- *)
Definition bex_progs : list (list bop) :=
  [[BCall 0 [113]%Z MWait]; [BCall 1 [5]%Z MCancel]; [BCall 2 [7; 7]%Z MWait];
   [BRecv true (mkR 1 [113]%Z 0) (Some (0, true)); BRecv true (mkR 2 [7; 7]%Z 2) None;
    BRecv true (mkR 1 [113]%Z 0) (Some (1, false)); BRecv false (mkR 3 [9]%Z 99) (Some (0, true))]].
Definition bex_sched : list nat :=
  [0; 0; 0; 0; 1; 1; 1; 1; 2; 2; 2; 2; 3; 3; 3; 3; 3; 3; 3; 3; 3; 3; 3; 3; 3; 3; 3; 3; 3; 3; 3;
   0; 0; 0; 0; 2; 2; 2; 2; 1; 1; 1; 1].

Example C03_bw_hypotheses_satisfiable :
  hash_inj_on crc64 (ball_toks bex_progs) /\ bhonest bex_progs /\
  (let c := brun crc64 bex_progs bex_sched in
   length (bhist c) = 14 /\
   In (ERes 0 0 (BCall 0 [113]%Z MWait) (BRet (ROk (mkR 1 [113]%Z 0)))) (bhist c) /\
   In (ERes 2 0 (BCall 2 [7; 7]%Z MWait) (BRet (ROk (mkR 2 [7; 7]%Z 2)))) (bhist c) /\
   In (ERes 1 0 (BCall 1 [5]%Z MCancel) (BRet RCtx)) (bhist c) /\
   refused (shared bst bop bloc bres c) = [mkR 3 [9]%Z 99]).
Proof.
  split; [|split].
  - intros a b Ha Hb. cbn in Ha, Hb.
    repeat (destruct Ha as [<-|Ha]; [repeat (destruct Hb as [<-|Hb]; [vm_compute; intros E; first [reflexivity|discriminate E]|]); contradiction|]).
    contradiction.
  - intros del r blk Hr cid tok Hc E. cbn in Hr, Hc.
    repeat (destruct Hr as [Hr|Hr]; [try discriminate Hr; inversion Hr; subst; clear Hr;
      repeat (destruct Hc as [Hc|Hc]; [inversion Hc; subst; first [reflexivity|discriminate E]|]); contradiction|]).
    contradiction.
  - vm_compute. repeat split; auto 20.
Qed.

(* ================= retransmitted responses and the message-ID layer (Token/DedupModel.v) =================
   On a datagram connection handleReq stands in front of the token table: the peer's CON / NON messages are
   serialised per message ID, looked up in the response cache (found: the cached reply is sent again, the message is
   not handled), otherwise handled (= the receive program of Token/Model.v) and a confirmable message nobody
   answered is acknowledged, the acknowledgement cached under its message ID. [drun hash progs sched]: any number
   of caller threads ([DCall], any tokens, re-used or not), any number of receive threads ([DRecv del m]: any type,
   message ID, response; copies), cache expirations ([DExpire mid]); all schedules. *)
Notation dhist c := (rhist dst dop dloc dres c).

(* a successful call returns a response with its own token *)
Theorem C03_dedup_own_token : forall hash progs sched,
  hash_inj_on hash (dall_toks progs) ->
  forall t n cid tok m r,
    In (ERes t n (DCall cid tok m) (DRet (ROk r))) (dhist (drun hash progs sched)) -> r_tok r = tok.
Proof. intros hash progs sched H. exact (d_own_token_holds hash progs sched H). Qed.
Print Assumptions C03_dedup_own_token.

(* "A response is never delivered ... to two callers", for a response the peer retransmits: if every copy of
   response instance i is a confirmable message with message ID x and no cache entry of x expires (the copies arrive
   within EXCHANGE_LIFETIME), then i is returned by at most one call -- however many copies arrive, whenever (also
   after the request they answer has completed and while a later request with the same token is outstanding), on
   however many receive loops. No hypothesis on tokens or on Token.Hash.
   The full statement -- for every duplicated response, whatever its type -- is false of the code
   (C03_dedup_non_confirmable_duplicate_refuted): hence "_partial". *)
Theorem C03_dedup_at_most_one_partial : forall hash progs sched i x,
  retransmitted_with progs i x -> within_lifetime progs x ->
  forall t n cid tok m r t' n' cid' tok' m' r',
    In (ERes t n (DCall cid tok m) (DRet (ROk r))) (dhist (drun hash progs sched)) ->
    In (ERes t' n' (DCall cid' tok' m') (DRet (ROk r'))) (dhist (drun hash progs sched)) ->
    r_id r = i -> r_id r' = i ->
    ERes t n (DCall cid tok m) (DRet (ROk r)) = ERes t' n' (DCall cid' tok' m') (DRet (ROk r')).
Proof. intros hash progs sched i x Hc Hl. exact (dedup_at_most_one hash progs sched i x Hc Hl). Qed.
Print Assumptions C03_dedup_at_most_one_partial.

(* "... returns the content the peer produced for that request", with re-used tokens: once a request has been
   answered with the response produced for it, no other call -- in particular no later request with the same
   token -- returns content produced for that request (the peer produces one response per request and retransmits it) *)
Theorem C03_dedup_answered_content_not_returned_again : forall hash progs sched t n cid tok m r t' n' cid' tok' m' r' x,
  one_response_per_request progs ->
  retransmitted_with progs (r_id r) x -> within_lifetime progs x ->
  In (ERes t n (DCall cid tok m) (DRet (ROk r))) (dhist (drun hash progs sched)) ->
  In (ERes t' n' (DCall cid' tok' m') (DRet (ROk r'))) (dhist (drun hash progs sched)) ->
  r_for r' = r_for r ->
  ERes t n (DCall cid tok m) (DRet (ROk r)) = ERes t' n' (DCall cid' tok' m') (DRet (ROk r')).
Proof. exact answered_content_not_returned_again. Qed.
Print Assumptions C03_dedup_answered_content_not_returned_again.

(* a copy whose message ID has a cached reply ends "answered from the cache": token table, channels and cache unchanged *)
Theorem C03_dedup_duplicate_not_handled : forall hash (c : dconfig) t th del m,
  nth_error (threads dst dop dloc dres c) t = Some th ->
  cur dop dloc dres th = Running (DRecv del m) DCheck ->
  zmem (m_mid m) (cache (shared dst dop dloc dres c)) = true ->
  tok_st (shared dst dop dloc dres (dstep hash c t)) = tok_st (shared dst dop dloc dres c) /\
  cache (shared dst dop dloc dres (dstep hash c t)) = cache (shared dst dop dloc dres c) /\
  nth_error (threads dst dop dloc dres (dstep hash c t)) t =
    Some (mkT dop dloc dres (todo dop dloc dres th) (Finished (DRecv del m) DDup) (idx dop dloc dres th)).
Proof. exact duplicate_not_handled_step. Qed.
Print Assumptions C03_dedup_duplicate_not_handled.

(* the instance: two requests with token 5401 one after the other, separate confirmable responses 7001 / 7002, the
   first one retransmitted while the second request is outstanding. On the machine of the code the copy is answered
   from the cache and call 1 returns response 2 ... *)
Theorem C03_dedup_retransmission_not_returned :
  let h := dhist (drun crc64 (reuse_progs TCon) reuse_sched) in
  ret_of_call 0 h = [mkR 1 tokR 0] /\ ret_of_call 1 h = [mkR 2 tokR 1] /\
  In (ERes 1 1 (DRecv true (mkM TCon 7001 (mkR 1 tokR 0))) DDup) h.
Proof. exact retransmission_not_returned. Qed.
Print Assumptions C03_dedup_retransmission_not_returned.

(* ... with the cache by-passed when a request waits for the token of the message (dact_bypass), the same programs
   and schedule end with call 1 returning the content produced for call 0: response 1 is returned by two calls *)
Theorem C03_dedup_bypass_refuted :
  retransmitted_with (reuse_progs TCon) 1 7001 /\ within_lifetime (reuse_progs TCon) 7001 /\
  let h := dhist (drun_bypass crc64 (reuse_progs TCon) reuse_sched) in
  ret_of_call 0 h = [mkR 1 tokR 0] /\ ret_of_call 1 h = [mkR 1 tokR 0] /\ ~ d_at_most_one 1 h.
Proof. exact bypass_refuted. Qed.
Print Assumptions C03_dedup_bypass_refuted.

(* ... and on the machine of the code with NON-confirmable copies (nothing is cached for a non-confirmable message
   nobody answered) the second copy is handled like a new message: known finding, class 12 *)
Theorem C03_dedup_non_confirmable_duplicate_refuted :
  let h := dhist (drun crc64 (reuse_progs TNon) reuse_sched) in
  ret_of_call 0 h = [mkR 1 tokR 0] /\ ret_of_call 1 h = [mkR 1 tokR 0] /\ ~ d_at_most_one 1 h.
Proof. exact non_confirmable_duplicate_refuted. Qed.
Print Assumptions C03_dedup_non_confirmable_duplicate_refuted.

(* once the cached acknowledgement has expired the message ID is fresh: a new response carrying it is handled *)
Theorem C03_dedup_expired_id_is_fresh :
  let h := dhist (drun crc64 expire_progs expire_sched) in
  ret_of_call 0 h = [mkR 1 tokR 0] /\ ret_of_call 1 h = [mkR 2 tokR 1].
Proof. exact expired_id_is_fresh. Qed.
Print Assumptions C03_dedup_expired_id_is_fresh.

(* ---- the hypotheses are satisfiable by a non-trivial instance: the programs above satisfy every hypothesis of
   the three theorems (injective hashing, one response per request, every response retransmitted as a confirmable
   message with one message ID, nothing expires) ---- *)
Example C03_dedup_hypotheses_satisfiable :
  hash_inj_on crc64 (dall_toks (reuse_progs TCon)) /\ one_response_per_request (reuse_progs TCon) /\
  retransmitted_with (reuse_progs TCon) 1 7001 /\ retransmitted_with (reuse_progs TCon) 2 7002 /\
  within_lifetime (reuse_progs TCon) 7001 /\ within_lifetime (reuse_progs TCon) 7002 /\
  length (dhist (drun crc64 (reuse_progs TCon) reuse_sched)) = 10.
Proof.
  assert (Hrt1 : retransmitted_with (reuse_progs TCon) 1 7001).
  { intros del m H E. cbn in H.
    repeat (destruct H as [H|H]; [try discriminate H; inversion H; subst; cbn in E; try discriminate E; auto|]); contradiction. }
  assert (Hrt2 : retransmitted_with (reuse_progs TCon) 2 7002).
  { intros del m H E. cbn in H.
    repeat (destruct H as [H|H]; [try discriminate H; inversion H; subst; cbn in E; try discriminate E; auto|]); contradiction. }
  assert (Hwl : forall x, within_lifetime (reuse_progs TCon) x).
  { intros x H. cbn in H. repeat (destruct H as [H|H]; [discriminate H|]). contradiction. }
  split.
  { intros a b Ha Hb. cbn in Ha, Hb.
    repeat (destruct Ha as [<-|Ha]; [repeat (destruct Hb as [<-|Hb]; [intros _; reflexivity|]); contradiction|]).
    contradiction. }
  split.
  { intros del m del' m' H H' E. cbn in H, H'.
    repeat (destruct H as [H|H]; [try discriminate H; inversion H; subst; clear H;
      repeat (destruct H' as [H'|H']; [try discriminate H'; inversion H'; subst; cbn in E |- *; first [reflexivity|discriminate E]|]);
      contradiction|]).
    contradiction. }
  split; [exact Hrt1|]. split; [exact Hrt2|]. split; [apply Hwl|]. split; [apply Hwl|].
  vm_compute. reflexivity.
Qed.

(* ======== round 4: the reassembly state of a block-wise response has a validity (Token/ReasmModel.v), and the
   message a response is decoded into has had earlier lives (Token/RecycleModel.v) ======== *)

(* ---- "the content the peer produced for that request", block-wise: for ALL event lists (requests that register,
   blocks that arrive, requests that end, time passing beyond the validity of what is stored, sweeps) in which the
   peer produces blocks for the request that holds the key and a request ends only when no VALID reassembly element
   is left under its key (transfer completed, or the request's deadline -- which is the element's validity -- has
   passed): every body handed on under a key consists of blocks produced for one request, and that request
   registered with this key. In particular blocks received for a request that gave up at its deadline never become
   part of the response to a later request that uses the token again. ---- *)
Theorem C03_reasm_own_content : forall evs,
  timely_run rempty evs ->
  forall k parts, In (ODeliver k parts) (snd (rrun load_valid rempty evs)) ->
    exists cid, In (RStart cid k) evs /\ Forall (eq cid) parts.
Proof. exact reasm_own_content. Qed.
Print Assumptions C03_reasm_own_content.

(* one step: in a state in which every valid element belongs to the holder of its key, a body handed on is the
   holder's, and the state stays that way *)
Theorem C03_reasm_step : forall s ev s' o,
  clean s -> timely s ev -> rstep load_valid s ev = (s', o) ->
  clean s' /\ Forall (own_body s) o.
Proof. intros s ev s' o H1 H2 H3. destruct (step_clean s ev s' o H1 H2 H3) as (A & B & _). split; assumption. Qed.
Print Assumptions C03_reasm_step.

(* an expired element is not found by the look-up of the code (it is as good as absent until the sweep) *)
Theorem C03_reasm_expired_not_loaded : forall k s, load_valid k (rcached (purge s)) = load_valid k (rcached s).
Proof. exact expired_as_absent_look_up. Qed.
Print Assumptions C03_reasm_expired_not_loaded.

(* ... and for every event list without a sweep the machine produces the same outputs from a state and from the state
   without its expired elements (across a sweep this is false: onExpire deletes the sending entry under the key) *)
Theorem C03_reasm_expired_as_absent : forall evs s,
  ~ In RSweep evs -> snd (rrun load_valid (purge s) evs) = snd (rrun load_valid s evs).
Proof. exact expired_as_absent. Qed.
Print Assumptions C03_reasm_expired_as_absent.

(* the look-up without the validity test: the same (timely) events hand on a body whose first block was produced
   for request 0 to request 1; with the look-up of the code the body is request 1's *)
Theorem C03_reasm_stale_refuted :
  timely_run rempty stale_evs /\
  snd (rrun load_any rempty stale_evs) = [OAsk 7 1; OAsk 7 1; OAsk 7 2; ODeliver 7 [0; 1; 1]] /\
  snd (rrun load_valid rempty stale_evs) = [OAsk 7 1; OAsk 7 1; OAsk 7 2; ODeliver 7 [1; 1; 1]].
Proof. exact reasm_stale_refuted. Qed.
Print Assumptions C03_reasm_stale_refuted.

(* ---- the response is decoded into a message from the pool: for ALL previous lives of that message (decodes with
   the stream or the datagram coder, bodies set, releases), once it has been released (Reset) a response decoded
   into it reads -- token, code, body -- exactly as the peer encoded it ---- *)
Theorem C03_recycled_reads_own_content : forall ops tcp w,
  content (papply reset (lives reset (ops ++ [PReset])) (PUnm tcp w)) = wire_content w.
Proof. exact recycled_reads_own_content. Qed.
Print Assumptions C03_recycled_reads_own_content.

(* the datagram coder assigns the payload unconditionally: there the previous life never shows *)
Theorem C03_datagram_decode_overwrites : forall m w, content (unmarshal false w m) = wire_content w.
Proof. exact datagram_decode_overwrites. Qed.
Print Assumptions C03_datagram_decode_overwrites.

(* a Reset that keeps the payload field: a payload-less 2.02 decoded with the stream coder reads with the body of
   the 2.05 the message carried before *)
Theorem C03_recycle_keep_refuted :
  content (papply reset_keep (lives reset_keep keep_ops) (PUnm true (mkW [2%Z] 66%Z []))) = ([2%Z], 66%Z, [104%Z; 105%Z]) /\
  content (papply reset (lives reset keep_ops) (PUnm true (mkW [2%Z] 66%Z []))) = ([2%Z], 66%Z, []).
Proof. exact recycle_keep_refuted. Qed.
Print Assumptions C03_recycle_keep_refuted.

(* the hypotheses are satisfiable by a non-trivial instance: a transfer given up at its deadline, the token used
   again, a sweep, a complete second transfer *)
Example C03_reasm_hypotheses_satisfiable :
  timely_run rempty (stale_evs ++ [REnd 1 7%Z; RSweep; RStart 2 7%Z; RBlock 7%Z (mkBlk 2 0 false)]) /\
  snd (rrun load_valid rempty (stale_evs ++ [REnd 1 7%Z; RSweep; RStart 2 7%Z; RBlock 7%Z (mkBlk 2 0 false)])) =
    [OAsk 7%Z 1; OAsk 7%Z 1; OAsk 7%Z 2; ODeliver 7%Z [1; 1; 1]; ODeliver 7%Z [2]].
Proof. split; [cbn; repeat split; intros; try congruence; auto|vm_compute; reflexivity]. Qed.

(* ---- round 5: the library's token source (message.GetToken, Token/SourceModel.v). [ent] = the bytes the system's
   source of randomness delivers, in order. As long as they last, the k-th call returns exactly the k-th 8-byte piece
   and reads exactly 8 bytes: every request gets random bytes of its own ---- *)
Theorem C03_source_tokens_are_pieces : forall n ent, tok_len * n <= length ent ->
  tokens n ent = map (fun k => (piece k ent, tok_len)) (seq 0 n).
Proof. exact tokens_are_pieces. Qed.
Print Assumptions C03_source_tokens_are_pieces.

(* the tokens, one after the other, are the first 8n random bytes: no byte is used for two tokens, none is skipped *)
Theorem C03_source_uses_every_byte_once : forall n ent, tok_len * n <= length ent ->
  concat (map fst (tokens n ent)) = firstn (tok_len * n) ent.
Proof. exact tokens_use_every_byte_once. Qed.
Print Assumptions C03_source_uses_every_byte_once.

(* hence, for any number of requests: different random bytes, different tokens (the premise "distinct tokens" of
   the property, for requests whose token the library chooses) *)
Theorem C03_source_tokens_distinct : forall n ent, tok_len * n <= length ent ->
  fresh_pieces n ent -> NoDup (map fst (tokens n ent)).
Proof. exact tokens_distinct. Qed.
Print Assumptions C03_source_tokens_distinct.

(* distinct tokens and a peer that answers requests with their tokens (any order, delay, duplication) give the
   [honest] of C03_own_content *)
Theorem C03_honest_of_faithful : forall progs,
  NoDup (map snd (calls progs)) -> faithful progs -> honest progs.
Proof. exact honest_of_faithful. Qed.
Print Assumptions C03_honest_of_faithful.

(* a connection whose requests all carry library-chosen tokens, ALL programs (any number of callers, calls given up,
   late and duplicated responses) and ALL schedules: a successful call returns its own token and the content the
   peer produced for it -- nothing is asked of the callers *)
Theorem C03_library_tokens_own_content : forall hash progs sched ent,
  tok_len * length (calls progs) <= length ent ->
  fresh_pieces (length (calls progs)) ent ->
  library_chosen progs ent ->
  hash_inj_on hash (all_toks progs) -> faithful progs ->
  forall t n cid tok m r,
    In (ERes t n (Call cid tok m) (ROk r)) (hist (run hash progs sched)) -> r_tok r = tok /\ r_for r = cid.
Proof. exact library_tokens_own_content. Qed.
Print Assumptions C03_library_tokens_own_content.

(* tokens cut from a block of 4096 random bytes whose offset is wrapped before the 'block used up' test (one read of
   4096 bytes, then none): although all 1024 pieces of the random bytes differ, call 512 returns the token of call 0
   (class 13; the source of the code on the same bytes: class 0), and on the token-table machine, with a faithful
   peer, the response produced for request 0 -- which gave up -- is returned by the request made 512 tokens later *)
Theorem C03_source_block_repeats_refuted :
  fresh_pieces 1024 blk_ent /\ length blk_ent = 8 * 1024 /\ length blk_obs = 513 /\
  map snd blk_obs = 4096 :: repeat 0 512 /\
  blk_tok 512 = blk_tok 0 /\
  tk_class blk_ent blk_obs = 13%N /\
  tk_class blk_ent (tokens 513 blk_ent) = 0%N /\
  faithful blk_progs /\
  In (ERes 1 0 (Call 1 (blk_tok 512) MWait) (ROk (mkR 0 (blk_tok 0) 0))) (hist (run crc64 blk_progs blk_sched)).
Proof. exact block_source_repeats. Qed.
Print Assumptions C03_source_block_repeats_refuted.

(* the hypotheses of C03_library_tokens_own_content are satisfiable by a non-trivial instance: three requests with
   the tokens the source makes of 24 random bytes, one given up, its response late, one answered twice *)
Definition lib_ent : list Z := ent_gen 5%Z 3.
Definition lib_tok (k : nat) : list Z := piece k lib_ent.
Definition lib_progs : list (list op) :=
  [[Call 0 (lib_tok 0) MCancel; Call 1 (lib_tok 1) MWait]; [Call 2 (lib_tok 2) MWait];
   [Deliver true (mkR 0 (lib_tok 2) 2); Deliver true (mkR 1 (lib_tok 0) 0); Deliver true (mkR 2 (lib_tok 1) 1);
    Deliver true (mkR 3 (lib_tok 2) 2)]].
Example C03_library_tokens_hypotheses_satisfiable :
  tok_len * length (calls lib_progs) <= length lib_ent /\
  fresh_pieces (length (calls lib_progs)) lib_ent /\
  library_chosen lib_progs lib_ent /\
  hash_inj_on crc64 (all_toks lib_progs) /\ faithful lib_progs.
Proof.
  split; [vm_compute; repeat constructor|].
  split; [apply nodup_b_NoDup; vm_compute; reflexivity|].
  split; [vm_compute; reflexivity|].
  split.
  - intros a b Ha Hb. vm_compute in Ha, Hb.
    repeat (destruct Ha as [Ha|Ha]; [subst a|]); try destruct Ha;
      repeat (destruct Hb as [Hb|Hb]; [subst b|]); try destruct Hb;
      vm_compute; intros E; try reflexivity; discriminate E.
  - intros del r H. vm_compute in H.
    repeat (destruct H as [H|H]; [try discriminate H; try (inversion H; subst; vm_compute; tauto)|]). destruct H.
Qed.
