From Coq Require Import ZArith List Bool Arith.
From GoCoap Require Import Base.Interleave Token.Model Token.Spec Token.Proofs.
Import ListNotations.
