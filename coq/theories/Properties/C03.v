(* C03 -- every response reaches exactly the request that carries its token.

   The machine (Token/Model.v): any number of threads; a caller thread runs a
   list of [Call cid tok mode] (= doInternal: LoadOrStore; write; wait;
   deferred LoadAndDelete), a receive thread a list of [Deliver del r]
   (= handle: LoadAndDelete / Load; hijack + non-blocking send). [run hash
   progs sched] executes the schedule [sched] (a list of thread ids; every entry
   is one invocation, one critical section or one return). All theorems are for
   ALL programs (numbers of callers, tokens, response lists with any tokens,
   order and duplication, modes = outcome of the final select) and ALL
   schedules. [hash] is Token.Hash; the head theorems assume that it tells the
   tokens in play apart ([hash_inj_on]); without that the statement is false of
   the code (C03_own_token_refuted, finding F18). *)
From Coq Require Import ZArith List Bool Arith.
From GoCoap Require Import Base.Interleave Observe.Model Token.Model Token.Spec Token.Proofs.
Import ListNotations.
Local Open Scope nat_scope.

Notation hist c := (rhist st op loc res c).

(* ---- a successful call returns a response with its own token ... ---- *)
Theorem C03_own_token : forall hash progs sched,
  hash_inj_on hash (all_toks progs) ->
  forall t n cid tok m r,
    In (ERes t n (Call cid tok m) (ROk r)) (hist (run hash progs sched)) -> r_tok r = tok.
Proof. intros hash progs sched H. exact (own_token_holds hash progs sched H). Qed.
Print Assumptions C03_own_token.

(* ... and the content the peer produced for that request *)
Theorem C03_own_content : forall hash progs sched,
  hash_inj_on hash (all_toks progs) -> honest progs ->
  forall t n cid tok m r,
    In (ERes t n (Call cid tok m) (ROk r)) (hist (run hash progs sched)) -> r_for r = cid.
Proof. intros hash progs sched H1 H2. exact (own_content_holds hash progs sched H1 H2). Qed.
Print Assumptions C03_own_content.

(* without the hypothesis: own token up to Token.Hash, and what is returned was sent by the peer *)
Theorem C03_own_token_hash : forall hash progs sched t n cid tok m r,
  In (ERes t n (Call cid tok m) (ROk r)) (hist (run hash progs sched)) ->
  hash (r_tok r) = hash tok /\ (exists del, In (Deliver del r) (all_ops progs)).
Proof.
  intros hash progs sched t n cid tok m r H.
  destruct (own_token_hash hash progs sched t n cid tok m r H) as (H1 & H2 & _). split; assumption.
Qed.
Print Assumptions C03_own_token_hash.

(* ---- a response instance is returned by at most one call (never to two callers) ---- *)
Theorem C03_at_most_one : forall hash progs sched,
  NoDup (resp_ids progs) ->
  forall t n cid tok m r t' n' cid' tok' m' r',
    In (ERes t n (Call cid tok m) (ROk r)) (hist (run hash progs sched)) ->
    In (ERes t' n' (Call cid' tok' m') (ROk r')) (hist (run hash progs sched)) ->
    r_id r = r_id r' ->
    ERes t n (Call cid tok m) (ROk r) = ERes t' n' (Call cid' tok' m') (ROk r').
Proof. intros hash progs sched H. exact (at_most_one_holds hash progs sched H). Qed.
Print Assumptions C03_at_most_one.

(* ---- a request whose token('s key) is in the table is rejected and leaves the table as it is ---- *)
Theorem C03_dup_rejected : forall hash (c : Token.Model.config) t th cid tok m w,
  nth_error (threads st op loc res c) t = Some th ->
  cur op loc res th = Running (Call cid tok m) L0 ->
  tget (hash tok) (tbl (shared st op loc res c)) = Some w ->
  shared st op loc res (mstep hash c t) = shared st op loc res c /\
  nth_error (threads st op loc res (mstep hash c t)) t =
    Some (mkT op loc res (todo op loc res th) (Finished (Call cid tok m) RExists) (idx op loc res th)).
Proof. exact dup_rejected_step. Qed.
Print Assumptions C03_dup_rejected.

(* ... and a request is accepted only when the key is absent; it then owns the entry *)
Theorem C03_accepted_only_if_absent : forall hash cid tok m s l' s' d,
  act hash (Call cid tok m) L0 s = Some (l', s', d) -> d <> Some RExists ->
  tget (hash tok) (tbl s) = None /\ tget (hash tok) (tbl s') = Some (cid, tok).
Proof. exact accepted_act. Qed.
Print Assumptions C03_accepted_only_if_absent.

(* ... and a request is refused only because of a call with the very same token: given injective hashing on
   the tokens in play, the entry found by the refusing LoadOrStore belongs to a call of the programs whose
   token is the caller's token (distinct tokens are never treated as equal; without the hypothesis:
   C03_distinct_token_refused) *)
Theorem C03_refused_only_same_token : forall hash progs sched t th cid tok m w,
  hash_inj_on hash (all_toks progs) ->
  nth_error (threads st op loc res (run hash progs sched)) t = Some th ->
  cur op loc res th = Running (Call cid tok m) L0 ->
  tget (hash tok) (tbl (shared st op loc res (run hash progs sched))) = Some w ->
  snd w = tok /\ In w (calls progs).
Proof. intros hash progs sched t th cid tok m w H. exact (refused_same_token hash progs sched t th cid tok m w H). Qed.
Print Assumptions C03_refused_only_same_token.

(* ---- the deferred removal ----
   Full statement: "the deferred LoadAndDelete of a call never removes another call's entry".
   It is FALSE of the code for calls that use one token (C03_unregister_own_refuted);
   proved when the calls of the programs have pairwise different keys: *)
Theorem C03_unregister_own_partial : forall hash progs sched t th cid tok m x w,
  NoDup (map (fun p => hash (snd p)) (calls progs)) ->
  nth_error (threads st op loc res (run hash progs sched)) t = Some th ->
  cur op loc res th = Running (Call cid tok m) (LUnreg x) ->
  tget (hash tok) (tbl (shared st op loc res (run hash progs sched))) = Some w -> w = (cid, tok).
Proof. intros hash progs sched t th cid tok m x w H. exact (unregister_own_distinct hash progs sched t th cid tok m x w H). Qed.
Print Assumptions C03_unregister_own_partial.

Theorem C03_unregister_own_refuted :
  (let c := run crc64 steal_progs steal_prefix in
   nth_error (threads st op loc res c) 0 =
     Some (mkT op loc res [] (Running (Call 0 tokT MWait) (LUnreg (ROk (mkR 0 tokT 0)))) 0) /\
   tget (crc64 tokT) (tbl (shared st op loc res c)) = Some (1, tokT)) /\
  (let c := run crc64 steal_progs steal_sched in
   tbl (shared st op loc res c) = [] /\
   fall (shared st op loc res c) = [mkR 1 tokT 1] /\
   nth_error (threads st op loc res c) 1 = Some (mkT op loc res [] (Running (Call 1 tokT MWait) LWait) 0) /\
   enabled st op loc res (act crc64) c 1 = false /\
   (forall t, t <> 1 -> enabled st op loc res (act crc64) c t = false)).
Proof. exact unregister_own_refuted. Qed.
Print Assumptions C03_unregister_own_refuted.

(* ---- the hypothesis on the hash cannot be dropped (F18) ---- *)
Theorem C03_own_token_refuted :
  exists progs sched,
    NoDup (resp_ids progs) /\
    ~ (forall t n cid tok m r,
         In (ERes t n (Call cid tok m) (ROk r)) (hist (run crc64 progs sched)) -> r_tok r = tok).
Proof.
  exists collide_progs, collide_sched.
  destruct own_token_refuted as (H1 & _ & H3). split; [exact H1|exact H3].
Qed.
Print Assumptions C03_own_token_refuted.

Theorem C03_distinct_token_refused :
  crc64 tokA = crc64 tokB /\ tokA <> tokB /\
  In (ERes 1 0 (Call 1 tokB MWait) RExists) (hist (run crc64 collide_progs2 [0; 0; 0; 1; 1; 1])).
Proof. destruct crc_collision as [H1 H2]. split; [exact H1|]. split; [exact H2|exact distinct_token_refused]. Qed.
Print Assumptions C03_distinct_token_refused.

(* ---- all clauses together ---- *)
Theorem C03_holds : forall hash progs sched,
  hash_inj_on hash (all_toks progs) -> honest progs -> NoDup (resp_ids progs) ->
  own_token (hist (run hash progs sched)) /\
  own_content (hist (run hash progs sched)) /\
  at_most_one (hist (run hash progs sched)).
Proof.
  intros hash progs sched H1 H2 H3. split; [|split].
  - exact (own_token_holds hash progs sched H1).
  - exact (own_content_holds hash progs sched H1 H2).
  - exact (at_most_one_holds hash progs sched H3).
Qed.
Print Assumptions C03_holds.

(* ---- the hypotheses are satisfiable by a non-trivial instance: three callers (one of them
   re-uses a token after completion), responses out of order, one duplicated, one foreign;
   Token.Hash = CRC-64/ISO ---- *)
Definition ex_progs : list (list op) :=
  [[Call 0 [1; 2]%Z MWait; Call 3 [9]%Z MWait]; [Call 1 [3]%Z MCancel]; [Call 2 [4; 5; 6]%Z MWait];
   [Deliver true (mkR 0 [4; 5; 6]%Z 2); Deliver true (mkR 1 [1; 2]%Z 0); Deliver false (mkR 2 [1; 2]%Z 0);
    Deliver true (mkR 3 [8]%Z 99); Deliver true (mkR 4 [9]%Z 3)]].

Example C03_hypotheses_satisfiable :
  hash_inj_on crc64 (all_toks ex_progs) /\ honest ex_progs /\ NoDup (resp_ids ex_progs) /\
  length (hist (run crc64 ex_progs [0; 0; 0; 1; 1; 1; 2; 2; 2; 3; 3; 3; 3; 3; 3; 3; 3; 2; 2; 2; 0; 0; 0; 0])) = 10.
Proof.
  split; [|split; [|split]].
  - intros a b Ha Hb. cbn in Ha, Hb.
    repeat (destruct Ha as [<-|Ha]; [repeat (destruct Hb as [<-|Hb]; [vm_compute; intros E; first [reflexivity|discriminate E]|]); contradiction|]).
    contradiction.
  - intros del r Hr cid tok Hc E. cbn in Hr, Hc.
    repeat (destruct Hr as [Hr|Hr]; [try discriminate Hr; inversion Hr; subst; clear Hr;
      repeat (destruct Hc as [Hc|Hc]; [inversion Hc; subst; first [reflexivity|discriminate E]|]); contradiction|]).
    contradiction.
  - vm_compute. repeat constructor; cbn; intuition discriminate.
  - vm_compute. reflexivity.
Qed.
