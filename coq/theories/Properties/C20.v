(* C20 -- No-Response suppression follows RFC 7967 for every value and code.
   Statements only; proofs in NoResp/Proofs.v. *)
From Coq Require Import ZArith List Bool.
From GoCoap Require Import NoResp.Model NoResp.Spec NoResp.Proofs.
Import ListNotations.
Open Scope Z_scope.

(* for EVERY code and EVERY option value (no bound), the decision is the RFC's *)
Theorem C20_exact : forall code v, 0 <= code -> 0 <= v ->
  is_suppressed code v = spec_suppressed code v.
Proof. exact suppressed_exact. Qed.
Print Assumptions C20_exact.

Theorem C20_low_bits : forall code v, 0 <= code -> 0 <= v ->
  is_suppressed code v = is_suppressed code (v mod 32).
Proof. exact suppressed_low_bits. Qed.
Print Assumptions C20_low_bits.

Theorem C20_other_classes_pass : forall code v, 0 <= code -> 0 <= v ->
  class_of code <> 2 -> class_of code <> 4 -> class_of code <> 5 -> is_suppressed code v = false.
Proof. exact other_classes_pass. Qed.
Print Assumptions C20_other_classes_pass.

(* the response writer refuses exactly when the request's No-Response value says so *)
Theorem C20_writer_exact : forall pre bs post code,
  0 <= code -> Forall (fun b => 0 <= b) bs ->
  Forall (fun o => fst o <> NoResponseID) pre ->
  rw_refuses (pre ++ (NoResponseID, bs) :: post) code = spec_suppressed code (decode_uint32 bs).
Proof. exact rw_exact. Qed.
Print Assumptions C20_writer_exact.

Theorem C20_writer_without_option : forall opts code,
  get_uint32 opts NoResponseID = None -> rw_refuses opts code = false.
Proof. exact rw_without_option. Qed.
Print Assumptions C20_writer_without_option.

(* non-vacuity: 4.29 (157) with value 8, 2.31 (95) with 2, 5.00 with 16 are suppressed; 4.04 with 2 is not *)
Example C20_instances :
  is_suppressed 157 8 = true /\ is_suppressed 95 2 = true /\ is_suppressed 160 16 = true /\
  is_suppressed 132 2 = false /\ rw_refuses [(11, [1]); (258, [26])] 136 = true.
Proof. vm_compute. repeat split. Qed.

(* ---- wire clause, on the datagram connection model (Dedup/Model.v) ---- *)
From GoCoap Require Import Dedup.Model Dedup.Proofs.

(* a suppressed response is never put on the wire: a confirmable request still gets exactly its
   bare acknowledgement, a non-confirmable one gets nothing *)
Theorem C20_wire_suppressed : forall s typ mid tok code ro rc o p,
  (if is_cacheable_typ typ then cache_load (cache s) mid else None) = None ->
  rw_refuses ro rc = true ->
  o_out (snd (step s (Req typ mid tok code ro (BResp rc o p)))) = (if typ =? CON then [bare_ack mid] else []).
Proof. exact wire_suppressed. Qed.
Print Assumptions C20_wire_suppressed.

(* a response of a class that was not suppressed is never dropped *)
Theorem C20_wire_passed : forall s typ mid tok code ro rc o p,
  (if is_cacheable_typ typ then cache_load (cache s) mid else None) = None ->
  rw_refuses ro rc = false ->
  exists r, o_out (snd (step s (Req typ mid tok code ro (BResp rc o p)))) = [r] /\ w_code r = rc /\ w_tok r = tok /\ w_pay r = p.
Proof. exact wire_passed. Qed.
Print Assumptions C20_wire_passed.

(* ---- requests that pass through block-wise transfer (NoResp/BwModel.v: udp/client.Conn with the
   net/blockwise layer between the connection and the handler) ---- *)
From GoCoap Require Import Base.Bytes Gen.BlockConsts Block.Model NoResp.BwModel NoResp.BwProofs.

(* the layer is transparent for a plain request (no block option, no response transfer under the token,
   response body shorter than a block): the step is the one of Dedup/Model.v, so C20_wire_suppressed /
   C20_wire_passed hold with the layer switched on *)
Theorem C20_bw_plain_is_step : forall c s typ mid tok code o pay b,
  tget (sndc (layer s)) tok = None ->
  has_opt o Block1ID = false -> has_opt o Block2ID = false -> 0 <= c_szx c <= 7 ->
  (forall rc ro p, b = BResp rc ro p -> blen p < size (c_szx c)) ->
  (forall rc t ro p, b = BMsg rc t ro p -> blen p < size (c_szx c)) ->
  let e := {| e_typ := typ; e_mid := mid; e_tok := tok; e_code := code; e_opts := o; e_pay := pay; e_beh := b |} in
  conn (fst (bstep c s e)) = fst (step (conn s) (Req typ mid tok code o b)) /\
  layer (fst (bstep c s e)) = layer s /\
  bo_out (snd (bstep c s e)) = o_out (snd (step (conn s) (Req typ mid tok code o b))).
Proof. exact plain_request_is_step. Qed.
Print Assumptions C20_bw_plain_is_step.

(* in every state of its caches and for every request, the layer never turns a response that the writer
   refused into a modified (= sent) one *)
Theorem C20_bw_refused_untouched : forall c b tok code o pay rc ro p,
  rw_refuses o rc = true ->
  b_call (bw_handle c b tok code o pay (BResp rc ro p)) <> None ->
  b_res (bw_handle c b tok code o pay (BResp rc ro p)) = None.
Proof. exact refused_untouched. Qed.
Print Assumptions C20_bw_refused_untouched.

(* wire clause for every request that reaches the handler through the layer (plain, last block of an
   upload, first request of a download, ...): suppressed => bare ACK (CON) / nothing (NON) *)
Theorem C20_bw_wire_suppressed : forall c s typ mid tok code o pay rc ro p,
  req_lookup typ mid (cache (conn s)) = None ->
  rw_refuses o rc = true ->
  let e := {| e_typ := typ; e_mid := mid; e_tok := tok; e_code := code; e_opts := o; e_pay := pay; e_beh := BResp rc ro p |} in
  bo_call (snd (bstep c s e)) <> None ->
  bo_out (snd (bstep c s e)) = (if typ =? CON then [bare_ack mid] else []).
Proof. exact bw_wire_suppressed. Qed.
Print Assumptions C20_bw_wire_suppressed.

(* ... not suppressed (body shorter than a block) => the response goes out with its code, token, payload *)
Theorem C20_bw_wire_passed_small : forall c s typ mid tok code o pay rc ro p,
  req_lookup typ mid (cache (conn s)) = None ->
  rw_refuses o rc = false ->
  blen p < size (req_maxszx c code o) ->
  let e := {| e_typ := typ; e_mid := mid; e_tok := tok; e_code := code; e_opts := o; e_pay := pay; e_beh := BResp rc ro p |} in
  bo_call (snd (bstep c s e)) <> None ->
  exists r, bo_out (snd (bstep c s e)) = [r] /\ w_code r = rc /\ w_tok r = tok /\ w_pay r = p.
Proof. exact bw_wire_passed_small. Qed.
Print Assumptions C20_bw_wire_passed_small.

(* Block1 upload of any number of blocks (first, mids, last): only the last datagram reaches the handler,
   with the reassembled body and the options of the first block minus Block1/Size1; the writer is the
   one made of the LAST datagram's options *)
Theorem C20_bw_upload_reassembles : forall c b tok code beh szx o0 p0 mids ol pl,
  (code =? POST) || (code =? PUT) = true -> 0 <= szx <= c_szx c -> c_szx c <= 7 ->
  tget (rcvc b) tok = None ->
  block1_is o0 szx 0 true -> blen p0 = size szx ->
  mids_ok szx 1 mids ->
  block1_is ol szx (1 + blen mids) false ->
  let x0 := bw_handle c b tok code o0 p0 beh in
  let f := feed c (b_bw x0) tok code mids beh in
  let r := bw_handle c (fst f) tok code ol pl beh in
  b_call x0 = None /\ Forall (fun x => x = None) (snd f) /\
  b_call r = Some {| hc_code := code; hc_opts := opt_remove (opt_remove o0 Block1ID) Size1ID;
                     hc_body := p0 ++ concat (map snd mids) ++ pl |} /\
  tget (rcvc (b_bw r)) tok = None /\
  (call_handler tok ol beh = None -> b_res r = None) /\
  (forall h, call_handler tok ol beh = Some h -> blen (h_pay h) < size szx -> b_res r = Some h).
Proof. exact upload_reassembles. Qed.
Print Assumptions C20_bw_upload_reassembles.

Theorem C20_bw_upload_suppressed : forall c b tok code szx o0 p0 mids ol pl rc ro p,
  (code =? POST) || (code =? PUT) = true -> 0 <= szx <= c_szx c -> c_szx c <= 7 ->
  tget (rcvc b) tok = None ->
  block1_is o0 szx 0 true -> blen p0 = size szx ->
  mids_ok szx 1 mids ->
  block1_is ol szx (1 + blen mids) false ->
  rw_refuses ol rc = true ->
  let beh := BResp rc ro p in
  let x0 := bw_handle c b tok code o0 p0 beh in
  let f := feed c (b_bw x0) tok code mids beh in
  let r := bw_handle c (fst f) tok code ol pl beh in
  (exists hc, b_call r = Some hc /\ hc_body hc = p0 ++ concat (map snd mids) ++ pl) /\ b_res r = None.
Proof. exact upload_suppressed. Qed.
Print Assumptions C20_bw_upload_suppressed.

(* ... and what the last datagram of such an upload puts on the wire *)
Theorem C20_bw_upload_wire_suppressed : forall c s typ mid tok code szx o0 p0 mids ol pl rc ro p,
  (code =? POST) || (code =? PUT) = true -> 0 <= szx <= c_szx c -> c_szx c <= 7 ->
  tget (rcvc (layer s)) tok = None ->
  block1_is o0 szx 0 true -> blen p0 = size szx ->
  mids_ok szx 1 mids ->
  block1_is ol szx (1 + blen mids) false ->
  rw_refuses ol rc = true ->
  let beh := BResp rc ro p in
  let x0 := bw_handle c (layer s) tok code o0 p0 beh in
  let f := feed c (b_bw x0) tok code mids beh in
  forall cn, req_lookup typ mid (cache cn) = None ->
  let e := {| e_typ := typ; e_mid := mid; e_tok := tok; e_code := code; e_opts := ol; e_pay := pl; e_beh := beh |} in
  bo_out (snd (bstep c {| conn := cn; layer := fst f |} e)) = (if typ =? CON then [bare_ack mid] else []).
Proof. exact upload_wire_suppressed. Qed.
Print Assumptions C20_bw_upload_wire_suppressed.

(* Block2 download: a response that was not suppressed and needs several blocks: first block ... *)
Theorem C20_bw_download_first_block : forall c b tok code o pay rc ro p,
  (code =? GET) || (code =? DELETE) = true -> 0 <= c_szx c <= 6 ->
  has_opt o Block2ID = false ->
  tget (sndc b) tok = None ->
  rw_refuses o rc = false ->
  size (c_szx c) <= blen p ->
  let r := bw_handle c b tok code o pay (BResp rc ro p) in
  exists h, b_res r = Some h /\ h_code h = rc /\ h_tok h = tok /\
            h_pay h = firstn (Z.to_nat (size (c_szx c))) p /\
            tget (sndc (b_bw r)) tok = Some {| se_code := rc; se_opts := set_cf ro; se_pay := p |}.
Proof. exact download_first_block. Qed.
Print Assumptions C20_bw_download_first_block.

(* ... and every following block, whatever No-Response option the request for it carries *)
Theorem C20_bw_download_next_block : forall c b tok code o pay beh se szx num more,
  GET <= code <= DELETE ->
  get_block o Block2ID = Some {| d_szx := szx; d_num := num; d_more := more; d_err := None |} ->
  has_opt o Block1ID = false ->
  0 <= szx <= c_szx c -> c_szx c <= 6 -> 0 <= num <= maxBlockNumber ->
  tget (sndc b) tok = Some se -> DELETE < se_code se ->
  num * size szx <= blen (se_pay se) ->
  let r := bw_handle c b tok code o pay beh in
  b_call r = None /\
  exists h, b_res r = Some h /\ h_code h = se_code se /\ h_tok h = tok /\
            h_pay h = firstn (Z.to_nat (size szx)) (skipn (Z.to_nat (num * size szx)) (se_pay se)).
Proof. exact download_next_block. Qed.
Print Assumptions C20_bw_download_next_block.

(* a refused response to a GET/DELETE starts no transfer *)
Theorem C20_bw_refused_get_no_state : forall c b tok code o pay rc ro p,
  (code =? GET) || (code =? DELETE) = true ->
  rw_refuses o rc = true ->
  b_bw (handle_received c b tok code o pay (BResp rc ro p)) = b.
Proof. exact refused_get_no_state. Qed.
Print Assumptions C20_bw_refused_get_no_state.

(* non-vacuity: a three-block PUT (SZX 16) whose blocks carry No-Response = 2, handler answers 2.04:
   two 2.31 Continue, then nothing for a NON upload / the bare ACK for a CON upload; with 4.00 the
   response goes out *)
Example C20_bw_instance :
  let cf := {| c_szx := 0; c_maxmsg := 65536 |} in
  let blk typ mid v p rc := {| e_typ := typ; e_mid := mid; e_tok := [7]; e_code := 3; e_opts := [(27, [v]); (258, [2])];
                               e_pay := gen_body 1 p; e_beh := BResp rc [] [] |} in
  let outs typ rc := map (fun o => map (fun w => (w_typ w, w_code w, w_tok w)) (bo_out o))
                         (snd (brun cf (binit 0) [blk typ 10 8 16%nat rc; blk typ 11 24 16%nat rc; blk typ 12 32 5%nat rc])) in
  outs NON 68 = [[(CON, 95, [7])]; [(CON, 95, [7])]; []] /\
  outs CON 68 = [[(ACK, 95, [7])]; [(ACK, 95, [7])]; [(ACK, 0, [])]] /\
  outs NON 128 = [[(CON, 95, [7])]; [(CON, 95, [7])]; [(CON, 128, [7])]].
Proof. vm_compute. repeat split. Qed.

(* ---- requests the handler edits before it sets the response (NoResp/EditModel.v: the request's option
   array, the in-place loops of message.Options.Set/Add/Remove on it, the writer as New + SetResponse) ----

   The writer is made of req.Options()...: a slice header over the option array of the very message the
   handler gets and may edit (a gateway annotating a request before it passes it on).  "The No-Response
   value a request carries" is the one it carried when it arrived; the theorems say that the decision
   follows that value for EVERY option array (any capacity, any stale contents), EVERY script of edits and
   EVERY code, on the writer and on the wire. *)
From GoCoap Require Import Opt.Model Opt.Proofs NoResp.EditModel NoResp.EditProofs NoResp.EditWire.

(* refused exactly when RFC 7967 marks the class as not of interest for the value the request carried *)
Theorem C20_edit_exact : forall a n es code pre bs post,
  take a n = pre ++ (NoResp.Model.NoResponseID, bs) :: post ->
  0 <= code -> Forall (fun b => 0 <= b) bs ->
  Forall (fun o => fst o <> NoResp.Model.NoResponseID) pre ->
  fst (session a n es code) = spec_suppressed code (NoResp.Model.decode_uint32 bs).
Proof. exact session_exact. Qed.
Print Assumptions C20_edit_exact.

Theorem C20_edit_without_option : forall a n es code,
  NoResp.Model.get_uint32 (take a n) NoResp.Model.NoResponseID = None ->
  fst (session a n es code) = false.
Proof. exact session_without_option. Qed.
Print Assumptions C20_edit_without_option.

(* the edits are not ignored by the model: the handler sees the list-level run of C15 (Opt/Model.v),
   the array keeps its capacity *)
Theorem C20_edit_handler_sees_edits : forall a n es code,
  0 <= n <= len a -> sorted (take a n) ->
  w_live (snd (session a n es code)) = l_run (take a n) es /\
  sorted (w_live (snd (session a n es code))) /\
  len (orig (snd (session a n es code))) = len a.
Proof. exact session_handler_sees_edits. Qed.
Print Assumptions C20_edit_handler_sees_edits.

(* a handler that strips the option before it forwards the request: gone from the request, still honoured *)
Theorem C20_edit_can_remove_option : forall a n code,
  0 <= n <= len a -> sorted (take a n) ->
  let r := session a n [ERemove NoResp.Model.NoResponseID] code in
  has_option (w_live (snd r)) NoResp.Model.NoResponseID = false /\
  fst r = rw_refuses (take a n) code.
Proof. exact session_can_remove_option. Qed.
Print Assumptions C20_edit_can_remove_option.

(* the in-place loops: the array afterwards is the list-level result followed by the untouched old
   contents of the other slots *)
Theorem C20_edit_add_in_place : forall (a : list opt) n o, 0 <= n -> n < len a -> sorted (take a n) ->
  add_arr a n o = (add (take a n) o ++ drop a (n + 1), n + 1).
Proof. exact add_arr_spec. Qed.
Print Assumptions C20_edit_add_in_place.

Theorem C20_edit_set_in_place : forall (a : list opt) n o, 0 <= n <= len a -> sorted (take a n) ->
  (grows (set_plan_of (take a n) o) = true -> n < len a) ->
  set_arr a n o = (set (take a n) o ++ drop a (len (set (take a n) o)), len (set (take a n) o)).
Proof. exact set_arr_spec. Qed.
Print Assumptions C20_edit_set_in_place.

Theorem C20_edit_remove_in_place : forall (a : list opt) n id, 0 <= n <= len a -> sorted (take a n) ->
  remove_arr a n id =
    (Opt.Model.remove (take a n) id ++ drop a (len (Opt.Model.remove (take a n) id)), len (Opt.Model.remove (take a n) id))
  /\ 0 <= len (Opt.Model.remove (take a n) id) <= n.
Proof. exact remove_arr_spec. Qed.
Print Assumptions C20_edit_remove_in_place.

(* on the connection: the request step with an editing handler is the step of Dedup/Model.v for the
   options the request had when it arrived ... *)
Theorem C20_edit_step_is_step : forall s typ mid tok code a n es b,
  fst (estep s typ mid tok code a n es b) = step s (Req typ mid tok code (take a n) b).
Proof. exact estep_is_step. Qed.
Print Assumptions C20_edit_step_is_step.

(* ... so a suppressed response is never put on the wire, whatever the handler did to the request ... *)
Theorem C20_edit_wire_suppressed : forall s typ mid tok code a n es rc o p,
  (if is_cacheable_typ typ then cache_load (cache s) mid else None) = None ->
  fst (session a n es rc) = true ->
  o_out (snd (fst (estep s typ mid tok code a n es (BResp rc o p)))) = (if typ =? CON then [bare_ack mid] else []).
Proof. exact edit_wire_suppressed. Qed.
Print Assumptions C20_edit_wire_suppressed.

(* ... and a response of a class that was not suppressed is never dropped *)
Theorem C20_edit_wire_passed : forall s typ mid tok code a n es rc o p,
  (if is_cacheable_typ typ then cache_load (cache s) mid else None) = None ->
  fst (session a n es rc) = false ->
  exists r, o_out (snd (fst (estep s typ mid tok code a n es (BResp rc o p)))) = [r] /\
            w_code r = rc /\ w_tok r = tok /\ w_pay r = p.
Proof. exact edit_wire_passed. Qed.
Print Assumptions C20_edit_wire_passed.

(* why the value must be decoded when the writer is created: for every request whose last option is
   No-Response and whose array has a free slot, after the handler added ANY option with a smaller number
   the slice header the writer was given shows the options without No-Response, and a writer that looked
   the option up through it when the response is set would accept every code *)
Theorem C20_edit_lazy_lookup_loses_option : forall (a : list opt) n (pre : list opt) bs id v code,
  0 <= n -> n < len a -> take a n = pre ++ [(NoResp.Model.NoResponseID, bs)] -> sorted (take a n) ->
  Forall (fun x => oid x < NoResp.Model.NoResponseID) pre -> id < NoResp.Model.NoResponseID ->
  lazy_session a n [EAdd id v] code = false.
Proof. exact lazy_lookup_loses_option. Qed.
Print Assumptions C20_edit_lazy_lookup_loses_option.

Theorem C20_edit_lazy_lookup_refuted : exists (a : list opt) n es code (pre : list opt) bs,
  take a n = pre ++ [(NoResp.Model.NoResponseID, bs)] /\
  spec_suppressed code (NoResp.Model.decode_uint32 bs) = true /\
  fst (session a n es code) = true /\
  lazy_session a n es code = false.
Proof. exact lazy_lookup_refuted. Qed.
Print Assumptions C20_edit_lazy_lookup_refuted.

(* non-vacuity: GET /seed with No-Response = 2 in a 16-slot array whose free slots hold stale options; the
   handler adds Uri-Query "via=gw", sets Uri-Host and strips No-Response: the request it passes on is
   [Uri-Host; Uri-Path; Uri-Query], its own 2.05 is refused (CON: bare ACK), its 4.04 goes out *)
Example C20_edit_instance :
  let a := [(11, [115; 101; 101; 100]); (258, [2])] ++ repeat (2000, [224]) 14 in
  let es := [EAdd 15 [118; 105; 97]; ESet 3 [103; 119]; ERemove 258] in
  w_live (snd (session a 2 es 69)) = [(3, [103; 119]); (11, [115; 101; 101; 100]); (15, [118; 105; 97])] /\
  alias_view (snd (session a 2 es 69)) 2 = [(3, [103; 119]); (11, [115; 101; 101; 100])] /\
  fst (session a 2 es 69) = true /\ fst (session a 2 es 132) = false /\
  o_out (snd (fst (estep (init 7) CON 21 [9] 1 a 2 es (BResp 69 [] [1])))) = [bare_ack 21] /\
  map w_code (o_out (snd (fst (estep (init 7) CON 21 [9] 1 a 2 es (BResp 132 [] [1]))))) = [132].
Proof. vm_compute. repeat split. Qed.

(* ---- requests as they arrive: raw bytes of any peer, any request method (NoResp/RawModel.v: the receive
   path from the bytes -- pool.Message.UnmarshalWithDecoder, udp/tcp coder, Options.Unmarshal with its skip of
   options of illegal length -- to the response writer and the wire; NoResp/RawSpec.v: what a request carries) ---- *)
From GoCoap Require Import Gen.OptionDefs Codec.Options Codec.Udp Codec.Spec Codec.ProofsOpt.
From GoCoap Require Import NoResp.RawModel NoResp.RawSpec NoResp.RawProofs.

(* Options.Unmarshal, on the RFC 7252 encoding of ANY option list a sender can write (numbers in
   non-decreasing order, any lengths, legal for the option or not), with any option-definition table: the
   result is exactly the sub-list of the options the decoder keeps, each under the number its sender gave it --
   a skipped option still advances the number the deltas of the following options are added to *)
Theorem C20_raw_unmarshal_keeps_numbers : forall defs os fuel prev processed len cap acc rest,
  opts_enc_ok prev os -> rest_ok rest -> (length os < fuel)%nat -> len + blen os <= cap ->
  unmarshal_opts fuel defs (spec_options prev os ++ rest) prev processed len cap acc =
    Codec.Options.Ok (processed + blen (spec_options prev os) + rest_len rest, acc ++ filter (kept defs) os).
Proof. exact unmarshal_skip. Qed.
Print Assumptions C20_raw_unmarshal_keeps_numbers.

(* the writer made of the DECODED options decides as RFC 7967 says for the value the request CARRIES (first
   option 258 of legal length), whatever precedes or follows that option, for every response code *)
Theorem C20_raw_writer_exact : forall os code, opts_enc_ok 0 os -> 0 <= code ->
  NoResp.Model.rw_refuses (filter (kept CoapOptionDefs) os) code = spec_refuse os code.
Proof. exact raw_writer_exact. Qed.
Print Assumptions C20_raw_writer_exact.

(* the datagram coder hands the handler the request with exactly the kept options *)
Theorem C20_raw_udp_decode : forall m cap, raw_wf_udp m = true -> blen (m_opts m) <= cap ->
  udp_decode cap (spec_udp_bytes m) = Codec.Options.Ok (decoded m, blen (spec_udp_bytes m)).
Proof. exact udp_decode_raw. Qed.
Print Assumptions C20_raw_udp_decode.

(* wire clause on the BYTES, datagram transport: in every connection state, for every request a peer can
   send -- every request code 0.01-0.31 (FETCH, PATCH, iPATCH and unassigned ones included), CON or NON, every
   token, every carried option list of up to 16 options -- and every response code: suppressed by the carried
   value => the handler is called, its SetResponse is refused, and exactly the bare ACK (CON) / nothing (NON)
   is written *)
Theorem C20_raw_udp_suppressed : forall s m rc o p,
  raw_wf_udp m = true -> blen (m_opts m) <= PoolOptionsCap ->
  (m_typ m = CON \/ m_typ m = NON) -> is_request_code (m_code m) = true ->
  req_lookup (m_typ m) (m_mid m) (cache s) = None -> 0 <= rc ->
  spec_refuse (m_opts m) rc = true ->
  exists s1 ob seen, raw_udp_step s (spec_udp_bytes m) (BResp rc o p) = Some (s1, ob, seen) /\
    o_called ob = true /\ NoResp.Model.rw_refuses seen rc = true /\
    o_out ob = (if m_typ m =? CON then [bare_ack (m_mid m)] else []).
Proof. exact raw_udp_suppressed. Qed.
Print Assumptions C20_raw_udp_suppressed.

(* ... not suppressed => accepted, and the response goes out with its code, the request's token, its payload *)
Theorem C20_raw_udp_passed : forall s m rc o p,
  raw_wf_udp m = true -> blen (m_opts m) <= PoolOptionsCap ->
  (m_typ m = CON \/ m_typ m = NON) -> is_request_code (m_code m) = true ->
  req_lookup (m_typ m) (m_mid m) (cache s) = None -> 0 <= rc ->
  spec_refuse (m_opts m) rc = false ->
  exists s1 ob seen r, raw_udp_step s (spec_udp_bytes m) (BResp rc o p) = Some (s1, ob, seen) /\
    o_called ob = true /\ NoResp.Model.rw_refuses seen rc = false /\
    o_out ob = [r] /\ w_code r = rc /\ w_tok r = m_tok m /\ w_pay r = p.
Proof. exact raw_udp_passed. Qed.
Print Assumptions C20_raw_udp_passed.

(* stream transport: what tcp/client.Conn.ProcessReceivedMessageWithHandler writes for a decoded request *)
Theorem C20_raw_tcp_process_exact : forall tok os rc o p, opts_enc_ok 0 os -> 0 <= rc ->
  tcp_process tok (filter (kept CoapOptionDefs) os) (BResp rc o p) =
    if spec_refuse os rc then []
    else [{| t_code := rc; t_tok := tok; t_opts := match p with [] => o | _ => set_cf o end; t_pay := p |}].
Proof. exact raw_tcp_process_exact. Qed.
Print Assumptions C20_raw_tcp_process_exact.

(* ... and on the BYTES of a request frame: the stream coder hands over exactly the kept options, and for every
   request code and every carried option list (up to 16 options) nothing is written when the carried value
   suppresses the class of the response; otherwise the response with its code, the request's token, its payload *)
Theorem C20_raw_tcp_decode : forall m cap, raw_wf_tcp_msg m = true -> blen (m_opts m) <= cap ->
  Codec.Tcp.tcp_decode cap (spec_tcp_bytes m) = Codec.Options.Ok (decoded_tcp m, blen (spec_tcp_bytes m)).
Proof. exact tcp_decode_raw. Qed.
Print Assumptions C20_raw_tcp_decode.

Theorem C20_raw_tcp_exact : forall m rc o p, raw_wf_tcp_msg m = true -> blen (m_opts m) <= PoolOptionsCap ->
  is_request_code (m_code m) = true -> 0 <= rc ->
  raw_tcp_step (spec_tcp_bytes m) (BResp rc o p) =
    Some ((if spec_refuse (m_opts m) rc then []
           else [{| t_code := rc; t_tok := m_tok m; t_opts := match p with [] => o | _ => set_cf o end; t_pay := p |}]),
          filter (kept CoapOptionDefs) (m_opts m)).
Proof. exact raw_tcp_exact. Qed.
Print Assumptions C20_raw_tcp_exact.

(* non-vacuity: CON FETCH /a with Accept of three bytes (skipped by the decoder) in front of No-Response = 2:
   the handler sees [Uri-Path; No-Response], its 2.05 is refused and only the bare ACK is written; its 4.04 goes out *)
Example C20_raw_instance :
  let m := {| m_tok := [170; 188]; m_code := 5; m_opts := [(11, [97]); (17, [0; 0; 50]); (258, [2])]; m_pay := [123; 125];
              m_mid := 4661; m_typ := 0 |} in
  raw_wf_udp m = true /\
  spec_udp_bytes m = [66; 5; 18; 53; 170; 188; 177; 97; 99; 0; 0; 50; 209; 228; 2; 255; 123; 125] /\
  spec_refuse (m_opts m) 69 = true /\
  (match raw_udp_step (init 7) (spec_udp_bytes m) (BResp 69 [] [1]) with
   | Some (_, ob, seen) => seen = [(11, [97]); (258, [2])] /\ o_out ob = [bare_ack 4661]
   | None => False end) /\
  (match raw_udp_step (init 7) (spec_udp_bytes m) (BResp 132 [] [1]) with
   | Some (_, ob, _) => map w_code (o_out ob) = [132]
   | None => False end).
Proof. vm_compute. repeat split. Qed.

(* ---------- Block1 uploads whose first and last block carry DIFFERENT No-Response options ---------- *)
From GoCoap Require Import Block.Model.

(* the response of an upload answers the request that carries the LAST block (RFC 7959): for every pair of first
   blocks -- i.e. whatever No-Response option the first block carries, which is the one the handler is shown -- the
   outcome is the same, and the response is refused exactly when the LAST datagram's options suppress its class *)
Theorem C20_bw_upload_final_request_decides : forall c b tok code szx o0 o0' p0 mids ol pl rc ro p,
  (code =? POST) || (code =? PUT) = true -> 0 <= szx <= c_szx c -> c_szx c <= 7 ->
  tget (rcvc b) tok = None ->
  block1_is o0 szx 0 true -> block1_is o0' szx 0 true -> blen p0 = size szx ->
  mids_ok szx 1 mids ->
  block1_is ol szx (1 + blen mids) false ->
  blen p < size szx ->
  let beh := BResp rc ro p in
  let run := fun o => bw_handle c (fst (feed c (b_bw (bw_handle c b tok code o p0 beh)) tok code mids beh)) tok code ol pl beh in
  b_res (run o0) = b_res (run o0') /\
  (b_res (run o0) = None <-> rw_refuses ol rc = true).
Proof. exact upload_final_request_decides. Qed.
Print Assumptions C20_bw_upload_final_request_decides.

Theorem C20_bw_upload_passed : forall c b tok code szx o0 p0 mids ol pl rc ro p,
  (code =? POST) || (code =? PUT) = true -> 0 <= szx <= c_szx c -> c_szx c <= 7 ->
  tget (rcvc b) tok = None ->
  block1_is o0 szx 0 true -> blen p0 = size szx ->
  mids_ok szx 1 mids ->
  block1_is ol szx (1 + blen mids) false ->
  rw_refuses ol rc = false -> blen p < size szx ->
  let beh := BResp rc ro p in
  let x0 := bw_handle c b tok code o0 p0 beh in
  let f := feed c (b_bw x0) tok code mids beh in
  let r := bw_handle c (fst f) tok code ol pl beh in
  exists h, b_res r = Some h /\ h_code h = rc /\ h_tok h = tok /\ h_pay h = p.
Proof. exact upload_passed. Qed.
Print Assumptions C20_bw_upload_passed.

(* ---------- handlers that call SetResponse several times on one writer (NoResp/SeqModel.v) ---------- *)
From GoCoap Require Import NoResp.SeqModel NoResp.SeqProofs.

(* what a SetResponse call returns depends on ITS code only: the writer has no memory of earlier attempts ... *)
Theorem C20_seq_refusals_stateless : forall nv l m,
  snd (run_attempts nv m l) = map (fun a => nv_refuses nv (a_code a)) l.
Proof. exact seq_refusals_stateless. Qed.
Print Assumptions C20_seq_refusals_stateless.

(* ... and is the RFC 7967 decision on the value the request carries, for EVERY attempt of EVERY sequence *)
Theorem C20_seq_attempt_exact : forall pre bs post code0 l k a,
  Forall (fun b => 0 <= b) bs ->
  Forall (fun o => fst o <> NoResp.Model.NoResponseID) pre ->
  nth_error l k = Some a -> 0 <= a_code a ->
  nth_error (snd (seq_session (pre ++ (NoResp.Model.NoResponseID, bs) :: post) code0 l)) k =
    Some (spec_suppressed (a_code a) (NoResp.Model.decode_uint32 bs)).
Proof. exact seq_attempt_exact. Qed.
Print Assumptions C20_seq_attempt_exact.

Theorem C20_seq_attempt_without_option : forall reqopts code0 l,
  NoResp.Model.get_uint32 reqopts NoResp.Model.NoResponseID = None ->
  snd (seq_session reqopts code0 l) = map (fun _ => false) l.
Proof. exact seq_attempt_without_option. Qed.
Print Assumptions C20_seq_attempt_without_option.

(* refused attempts leave the response untouched; the response in the writer is the one of the LAST accepted attempt *)
Theorem C20_seq_all_refused : forall nv l m,
  Forall (fun a => nv_refuses nv (a_code a) = true) l -> fst (run_attempts nv m l) = m.
Proof. exact seq_all_refused. Qed.
Print Assumptions C20_seq_all_refused.

Theorem C20_seq_last_accepted : forall nv l1 a l2 m,
  nv_refuses nv (a_code a) = false ->
  Forall (fun x => nv_refuses nv (a_code x) = true) l2 ->
  let m' := fst (run_attempts nv m (l1 ++ a :: l2)) in
  rm_mod m' = true /\ rm_code m' = a_code a /\
  rm_opts m' = (match a_body a with Some _ => set_cf (a_opts a) | None => a_opts a end) /\
  (forall p, a_body a = Some p -> rm_pay m' = p).
Proof. exact seq_last_accepted. Qed.
Print Assumptions C20_seq_last_accepted.

(* a single attempt is the step of Dedup/Model.v; the wire for any number of attempts *)
Theorem C20_seq_single_is_step : forall s typ mid tok code reqopts rc o p,
  fst (sstep s typ mid tok code reqopts [attempt_of rc o p]) = step s (Req typ mid tok code reqopts (BResp rc o p)).
Proof. exact sstep_single_is_step. Qed.
Print Assumptions C20_seq_single_is_step.

Theorem C20_seq_wire_all_suppressed : forall s typ mid tok code reqopts l,
  (if is_cacheable_typ typ then cache_load (cache s) mid else None) = None ->
  Forall (fun a => rw_refuses reqopts (a_code a) = true) l ->
  o_out (snd (fst (sstep s typ mid tok code reqopts l))) = (if typ =? CON then [bare_ack mid] else []).
Proof. exact seq_wire_all_suppressed. Qed.
Print Assumptions C20_seq_wire_all_suppressed.

Theorem C20_seq_wire_last_accepted : forall s typ mid tok code reqopts l1 a l2,
  (if is_cacheable_typ typ then cache_load (cache s) mid else None) = None ->
  rw_refuses reqopts (a_code a) = false ->
  Forall (fun x => rw_refuses reqopts (a_code x) = true) l2 ->
  exists r, o_out (snd (fst (sstep s typ mid tok code reqopts (l1 ++ a :: l2)))) = [r] /\
            w_code r = a_code a /\ w_tok r = tok /\ (forall p, a_body a = Some p -> w_pay r = p).
Proof. exact seq_wire_last_accepted. Qed.
Print Assumptions C20_seq_wire_last_accepted.

(* a writer that remembers a refusal ("evaluate the option once") refuses an attempt the RFC does not suppress *)
Theorem C20_seq_memo_refuted :
  exists nv l k a, nth_error l k = Some a /\ nv_refuses nv (a_code a) = false /\
                   nth_error (memo_refusals nv l) k = Some true.
Proof. exact seq_memo_refuted. Qed.
Print Assumptions C20_seq_memo_refuted.

(* non-vacuity: CON GET with No-Response = 2; the handler tries 2.05 (refused), then 5.00 with a body: the 5.00 goes out
   piggybacked; with 2.05 and 2.04 only the bare ACK is written *)
Example C20_seq_instance :
  let ro := [(11, [97]); (258, [2])] in
  snd (seq_session ro 0 [attempt_of 69 [] []; attempt_of 160 [] [1; 2]]) = [true; false] /\
  (exists r, o_out (snd (fst (sstep (init 7) 0 4660 [171] 1 ro [attempt_of 69 [] []; attempt_of 160 [] [1; 2]]))) = [r]
             /\ w_code r = 160 /\ w_pay r = [1; 2] /\ w_typ r = ACK) /\
  o_out (snd (fst (sstep (init 7) 0 4660 [171] 1 ro [attempt_of 69 [] []; attempt_of 68 [] []]))) = [bare_ack 4660].
Proof. vm_compute. split; [reflexivity|]. split; [eexists; repeat split|reflexivity]. Qed.
