(* C20 -- No-Response suppression follows RFC 7967 for every value and code.
   Statements only; proofs in NoResp/Proofs.v. *)
From Coq Require Import ZArith List Bool.
From GoCoap Require Import NoResp.Model NoResp.Spec NoResp.Proofs.
Import ListNotations.
Open Scope Z_scope.

(* for EVERY code and EVERY option value (no bound), the decision is the RFC's *)
Theorem C20_exact : forall code v, 0 <= code -> 0 <= v ->
  is_suppressed code v = spec_suppressed code v.
Proof. exact suppressed_exact. Qed.
Print Assumptions C20_exact.

Theorem C20_low_bits : forall code v, 0 <= code -> 0 <= v ->
  is_suppressed code v = is_suppressed code (v mod 32).
Proof. exact suppressed_low_bits. Qed.
Print Assumptions C20_low_bits.

Theorem C20_other_classes_pass : forall code v, 0 <= code -> 0 <= v ->
  class_of code <> 2 -> class_of code <> 4 -> class_of code <> 5 -> is_suppressed code v = false.
Proof. exact other_classes_pass. Qed.
Print Assumptions C20_other_classes_pass.

(* the response writer refuses exactly when the request's No-Response value says so *)
Theorem C20_writer_exact : forall pre bs post code,
  0 <= code -> Forall (fun b => 0 <= b) bs ->
  Forall (fun o => fst o <> NoResponseID) pre ->
  rw_refuses (pre ++ (NoResponseID, bs) :: post) code = spec_suppressed code (decode_uint32 bs).
Proof. exact rw_exact. Qed.
Print Assumptions C20_writer_exact.

Theorem C20_writer_without_option : forall opts code,
  get_uint32 opts NoResponseID = None -> rw_refuses opts code = false.
Proof. exact rw_without_option. Qed.
Print Assumptions C20_writer_without_option.

(* non-vacuity: 4.29 (157) with value 8, 2.31 (95) with 2, 5.00 with 16 are suppressed; 4.04 with 2 is not *)
Example C20_instances :
  is_suppressed 157 8 = true /\ is_suppressed 95 2 = true /\ is_suppressed 160 16 = true /\
  is_suppressed 132 2 = false /\ rw_refuses [(11, [1]); (258, [26])] 136 = true.
Proof. vm_compute. repeat split. Qed.

(* ---- wire clause, on the datagram connection model (Dedup/Model.v) ---- *)
From GoCoap Require Import Dedup.Model Dedup.Proofs.

(* a suppressed response is never put on the wire: a confirmable request still gets exactly its
   bare acknowledgement, a non-confirmable one gets nothing *)
Theorem C20_wire_suppressed : forall s typ mid tok code ro rc o p,
  (if is_cacheable_typ typ then cache_load (cache s) mid else None) = None ->
  rw_refuses ro rc = true ->
  o_out (snd (step s (Req typ mid tok code ro (BResp rc o p)))) = (if typ =? CON then [bare_ack mid] else []).
Proof. exact wire_suppressed. Qed.
Print Assumptions C20_wire_suppressed.

(* a response of a class that was not suppressed is never dropped *)
Theorem C20_wire_passed : forall s typ mid tok code ro rc o p,
  (if is_cacheable_typ typ then cache_load (cache s) mid else None) = None ->
  rw_refuses ro rc = false ->
  exists r, o_out (snd (step s (Req typ mid tok code ro (BResp rc o p)))) = [r] /\ w_code r = rc /\ w_tok r = tok /\ w_pay r = p.
Proof. exact wire_passed. Qed.
Print Assumptions C20_wire_passed.
