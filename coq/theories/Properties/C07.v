(* C07 -- Stream framing is independent of how bytes are segmented.
   Statements only; proofs are in Stream/Proofs.v. The model (Stream/Model.v:
   DecodeHeader, the option walk of Options.Unmarshal, processBuffer/Run of the
   tcp session) is stated over Gen.StreamConsts, regenerated from /repo on every
   run; Spec (Stream/Spec.v) is the RFC 8323 / RFC 7252 encoding of messages.
   [feed max s c] = one Read returning the bytes c followed by processBuffer;
   a chunking of a stream is any list of byte strings whose concatenation is
   the stream (empty reads included); the read-buffer size only bounds the
   chunk lengths, so "all chunkings" covers every connection cache size. *)
From Coq Require Import ZArith List Bool.
From GoCoap Require Import Base.Bytes Gen.StreamConsts Stream.Model Stream.Spec Stream.Proofs.
Import ListNotations.
Open Scope Z_scope.

(* two reads are one read of the concatenation -- from any state, failed or not *)
Theorem C07_feed_app : forall max s a c, feed max (feed max s a) c = feed max s (a ++ c).
Proof. exact feed_app_step. Qed.
Print Assumptions C07_feed_app.

(* for ALL chunkings: the connection ends in the state of one read of the whole stream *)
Theorem C07_segmentation : forall max (cs : list (list Z)),
  fold_left (feed max) cs init = feed max init (concat cs).
Proof. exact segmentation_step. Qed.
Print Assumptions C07_segmentation.

(* DecodeHeader answers ErrShortRead exactly on the proper prefixes of a header
   (and the full answer on every longer prefix) *)
Theorem C07_header_prefix : forall b hlen mlen code tkl,
  decode_header b = HOk hlen mlen code tkl ->
  forall n, decode_header (firstn n b) = if Z.of_nat n <? hlen then HShort else HOk hlen mlen code tkl.
Proof. exact (header_prefix true). Qed.
Print Assumptions C07_header_prefix.

(* a decided header answer (accepted or refused) never changes when more bytes arrive *)
Theorem C07_header_stable : forall b c, decode_header b <> HShort -> decode_header (b ++ c) = decode_header b.
Proof. exact (decode_header_stable true). Qed.
Print Assumptions C07_header_stable.

(* exactness: the stream is the concatenation of encoded messages, all within the
   limit => for every chunking exactly these messages are delivered, each once,
   in order, complete (code, token, payload), nothing is left in the buffer and
   the connection is still running *)
Theorem C07_exact : forall max fs (cs : list (list Z)),
  max <= messageMaxLen + 65805 ->
  (forall f, In f fs -> frame_wf f = true /\ frame_size f <= max) ->
  concat cs = concat (map encode_frame fs) ->
  fold_left (feed max) cs init = MkState [] (map item_of fs) Running.
Proof.
  intros max fs cs Hmax Hgood Hcs. rewrite segmentation_step, Hcs. apply exact; assumption.
Qed.
Print Assumptions C07_exact.

(* oversize: k good messages, then a frame start [hdr] that -- read per RFC 8323
   in unbounded arithmetic -- declares more than max, then anything. For every
   chunking the first k messages are delivered and nothing else, and the
   connection has failed; it has failed already when only the header bytes of
   the offending frame are there (tail = []), i.e. without waiting for the body. *)
Theorem C07_oversize : forall max fs hdr h total,
  0 <= max < W32 -> max <= messageMaxLen + 65805 ->
  (forall f, In f fs -> frame_wf f = true /\ frame_size f <= max) ->
  bytes_ok hdr = true -> declared hdr = Some (h, total) -> h <= blen hdr -> max < total ->
  exists e, forall tail (cs : list (list Z)),
    concat cs = concat (map encode_frame fs) ++ hdr ++ tail ->
    fold_left (feed max) cs init = MkState [] (map item_of fs) (Failed e).
Proof.
  intros max fs hdr h total Hmax Hmm Hgood Hok Hd Hh Hov.
  destruct (oversize max fs hdr h total Hmax Hmm Hgood Hok Hd Hh Hov) as [e He].
  exists e. intros tail cs Hcs. rewrite segmentation_step, Hcs. apply He.
Qed.
Print Assumptions C07_oversize.

(* promptness: as soon as the reads so far (cs1) cover the offending header --
   with none, some or all of its body (t) -- the connection has failed and its
   buffer is dropped; later reads (cs2: the oversize body, later frames) change
   nothing. So the body is neither waited for nor buffered. *)
Theorem C07_oversize_prompt : forall max fs hdr h total,
  0 <= max < W32 -> max <= messageMaxLen + 65805 ->
  (forall f, In f fs -> frame_wf f = true /\ frame_size f <= max) ->
  bytes_ok hdr = true -> declared hdr = Some (h, total) -> h <= blen hdr -> max < total ->
  exists e, forall t (cs1 cs2 : list (list Z)),
    concat cs1 = concat (map encode_frame fs) ++ hdr ++ t ->
    fold_left (feed max) cs1 init = MkState [] (map item_of fs) (Failed e) /\
    fold_left (feed max) (cs1 ++ cs2) init = MkState [] (map item_of fs) (Failed e).
Proof. exact oversize_prompt. Qed.
Print Assumptions C07_oversize_prompt.

(* the same for an oversize message produced by a conforming encoder: it is
   refused at its header, whatever part of its body and whatever else follows *)
Theorem C07_oversize_message : forall max fs g,
  0 <= max < W32 -> max <= messageMaxLen + 65805 ->
  (forall f, In f fs -> frame_wf f = true /\ frame_size f <= max) ->
  frame_wf g = true -> blen (body g) - 65805 <= messageMaxLen -> max < frame_size g ->
  forall tail (cs : list (list Z)),
    concat cs = concat (map encode_frame fs) ++ firstn (Z.to_nat (frame_size g - blen (body g))) (encode_frame g) ++ tail ->
    fold_left (feed max) cs init = MkState [] (map item_of fs) (Failed Oversize).
Proof. exact oversize_message. Qed.
Print Assumptions C07_oversize_message.

(* once failed, no later chunk changes anything (in particular not the delivered log) *)
Theorem C07_failed_absorbing : forall max (cs : list (list Z)) s, running s = false ->
  fold_left (feed max) cs s = s.
Proof. intros max. exact (failed_absorbing (step max)). Qed.
Print Assumptions C07_failed_absorbing.

(* deliveries only ever extend the log: nothing is withdrawn, and at no point of
   a run is anything delivered that is not in the final log *)
Theorem C07_delivery_monotone : forall max s c, exists l, out (feed max s c) = out s ++ l.
Proof. exact feed_out_extends. Qed.
Print Assumptions C07_delivery_monotone.

(* F16, before the repair: with the header arithmetic as it was (uint32 wrap, no
   limit on the 4-byte extended length) the oversize clause is false *)
Theorem C07_oversize_refuted_before_fix :
  exists max hdr h total tail,
    bytes_ok hdr = true /\ declared hdr = Some (h, total) /\ h <= blen hdr /\ 0 <= max < W32 /\ max < total /\
    running (feed_unrepaired max init (hdr ++ tail)) = true /\
    length (out (feed_unrepaired max init (hdr ++ tail))) = 2%nat.
Proof. exact unrepaired_refuted. Qed.
Print Assumptions C07_oversize_refuted_before_fix.

(* non-vacuity: a three-message stream (13-byte-class body, signalling message,
   options + payload) cut inside headers satisfies the hypotheses of C07_exact,
   and an oversize header those of C07_oversize *)
Example C07_hypotheses_satisfiable :
  let f1 := MkFrame 69 [1; 2] [] (gen_body 3 20) in
  let f2 := MkFrame 226 [] [] [] in
  let f3 := MkFrame 1 [9] [(11, [97; 98]); (0, [99])] [7] in
  let s := concat (map encode_frame [f1; f2; f3]) in
  (forall f, In f [f1; f2; f3] -> frame_wf f = true /\ frame_size f <= 64) /\
  fold_left (feed 64) [firstn 1 s; firstn 2 (skipn 1 s); []; skipn 3 s] init =
    MkState [] (map item_of [f1; f2; f3]) Running /\
  declared [240; 255; 254; 254; 243; 69] = Some (6, 4294967302) /\
  feed 64 init (s ++ [240; 255; 254; 254; 243; 69]) = MkState [] (map item_of [f1; f2; f3]) (Failed (BadHeader ErrInvalidEncoding)).
Proof.
  cbv zeta. split; [|vm_compute; repeat split].
  intros f [<-|[<-|[<-|[]]]]; vm_compute; split; congruence.
Qed.
