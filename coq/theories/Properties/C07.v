From Coq Require Import ZArith List Bool.
From GoCoap Require Import Stream.Model Stream.Spec Stream.Proofs.
Theorem C07_placeholder : True. Proof. exact placeholder. Qed.
Print Assumptions C07_placeholder.
