(* C16 -- parallel-request limits are never exceeded and never leak. *)
From Coq Require Import ZArith NArith List Bool.
From GoCoap Require Import Limiter.Model Limiter.Spec Limiter.Proofs.
Import ListNotations.
Open Scope Z_scope.

Theorem C16_endpoint_limit_refuted_before_repair :
  exists tr, let l := fold_left step_pre tr (new_lim 0 1) in n_inflight l 0 > eplimit l.
Proof. exact endpoint_limit_refuted_pre. Qed.
Print Assumptions C16_endpoint_limit_refuted_before_repair.
