(* C16 -- Parallel-request limits are never exceeded and never leak.
   Statements only; proofs in Limiter/Proofs.v.

   [run (new_lim limit epl) tr] is the state of limitparallelrequests.New(limit, epl, ..) after the
   schedule [tr]: an arbitrary list of atomic actions (Limiter/Model.v) of arbitrarily many request
   goroutines -- arrivals, completions of the wrapped function, context cancellations and every
   internal section of acquireEndpoint / cancelEndpoint / releaseEndpoint / semaphore.Acquire /
   Release, in any interleaving, including both outcomes of a select with two ready channels.
   An action that is not enabled is a no-op, so the quantification is over all executions.

   statuses (Limiter/Proofs.v):  waits_ep  = the request's channel is queued for its path;
   holds_ep = the request owns a slot of its path; in_flight = it is inside the wrapped function. *)
From Coq Require Import ZArith NArith List Bool.
From GoCoap Require Import Limiter.Model Limiter.Spec Limiter.Proofs.
Import ListNotations.
Open Scope Z_scope.

(* at every instant, per path at most the endpoint limit (any duplicate-free set of requests rs) *)
Theorem C16_endpoint_limit : forall limit epl tr k rs, 0 < epl -> NoDup rs ->
  count_where (in_flight_on (run (new_lim limit epl) tr) k) rs <= epl.
Proof. exact endpoint_limit. Qed.
Print Assumptions C16_endpoint_limit.

(* at every instant, in total at most the total limit *)
Theorem C16_total_limit : forall limit epl tr rs, 0 < limit -> NoDup rs ->
  count_where (in_flight (run (new_lim limit epl) tr)) rs <= limit.
Proof. exact total_limit. Qed.
Print Assumptions C16_total_limit.

(* arrival order: whenever an action turns a waiting request w into the owner of a slot, every
   request for the same path that arrived before w ([arr] is the arrival log) is no longer
   waiting: it was admitted earlier or has withdrawn *)
Theorem C16_fifo : forall limit epl tr a w,
  let l := run (new_lim limit epl) tr in
  waits_ep (st l w) = true -> holds_ep (st (step l a) w) = true ->
  forall pre post, arr l = pre ++ w :: post ->
  forall r', In r' pre -> keyof l r' = keyof l w -> waits_ep (st l r') = false.
Proof. exact arrival_order. Qed.
Print Assumptions C16_fifo.

(* a cancelled waiter owns nothing and moves nothing: taking the ctx.Done branch changes only its
   own program counter ... *)
Theorem C16_cancel_neutral_select : forall limit epl tr r,
  let l := run (new_lim limit epl) tr in
  st l r = EpWait -> cancelled l r = true ->
  let l' := step l (SeeCancel r) in
  st l' r = CancelQ /\ (forall x, x <> r -> st l' x = st l x) /\ tab l' = tab l /\ held l' = held l /\ semq l' = semq l.
Proof. exact cancel_sees. Qed.
Print Assumptions C16_cancel_neutral_select.

(* ... and its cancelEndpoint section (whatever happened in between, as long as its channel is
   still queued) removes exactly its own channel: no other request changes, every counter and
   every other queue is unchanged, the semaphore is untouched, and it returns the error *)
Theorem C16_cancel_neutral : forall limit epl tr r,
  let l := run (new_lim limit epl) tr in
  st l r = CancelQ ->
  let l' := step l (CancelSec r) in
  st l' r = Done ErrEp /\ (forall x, x <> r -> st l' x = st l x) /\
  (forall k, k <> keyof l r -> tab l' k = tab l k) /\
  (exists cnt q, tab l (keyof l r) = Some (cnt, q) /\ In r q /\ tab l' (keyof l r) = Some (cnt, rem1 r q)) /\
  held l' = held l /\ semq l' = semq l.
Proof. exact cancel_withdraws. Qed.
Print Assumptions C16_cancel_neutral.

(* once all calls have returned the limiter is idle: no table entry, no unit taken, nobody queued *)
Theorem C16_idle : forall limit epl tr,
  let l := run (new_lim limit epl) tr in
  all_done l -> (forall k, tab l k = None) /\ held l = 0 /\ semq l = [].
Proof. exact idle. Qed.
Print Assumptions C16_idle.

(* ... so that a new request is admitted immediately: its own three steps take it into the
   wrapped function *)
Theorem C16_idle_admits : forall limit epl tr r k,
  let l := run (new_lim limit epl) tr in
  all_done l -> st l r = NotYet -> cancelled l r = false ->
  st (run l [Arrive r k; SeeGrant r; AcquireTot r]) r = InFlight.
Proof. exact idle_admits. Qed.
Print Assumptions C16_idle_admits.

(* never leak, at every instant: when all goroutines are at rest and somebody waits (for its path
   or for the total limit), some request is inside the wrapped function -- every wait ends with a
   completion, no slot is lost *)
Theorem C16_no_lost_wakeup : forall limit epl tr,
  let l := run (new_lim limit epl) tr in
  quiescent l = true ->
  (exists r, In r (arr l) /\ (st l r = EpWait \/ st l r = TotWait)) ->
  exists r', In r' (arr l) /\ st l r' = InFlight.
Proof. exact at_rest_progress. Qed.
Print Assumptions C16_no_lost_wakeup.

(* the inductive invariant behind all of the above (counter = owners, queue = waiters in arrival
   order, semaphore = owners of a unit / requests in its waiter list) *)
Theorem C16_invariant : forall limit epl tr, Inv (run (new_lim limit epl) tr).
Proof. exact reach_inv. Qed.
Print Assumptions C16_invariant.

(* regression for F10: the model of the code BEFORE the repair exceeds endpoint limit 1 *)
Theorem C16_endpoint_limit_refuted_before_repair :
  exists tr, let l := fold_left step_pre tr (new_lim 0 1) in
    count_where (in_flight_on l 0%N) (arr l) > eplimit l.
Proof. exact endpoint_limit_refuted_pre. Qed.
Print Assumptions C16_endpoint_limit_refuted_before_repair.

(* a cancelled waiter gives away only a slot it owns.  cancelEndpoint decides by looking for the
   request's channel in the queue; at that section, in EVERY reachable state (however long the
   goroutine was delayed after its select took <-ctx.Done(), whatever the others did meanwhile),
   the channel is queued exactly when the request owns no slot (CancelQ), and absent exactly when
   a releaseEndpoint has handed it one (CancelG): then the request is among the slot owners that
   processedCounter counts *)
Theorem C16_cancel_section_inference : forall limit epl tr r,
  let l := run (new_lim limit epl) tr in
  st l r = CancelQ \/ st l r = CancelG ->
  exists cnt q, tab l (keyof l r) = Some (cnt, q) /\
    cnt = Z.of_nat (length (selK holds_ep (keyof l) (st l) (arr l) (keyof l r))) /\
    q = selK waits_ep (keyof l) (st l) (arr l) (keyof l r) /\
    (In r q <-> st l r = CancelQ) /\ (~ In r q <-> st l r = CancelG) /\
    (st l r = CancelG -> In r (selK holds_ep (keyof l) (st l) (arr l) (keyof l r))).
Proof. exact cancel_section_inference. Qed.
Print Assumptions C16_cancel_section_inference.

(* ... and in the second case its two sections (cancelEndpoint, releaseEndpoint) pass on exactly
   that one slot: nothing changes in the first; in the second the head of the queue is granted and
   the slot count stays, or -- nobody queued -- the count drops by one (entry deleted at 0); no
   other request, no other path, not the semaphore changes; the request returns the error and the
   accounting invariant holds again *)
Theorem C16_cancel_granted_passes_own_slot : forall limit epl tr r,
  let l := run (new_lim limit epl) tr in
  st l r = CancelG ->
  let l1 := step l (CancelSec r) in
  let l2 := step l1 (ReleaseEp r) in
  let k := keyof l r in
  st l1 r = RelEp ErrEp /\ (forall x, x <> r -> st l1 x = st l x) /\ tab l1 = tab l /\
  held l1 = held l /\ semq l1 = semq l /\
  st l2 r = Done ErrEp /\ held l2 = held l /\ semq l2 = semq l /\
  (forall k', k' <> k -> tab l2 k' = tab l k') /\
  (exists cnt q, tab l k = Some (cnt, q) /\ 1 <= cnt /\ ~ In r q /\
     match q with
     | w :: rest => tab l2 k = Some (cnt, rest) /\ st l2 w = grant_ep (st l w) /\
                    (forall x, x <> r -> x <> w -> st l2 x = st l x)
     | [] => tab l2 k = (if cnt - 1 =? 0 then None else Some (cnt - 1, [])) /\
             (forall x, x <> r -> st l2 x = st l x)
     end) /\
  Inv l2.
Proof. exact cancel_granted_passes_own_slot. Qed.
Print Assumptions C16_cancel_granted_passes_own_slot.

(* the scheduler of the correspondence with delayed goroutines (Run.do_ev) performs only actions of
   the model and none of a goroutine that is held back *)
Theorem C16_delayed_schedule_is_a_run : forall fuel hold l,
  exists tr, settle_hold fuel hold l = run l tr /\ forall a, In a tr -> mem (actor a) hold = false.
Proof. exact settle_hold_skips. Qed.
Print Assumptions C16_delayed_schedule_is_a_run.

(* why the blind hand-over to the head of the queue is needed: a releaseEndpoint that skips queued
   waiters whose context is already done (rest of the code unchanged) exceeds endpoint limit 1 *)
Theorem C16_skipping_cancelled_waiters_refuted :
  exists tr, let l := fold_left step_skip tr (new_lim 0 1) in
    count_where (in_flight_on l 0%N) (arr l) > eplimit l.
Proof. exact skip_cancelled_refuted. Qed.
Print Assumptions C16_skipping_cancelled_waiters_refuted.

(* non-vacuity: endpoint limit 1, total limit 2, two paths.  A, B, C arrive for path 0 and D for
   path 1; C is cancelled while queued (both select outcomes are exercised: B is granted while it
   is cancelling too).  The hypotheses of the theorems above are met along the way: a request
   waits, a waiter is in CancelQ, a grant happens, and in the end all are done. *)
Example C16_instance :
  let tr := [Arrive 0 0; SeeGrant 0; AcquireTot 0; Arrive 1 0; Arrive 2 0; Arrive 3 1; SeeGrant 3; AcquireTot 3;
             Cancel 2; SeeCancel 2]%N in
  let l := run (new_lim 2 1) tr in
  st l 0%N = InFlight /\ st l 1%N = EpWait /\ st l 2%N = CancelQ /\ st l 3%N = InFlight /\
  tab l 0%N = Some (1, [1; 2]%N) /\ held l = 2 /\
  let l2 := run l [CancelSec 2; Finish 0; ReleaseTot 0; ReleaseEp 0; SeeGrant 1; AcquireTot 1; Finish 1; Finish 3;
                   ReleaseTot 1; ReleaseTot 3; ReleaseEp 3; ReleaseEp 1]%N in
  tab l2 0%N = None /\ tab l2 1%N = None /\ held l2 = 0 /\ st l2 1%N = Done Ok /\ st l2 2%N = Done ErrEp.
Proof. vm_compute. repeat split. Qed.

(* non-vacuity of the delayed-waiter theorems: limit 1, request 0 in flight, 1 and 2 queued; 1 is
   cancelled and takes the ctx.Done branch (CancelQ), then 0 finishes and its releaseEndpoint hands
   the slot to 1 (CancelG, 2 keeps waiting); 1's cancelEndpoint + releaseEndpoint pass it on to 2 *)
Example C16_instance_delayed :
  let tr := [Arrive 0 0; SeeGrant 0; AcquireTot 0; Arrive 1 0; Arrive 2 0; Cancel 1; SeeCancel 1;
             Finish 0; ReleaseTot 0; ReleaseEp 0]%N in
  let l := run (new_lim 0 1) tr in
  st l 1%N = CancelG /\ st l 2%N = EpWait /\ tab l 0%N = Some (1, [2]%N) /\
  let l2 := run l [CancelSec 1; ReleaseEp 1; SeeGrant 2; AcquireTot 2]%N in
  st l2 1%N = Done ErrEp /\ st l2 2%N = InFlight /\ tab l2 0%N = Some (1, []).
Proof. vm_compute. repeat split. Qed.
