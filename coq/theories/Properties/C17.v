From Coq Require Import ZArith List Bool.
From GoCoap Require Import Router.Model Router.Spec Router.Proofs.
Import ListNotations.
Open Scope Z_scope.

Theorem C17_stub : forall p, filter_path p <> [].
Proof. exact filter_path_nonempty. Qed.
Print Assumptions C17_stub.
