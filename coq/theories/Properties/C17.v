(* C17 -- Router dispatches to a longest matching route, else the default.
   Statements only; proofs in Router/Proofs.v and Router/Fine.v.  Strings are byte lists; [L] is
   the denotational language of the modelled class of regular expressions;
   Go's regexp package is trusted to implement it (see notes/C17.md). *)
From Coq Require Import ZArith List Bool Permutation.
From GoCoap Require Import Router.Model Router.Spec Router.Proofs Router.Fine.
Import ListNotations.
Open Scope Z_scope.

(* the text regexp.QuoteMeta produces for a literal -- metacharacters included,
   any bytes -- compiles (no capture groups) and denotes exactly {s} *)
Theorem C17_quote : forall s : str,
  exists r, parse_re (quote_meta s) = Some (r, O) /\ forall v, L r v <-> v = s.
Proof. exact quote_meta_language. Qed.
Print Assumptions C17_quote.

(* the derivative matcher (stand-in for MatchString) decides the denotational language *)
Theorem C17_matcher_correct : forall s r, dmatch r s = true <-> L r s.
Proof. exact dmatch_correct. Qed.
Print Assumptions C17_matcher_correct.

(* the leftmost-first enumeration (stand-in for submatch search) lists exactly
   the prefixes in the language *)
Theorem C17_enumeration_correct : forall r s n,
  In n (ends r s) <-> (n <= length s)%nat /\ L r (firstn n s).
Proof. exact ends_spec. Qed.
Print Assumptions C17_enumeration_correct.

(* generic in the semantics of the user sub-expressions: for EVERY type of
   sub-expressions, language [lang] and priority enumeration [prio] of it,
   a compiled route matches a path iff the path decomposes, anchored at both
   ends, as lit0 ++ v1 ++ lit1 ++ ... with v_i in lang re_i *)
Theorem C17_match_iff_generic :
  forall (RE : Type) (prio : RE -> str -> list nat) (lang : RE -> str -> Prop),
  (forall r s n, In n (prio r s) <-> (n <= length s)%nat /\ lang r (firstn n s)) ->
  forall ps s, (exists vs, match_parts prio ps s = Some vs) <-> (exists vs, decomp RE lang ps s vs).
Proof.
  intros RE prio lang H ps s. split.
  - intros [vs E]. exists vs. exact (match_parts_sound RE prio lang H ps s vs E).
  - intros [vs D]. exact (match_parts_complete RE prio lang H ps s vs D).
Qed.
Print Assumptions C17_match_iff_generic.

(* the concrete route: pathMatch (MatchString) <-> entire-path decomposition *)
Theorem C17_match_iff : forall r path,
  path_match r path = true <-> exists vs, decomp re L (r_parts r) path vs.
Proof. exact path_match_iff. Qed.
Print Assumptions C17_match_iff.

(* the reference semantics used by the property predicate is the same relation *)
Theorem C17_reference_semantics : forall ps s vs, In vs (decomps ps s) <-> decomp re L ps s vs.
Proof. exact decomps_spec. Qed.
Print Assumptions C17_reference_semantics.

(* Router.Match under EVERY iteration order of the map: the outcomes are
   exactly the matching routes of maximal pattern length *)
Theorem C17_scan_exact : forall rs path r,
  (exists order, Permutation order rs /\ scan order path None O = Some r) <-> maximal_match rs path r.
Proof. exact scan_exact. Qed.
Print Assumptions C17_scan_exact.

(* ServeCOAP, for all states, middleware lists that call the next handler,
   iteration orders and requests: exactly one handler runs -- that of a longest
   matching route (with its parameters), or, iff no route matches, the default
   handler (nothing when DefaultHandle(nil) was called) *)
Theorem C17_select : forall st mws order segs,
  Permutation order (routes_of st) -> Forall (fun m => snd m = true) mws ->
  let path := filter_path (path_of segs) in
  (exists r, maximal_match (routes_of st) path r /\
             handlers_of (fst (serve st mws order segs)) = [r_h r] /\
             snd (serve st mws order segs) = match_result (Some r) path)
  \/ ((forall r, In r (routes_of st) -> path_match r path = false) /\
      snd (serve st mws order segs) = None /\
      handlers_of (fst (serve st mws order segs)) = match st_default st with Some d => [d] | None => [] end).
Proof. exact serve_select. Qed.
Print Assumptions C17_select.

(* HEAD STATEMENT in the terms of Spec.v: the property predicate (exactly one
   handler, registered, matches the entire path, no longer matching pattern,
   default iff nothing matches, variables = the substrings as a finite map,
   middlewares in registration order) evaluates to class 0 on the model's
   dispatch -- for every reachable state, every middleware list (including
   middlewares that answer themselves), every iteration order, every request *)
Theorem C17_dispatch_spec : forall st mws order segs,
  wf st -> Permutation order (routes_of st) ->
  let path := filter_path (path_of segs) in
  dispatch_class (sregs_of st) (st_default st) mws path
    (fst (serve st mws order segs)) (snd (serve st mws order segs)) = 0%N.
Proof. exact dispatch_spec. Qed.
Print Assumptions C17_dispatch_spec.

(* every state reachable by Handle / HandleRemove / DefaultHandle keeps one
   route per pattern, stored under its own pattern and compiled from it *)
Theorem C17_registered_invariant : forall ops, wf (apply_ops init_state ops).
Proof. intros ops. exact (apply_ops_wf ops init_state init_wf). Qed.
Print Assumptions C17_registered_invariant.

(* the variables are the pieces v_i of a decomposition of the path *)
Theorem C17_vars : forall r path, path_match r path = true ->
  exists vals, extract r path = Some vals /\ decomp re L (r_parts r) path vals /\
               length vals = length (var_names (r_parts r)) /\
               match_result (Some r) path = Some (path, r_pat r, vars_map (var_names (r_parts r)) vals []).
Proof. exact match_result_vars. Qed.
Print Assumptions C17_vars.

(* middlewares wrap in registration order (first registered = outermost), for
   every list, including ones that answer themselves *)
Theorem C17_middleware_order : forall mws h, run_chain mws h = spec_trace mws h.
Proof. exact run_chain_spec. Qed.
Print Assumptions C17_middleware_order.

(* concurrency: threads of Handle/HandleRemove/DefaultHandle (write-locked) and
   ServeCOAP (two read-locked sections) under EVERY schedule: each dispatch
   selected by scanning the map as it was at some point of the schedule, hence
   a route registered at the scan whose pattern matches (and a longest one when
   the iteration visited the whole map) *)
Theorem C17_concurrent : forall c0 sched d, c_log c0 = [] ->
  In d (c_log (run_conc c0 sched)) ->
  (exists s1 s2, sched = s1 ++ s2 /\ d_routes d = st_routes (c_st (run_conc c0 s1))) /\
  match d_sel d with
  | Some r => In r (map snd (d_routes d)) /\ path_match r (d_path d) = true /\
              (Permutation (visit (d_order d) (d_routes d)) (map snd (d_routes d)) ->
               maximal_match (map snd (d_routes d)) (d_path d) r)
  | None => Permutation (visit (d_order d) (d_routes d)) (map snd (d_routes d)) ->
            forall r, In r (map snd (d_routes d)) -> path_match r (d_path d) = false
  end.
Proof. exact conc_dispatch. Qed.
Print Assumptions C17_concurrent.

Theorem C17_concurrent_invariant : forall c sched, wf (c_st c) -> wf (c_st (run_conc c sched)).
Proof. intros c sched H. exact (run_conc_wf c H sched). Qed.
Print Assumptions C17_concurrent_invariant.

(* lock discipline of the model: only write-locked sections change the guarded fields *)
Theorem C17_lock_discipline : forall c tid t,
  nth_error (c_threads c) tid = Some t -> step_mode t = Some (RLock, false) -> c_st (cstep c tid) = c_st c.
Proof. exact read_step_pure. Qed.
Print Assumptions C17_lock_discipline.

(* HISTORIES on one router (operations and dispatches interleaved, the same
   path possibly served many times): the k-th dispatch equals the dispatch of a
   router on which only the operations before it were performed -- earlier
   dispatches leave no trace -- and the property predicate holds for it against
   the routes registered at that moment *)
Theorem C17_history : forall st0 mws pre segs order post, wf st0 ->
  let st := apply_ops st0 (hops pre) in
  nth_error (run_hist st0 mws (pre ++ HServe segs order :: post)) (hserves pre)
    = Some (serve st mws order segs) /\
  (Permutation order (routes_of st) ->
   dispatch_class (sregs_of st) (st_default st) mws (filter_path (path_of segs))
     (fst (serve st mws order segs)) (snd (serve st mws order segs)) = 0%N).
Proof. exact hist_dispatch. Qed.
Print Assumptions C17_history.

(* a route that is registered, matching and strictly longer than every other
   matching route at the moment of a dispatch gets it, whatever was dispatched
   before (e.g. the same path while a shorter route was its longest match) *)
Theorem C17_takeover : forall st0 mws pre segs order post b, wf st0 ->
  Forall (fun m => snd m = true) mws ->
  let st := apply_ops st0 (hops pre) in
  let path := filter_path (path_of segs) in
  Permutation order (routes_of st) ->
  In b (routes_of st) -> path_match b path = true ->
  (forall r, In r (routes_of st) -> path_match r path = true -> r_pat r <> r_pat b ->
             (length (r_pat r) < length (r_pat b))%nat) ->
  exists out, nth_error (run_hist st0 mws (pre ++ HServe segs order :: post)) (hserves pre) = Some out /\
              handlers_of (fst out) = [r_h b] /\ snd out = match_result (Some b) path.
Proof. exact hist_takeover. Qed.
Print Assumptions C17_takeover.

(* "registered" through a history: the route map is a finite map pattern ->
   route; a successful Handle binds its pattern to the new handler (replacing),
   a successful HandleRemove unbinds it, both leave every other pattern alone;
   failed operations change nothing *)
Theorem C17_registered_set :
  (forall st k r, wf st -> (map_get (st_routes st) k = Some r <-> In r (routes_of st) /\ r_pat r = k)) /\
  (forall st pat h, snd (apply_op st (OHandle pat (Some h))) = ResOk ->
     let st' := fst (apply_op st (OHandle pat (Some h))) in
     (exists cs, new_route_regexp (filter_path pat) = COk cs /\
        map_get (st_routes st') (filter_path pat) = Some (mkRoute h (filter_path pat) cs)) /\
     (forall k, k <> filter_path pat -> map_get (st_routes st') k = map_get (st_routes st) k) /\
     st_default st' = st_default st) /\
  (forall st pat, snd (apply_op st (ORemove pat)) = ResOk ->
     let st' := fst (apply_op st (ORemove pat)) in
     map_get (st_routes st') (filter_path pat) = None /\
     (forall k, k <> filter_path pat -> map_get (st_routes st') k = map_get (st_routes st) k) /\
     st_default st' = st_default st) /\
  (forall st o, snd (apply_op st o) <> ResOk -> fst (apply_op st o) = st).
Proof.
  split; [exact registered_lookup|]. split; [exact handle_effect|]. split; [exact remove_effect|exact failed_op_effect].
Qed.
Print Assumptions C17_registered_set.

(* THE ADAPTER mux.ToHandler (what the udp/tcp/dtls servers call) hands every
   request a NEW RouteParams, and Router.Match writes into the RouteParams it is
   given (Path, PathTemplate, Vars created when nil, one assignment per variable
   of the selected route).  For every history through the adapter: what the
   handler of the k-th request sees is what a dispatch with a new RouteParams
   gives on a router on which only the operations before it were performed --
   it does not depend on the requests served before or on their variables --
   and the property predicate holds for it *)
Theorem C17_adapter : forall st0 mws pre segs order post, wf st0 ->
  let st := apply_ops st0 (hops pre) in
  let out := to_handler st mws order segs in
  nth_error (run_adapter st0 mws (pre ++ HServe segs order :: post)) (hserves pre) = Some out /\
  aobs out = serve st mws order segs /\
  (Permutation order (routes_of st) ->
   dispatch_class (sregs_of st) (st_default st) mws (filter_path (path_of segs))
     (fst out) (rp_obs (snd out)) = 0%N).
Proof. exact adapter_dispatch. Qed.
Print Assumptions C17_adapter.

(* ... and the NEW RouteParams is needed: Match keeps every binding of the
   incoming Vars map whose name is not a variable of the selected route, and
   leaves the RouteParams untouched when nothing matches *)
Theorem C17_params_in_out :
  (forall r path p0 k, ~ In k (var_names (r_parts r)) ->
     vlookup (rp_map (match_into (Some r) path p0)) k = vlookup (rp_map p0) k) /\
  (forall path p0, match_into None path p0 = p0) /\
  (forall sel path, is_nil path = false -> rp_obs (match_into sel path rp_new) = match_result sel path).
Proof. split; [exact recycled_params_keep|]. split; [reflexivity|exact match_into_new]. Qed.
Print Assumptions C17_params_in_out.

(* ONE RouteParams OBJECT DISPATCHED AGAIN AND AGAIN (a recycled *mux.Message whose
   Uri-Path options were replaced; a router called from a handler of another
   router that rewrote the path).  For every reachable router, every history of
   operations and dispatches in which each dispatch is handed the RouteParams the
   previous one left, starting from ANY content [p0]: the dispatch goes by the
   path the message has NOW -- its handler trace is that of a dispatch with a
   new RouteParams on a router on which only the operations before it were
   performed, hence exactly one handler, of a longest matching registered route,
   else the default -- and the object afterwards is Match's write for the
   current path into what the object held *)
Theorem C17_reuse : forall st0 mws pre segs order post p0, wf st0 ->
  let st := apply_ops st0 (hops pre) in
  let p := reuse_params st0 mws pre p0 in
  let path := filter_path (path_of segs) in
  let out := serve_into st mws order segs p in
  nth_error (run_reuse st0 mws (pre ++ HServe segs order :: post) p0) (hserves pre) = Some out /\
  fst out = fst (serve st mws order segs) /\
  snd out = match_into (scan order path None O) path p /\
  (Permutation order (routes_of st) ->
   dispatch_class (sregs_of st) (st_default st) mws path
     (fst out) (snd (serve st mws order segs)) = 0%N).
Proof. exact reuse_dispatch. Qed.
Print Assumptions C17_reuse.

(* ... and what the handler of the selected route reads in a used object: Path is
   the current path, PathTemplate its own pattern, each of its own variables has
   the value it has in a new RouteParams (by C17_vars: the substring of the
   current path); names that are not variables of the pattern keep what the
   object held; when no route matches the object is not touched *)
Theorem C17_reuse_vars :
  (forall r path p0,
     rp_path (match_into (Some r) path p0) = path /\
     rp_tmpl (match_into (Some r) path p0) = r_pat r /\
     forall k, vlookup (rp_map (match_into (Some r) path p0)) k =
               match vlookup (rp_map (match_into (Some r) path rp_new)) k with
               | Some v => Some v
               | None => vlookup (rp_map p0) k
               end) /\
  (forall path p0, match_into None path p0 = p0).
Proof. split; [exact reused_params|reflexivity]. Qed.
Print Assumptions C17_reuse_vars.

(* ... and in Spec terms: the property predicate for a request whose RouteParams
   object was used before ([reuse_class]: the handler that ran decides whether a
   route was selected; Vars cut down to the variable names of that pattern; then
   [dispatch_class] for the path the message has now) holds on the model's
   output for every reachable router, every middleware list, every iteration
   order, every request and every content of the object handed in (a Go map: no
   key twice).  Handler identities are those of the harness: the default handler
   is not also the handler of a route. *)
Theorem C17_reuse_spec : forall st mws order segs p0, wf st -> Permutation order (routes_of st) ->
  NoDup (map fst (rp_map p0)) ->
  (forall r d, In r (routes_of st) -> st_default st = Some d -> r_h r <> d) ->
  let path := filter_path (path_of segs) in
  let out := serve_into st mws order segs p0 in
  reuse_class (sregs_of st) (st_default st) mws path (fst out) (rp_obs (snd out)) = 0%N.
Proof. exact reuse_spec. Qed.
Print Assumptions C17_reuse_spec.

(* non-vacuity: "/a/{id}" (1), "/b/{id}" (2), default 1000; ONE RouteParams through
   the requests /a/1, /b/2, /zzz: handlers 1, 2, 1000, the object holds (/a/1,
   /a/{id}, id=1), then (/b/2, /b/{id}, id=2), then is left alone; the predicate
   for used objects accepts each, and rejects (class 3) the dispatch of /b/2 on
   the stale path: handler 1 with (/a/1, /a/{id}, id=1) *)
Example C17_reuse_instance :
  let b := fun l : list Z => l in
  let ta := b [47;97;47;123;105;100;125] in
  let tb := b [47;98;47;123;105;100;125] in
  let st := apply_ops init_state [ODefault (Some 1000); OHandle ta (Some 1); OHandle tb (Some 2)] in
  let qa := [b [97]; b [49]] in let qb := [b [98]; b [50]] in let qz := [b [122;122;122]] in
  let outs := run_reuse st [] [HServe qa (routes_of st); HServe qb (routes_of st); HServe qz (routes_of st)] rp_new in
  map (fun o => (handlers_of (fst o), rp_obs (snd o))) outs =
    [([1], Some (b [47;97;47;49], ta, [(b [105;100], b [49])]));
     ([2], Some (b [47;98;47;50], tb, [(b [105;100], b [50])]));
     ([1000], Some (b [47;98;47;50], tb, [(b [105;100], b [50])]))] /\
  map (fun qo => reuse_class (sregs_of st) (st_default st) [] (filter_path (path_of (fst qo)))
                   (fst (snd qo)) (rp_obs (snd (snd qo)))) (combine [qa; qb; qz] outs) = [0%N; 0%N; 0%N] /\
  reuse_class (sregs_of st) (st_default st) [] (filter_path (path_of qb)) [Hd 1]
    (Some (b [47;97;47;49], ta, [(b [105;100], b [49])])) = 3%N.
Proof. vm_compute. repeat split. Qed.

(* FINE-GRAINED LOCKING (sync.RWMutex explicit; taking the lock can be refused;
   the scan of Match is one step per route, each reading the live map; any
   thread may run between two steps).  For every start state, every set of
   threads, every schedule:
   - while a thread is inside Handle/HandleRemove/DefaultHandle (write lock
     held) no thread is inside a scan;
   - the registered state changes only in the step of a thread that holds the
     write lock, at a moment when no scan is in progress *)
Theorem C17_fine_exclusion : forall st jobs sched,
  let c := frun (finit st jobs) sched in
  (forall i t, nth_error (fc_threads c) i = Some t -> is_write t = true ->
     forall u, In u (fc_threads c) -> is_scan u = false) /\
  (forall tid, fc_st (fstep c tid) <> fc_st c ->
     exists t o, nth_error (fc_threads c) tid = Some t /\ f_pc t = FWrite o /\ fc_writer c = true /\
                 forall u, In u (fc_threads c) -> is_scan u = false).
Proof.
  intros st jobs sched c. split; [exact (fine_exclusion st jobs sched)|].
  intros tid. apply fine_write_excl. apply frun_inv, finit_inv.
Qed.
Print Assumptions C17_fine_exclusion.

(* - hence the scan is atomic: every completed dispatch selected what ONE scan
     of ONE map gives -- the map of the state reached by a prefix of the
     schedule -- i.e. a route registered in that map whose pattern matches (a
     longest one when the iteration visited the whole map), or none when none
     matches: the statement of C17_concurrent, now without assuming that the
     critical section is a single step *)
Theorem C17_fine_atomic : forall st jobs sched d, In d (fc_log (frun (finit st jobs) sched)) ->
  (exists s1 s2, sched = s1 ++ s2 /\ d_routes d = st_routes (fc_st (frun (finit st jobs) s1))) /\
  match d_sel d with
  | Some r => In r (map snd (d_routes d)) /\ path_match r (d_path d) = true /\
              (Permutation (visit (d_order d) (d_routes d)) (map snd (d_routes d)) ->
               maximal_match (map snd (d_routes d)) (d_path d) r)
  | None => Permutation (visit (d_order d) (d_routes d)) (map snd (d_routes d)) ->
            forall r, In r (map snd (d_routes d)) -> path_match r (d_path d) = false
  end.
Proof. exact fine_dispatch. Qed.
Print Assumptions C17_fine_atomic.

Theorem C17_fine_invariant : forall st jobs sched, wf st -> wf (fc_st (frun (finit st jobs) sched)).
Proof. intros st jobs sched H. apply frun_wf. exact H. Qed.
Print Assumptions C17_fine_invariant.

(* non-vacuity of the fine-grained theorems: "/dev/{id}" registered; thread 0
   dispatches "/dev/42", thread 1 registers "/dev/{id:[0-9]+}".  After thread 0
   took the read lock thread 1 is blocked (its steps change nothing), thread 0
   finishes with route 1, then thread 1 gets the lock and registers; a recycled
   RouteParams would keep the variable "id" of "/dev/42" for "/grp/abc/7" *)
Example C17_fine_instance :
  let b := fun l : list Z => l in
  let t1 := b [47;100;101;118;47;123;105;100;125] in
  let t2 := b [47;100;101;118;47;123;105;100;58;91;48;45;57;93;43;125] in
  let tg := b [47;103;114;112;47;123;110;97;109;101;125;47;123;109;101;109;98;101;114;125] in
  let q := [b [100;101;118]; b [52;50]] in
  let st1 := apply_ops init_state [OHandle t1 (Some 1); OHandle tg (Some 3)] in
  let c0 := finit st1 [[JServe q [0%nat; 1%nat]]; [JOp (OHandle t2 (Some 2))]] in
  let c1 := frun c0 [0; 0; 0]%nat in
  let c2 := frun c1 [1; 1; 0; 1; 0; 0; 1; 1]%nat in
  fblocked c1 1 = true /\ frun c1 [1; 1; 1]%nat = c1 /\
  map (fun d => option_map r_h (d_sel d)) (fc_log c2) = [Some 1] /\
  map snd (fc_results c2) = [ResOk] /\ length (st_routes (fc_st c2)) = 3%nat /\
  let p1 := snd (to_handler st1 [] (routes_of st1) q) in
  let q2 := [b [103;114;112]; b [97;98;99]; b [55]] in
  rp_obs p1 = Some (b [47;100;101;118;47;52;50], t1, [(b [105;100], b [52;50])]) /\
  dispatch_class (sregs_of st1) (st_default st1) [] (filter_path (path_of q2))
    (fst (to_handler st1 [] (routes_of st1) q2)) (rp_obs (snd (to_handler st1 [] (routes_of st1) q2))) = 0%N /\
  dispatch_class (sregs_of st1) (st_default st1) [] (filter_path (path_of q2))
    (fst (serve_into st1 [] (routes_of st1) q2 p1)) (rp_obs (snd (serve_into st1 [] (routes_of st1) q2 p1))) = 6%N.
Proof. vm_compute. repeat split. Qed.

(* non-vacuity of the history theorems: "/dev/42" is served by "/dev/{id}" (1),
   then "/dev/{id:[0-9]+}" (2) is registered and takes the same path over, it is
   removed again and the path falls back to (1), then to the default handler 0 *)
Example C17_history_instance :
  let b := fun l : list Z => l in
  let t1 := b [47;100;101;118;47;123;105;100;125] in
  let t2 := b [47;100;101;118;47;123;105;100;58;91;48;45;57;93;43;125] in
  let q := [b [100;101;118]; b [52;50]] in
  let st1 := apply_ops init_state [OHandle t1 (Some 1)] in
  let st2 := apply_ops st1 [OHandle t2 (Some 2)] in
  map (fun o => handlers_of (fst o))
    (run_hist init_state []
       [HServe q []; HOp (OHandle t1 (Some 1)); HServe q (routes_of st1); HServe q (routes_of st1);
        HOp (OHandle t2 (Some 2)); HServe q (routes_of st2); HServe q (rev (routes_of st2));
        HOp (ORemove t2); HServe q (routes_of st1); HOp (ORemove t1); HServe q []])
  = [[0]; [1]; [1]; [2]; [2]; [1]; [0]].
Proof. vm_compute. reflexivity. Qed.

(* non-vacuity: "/a.b/{id:[0-9]+}" and "/a.b/{id}" both match "/a.b/42", the
   dot is literal ("/axb/42" goes to the default handler 0), the longer pattern
   wins in either iteration order, the variable is "42", middleware 7 wraps 8 *)
Example C17_instance :
  let b := fun l : list Z => l in
  let t1 := b [47;97;46;98;47;123;105;100;58;91;48;45;57;93;43;125] in
  let t2 := b [47;97;46;98;47;123;105;100;125] in
  let st := apply_ops init_state [OHandle t2 (Some 2); OHandle t1 (Some 1)] in
  let mws := [(7, true); (8, true)] in
  serve st mws (routes_of st) [[97;46;98]; [52;50]]
    = ([MwIn 7; MwIn 8; Hd 1; MwOut 8; MwOut 7], Some ([47;97;46;98;47;52;50], t1, [([105;100], [52;50])])) /\
  serve st mws (rev (routes_of st)) [[97;46;98]; [52;50]] = serve st mws (routes_of st) [[97;46;98]; [52;50]] /\
  fst (serve st mws (routes_of st) [[97;120;98]; [52;50]]) = [MwIn 7; MwIn 8; Hd 0; MwOut 8; MwOut 7].
Proof. vm_compute. repeat split. Qed.
