(* C19 -- Block option value codec is the RFC 7959 mapping on its whole domain.
   Statements only; proofs are in Block/Proofs.v. The model (Block/Model.v) is
   stated over Gen.BlockConsts, regenerated from /repo on every run. *)
From Coq Require Import ZArith Bool.
From GoCoap Require Import Gen.BlockConsts Block.Model Block.Spec Block.Proofs.
Open Scope Z_scope.

(* decoding is defined for every 24-bit value and returns the RFC triple *)
Theorem C19_decode_total : forall v, dec_dom v = true ->
  decode v = {| d_szx := spec_szx v; d_num := spec_num v; d_more := spec_more v; d_err := None |}.
Proof. exact decode_total. Qed.
Print Assumptions C19_decode_total.

(* values above 24 bits are refused *)
Theorem C19_decode_rejects : forall v, 16777216 <= v -> d_err (decode v) = Some ErrBlockInvalidSize.
Proof. exact decode_rejects. Qed.
Print Assumptions C19_decode_rejects.

(* encoding accepts every triple with exponent 0-7 and a 20-bit block number *)
Theorem C19_encode_total : forall szx num more, enc_dom szx num = true ->
  encode szx num more = inr (spec_value szx num more).
Proof. exact encode_total. Qed.
Print Assumptions C19_encode_total.

(* arguments outside the domain are refused, not wrapped or truncated *)
Theorem C19_encode_rejects : forall szx num more,
  0 <= szx -> (7 < szx \/ num < 0 \/ 1048576 <= num) -> exists e, encode szx num more = inl e.
Proof. exact encode_rejects. Qed.
Print Assumptions C19_encode_rejects.

(* mutually inverse *)
Theorem C19_decode_encode : forall szx num more v, enc_dom szx num = true ->
  encode szx num more = inr v ->
  decode v = {| d_szx := szx; d_num := num; d_more := more; d_err := None |}.
Proof. exact decode_encode. Qed.
Print Assumptions C19_decode_encode.

Theorem C19_encode_decode : forall v, dec_dom v = true ->
  let d := decode v in
  enc_dom (d_szx d) (d_num d) = true /\ encode (d_szx d) (d_num d) (d_more d) = inr v.
Proof. exact encode_decode. Qed.
Print Assumptions C19_encode_decode.

(* size for exponent s is 2^(s+4), 1024 for BERT *)
Theorem C19_size : forall szx, 0 <= szx <= 7 -> size szx = spec_size szx.
Proof. exact size_spec. Qed.
Print Assumptions C19_size.

(* BERT blocks are whole multiples of 1024 bounded by the maximum message size *)
Theorem C19_bert_buffer : forall m, 1024 <= m ->
  buffer_size 7 m = 1024 * (m / 1024) /\ buffer_size 7 m <= m /\ 1024 <= buffer_size 7 m
  /\ buffer_size 7 m mod 1024 = 0.
Proof. exact bert_buffer. Qed.
Print Assumptions C19_bert_buffer.

(* ... also when the maximum message size is below one block: nothing fits *)
Theorem C19_bert_buffer_small : forall m, 0 <= m < 1024 -> buffer_size 7 m = 0.
Proof. exact bert_buffer_small. Qed.
Print Assumptions C19_bert_buffer_small.

Theorem C19_nonbert_buffer : forall szx m, 0 <= szx <= 6 -> buffer_size szx m = 2 ^ (szx + 4).
Proof. exact nonbert_buffer. Qed.
Print Assumptions C19_nonbert_buffer.

(* non-vacuity: the domains are inhabited at their extremes *)
Example C19_domains_inhabited :
  dec_dom 16777215 = true /\ enc_dom 7 1048575 = true /\ decode 16777215 =
  {| d_szx := 7; d_num := 1048575; d_more := true; d_err := None |}.
Proof. vm_compute. repeat split. Qed.
