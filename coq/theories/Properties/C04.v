(* C04 -- Block-wise transfer delivers the exact body exactly once, or fails.
   Statements only; proofs are in Blockwise/Proofs.v.  The model
   (Blockwise/Model.v) transcribes net/blockwise/blockwise.go (repaired tree) and
   is stated over Block.Model.size / buffer_size, i.e. over Gen.BlockConsts
   (regenerated from the source on every run).  All quantifiers are unbounded:
   every body, every SZX 0..7, every maximum message size, every order and
   repetition of blocks, every mix of tokens. *)
From Coq Require Import ZArith Bool List.
From GoCoap Require Import Base.Bytes Block.Model Blockwise.Config Blockwise.Model Blockwise.Proofs.
Import ListNotations.
Open Scope Z_scope.

(* Sender side.  Whatever block (szx, num) is requested, createSendingMessage
   produces the part of the body at offset NUM*size (at most one buffer), M is set
   exactly when bytes remain after it, the block option carries the clamped SZX and
   the NUM of that offset, Size1/Size2 the body length, and code, token and all
   other options are those of the original message. *)
Theorem C04_serve_coherent : forall orig maxszx maxmsg b sm more,
  0 <= maxszx <= 7 -> 0 <= bszx b -> 0 <= bnum b -> 0 <= maxmsg ->
  create_sending orig maxszx maxmsg b = Some (sm, more) ->
  let up := is_upload (mcode orig) in
  exists nb,
    (if up then mb1 sm else mb2 sm) = Some nb /\
    (if up then ms1 sm else ms2 sm) = Some (blen (mbody orig)) /\
    bszx nb = Z.min (bszx b) maxszx /\ 0 <= bszx nb <= 7 /\ 0 <= bnum nb /\
    bnum nb * size (bszx nb) = bnum b * size (bszx nb) + (if up then buffer_size (bszx nb) maxmsg else 0) /\
    slice_at (mbody orig) (bnum nb * size (bszx nb)) (mbody sm) /\
    blen (mbody sm) <= buffer_size (bszx nb) maxmsg /\
    bnum nb * size (bszx nb) + blen (mbody sm) <= blen (mbody orig) /\
    (bmore nb = more) /\
    (more = true <-> bnum nb * size (bszx nb) + blen (mbody sm) < blen (mbody orig)) /\
    (more = true -> blen (mbody sm) = buffer_size (bszx nb) maxmsg) /\
    mcode sm = mcode orig /\ mtok sm = mtok orig /\ metag sm = metag orig /\ mobs sm = mobs orig /\
    mother sm = mother orig /\
    (if up then mb2 sm = mb2 orig /\ ms2 sm = ms2 orig else mb1 sm = mb1 orig /\ ms1 sm = ms1 orig).
Proof. exact serve_coherent. Qed.
Print Assumptions C04_serve_coherent.

(* Receiver side, whole histories.  [feed] folds Handle over an arbitrary list of
   wire messages: any order, any repetition (duplicates, replays), any mix of
   tokens, any application behind [next].  If every message is coherent (its
   payload is the part of the representation named by its ETag that its Block
   option says, M = 0 only on the part that ends the representation; the sender
   uses ETags on all messages or on none), then
   - C04_prefix_invariant: every reassembly buffer stays a prefix of the
     representation its ETag stands for (an ETag change restarts it);
   - C04_complete_exact: everything handed to the application is either the wire
     message itself (it had no Block option of its direction, or is a
     GET/DELETE/signal) or carries exactly the whole representation. *)
Theorem C04_prefix_invariant_and_complete_exact :
  forall (bodyf : option Z -> list Z) (noetag : bool) (app : Z -> msg -> option msg) (rs : list msg) (e : ep),
  0 <= eszx e <= 7 -> rx_ok bodyf noetag (receiving e) -> Forall (coherent_msg bodyf noetag) rs ->
  rx_ok bodyf noetag (receiving (fst (feed app e rs))) /\
  Forall (fun p => handed_ok bodyf (fst p) (snd p)) (snd (feed app e rs)).
Proof. exact feed_inv. Qed.
Print Assumptions C04_prefix_invariant_and_complete_exact.

(* One step of the same, for processReceivedMessage in any state. *)
Theorem C04_complete_exact : forall bodyf noetag app e r maxszx isb1,
  0 <= maxszx <= 7 -> (mcode r =? GET) || (mcode r =? DELETE) = false ->
  rx_ok bodyf noetag (receiving e) -> coherent bodyf noetag isb1 r ->
  let '(e', _, d) := process_received app e r maxszx isb1 in
  rx_ok bodyf noetag (receiving e') /\ forall x, In x d -> delivered_ok bodyf isb1 r x.
Proof. exact process_received_inv. Qed.
Print Assumptions C04_complete_exact.

(* C04_once.  For a block-wise message (not a notification, whose state lives
   under a private token): (1) whenever Handle hands something to the application,
   no reassembly state is left for the token - it is removed on delivery; (2)
   without reassembly state a block with NUM > 0 hands nothing over (repaired F15).
   Hence after a delivery every duplicate / replay of a later block of that
   transfer delivers nothing: one delivery per transfer. *)
Theorem C04_once : forall app e r b,
  blockopt (is_upload (mcode r)) r = Some b -> is_plain_code (mcode r) = false -> is_observe_response r = false ->
  let '(e', _, d, _) := handle app e r in
  (d <> [] -> tget (receiving e') (mtok r) = None) /\
  (tget (receiving e) (mtok r) = None -> bnum b <> 0 -> d = []).
Proof. exact handle_once. Qed.
Print Assumptions C04_once.

(* C04_isolated.  Handling a message with token tk changes neither the sending nor
   the receiving state of any other application token (tokens below FRESH; the
   private tokens drawn for notifications are FRESH+n or negative in the model). *)
Theorem C04_isolated : forall app, (forall t d w, app t d = Some w -> mtok w = t) ->
  forall e r t,
  0 <= eszx e <= 7 -> (forall b, mb1 r = Some b \/ mb2 r = Some b -> 0 <= bszx b) ->
  0 <= efresh e -> 0 <= ehid e -> t <> mtok r -> 0 <= t < FRESH ->
  let '(e', _, _, _) := handle app e r in same_at e e' t.
Proof. exact handle_isolated. Qed.
Print Assumptions C04_isolated.

(* C04_progress_partial.  Full statement (NOT proved, see notes/C04.md): with no
   faults every exchange of the two-endpoint model completes within
   ceil(|body| / size) + 1 round trips.  Proved: the lock-step core of a download
   (Block2) - receiver asks for block |buffer|/size, createSendingMessage serves it,
   the reassembly step appends it - ends with the exact body within
   (remaining / buffer) + 1 round trips, for every body, every SZX and every
   maximum message size with a non-empty buffer (BERT: >= 1024).  Uploads are
   covered by the correspondence runs only; observations O1 (one-way POST/PUT skips
   block 0) and O2 (BERT upload of 1024 < |body| <= buffer) are the cases where the
   implementation itself makes no progress. *)
Theorem C04_progress_partial : forall fuel orig s m cm j,
  is_upload (mcode orig) = false -> 0 <= s <= 7 -> 0 <= m -> 0 < buffer_size s m ->
  prefix (mbody cm) (mbody orig) -> 0 <= j -> blen (mbody cm) = j * buffer_size s m ->
  etag_agrees (metag orig) (metag cm) ->
  (blen (mbody orig) - blen (mbody cm)) / buffer_size s m + 1 <= Z.of_nat fuel ->
  exists cm' n, pump fuel orig s m cm = Some (cm', n) /\ mbody cm' = mbody orig /\
                1 <= n <= (blen (mbody orig) - blen (mbody cm)) / buffer_size s m + 1.
Proof. exact download_progress. Qed.
Print Assumptions C04_progress_partial.

(* Non-vacuity: a three-block body served at SZX 0 and reassembled from its blocks
   delivered in the order 1, 0, 0, 1, 2, 2 (out of order, duplicated, final block
   replayed) hands the body over exactly once; the hypotheses of the theorems hold
   for these messages. *)
Definition ex_body : list Z := gen_body 5 37.
Definition ex_resp : msg :=
  {| mcode := Content; mtok := 7; mb1 := None; mb2 := None; ms1 := None; ms2 := None;
     metag := Some 1; mobs := None; mother := [(12, 42)]; mbody := ex_body |}.
Definition ex_block (n : Z) : msg :=
  match create_sending ex_resp 0 1152 {| bszx := 0; bnum := n; bmore := true |} with
  | Some (sm, _) => sm | None => ex_resp end.
Definition ex_ep : ep :=
  {| sending := [(7, {| mcode := GET; mtok := 7; mb1 := None; mb2 := None; ms1 := None; ms2 := None;
                        metag := None; mobs := None; mother := [(11, 0)]; mbody := [] |})];
     receiving := []; eszx := 0; emax := 1152; eoutside := []; efresh := 0; ehid := 0 |}.
Example C04_nonvacuous :
  map (fun p => mbody (snd p))
      (snd (feed (fun _ _ => None) ex_ep [ex_block 1; ex_block 0; ex_block 0; ex_block 1; ex_block 2; ex_block 2]))
  = [ex_body]
  /\ blen (mbody (ex_block 2)) = 5 /\ mb2 (ex_block 2) = Some {| bszx := 0; bnum := 2; bmore := false |}.
Proof. vm_compute. repeat split. Qed.
