(* C04 -- Block-wise transfer delivers the exact body exactly once, or fails.
   Statements only; proofs are in Blockwise/Proofs.v.  The model
   (Blockwise/Model.v) transcribes net/blockwise/blockwise.go (repaired tree) and
   is stated over Block.Model.size / buffer_size, i.e. over Gen.BlockConsts
   (regenerated from the source on every run).  All quantifiers are unbounded:
   every body, every SZX 0..7, every maximum message size, every order and
   repetition of blocks, every mix of tokens.  The second half (C04_exchange_...)
   is about the closed two-party system of Blockwise/Model.v (endpoints A and B, the
   network, an event script of arbitrary length) and is proved in
   Blockwise/ProofsExchange.v by induction over the script. *)
From Coq Require Import ZArith Bool List Lia.
From GoCoap Require Import Base.Bytes Block.Model Blockwise.Config Blockwise.Model Blockwise.Spec Blockwise.Proofs Blockwise.Run
  Blockwise.ProofsExchange Blockwise.ProofsProgressDown.
From GoCoap Require Blockwise.ProofsProgressUp Blockwise.ProofsProgressBoth.
From GoCoap Require Import Blockwise.Timed Blockwise.ProofsTimed Blockwise.ProofsMix.
Import ListNotations.
Open Scope Z_scope.

(* Sender side.  Whatever block (szx, num) is requested, createSendingMessage
   produces the part of the body at offset NUM*size (at most one buffer), M is set
   exactly when bytes remain after it, the block option carries the clamped SZX and
   the NUM of that offset, Size1/Size2 the body length, and code, token and all
   other options are those of the original message. *)
Theorem C04_serve_coherent : forall orig maxszx maxmsg b sm more,
  0 <= maxszx <= 7 -> 0 <= bszx b -> 0 <= bnum b -> 0 <= maxmsg ->
  create_sending orig maxszx maxmsg b = Some (sm, more) ->
  let up := is_upload (mcode orig) in
  exists nb,
    (if up then mb1 sm else mb2 sm) = Some nb /\
    (if up then ms1 sm else ms2 sm) = Some (blen (mbody orig)) /\
    bszx nb = Z.min (bszx b) maxszx /\ 0 <= bszx nb <= 7 /\ 0 <= bnum nb /\
    bnum nb * size (bszx nb) = bnum b * size (bszx nb) + (if up then buffer_size (bszx nb) maxmsg else 0) /\
    slice_at (mbody orig) (bnum nb * size (bszx nb)) (mbody sm) /\
    blen (mbody sm) <= buffer_size (bszx nb) maxmsg /\
    bnum nb * size (bszx nb) + blen (mbody sm) <= blen (mbody orig) /\
    (bmore nb = more) /\
    (more = true <-> bnum nb * size (bszx nb) + blen (mbody sm) < blen (mbody orig)) /\
    (more = true -> blen (mbody sm) = buffer_size (bszx nb) maxmsg) /\
    mcode sm = mcode orig /\ mtok sm = mtok orig /\ metag sm = metag orig /\ mobs sm = mobs orig /\
    mother sm = mother orig /\
    (if up then mb2 sm = mb2 orig /\ ms2 sm = ms2 orig else mb1 sm = mb1 orig /\ ms1 sm = ms1 orig).
Proof. exact serve_coherent. Qed.
Print Assumptions C04_serve_coherent.

(* Receiver side, whole histories.  [feed] folds Handle over an arbitrary list of
   wire messages: any order, any repetition (duplicates, replays), any mix of
   tokens, any application behind [next].  If every message is coherent (its
   payload is the part of the representation named by its ETag that its Block
   option says, M = 0 only on the part that ends the representation; the sender
   uses ETags on all messages or on none), then
   - C04_prefix_invariant: every reassembly buffer stays a prefix of the
     representation its ETag stands for (an ETag change restarts it);
   - C04_complete_exact: everything handed to the application is either the wire
     message itself (it had no Block option of its direction, or is a
     GET/DELETE/signal) or carries exactly the whole representation. *)
Theorem C04_prefix_invariant_and_complete_exact :
  forall (bodyf : option Z -> list Z) (noetag : bool) (app : Z -> msg -> option msg) (rs : list msg) (e : ep),
  0 <= eszx e <= 7 -> rx_ok bodyf noetag (receiving e) -> Forall (coherent_msg bodyf noetag) rs ->
  rx_ok bodyf noetag (receiving (fst (feed app e rs))) /\
  Forall (fun p => handed_ok bodyf (fst p) (snd p)) (snd (feed app e rs)).
Proof. exact feed_inv. Qed.
Print Assumptions C04_prefix_invariant_and_complete_exact.

(* One step of the same, for processReceivedMessage in any state. *)
Theorem C04_complete_exact : forall bodyf noetag app e r maxszx isb1,
  0 <= maxszx <= 7 -> (mcode r =? GET) || (mcode r =? DELETE) = false ->
  rx_ok bodyf noetag (receiving e) -> coherent bodyf noetag isb1 r ->
  let '(e', _, d) := process_received app e r maxszx isb1 in
  rx_ok bodyf noetag (receiving e') /\ forall x, In x d -> delivered_ok bodyf isb1 r x.
Proof. exact process_received_inv. Qed.
Print Assumptions C04_complete_exact.

(* C04_once.  For a block-wise message (not a notification, whose state lives
   under a private token): (1) whenever Handle hands something to the application,
   no reassembly state is left for the token - it is removed on delivery; (2)
   without reassembly state a block with NUM > 0 hands nothing over (repaired F15).
   Hence after a delivery every duplicate / replay of a later block of that
   transfer delivers nothing: one delivery per transfer. *)
Theorem C04_once : forall app e r b,
  blockopt (is_upload (mcode r)) r = Some b -> is_plain_code (mcode r) = false -> is_observe_response r = false ->
  let '(e', _, d, _) := handle app e r in
  (d <> [] -> tget (receiving e') (mtok r) = None) /\
  (tget (receiving e) (mtok r) = None -> bnum b <> 0 -> d = []).
Proof. exact handle_once. Qed.
Print Assumptions C04_once.

(* C04_isolated.  Handling a message with token tk changes neither the sending nor
   the receiving state of any other application token (tokens below FRESH; the
   private tokens drawn for notifications are FRESH+n or negative in the model). *)
Theorem C04_isolated : forall app, (forall t d w, app t d = Some w -> mtok w = t) ->
  forall e r t,
  0 <= eszx e <= 7 -> (forall b, mb1 r = Some b \/ mb2 r = Some b -> 0 <= bszx b) ->
  0 <= efresh e -> 0 <= ehid e -> t <> mtok r -> 0 <= t < FRESH ->
  let '(e', _, _, _) := handle app e r in same_at e e' t.
Proof. exact handle_isolated. Qed.
Print Assumptions C04_isolated.

(* C04_progress_partial.  The lock-step core of a download (Block2) - receiver asks
   for block |buffer|/size, createSendingMessage serves it, the reassembly step appends
   it - ends with the exact body within (remaining / buffer) + 1 round trips, for every
   body, every SZX and every maximum message size with a non-empty buffer (BERT: >= 1024).
   Progress of the full two-endpoint run (Start, then deliver in order) is proved further
   down: C04_progress_download (Do GET), C04_progress_upload* (Do POST/PUT, one-way
   writes), with the regions where the implementation itself makes no progress - O1
   (one-way POST/PUT skips block 0), O2 (BERT upload of 1024 < |body| < buffer) - and O3
   (single-block response keeps its state) as explicit hypotheses, each with its
   refutation. *)
Theorem C04_progress_partial : forall fuel orig s m cm j,
  is_upload (mcode orig) = false -> 0 <= s <= 7 -> 0 <= m -> 0 < buffer_size s m ->
  prefix (mbody cm) (mbody orig) -> 0 <= j -> blen (mbody cm) = j * buffer_size s m ->
  etag_agrees (metag orig) (metag cm) ->
  (blen (mbody orig) - blen (mbody cm)) / buffer_size s m + 1 <= Z.of_nat fuel ->
  exists cm' n, pump fuel orig s m cm = Some (cm', n) /\ mbody cm' = mbody orig /\
                1 <= n <= (blen (mbody orig) - blen (mbody cm)) / buffer_size s m + 1.
Proof. exact download_progress. Qed.
Print Assumptions C04_progress_partial.

(* ------------------------------------------------------------------------ *)
(* The two-party system, ALL fault scripts.                                    *)
(* [cfg_wf c]: SZX 0..7 on both sides (7 = BERT), every exchange is started by  *)
(* A (Do or one-way write) with a request code, application tokens are pairwise *)
(* distinct and below FRESH, GET/DELETE requests carry no body, no out-of-band  *)
(* registration for an exchange token, resource lengths >= 0.                   *)
(* [bump_ok c] on every event: a resource that changes carries an ETag (without *)
(* ETags RFC 7959 itself cannot tell versions apart).  The script is otherwise  *)
(* arbitrary: Start i (also repeatedly), Deliver j (any in-flight message, so   *)
(* any reordering), Dup j, Drop j, Replay h (anything ever sent), Bump k,        *)
(* Timeout i, Expire side.                                                      *)

(* (a) Safety.  Every message handed to B's application has the token, code and
   options of an exchange A's application started and carries exactly its body (or is
   a body-less 4.08); every message handed to A's application is body-less (4.08 /
   2.31) or has the code, options and ETag of one version v <= number of changes of
   the resource of its exchange and exactly that version's body.  Never a partial,
   extended or mixed body.  REPAIRED finding 3 (notes/C04.md): the statement used to
   carry the exception "or is the body-less request that restarts a block-wise response
   to a POST/PUT" and was refuted without it; since the client refuses to fetch the
   response of a request other than GET/DELETE again from block 0, it holds without
   exception and without a hypothesis on the size of the responses of uploads. *)
Theorem C04_exchange_safety : forall c, cfg_wf c -> forall es, Forall (bump_ok c) es ->
  Forall (mob_ok c (bumps es)) (run c (init c) es).
Proof. exact exchange_safety. Qed.
Print Assumptions C04_exchange_safety.

(* ... the same in the terms of the specification: class 0 of Spec.delivery_class for
   EVERY delivery of the model's trace of every script *)
Theorem C04_exchange_safety_spec : forall c, cfg_wf c -> forall es, Forall (bump_ok c) es ->
  Forall (fun o => Forall (fun d => delivery_class c es (o_side o) d = 0%N) (o_deliv o)) (model_obs c es).
Proof. exact exchange_safety_spec. Qed.
Print Assumptions C04_exchange_safety_spec.

(* The two histories on which the unrepaired code (and its faithful model) violated the
   property (c04_class = 1: a body-less POST handed to B's application; they are canonical
   cases of the correspondence run, see notes/C04.md): on the repaired model the client
   refuses the restart at that event (error callback, 4.08, nothing handed over, no
   reassembly entry left), B's application is only ever handed the 5-byte body A's
   application supplied, and the whole property holds. *)
Theorem C04_restart_refused_on_witnesses :
  (cfg_wf refute_cfg1 /\ Forall (bump_ok refute_cfg1) refute_es1 /\
   c04_class refute_cfg1 refute_es1 (model_obs refute_cfg1 refute_es1) = 0%N /\
   refused_at (model_obs refute_cfg1 refute_es1) 8 /\ no_empty_request (model_obs refute_cfg1 refute_es1)) /\
  (cfg_wf refute_cfg2 /\ Forall (bump_ok refute_cfg2) refute_es2 /\
   c04_class refute_cfg2 refute_es2 (model_obs refute_cfg2 refute_es2) = 0%N /\
   refused_at (model_obs refute_cfg2 refute_es2) 7 /\ no_empty_request (model_obs refute_cfg2 refute_es2)).
Proof. exact restart_refused_on_witnesses. Qed.
Print Assumptions C04_restart_refused_on_witnesses.

(* (b) Exactly once.  At either application and for every token, the number of bodies
   handed over never exceeds the number of arrivals of a first message of a transfer
   (no Block option of the direction, or NUM = 0): a replayed last block (F15), a
   duplicated or stale request for a later block of a response, re-ordered or replayed
   middle blocks never produce a second delivery.  Step lemma: C04_once_potential. *)
Theorem C04_exchange_once_counts : forall c, cfg_wf c -> forall es, Forall (bump_ok c) es ->
  forall side t, handed (model_obs c es) side t <= arrivals (model_obs c es) side t.
Proof. exact exchange_once_counts. Qed.
Print Assumptions C04_exchange_once_counts.
Theorem C04_exchange_once : forall c, cfg_wf c -> forall es, Forall (bump_ok c) es -> once_ok (model_obs c es) = true.
Proof. exact exchange_once. Qed.
Print Assumptions C04_exchange_once.

(* the step behind it, for ANY application, state and (non-notification) message:
   (bodies handed over) + (1 if a non-empty reassembly buffer exists for the token)
   grows only when a first block arrives *)
Theorem C04_once_potential : forall app e r,
  is_observe_response r = false ->
  (forall cm, tget (receiving e) (mtok r) = Some cm -> mtok cm = mtok r) ->
  let '(e', _, d, _) := handle app e r in once_post e e' (mtok r) (fb r) d.
Proof. exact handle_once_pot. Qed.
Print Assumptions C04_once_potential.

(* The whole property as specified (Spec.c04_ok: exact body, exactly once, options
   preserved, known token, a Do that returns ok got its response, no panic / hang mark)
   on the model's trace of EVERY script. *)
Theorem C04_exchange_ok : forall c, cfg_wf c -> forall es, Forall (bump_ok c) es ->
  c04_ok c es (model_obs c es) = true.
Proof. exact exchange_c04_ok. Qed.
Print Assumptions C04_exchange_ok.

(* (c) Isolation over whole runs.  For every script and every application token t there
   is a script that starts only exchanges with token t, in whose run every message ever
   on the wire carries token t, and in which the applications are handed exactly the
   same messages for t, at the same sides, in the same order: what happens to one token
   never depends on the concurrent exchanges, their faults and their blocks.  Step
   lemmas: C04_isolated (frame) and C04_handle_congruence. *)
Theorem C04_exchange_isolated : forall c, cfg_wf c -> forall t es, 0 <= t < FRESH -> Forall (bump_ok c) es ->
  exists es', solo_ok c t es' /\ Forall (bump_ok c) es' /\ (forall k, bumps es' k = bumps es k) /\
              (forall p, In p (whist (exec c (init c) es')) -> mtok (snd p) = t) /\
              flat_map (tdeliv t) (run c (init c) es) = flat_map (tdeliv t) (run c (init c) es').
Proof. exact exchange_isolated. Qed.
Print Assumptions C04_exchange_isolated.

(* Handle reads only the state of the token of the message: two endpoints that agree on
   it produce the same response, the same deliveries, the same error count and agree on
   it afterwards *)
Theorem C04_handle_congruence : forall app, (forall t d w, app t d = Some w -> mtok w = t) ->
  forall e1 e2 r, is_observe_response r = false -> agree_at (mtok r) e1 e2 ->
  (forall m0, tget (sending e1) (mtok r) = Some m0 -> mtok m0 = mtok r) ->
  let '(e1', o1, d1, n1) := handle app e1 r in
  let '(e2', o2, d2, n2) := handle app e2 r in
  o1 = o2 /\ d1 = d2 /\ n1 = n2 /\ agree_at (mtok r) e1' e2' /\ (forall wm, o1 = Some wm -> mtok wm = mtok r).
Proof. exact handle_congr. Qed.
Print Assumptions C04_handle_congruence.

(* "Never a partial body presented as complete, and never by hanging".
   - the expiry sweep (CheckExpirations past the deadline), in ANY state, leaves both
     tables of that side empty: whatever an interrupted exchange left is removed; *)
Theorem C04_expire_clears : forall c w atB,
  let w' := fst (step c w (Expire atB)) in
  let e' := if atB then wb w' else wa w' in sending e' = [] /\ receiving e' = [].
Proof. exact expire_clears. Qed.
Print Assumptions C04_expire_clears.
(* - after the sweep, whatever the script did before and does afterwards, every body
     handed to that side's application is paid for by a first message that arrived AFTER
     the sweep: nothing of the interrupted transfer can be completed and delivered; *)
Theorem C04_expire_forgets : forall c, cfg_wf c -> forall es1 atB es2,
  Forall (bump_ok c) (es1 ++ Expire atB :: es2) ->
  let side := if atB then 1 else 0 in
  let after := map proj_mob (run c (exec c (init c) (es1 ++ [Expire atB])) es2) in
  forall t, handed after side t <= arrivals after side t.
Proof. exact expire_forgets. Qed.
Print Assumptions C04_expire_forgets.
(* - every error outcome of processReceivedMessage hands nothing to the application; *)
Theorem C04_error_delivers_nothing : forall app e r mx isb1,
  let '(_, o, d) := process_received app e r mx isb1 in o = Fail -> d = [].
Proof. exact pr_error_nothing. Qed.
Print Assumptions C04_error_delivers_nothing.
(* - when Handle reports an error, either nothing was handed over, or a complete message
     was (covered by safety) and the error is the failure to start the block-wise transfer
     of the application's own answer (>= 16 bytes) to it. *)
Theorem C04_handle_error_outcome : forall app e r,
  0 <= eszx e <= 7 -> (forall b, mb1 r = Some b \/ mb2 r = Some b -> 0 <= bszx b) ->
  let '(_, _, d, nerr) := handle app e r in
  nerr <> 0 -> d = [] \/ exists x wm, d = [x] /\ app (mtok r) x = Some wm /\ 16 <= blen (mbody wm).
Proof. exact handle_error_outcome. Qed.
Print Assumptions C04_handle_error_outcome.

(* Non-vacuity: a three-block body served at SZX 0 and reassembled from its blocks
   delivered in the order 1, 0, 0, 1, 2, 2 (out of order, duplicated, final block
   replayed) hands the body over exactly once; the hypotheses of the theorems hold
   for these messages. *)
Definition ex_body : list Z := gen_body 5 37.
Definition ex_resp : msg :=
  {| mcode := Content; mtok := 7; mb1 := None; mb2 := None; ms1 := None; ms2 := None;
     metag := Some 1; mobs := None; mother := [(12, 42)]; mbody := ex_body |}.
Definition ex_block (n : Z) : msg :=
  match create_sending ex_resp 0 1152 {| bszx := 0; bnum := n; bmore := true |} with
  | Some (sm, _) => sm | None => ex_resp end.
Definition ex_ep : ep :=
  {| sending := [(7, {| mcode := GET; mtok := 7; mb1 := None; mb2 := None; ms1 := None; ms2 := None;
                        metag := None; mobs := None; mother := [(11, 0)]; mbody := [] |})];
     receiving := []; eszx := 0; emax := 1152; eoutside := []; efresh := 0; ehid := 0 |}.
Example C04_nonvacuous :
  map (fun p => mbody (snd p))
      (snd (feed (fun _ _ => None) ex_ep [ex_block 1; ex_block 0; ex_block 0; ex_block 1; ex_block 2; ex_block 2]))
  = [ex_body]
  /\ blen (mbody (ex_block 2)) = 5 /\ mb2 (ex_block 2) = Some {| bszx := 0; bnum := 2; bmore := false |}.
Proof. vm_compute. repeat split. Qed.

(* ------------------------------------------------------------------------ *)
(* Progress without faults, full two-endpoint run (Blockwise/ProofsProgressDown.v). *)
(* Script: Start i, then n times "deliver the oldest in-flight message".        *)
(* [get_done c i x n handed wbf sizes]: in that run B's application is handed    *)
(* exactly one message, the request; A's application exactly one, [handed]; no   *)
(* error callback fires; the Do returns ok in the last step and not before; at   *)
(* the end A is back in its initial state, B's endpoint is [wbf], nothing is in   *)
(* flight or pending, the four table sizes are [sizes].                          *)

(* Do GET, every body length L, every SZX pair 0..7 (7 = BERT with max message size
   >= 1024): completes with the exact body (code, token, ETag, Content-Format of the
   response; no Block/Size option left) after q round trips, q = 1 for L < size szxB
   (plain request/response), otherwise q = 1 + ceil((L - B0) / Bs) <= ceil(L / size min)
   with B0 = buffer_size szxB maxB and Bs = buffer_size (min szxA szxB) maxB; all tables
   empty at the end.  The hypothesis excludes O3: size szxB <= L <= B0, where the response
   is a single block (see C04_progress_download_single_block). *)
Theorem C04_progress_download : forall c i x r,
  nth_error (cexch c) i = Some x -> xkind x = 0 -> xcode x = GET -> xlen x = 0 ->
  nth_error (cres c) (Z.to_nat (xpath x)) = Some r ->
  0 <= cszxA c <= 7 -> 0 <= cszxB c <= 7 -> (cszxB c = 7 -> 1024 <= cmaxB c) ->
  let L := blen (res_body r 0) in
  let B0 := buffer_size (cszxB c) (cmaxB c) in
  let s := Z.min (cszxA c) (cszxB c) in
  let Bs := buffer_size s (cmaxB c) in
  (L < size (cszxB c) \/ B0 < L) ->
  exists q : nat,
    (1 <= q)%nat /\ Z.of_nat q <= (L + size s - 1) / size s + 1 /\
    (L < size (cszxB c) -> q = 1%nat) /\
    (B0 < L -> (Z.of_nat q - 2) * Bs < L - B0 <= (Z.of_nat q - 1) * Bs /\ Z.of_nat q <= (L + size s - 1) / size s) /\
    get_done c i x (2 * q) (get_resp x r) (wb (init c)) [0; 0; 0; 0].
Proof. exact get_progress. Qed.
Print Assumptions C04_progress_download.

(* O3 (found by this proof): a response of exactly one block (BERT: up to maxB/1024
   blocks), size szxB <= L <= B0.  B sends it as Block2 NUM 0 M=0; the Do returns ok with
   the exact body after one round trip, but A's application is handed the block message
   itself (Block2 / Size2 options still on it) and B keeps the response in its sending
   table (sizes [0;0;1;0]) until the expiry sweep: delivered exactly once, exact body,
   state not released.  The run stays there for every longer script. *)
Theorem C04_progress_download_single_block : forall c i x r,
  nth_error (cexch c) i = Some x -> xkind x = 0 -> xcode x = GET -> xlen x = 0 ->
  nth_error (cres c) (Z.to_nat (xpath x)) = Some r ->
  0 <= cszxA c <= 7 -> 0 <= cszxB c <= 7 ->
  let L := blen (res_body r 0) in
  let B0 := buffer_size (cszxB c) (cmaxB c) in
  size (cszxB c) <= L <= B0 ->
  get_done c i x 2 (blk_msg (get_resp x r) (cszxB c) 0 B0)
           (with_sending (wb (init c)) [(xtok x, get_resp x r)]) [0; 0; 1; 0] /\
  mbody (blk_msg (get_resp x r) (cszxB c) 0 B0) = res_body r 0 /\
  mb2 (blk_msg (get_resp x r) (cszxB c) 0 B0) = Some {| bszx := cszxB c; bnum := 0; bmore := false |} /\
  ms2 (blk_msg (get_resp x r) (cszxB c) 0 B0) = Some L.
Proof. exact get_single_block. Qed.
Print Assumptions C04_progress_download_single_block.

(* The block-wise download phase from a generic mid-state (any request code GET..DELETE,
   so also the response of a POST/PUT; any response message; first block served with
   SZX s0 <= szxB), for composition with an upload phase. *)
Theorem C04_download_phase : forall c tok req resp sA sB mB s0,
  GET <= mcode req <= DELETE -> mtok resp = tok -> resp_code_ok (mcode resp) -> mobs resp = None ->
  0 <= sA <= 7 -> 0 <= s0 <= sB -> sB <= 7 -> (s0 = 7 -> 1024 <= mB) ->
  forall w, at_first tok req resp sA sB mB s0 w ->
  buffer_size s0 mB < blen (mbody resp) -> In tok (map snd (pending w)) ->
  exists q : nat,
    (1 <= q)%nat /\
    (Z.of_nat q - 1) * buffer_size (Z.min sA s0) mB < blen (mbody resp) - buffer_size s0 mB
      <= Z.of_nat q * buffer_size (Z.min sA s0) mB /\
    let es := repeat (Deliver 0%nat) (1 + 2 * q) in
    done_world tok w (run_w c w es) /\ done_obs tok resp w (run_w c w es) (run c w es) [].
Proof. exact download_phase. Qed.
Print Assumptions C04_download_phase.

(* Uploads (Blockwise/ProofsProgressUp.v; its names are used qualified, Up.x).      *)
Module Up := GoCoap.Blockwise.ProofsProgressUp.

(* Do POST/PUT, every body length, every SZX pair 0..7 (a BERT sender has max message
   size >= 1024), response of B's application shorter than 16 bytes (not block-wise):
   B's application is handed exactly one message, the request with its exact body and
   without Block1/Size1; A's application exactly the response; no error; the Do returns
   ok once, in the last step; tables empty; after exactly [Up.upload_rounds] round trips,
   at most ceil(|body| / block) + 1 with block = size (min szxA szxB) (after a
   down-negotiation the sender re-sends overlapping blocks until the offsets meet again).
   Hypothesis: outside O2. *)
Theorem C04_progress_upload : forall c i x r,
  nth_error (cexch c) i = Some x -> xkind x = 0 -> xcode x = 2 \/ xcode x = 3 -> 0 <= xlen x ->
  0 <= cszxA c <= 7 -> 0 <= cszxB c <= 7 -> 0 <= cmaxA c -> (cszxA c = 7 -> 1024 <= cmaxA c) ->
  nth_error (cres c) (Z.to_nat (xpath x)) = Some r -> rlen r < 16 ->
  ~ Up.o2_region c (xlen x) ->
  let n := (2 * Z.to_nat (Up.upload_rounds c (xlen x)))%nat in
  let script := Start i :: repeat (Deliver 0) n in
  let tr := run c (init c) script in
  let block := size (Z.min (cszxA c) (cszxB c)) in
  Up.deliv_to 1 tr = [request_of x] /\
  Up.deliv_to 0 tr = [Up.response_of c x r] /\
  Forall (fun o => mo_err o = 0) tr /\
  concat (map mo_ret tr) = [(Z.of_nat i, 0)] /\ mo_ret (last tr Up.no_mob) = [(Z.of_nat i, 0)] /\
  mo_sizes (last tr Up.no_mob) = [0; 0; 0; 0] /\
  flight (Up.exec c (init c) script) = [] /\
  1 <= Up.upload_rounds c (xlen x) <= (xlen x + block - 1) / block + 1.
Proof. exact Up.C04_upload_progress. Qed.
Print Assumptions C04_progress_upload.

(* O2, exact region (narrower than first recorded): a BERT sender, 1024 < |body| < its
   buffer, and the receiver is BERT too or |body| is not a multiple of the receiver's
   block size.  There, for EVERY longer script: nothing is ever handed to either
   application, the Do does not return (it ends by its time-out), exactly one error
   callback fires (at the sender, which seeks past the end of the body), and B's
   reassembly entry stays until the expiry sweep: an error / time-out, never a partial
   body. *)
Theorem C04_progress_upload_O2_refuted : forall c i x,
  nth_error (cexch c) i = Some x -> xkind x = 0 -> xcode x = 2 \/ xcode x = 3 -> 0 <= xlen x ->
  0 <= cszxA c <= 7 -> 0 <= cszxB c <= 7 -> 0 <= cmaxA c -> (cszxA c = 7 -> 1024 <= cmaxA c) ->
  Up.o2_region c (xlen x) ->
  let bm := buffer_size (Z.min (cszxA c) (cszxB c)) (cmaxA c) in
  let n0 := (2 * Z.to_nat (xlen x / bm) + 2)%nat in
  forall n,
  let script := Start i :: repeat (Deliver 0) (n0 + n) in
  let tr := run c (init c) script in
  Up.deliv_to 1 tr = [] /\ Up.deliv_to 0 tr = [] /\ concat (map mo_ret tr) = [] /\
  Up.err_count tr = 1 /\ Exists (fun o => mo_side o = 0 /\ mo_err o = 1 /\ mo_wire o = None) tr /\
  mo_sizes (last tr Up.no_mob) = [0; 0; 0; 1] /\
  flight (Up.exec c (init c) script) = [].
Proof. exact Up.C04_upload_O2_refuted. Qed.
Print Assumptions C04_progress_upload_O2_refuted.

(* O1: a one-way write (WriteMessage) of a POST/PUT with |body| >= size szxA skips block 0
   (createSendingMessage adds the buffer length to the offset for Block1): for every script
   length nothing is ever handed to B's application ... *)
Theorem C04_progress_write_O1_nothing : forall c i x,
  nth_error (cexch c) i = Some x -> xkind x = 1 -> xcode x = 2 \/ xcode x = 3 -> 0 <= xlen x ->
  0 <= cszxA c <= 7 -> 0 <= cszxB c <= 7 -> 0 <= cmaxA c -> (cszxA c = 7 -> 1024 <= cmaxA c) ->
  size (cszxA c) <= xlen x ->
  forall n, Up.deliv_to 1 (run c (init c) (Start i :: repeat (Deliver 0) n)) = [].
Proof. exact Up.C04_write_O1_nothing. Qed.
Print Assumptions C04_progress_write_O1_nothing.
(* ... while a one-way write below the block size is delivered exactly once, exactly. *)
Theorem C04_progress_write_small : forall c i x r,
  nth_error (cexch c) i = Some x -> xkind x = 1 -> xcode x = 2 \/ xcode x = 3 -> 0 <= xlen x ->
  0 <= cszxA c <= 7 -> 0 <= cszxB c <= 7 -> 0 <= cmaxA c -> (cszxA c = 7 -> 1024 <= cmaxA c) ->
  nth_error (cres c) (Z.to_nat (xpath x)) = Some r -> rlen r < 16 ->
  xlen x < size (cszxA c) ->
  let script := [Start i; Deliver 0; Deliver 0]%nat in
  let tr := run c (init c) script in
  Up.deliv_to 1 tr = [request_of x] /\ Up.deliv_to 0 tr = [Up.response_of c x r] /\
  Forall (fun o => mo_err o = 0) tr /\ concat (map mo_ret tr) = [(Z.of_nat i, 0)] /\
  mo_sizes (last tr Up.no_mob) = [0; 0; 0; 0] /\ flight (Up.exec c (init c) script) = [].
Proof. exact Up.C04_write_small_delivered. Qed.
Print Assumptions C04_progress_write_small.

(* Upload AND download block-wise (Blockwise/ProofsProgressBoth.v): Do POST/PUT with a
   block-wise request (outside O2) whose response is block-wise too, every SZX pair: one
   delivery of the exact request at B, one of the exact response at A, no error, one ok
   return in the last step, both endpoints back in their initial state, after
   upload_rounds + download_rounds <= ceil(|request| / block) + ceil(|response| / block)
   round trips.  (The response region of one block is O3 again: Both.C04_both_single_block.) *)
Module Both := GoCoap.Blockwise.ProofsProgressBoth.
Theorem C04_progress_upload_download : forall c i x r,
  nth_error (cexch c) i = Some x -> xkind x = 0 -> xcode x = 2 \/ xcode x = 3 -> 0 <= xlen x ->
  0 <= cszxA c <= 7 -> 0 <= cszxB c <= 7 -> 0 <= cmaxA c -> (cszxA c = 7 -> 1024 <= cmaxA c) ->
  (Z.min (cszxA c) (cszxB c) = 7 -> 1024 <= cmaxB c) ->
  size (cszxA c) < xlen x -> ~ Up.o2_region c (xlen x) ->
  nth_error (cres c) (Z.to_nat (xpath x)) = Some r ->
  let block := size (Z.min (cszxA c) (cszxB c)) in
  let L2 := blen (res_body r 0) in
  buffer_size (Z.min (cszxA c) (cszxB c)) (cmaxB c) < L2 ->
  let rounds := Up.upload_rounds c (xlen x) + Both.download_rounds c L2 in
  let n := (2 * Z.to_nat rounds)%nat in
  let script := Start i :: repeat (Deliver 0) n in
  let tr := run c (init c) script in
  let wf := Up.exec c (init c) script in
  Up.deliv_to 1 tr = [request_of x] /\ Up.deliv_to 0 tr = [Up.response_of c x r] /\
  Forall (fun o => mo_err o = 0) tr /\
  concat (map mo_ret tr) = [(Z.of_nat i, 0)] /\ mo_ret (last tr Up.no_mob) = [(Z.of_nat i, 0)] /\
  mo_sizes (last tr Up.no_mob) = [0; 0; 0; 0] /\
  wa wf = wa (init c) /\ wb wf = wb (init c) /\ flight wf = [] /\ pending wf = [] /\ vers wf = [] /\
  2 <= Up.upload_rounds c (xlen x) /\ 1 <= Both.download_rounds c L2 /\
  rounds <= (xlen x + block - 1) / block + (L2 + block - 1) / block.
Proof. exact Both.C04_both_blockwise. Qed.
Print Assumptions C04_progress_upload_download.

(* Non-vacuity of the two-party theorems: two concurrent exchanges (a 40-byte POST with a
   5-byte answer, token 7; a GET of a 50-byte resource with ETag, token 8) at SZX 0 / 1,
   with interleaving, a duplicate, replays (also of final blocks), a resource change, a
   drop, a time-out and the sweeps.  The hypotheses hold, bodies are handed over at both sides, and (by the
   theorem, not by evaluation) the specification accepts the trace. *)
Definition ex2_cfg : cfg :=
  Cfg 0 1152 1 1152 [X 0 2 7 0 5 40 None; X 0 1 8 1 0 0 None] [R 11 5 false 42; R 13 50 true 50] [].
Definition ex2_es : list ev :=
  [Start 0; Start 1; Deliver 1; Deliver 0; Dup 0; Deliver 1; Deliver 0; Bump 1; Replay 2; Deliver 0; Deliver 0; Deliver 0;
   Deliver 0; Replay 5; Deliver 0; Deliver 0; Drop 0; Deliver 0; Deliver 0; Replay 3; Deliver 0; Deliver 0; Deliver 0; Deliver 0;
   Deliver 0; Deliver 0; Deliver 0; Deliver 0; Deliver 0; Deliver 0; Deliver 0; Deliver 0; Deliver 0; Deliver 0; Replay 9; Deliver 0;
   Deliver 0; Timeout 1; Expire false; Expire true]%nat.
Example C04_exchange_nonvacuous :
  cfg_wf ex2_cfg /\ Forall (bump_ok ex2_cfg) ex2_es /\
  c04_ok ex2_cfg ex2_es (model_obs ex2_cfg ex2_es) = true /\
  (* the bodies handed over: (side, [(token, length)]) *)
  map (fun o => (o_side o, map (fun d => (ptok d, plen d)) (o_deliv o)))
      (filter (fun o => existsb (fun d => 0 <? plen d) (o_deliv o)) (model_obs ex2_cfg ex2_es))
  = [(1, [(7, 40)]); (0, [(8, 50)]); (0, [(7, 5)])].
Proof.
  assert (Hwf : cfg_wf ex2_cfg).
  { constructor; cbn [cszxA cszxB cmaxA cmaxB cexch cres coutside ex2_cfg]; try lia.
    - intros x [<-|[<-|[]]]; cbn; unfold GET, DELETE, FRESH; repeat split; try lia; auto; intros; discriminate.
    - intros x y [<-|[<-|[]]] [<-|[<-|[]]]; cbn; intros; try reflexivity; discriminate.
    - intros x _. reflexivity.
    - intros r [<-|[<-|[]]]; cbn; lia. }
  assert (Hb : Forall (bump_ok ex2_cfg) ex2_es).
  { repeat (constructor; try exact I). cbn. intros r E. injection E as <-. reflexivity. }
  split; [exact Hwf|]. split; [exact Hb|]. split; [apply C04_exchange_ok; assumption|].
  vm_compute. reflexivity.
Qed.

(* ------------------------------------------------------------------------ *)
(* Virtual time: the two caches with validity deadlines (Blockwise/Timed.v).    *)
(* Every element of sendingMessagesCache / receivingMessagesCache carries its   *)
(* ValidUntil (now + the transfer timeout when it is stored); Cache.Load hides   *)
(* an element whose deadline has passed, LoadOrStore replaces it, LoadWithFunc  *)
(* (getSentRequest) does not look at deadlines, CheckExpirations removes it and  *)
(* calls onExpire.  The script gains [Age d] (d units of time pass, nothing is   *)
(* swept) and [Sweep side] (CheckExpirations now).  The correspondence run       *)
(* compares the implementation with THIS model (Run.model_obs_t); the harness    *)
(* ages the real caches with the hook VerifShiftDeadlines.                       *)

(* One Handle step, any application, any state (caches with pairwise distinct keys), any
   message, any time: the timed endpoint does what the endpoint of Model.v does that holds
   exactly the elements valid now ([view]) - same response, same deliveries, same error count,
   and the view of the resulting endpoint is the resulting endpoint of Model.v - given what
   getSentRequest found ([handle_s] is [handle] with that as a parameter; the two coincide
   when the sending element of the token is valid or absent: C04_timed_step_view). *)
Theorem C04_timed_step : forall app now te r, twf te ->
  let '(te', w, d, n) := thandle app now te r in
  handle_s app (view now te) r (tget_sent_request te (mtok r)) = (view now te', w, d, n) /\
  sim_res now te te' (view now te').
Proof. exact thandle_sim. Qed.
Print Assumptions C04_timed_step.
Theorem C04_timed_step_view : forall app now te r, twf te ->
  (forall dl m, craw (tsnd te) (mtok r) = Some (dl, m) -> expired now dl = false) ->
  let '(te', w, d, n) := thandle app now te r in
  handle app (view now te) r = (view now te', w, d, n) /\ sim_res now te te' (view now te').
Proof. exact thandle_view. Qed.
Print Assumptions C04_timed_step_view.

(* An expired reassembly element is INVISIBLE to Handle: in every state, at every time, for
   every message (also one with the token of that element) the step on the state with an
   element of receivingMessagesCache whose deadline has passed equals the step on the state
   without it - same response, same deliveries, same error count, same valid elements
   afterwards.  A token reused after the deadline behaves as a fresh one.  (This is the
   statement the seeded regression "Cache.Load no longer hides expired elements" falsifies.) *)
Theorem C04_expired_reassembly_invisible : forall app now te r k dl cm,
  twf te -> craw (trcv te) k = Some (dl, cm) -> expired now dl = true ->
  let '(te1, w1, d1, n1) := thandle app now te r in
  let '(te2, w2, d2, n2) := thandle app now (with_trcv te (cdel (trcv te) k)) r in
  w1 = w2 /\ d1 = d2 /\ n1 = n2 /\ view now te1 = view now te2.
Proof. exact expired_reassembly_invisible. Qed.
Print Assumptions C04_expired_reassembly_invisible.

(* The same for an expired element of sendingMessagesCache, with the one exception the code
   has: getSentRequest (sync.Map.LoadWithFunc) does not look at the deadline, so the element of
   the token of the message itself still pairs a Block2 response with its request.  For every
   other key, and whenever getSentRequest finds the same with and without it, the element is
   invisible; the exception is real (C04_expired_sending_exception: with the expired element
   the block is taken and the next one requested, without it the block is refused with 4.08). *)
Theorem C04_expired_sending_invisible : forall app now te r k dl m,
  twf te -> craw (tsnd te) k = Some (dl, m) -> expired now dl = true ->
  (k = mtok r -> tget_sent_request (with_tsnd te (cdel (tsnd te) k)) k = tget_sent_request te k) ->
  let '(te1, w1, d1, n1) := thandle app now te r in
  let '(te2, w2, d2, n2) := thandle app now (with_tsnd te (cdel (tsnd te) k)) r in
  w1 = w2 /\ d1 = d2 /\ n1 = n2 /\ view now te1 = view now te2.
Proof. exact expired_sending_invisible. Qed.
Print Assumptions C04_expired_sending_invisible.
Theorem C04_expired_sending_exception :
  twf xs_ep /\ craw (tsnd xs_ep) 7 = Some (0, xs_req) /\ expired 1 0 = true /\
  (let '(_, w, _, n) := thandle app_a 1 xs_ep xs_block in
   n = 0 /\ exists m, w = Some m /\ mcode m = GET /\ mb2 m = Some {| bszx := 0; bnum := 1; bmore := true |}) /\
  (let '(_, w, _, n) := thandle app_a 1 (with_tsnd xs_ep (cdel (tsnd xs_ep) 7)) xs_block in
   n = 1 /\ exists m, w = Some m /\ mcode m = Incomplete).
Proof. exact expired_sending_visible_to_getSentRequest. Qed.
Print Assumptions C04_expired_sending_exception.

(* At rest (a script in which no time passes) the timed two-party system IS the system of
   Model.v, event by event and observation by observation (wire messages, deliveries, error
   callbacks, returns, table sizes), for EVERY configuration and script: all theorems above
   about [run] / [model_obs] are theorems about the system the correspondence run compares
   the implementation with. *)
Theorem C04_timed_conservative : forall c es, trun c (tinit c) (map Ev es) = run c (init c) es.
Proof. exact timed_conservative. Qed.
Print Assumptions C04_timed_conservative.
(* ... e.g. the whole property (Spec.c04_ok) on the timed trace of every script at rest *)
Theorem C04_timed_rest_ok : forall c, cfg_wf c -> forall es, Forall (bump_ok c) es ->
  c04_ok c (untimed (map Ev es)) (model_obs_t c (map Ev es)) = true.
Proof.
  intros c Hwf es Hb.
  assert (Hu : untimed (map Ev es) = es) by (induction es as [|e es IH]; [reflexivity|cbn [map untimed]; f_equal; apply IH; inversion Hb; assumption]).
  unfold model_obs_t. rewrite Hu, timed_conservative. apply (exchange_c04_ok c Hwf es Hb).
Qed.
Print Assumptions C04_timed_rest_ok.

(* Safety over ALL timed scripts (the exchange-level theorem with ageing): every well-formed
   configuration, every script of Start / Deliver / Dup / Drop / Replay / Bump (of resources
   with ETag) / Timeout / Expire AND Age d / Sweep side at any point and in any amount - time
   passing while exchanges are under way, deadlines passing before or after the Do gave up,
   sweeps or no sweeps, tokens used again before or after the deadline: every message handed to
   B's application carries exactly the body of the exchange of its token, every message handed
   to A's application exactly one version of the resource of its exchange (or is body-less). *)
Theorem C04_timed_exchange_safety : forall c, cfg_wf c -> forall es, Forall (tbump_ok c) es ->
  Forall (mob_ok c (bumps (untimed es))) (trun c (tinit c) es).
Proof. exact timed_exchange_safety. Qed.
Print Assumptions C04_timed_exchange_safety.
Theorem C04_timed_exchange_safety_spec : forall c, cfg_wf c -> forall es, Forall (tbump_ok c) es ->
  Forall (fun o => Forall (fun d => delivery_class c (untimed es) (o_side o) d = 0%N) (o_deliv o)) (model_obs_t c es).
Proof. exact timed_exchange_safety_spec. Qed.
Print Assumptions C04_timed_exchange_safety_spec.

(* ... exactly once, and the whole property as specified (Spec.c04_ok: exact body, exactly once,
   options preserved, known token, a Do that returns ok got its response, no panic / hang mark),
   on the timed trace of EVERY timed script: the potential argument counts the reassembly
   buffers that are valid now; the passing of time and sweeps only lower it. *)
Theorem C04_timed_exchange_once : forall c, cfg_wf c -> forall es, Forall (tbump_ok c) es ->
  forall side t, handed (model_obs_t c es) side t <= arrivals (model_obs_t c es) side t.
Proof. exact timed_exchange_once_counts. Qed.
Print Assumptions C04_timed_exchange_once.
Theorem C04_timed_exchange_ok : forall c, cfg_wf c -> forall es, Forall (tbump_ok c) es ->
  c04_ok c (untimed es) (model_obs_t c es) = true.
Proof. exact timed_exchange_c04_ok. Qed.
Print Assumptions C04_timed_exchange_ok.

(* Non-vacuity with time: the history of the seeded regression (a download that dies after two
   blocks, 3700 units of time - beyond the deadline - pass without a sweep, the resource (no
   ETag) gets new content, a new Do with the same token completes): exactly the 78 bytes of the
   new content are handed over, once, while the cache still held the element of the dead
   exchange when the new one started. *)
Example C04_reuse_after_deadline :
  c04_class reuse_cfg (untimed reuse_es) (model_obs_t reuse_cfg reuse_es) = 0%N /\
  flat_map (fun o => map (fun d => (o_side o, plen d, psum d)) (filter (fun d => 0 <? plen d) (o_deliv o)))
           (model_obs_t reuse_cfg reuse_es) = [(0, 78, csum (res_body (R 11 75 false 42) 1))] /\
  nth 1 (o_sizes (nth 9 (model_obs_t reuse_cfg reuse_es) (Ob 0 None None [] 0 [] [] 0))) 0 = 1.
Proof. exact reuse_after_deadline. Qed.

(* ---------------------------------------------------------------------------------------- *)
(* "Concurrent transfers with different tokens never mix" as its own classes.                 *)
(* Spec.c04_class_x refines class 1 (a body that is wrong for the token it is handed over     *)
(* under) by what the applications supplied in the scenario: 8 = it is exactly a body supplied *)
(* under ANOTHER token, 9 = it is the beginning of a body supplied under one token followed by *)
(* the rest of a body supplied under a different token (cut at a multiple of 16 bytes).        *)
(* Tokens are whole values (in the correspondence runs: whole byte strings - 01, 01 00,        *)
(* 01 00 00, 00 01 ... are pairwise distinct tokens with distinct names).                      *)
(* ---------------------------------------------------------------------------------------- *)

(* the refinement is conservative: it fails exactly when Spec.c04_class fails, and differs from it
   only by saying 8 or 9 where that says 1 *)
Theorem C04_mix_classes_conservative : forall c es os,
  (c04_class_x c es os = 0%N <-> c04_class c es os = 0%N) /\
  (c04_class_x c es os = c04_class c es os \/
   (c04_class c es os = 1%N /\ (c04_class_x c es os = 8%N \/ c04_class_x c es os = 9%N))).
Proof. intros c es os. split; [exact (c04_class_x_zero_iff c es os)|exact (c04_class_x_values c es os)]. Qed.
Print Assumptions C04_mix_classes_conservative.

(* On the model's trace of EVERY script of every well-formed configuration - any number of
   exchanges with pairwise distinct tokens in flight together, every order of delivery,
   duplication, loss, replay of anything ever sent, resource changes, time-outs, sweeps - the
   refined property holds: in particular no application is ever handed a body supplied under
   another token, nor a splice of bodies supplied under two tokens.  (Isolation as a simulation
   by a single-token run: C04_exchange_isolated.) *)
Theorem C04_exchange_no_mixing : forall c, cfg_wf c -> forall es, Forall (bump_ok c) es ->
  c04_class_x c es (model_obs c es) = 0%N.
Proof. exact exchange_no_mixing. Qed.
Print Assumptions C04_exchange_no_mixing.

(* ... also with virtual time (ageing and sweeps at any point) *)
Theorem C04_timed_exchange_no_mixing : forall c, cfg_wf c -> forall es, Forall (tbump_ok c) es ->
  c04_class_x c (untimed es) (model_obs_t c es) = 0%N.
Proof. exact timed_exchange_no_mixing. Qed.
Print Assumptions C04_timed_exchange_no_mixing.

(* Non-vacuity.  (a) The classes are reachable: for two 40-byte uploads under the tokens 1 and 303
   (byte strings 01 and 01 00), a trace that hands the body of 303 over under token 1 is class 8,
   one that hands over the first block of 1 followed by the rest of 303 is class 9 (both class 1
   unrefined), the trace with each body under its own token is class 0.  (b) The hypotheses of
   C04_exchange_no_mixing hold for that configuration with the interleaved history the seeded
   regressions need (both uploads started together, their blocks alternating on the wire): the
   model hands each body over under its own token and both Do calls return ok. *)
Example C04_mix_classes_reachable :
  cfg_wf mix_cfg /\
  c04_class_x mix_cfg [] mix_os0 = 0%N /\ c04_class_x mix_cfg [] mix_os8 = 8%N /\ c04_class_x mix_cfg [] mix_os9 = 9%N /\
  c04_class mix_cfg [] mix_os8 = 1%N /\ c04_class mix_cfg [] mix_os9 = 1%N.
Proof. exact mix_classes_reachable. Qed.
Example C04_similar_tokens_interleaved :
  Forall (bump_ok mix_cfg) mix_es /\
  flat_map (fun o => map (fun d => (o_side o, ptok d, plen d, psum d))
                         (filter (fun d => 0 <? plen d) (o_deliv o))) (model_obs mix_cfg mix_es)
  = [(1, 1, 40, csum (mix_body 5)); (1, 303, 40, csum (mix_body 12));
     (0, 1, 5, csum (res_body (R 11 5 false 42) 0)); (0, 303, 5, csum (res_body (R 13 5 false 43) 0))] /\
  flat_map o_ret (model_obs mix_cfg mix_es) = [(0, 0); (1, 0)] /\
  c04_class_x mix_cfg mix_es (model_obs mix_cfg mix_es) = 0%N.
Proof. exact mix_model_interleaved. Qed.

(* ------------------------------------------------------------------------ *)
(* Request context deadlines (Blockwise/Deadline.v, ProofsDeadline.v) and the clauses of the property *)
(* that need the clock (Blockwise/SpecTime.v): a Do that returns WITHOUT error presents its exchange  *)
(* as complete; 2.31 Continue acknowledges one block of an upload that is still under way.             *)
From GoCoap Require Import Blockwise.SpecTime Blockwise.Deadline Blockwise.ProofsDeadline
  Blockwise.Reader Blockwise.ProofsReader Blockwise.ProofsLivelock.

(* The application may start a Do with context.WithTimeout(d) (deadline table: exchange -> d).  Do
   stores the request valid until that deadline, the reassembly entry of the response is valid until
   getValidUntil(sent request).  Without deadlines the run is the run of Timed.v: every theorem
   above about [trun] / [model_obs_t] is a theorem about the model the correspondence compares with. *)
Theorem C04_deadline_conservative : forall c es, drun c [] (dinit c) es = trun c (tinit c) es.
Proof. exact deadline_conservative. Qed.
Print Assumptions C04_deadline_conservative.

(* One Handle step, ANY state, message, application, time, context deadline: a LIVE element of the
   sending cache under an application token keeps its validity deadline and its data.  It can only be
   removed, and only together with an error callback or a delivery for its own token, or - a response
   (code above DELETE) - with its last block.  In particular serving the next block of an upload
   (continueSendingMessage) leaves the element Do stored exactly as it was: the statement seeded
   regression C04-6 falsifies (it re-stamped the element with now + transfer timeout). *)
Theorem C04_handle_keeps_live_sending_element : forall app now sctx e k dl m,
  counters_ok e -> 0 <= k < FRESH -> craw (tsnd e) k = Some (dl, m) -> expired now dl = false ->
  forall r,
  let '(e', w, d, nerr) := dhandle app now sctx e r in
  (craw (tsnd e') k = Some (dl, m) \/
   (mtok r = k /\ (nerr = 1 \/ d <> [] \/ DELETE < mcode m))) /\ counters_ok e'.
Proof. exact dhandle_snd. Qed.
Print Assumptions C04_handle_keeps_live_sending_element.

(* EVERY script of the two-party system (start / deliver any / dup / drop / replay / bump / time-out /
   expire / Age d / Sweep side, in any order and number), every well-formed configuration, every deadline
   table: in every reachable world, for every exchange started by Do that is in good standing
   (SpecTime.standing: since its start nothing was swept at A, no error was reported and nothing handed
   over for its token, it has not returned) and whose time has not run out, A's sending cache holds the
   request under its token valid until exactly the instant Do gave it: start + request deadline, or
   start + transfer timeout for a request without deadline. *)
Theorem C04_do_element_keeps_its_deadline : forall c, cfg_wf c -> forall dls es,
  let '(w, s) := dreach c dls (dinit c) g_init es in
  forall t dl, zassoc (g_ok s) t = Some dl -> tnow (dw w) <= dl ->
    exists x, In x (cexch c) /\ xkind x = 0 /\ xtok x = t /\
              craw (tsnd (twa (dw w))) t = Some (dl, request_of x).
Proof. exact do_element_keeps_its_deadline. Qed.
Print Assumptions C04_do_element_keeps_its_deadline.

(* FULL statement (false of the faithful model, see the refutation below): on the trace of every script
   no Do returns ok with the 2.31 Continue that just arrived, i.e.
     bogus_continue_class c dls es (model_obs_d c dls es) = 0.
   PROVED PART: it never happens to an exchange in good standing (class 10) - every script, every fault,
   ageing and sweeps at any point, every deadline table.  The excluded class 11 is exactly "the state Do
   keeps for the exchange was lost while the Do still waits" (KNOWN_FINDINGS.txt). *)
Theorem C04_no_bogus_continue_partial : forall c, cfg_wf c -> forall dls es,
  bogus_continue_class c dls es (model_obs_d c dls es) <> 10%N.
Proof. exact no_bogus_continue_in_good_standing. Qed.
Print Assumptions C04_no_bogus_continue_partial.

(* REFUTATION of the full statement, two histories (both replayed on the implementation: canonical cases
   of the harness): (1) an upload of 64 bytes without request deadline over a slow link - 3700 units pass
   after two acknowledged blocks, transfer timeout 3600 -: the element Do stored has expired, the next
   2.31 is handed to A's application and the Do returns it; (2) region O2 (the sender fails on the first
   2.31 and removes the element) followed by a duplicate of that 2.31.  (3) Inside a request deadline of
   9000 the slow upload of (1) goes on: block 3 is sent, nothing is handed over, no Do returns. *)
Theorem C04_do_returns_continue_refuted :
  (cfg_wf slow_cfg /\ bogus_continue_class slow_cfg [] slow_es (model_obs_d slow_cfg [] slow_es) = 11%N) /\
  (cfg_wf o2dup_cfg /\ bogus_continue_class o2dup_cfg [] o2dup_es (model_obs_d o2dup_cfg [] o2dup_es) = 11%N) /\
  (bogus_continue_class slow_cfg [(0%nat, 9000)] slow_es (model_obs_d slow_cfg [(0%nat, 9000)] slow_es) = 0%N /\
   exists o, nth_error (model_obs_d slow_cfg [(0%nat, 9000)] slow_es) 7 = Some o /\
             o_ret o = [] /\ o_deliv o = [] /\
             match o_wire o with Some (true, m) => pb1 m = Some (0, 3, false) | _ => False end).
Proof. exact do_returns_continue_after_state_lost. Qed.
Print Assumptions C04_do_returns_continue_refuted.

(* ------------------------------------------------------------------------ *)
(* The body behind an io.ReadSeeker (Blockwise/Reader.v).  The io.Reader contract allows a Read to    *)
(* return fewer bytes than asked for with a nil error.  io.ReadFull over EVERY reader that keeps the   *)
(* contract - any cutting of the data into reads, io.EOF with the last bytes or after them - returns   *)
(* exactly the slice of the body, short only at the end of the body.                                   *)
Theorem C04_read_full_exact : forall r, chunk_ok r -> forall pos want, 0 <= pos -> 0 <= want ->
  forall fuel, want < Z.of_nat fuel ->
  read_full fuel r pos want =
    (slice r pos want,
     if want <=? blen (slice r pos want) then RNil else if 0 <? blen (slice r pos want) then RUnexpectedEOF else REOF).
Proof. exact read_full_exact. Qed.
Print Assumptions C04_read_full_exact.

(* createSendingMessage as written (Seek, io.ReadFull, the two EOF errors forgiven at the end of the
   body) over such a reader IS Model.create_sending over the byte list: every block a sender serves -
   payload, NUM, M, Size option - and hence every theorem above is independent of the reader the
   application supplies.  (Non-empty buffer: BERT needs a maximum message size >= 1024.) *)
Theorem C04_create_sending_reader_independent : forall fuel rd orig maxszx maxmsg b,
  chunk_ok rd -> rdata rd = mbody orig ->
  0 <= bnum b -> 0 <= size (Z.min (bszx b) maxszx) ->
  0 < buffer_size (Z.min (bszx b) maxszx) maxmsg -> buffer_size (Z.min (bszx b) maxszx) maxmsg < Z.of_nat fuel ->
  create_sending_rd fuel rd orig maxszx maxmsg b = create_sending orig maxszx maxmsg b.
Proof. exact create_sending_rd_exact. Qed.
Print Assumptions C04_create_sending_reader_independent.

Theorem C04_do_first_block_reader_independent : forall fuel rd buflen,
  chunk_ok rd -> 0 <= buflen -> 0 < blen (rdata rd) -> buflen < Z.of_nat fuel ->
  do_first_block_rd fuel rd buflen = Some (firstn (Z.to_nat buflen) (rdata rd)).
Proof. exact do_first_block_rd_exact. Qed.
Print Assumptions C04_do_first_block_reader_independent.

(* The variant with ONE Read (seeded regression C04-7) is not: 300 bytes behind pages of 100 bytes (a
   reader that keeps the contract), blocks of 16: block 6 is served with 4 bytes and M=1. *)
Theorem C04_single_read_depends_on_reader :
  chunk_ok (paged (gen_body 13 300) 100) /\
  (exists sm, create_sending straddle_msg 0 1152 straddle_blk = Some (sm, true) /\ blen (mbody sm) = 16) /\
  create_sending_rd 17 (paged (gen_body 13 300) 100) straddle_msg 0 1152 straddle_blk
    = create_sending straddle_msg 0 1152 straddle_blk /\
  (exists sm, create_sending_one_read (paged (gen_body 13 300) 100) straddle_msg 0 1152 straddle_blk = Some (sm, true) /\
              blen (mbody sm) = 4 /\ mb2 sm = Some {| bszx := 0; bnum := 6; bmore := true |}).
Proof. exact single_read_depends_on_reader. Qed.
Print Assumptions C04_single_read_depends_on_reader.

(* ------------------------------------------------------------------------ *)
(* "never by hanging" (SpecTime.livelock, class 12): in a loss-free script the peers fall silent.  Once *)
(* nothing is in flight after N deliveries, N within four times the round-trip budget of the bodies,   *)
(* NO loss-free script of that exchange, however long, ends with a message still put on the wire.      *)
Theorem C04_no_livelock_after_quiescence : forall c i N,
  flight (run_w c (init c) (ff_script i N)) = [] -> Z.of_nat N <= 4 * trip_budget c ->
  forall n, livelock c (map Ev (ff_script i n)) (model_obs_d c [] (map Ev (ff_script i n))) = false.
Proof. exact no_livelock_after_quiescence. Qed.
Print Assumptions C04_no_livelock_after_quiescence.

(* Do GET, every body length (O3 included), every SZX pair incl. BERT with max >= 1024: every script
   length *)
Theorem C04_no_livelock_download : forall c i x r,
  nth_error (cexch c) i = Some x -> xkind x = 0 -> xcode x = GET -> xlen x = 0 ->
  nth_error (cres c) (Z.to_nat (xpath x)) = Some r ->
  0 <= cszxA c <= 7 -> 0 <= cszxB c <= 7 -> (cszxB c = 7 -> 1024 <= cmaxB c) ->
  forall n, livelock c (map Ev (ff_script i n)) (model_obs_d c [] (map Ev (ff_script i n))) = false.
Proof. exact no_livelock_download. Qed.
Print Assumptions C04_no_livelock_download.

(* Do POST / PUT with a small response, every body length, every SZX pair outside O2 *)
Theorem C04_no_livelock_upload : forall c i x r,
  nth_error (cexch c) i = Some x -> xkind x = 0 -> xcode x = 2 \/ xcode x = 3 -> 0 <= xlen x ->
  0 <= cszxA c <= 7 -> 0 <= cszxB c <= 7 -> 0 <= cmaxA c -> (cszxA c = 7 -> 1024 <= cmaxA c) ->
  nth_error (cres c) (Z.to_nat (xpath x)) = Some r -> rlen r < 16 ->
  ~ Up.o2_region c (xlen x) ->
  forall n, livelock c (map Ev (ff_script i n)) (model_obs_d c [] (map Ev (ff_script i n))) = false.
Proof. exact no_livelock_upload. Qed.
Print Assumptions C04_no_livelock_upload.

(* Non-vacuity of the clauses of SpecTime.v: hand-made observed traces evaluate to class 10 (the Do of an upload
   returns ok with the 2.31 that just arrived, 3700 units after its start, request deadline 9000), 11 (the same
   without request deadline), no class (request deadline 2000: the caller is overdue), 12 (a loss-free script of 60
   deliveries, budget 4 * 6, still emitting blocks) and 0 (the same script cut after 19 deliveries). *)
Example C04_spec_time_classes_reachable :
  c04_class_t reach_cfg [(0%nat, 9000)] reach_es reach_os (untimed reach_es) = 10%N /\
  c04_class_t reach_cfg [] reach_es reach_os (untimed reach_es) = 11%N /\
  c04_class_t reach_cfg [(0%nat, 2000)] reach_es reach_os (untimed reach_es) = 0%N /\
  c04_class_t reach_cfg [] reach_long_es reach_long_os (untimed reach_long_es) = 12%N /\
  c04_class_t reach_cfg [] (firstn 20 reach_long_es) (firstn 20 reach_long_os) (untimed (firstn 20 reach_long_es)) = 0%N.
Proof. exact spec_time_classes_reachable. Qed.

(* ------------------------------------------------------------------------ *)
(* State of an exchange that is still under way is not touched by ANOTHER request with the same token      *)
(* (Blockwise/ProofsParked.v; seeded regressions C04-8 / C04-9).                                            *)
From GoCoap Require Import Blockwise.ProofsParked.

(* A Do for a token that is in flight - the sending cache holds an element under the token (Model.v) / a
   live one (Timed.v, Deadline.v; whatever deadline the second call carries) - is refused at once and
   changes NOTHING: the run with the refused call is the run without it plus the one observation of the
   refusal (Do returns an error, no wire message, table sizes as before).  In particular the exchange that
   owns the token goes on as if the call had not happened.  Seeded regression C04-8 falsifies it: its
   refused Do deletes the element of the exchange in flight. *)
Theorem C04_second_do_refused_and_invisible : forall c w i x es,
  nth_error (cexch c) i = Some x -> xkind x = 0 -> tget (sending (wa w)) (xtok x) <> None ->
  run c w (Start i :: es) = refusal i (sizes_of w) :: run c w es.
Proof. exact second_do_invisible. Qed.
Print Assumptions C04_second_do_refused_and_invisible.

Theorem C04_second_do_refused_and_invisible_timed : forall c w i x es,
  nth_error (cexch c) i = Some x -> xkind x = 0 -> cload (tnow w) (tsnd (twa w)) (xtok x) <> None ->
  trun c w (Ev (Start i) :: es) = refusal i (tsizes_of w) :: trun c w es.
Proof. exact second_do_invisible_t. Qed.
Print Assumptions C04_second_do_refused_and_invisible_timed.

Theorem C04_second_do_refused_and_invisible_deadline : forall c dls w i x es,
  nth_error (cexch c) i = Some x -> xkind x = 0 -> cload (tnow (dw w)) (tsnd (twa (dw w))) (xtok x) <> None ->
  drun c dls w (Ev (Start i) :: es) = refusal i (tsizes_of (dw w)) :: drun c dls w es.
Proof. exact second_do_invisible_d. Qed.
Print Assumptions C04_second_do_refused_and_invisible_deadline.

(* One Handle step, ANY message, application, state (counters of the private tokens non-negative, reassembly
   entries under application tokens carry their token - both hold in every reachable endpoint) and time:
   every live element of the sending cache under an application token - the response a download is served
   from, the request of a Do - is afterwards EXACTLY what it was (validity and data), or it is gone; and it
   is gone only if the message is a continuation request for that very token that is not handed to the
   application (d = []) and ends the transfer: an error, or the last block of a response.
   C04_handle_keeps_live_sending_element leaves open what happens in a step that hands a message to the
   application; this theorem closes it: a request handed to the application never replaces (nor removes)
   what is parked under its token, whatever the application answers.  Seeded regression C04-9 falsifies it:
   its startSendingMessage replaces the parked message by the new answer. *)
Theorem C04_handle_never_replaces_parked_message : forall app now sctx e r,
  counters_ok e -> ctok_ok (trcv e) ->
  let '(e', w, d, nerr) := dhandle app now sctx e r in
  (forall k dl m, 0 <= k < FRESH -> craw (tsnd e) k = Some (dl, m) -> expired now dl = false ->
     craw (tsnd e') k = Some (dl, m) \/
     (craw (tsnd e') k = None /\ mtok r = k /\ wants_to_be_received r = false /\ d = [] /\
      (nerr = 1 \/ DELETE < mcode m))) /\
  counters_ok e' /\ ctok_ok (trcv e').
Proof. exact dhandle_parked. Qed.
Print Assumptions C04_handle_never_replaces_parked_message.

Theorem C04_request_keeps_parked_message : forall app now e r dl m,
  counters_ok e -> ctok_ok (trcv e) -> 0 <= mtok r < FRESH ->
  craw (tsnd e) (mtok r) = Some (dl, m) -> expired now dl = false ->
  let '(e', w, d, nerr) := thandle app now e r in
  d <> [] -> craw (tsnd e') (mtok r) = Some (dl, m).
Proof. exact request_keeps_parked. Qed.
Print Assumptions C04_request_keeps_parked_message.

(* EVERY script of the timed two-party system (start / deliver any / dup / drop / replay / bump / time-out /
   expire / Age / Sweep, any order and number), every configuration (no well-formedness needed: any tokens,
   resources with or without ETag that change at any moment), from the world any script es0 leads to: a message
   parked at B under an application token - while the clock has not passed its deadline - is still exactly that
   message, or there was a moment in between at which the token had NO element (the transfer had ended: last
   block served, continuation error, sweep).  So all blocks B serves for a token between two such moments are
   slices of ONE message (C04_serve_coherent): a download cannot be switched to another representation by
   whatever request arrives meanwhile. *)
Theorem C04_parked_message_never_swapped : forall c es0 es k dl m,
  let w := treach c (tinit c) es0 in
  0 <= k < FRESH -> craw (tsnd (twb w)) k = Some (dl, m) ->
  tnow (treach c w es) <= dl ->
  craw (tsnd (twb (treach c w es))) k = Some (dl, m) \/
  exists es1 es2, es = es1 ++ es2 /\ craw (tsnd (twb (treach c w es1))) k = None.
Proof. exact parked_never_swapped_init. Qed.
Print Assumptions C04_parked_message_never_swapped.

(* The same with request context deadlines (Deadline.v, any deadline table): B's side of a step is B's side of
   the timed step. *)
Theorem C04_parked_message_never_swapped_deadline : forall c dls es0 es k dl m,
  let w := dreach_w c dls (dinit c) es0 in
  0 <= k < FRESH -> craw (tsnd (twb (dw w))) k = Some (dl, m) ->
  tnow (dw (dreach_w c dls w es)) <= dl ->
  craw (tsnd (twb (dw (dreach_w c dls w es)))) k = Some (dl, m) \/
  exists es1 es2, es = es1 ++ es2 /\ craw (tsnd (twb (dw (dreach_w c dls w es1)))) k = None.
Proof. exact parked_never_swapped_d_init. Qed.
Print Assumptions C04_parked_message_never_swapped_deadline.

(* The two histories of the seeded regressions on the model (canonical cases of the harness): (a) the second Do
   meets a live element (hypothesis of the theorems above), is refused, the upload goes on: B's application gets
   the 64 bytes, the first Do returns the 2.04; (b) B parks version 0 (75 bytes) before and after the stale
   request, answers it 4.08 with an error callback after its application was asked again, and the download ends
   with exactly version 0.  Class 0 on both traces. *)
Example C04_second_do_history :
  cload (tnow (treach second_do_cfg (tinit second_do_cfg) second_do_pre))
        (tsnd (twa (treach second_do_cfg (tinit second_do_cfg) second_do_pre))) 7 <> None /\
  (exists o, nth_error (model_obs_t second_do_cfg second_do_es) 4 = Some o /\ o_ret o = [(0, 1)] /\ o_wire o = None) /\
  (exists o d, nth_error (model_obs_t second_do_cfg second_do_es) 8 = Some o /\ o_side o = 1 /\ o_deliv o = [d] /\
               plen d = 64 /\ psum d = csum (gen_body 5 64)) /\
  (exists o d, nth_error (model_obs_t second_do_cfg second_do_es) 9 = Some o /\ o_ret o = [(0, 0)] /\ o_deliv o = [d] /\
               pcode d = Changed) /\
  c04_class_t second_do_cfg [] second_do_es (model_obs_t second_do_cfg second_do_es) (untimed second_do_es) = 0%N.
Proof. exact second_do_history. Qed.

Example C04_stale_request_history :
  let w0 := treach stale_cfg (tinit stale_cfg) stale_pre in
  let w1 := treach stale_cfg w0 [Ev (Replay 0)] in
  (exists m, craw (tsnd (twb w0)) 7 = Some (3600, m) /\ mbody m = res_body (R 11 75 false 42) 0 /\
             craw (tsnd (twb w1)) 7 = Some (3600, m)) /\
  (exists o r, nth_error (model_obs_t stale_cfg stale_es) 6 = Some o /\ o_side o = 1 /\ o_err o = 1 /\
               o_wire o = Some (false, r) /\ pcode r = Incomplete /\ blen (o_deliv o) = 1) /\
  (exists o d, nth_error (model_obs_t stale_cfg stale_es) 13 = Some o /\ o_ret o = [(0, 0)] /\ o_deliv o = [d] /\
               plen d = 75 /\ psum d = csum (res_body (R 11 75 false 42) 0)) /\
  c04_class_t stale_cfg [] stale_es (model_obs_t stale_cfg stale_es) (untimed stale_es) = 0%N.
Proof. exact stale_request_history. Qed.

(* SpecTime's class 13 (a response body that is the beginning of one representation of the resource followed by
   the rest of a different one) refines class 1: on the model trace of EVERY timed script of a well-formed
   configuration no delivery is such a splice (corollary of C04_timed_exchange_safety_spec). *)
Theorem C04_timed_exchange_no_version_splice : forall c, cfg_wf c -> forall es, Forall (tbump_ok c) es ->
  Forall (fun o => Forall (fun d => version_splice_class c (untimed es) (o_side o) d = 0%N) (o_deliv o)) (model_obs_t c es).
Proof. exact timed_exchange_no_version_splice. Qed.
Print Assumptions C04_timed_exchange_no_version_splice.

(* ... and the class is reachable: the trace seeded regression C04-9 produces on history (b) - 78 bytes, the first
   32 of version 0 followed by bytes 32.. of version 1 - evaluates to 13, the trace with version 0 to 0, a body that
   is no such splice to 1. *)
Example C04_version_splice_reachable :
  let r := R 11 75 false 42 in
  c04_class_t stale_cfg [] splice_es
    (splice_obs 78 (csum (firstn 32 (res_body r 0) ++ skipn 32 (res_body r 1)))) (untimed splice_es) = 13%N /\
  c04_class_t stale_cfg [] splice_es (splice_obs 75 (csum (res_body r 0))) (untimed splice_es) = 0%N /\
  c04_class_t stale_cfg [] splice_es (splice_obs 76 (csum (res_body r 0 ++ [7]))) (untimed splice_es) = 1%N.
Proof. exact version_splice_reachable. Qed.

(* ------------------------------------------------------------------------------------------------------------ *)
(* Last round: blocks that do not continue what is held (seeded regression C04-11) and copies of datagrams of a
   block-wise exchange on UDP (seeded regression C04-10).  Proofs: Blockwise/ProofsStale.v, Blockwise/ProofsUdp.v. *)
From GoCoap Require Blockwise.ProofsStale Blockwise.ProofsUdp.
From GoCoap Require Dedup.Model NoResp.BwModel.

(* Append-only reassembly, for ANY block (no coherence assumption: the block may come from another transfer with
   the same token, from another representation of a resource without ETag, from anywhere): processReceivedMessage
   with a reassembly under way for the token and a block whose offset is NOT the number of bytes held - and that
   does not announce another representation by a different ETag - hands nothing to the application and leaves the
   reassembly entry exactly as it was (nothing rewritten, nothing cut off); or the entry is gone and the step is an
   error (the refused restart of the response of a POST/PUT at block 0).  "Duplicated, stale, out-of-order ...
   blocks never corrupt, truncate or extend a body."  C04-11 (off <= held) falsifies it. *)
Theorem C04_stale_block_inert : forall app e r maxszx (isb1 : bool) sent b cm,
  (mcode r =? GET) || (mcode r =? DELETE) = false ->
  (if isb1 then mb1 r else mb2 r) = Some b ->
  is_observe_response r = false ->
  tget (receiving e) (mtok r) = Some cm ->
  ProofsStale.same_representation r cm ->
  bnum b * size (bszx b) <> blen (mbody cm) ->
  let res := process_received_s app e r maxszx isb1 sent in
  snd res = [] /\
  (tget (receiving (fst (fst res))) (mtok r) = Some cm \/
   (tget (receiving (fst (fst res))) (mtok r) = None /\ snd (fst res) = Fail)).
Proof. exact ProofsStale.stale_block_inert. Qed.
Print Assumptions C04_stale_block_inert.

(* ... the reassembly step itself: what is held afterwards is what was held, extended by the block exactly when its
   offset is the number of bytes held *)
Theorem C04_reassembly_append_only : forall cm r off cm' appended,
  ProofsStale.same_representation r cm -> reasm cm r off = (cm', appended) ->
  (appended = true /\ off = blen (mbody cm) /\ mbody cm' = mbody cm ++ mbody r) \/ (appended = false /\ cm' = cm).
Proof. exact ProofsStale.reasm_append_only. Qed.
Print Assumptions C04_reassembly_append_only.

(* ... a stale LAST block (M = 0) strictly inside the bytes held never completes the transfer *)
Theorem C04_stale_last_block_never_completes : forall app e r maxszx (isb1 : bool) sent b cm,
  (mcode r =? GET) || (mcode r =? DELETE) = false ->
  (if isb1 then mb1 r else mb2 r) = Some b -> bmore b = false ->
  is_observe_response r = false ->
  tget (receiving e) (mtok r) = Some cm ->
  ProofsStale.same_representation r cm ->
  bnum b * size (bszx b) < blen (mbody cm) ->
  snd (process_received_s app e r maxszx isb1 sent) = [].
Proof. exact ProofsStale.stale_last_block_never_completes. Qed.
Print Assumptions C04_stale_last_block_never_completes.

(* Non-vacuity / the seed's history on the model: a download of 75 bytes (no ETag) completes, the resource gets new
   content (93 bytes), the token is used again; while A holds 80 bytes the last block of the FIRST download (NUM 4,
   M = 0, 11 old bytes, offset 64) is replayed: not taken (event 28), the download ends with exactly the 93 new
   bytes, class 0. *)
Example C04_stale_last_block_history :
  (exists o m, nth_error (model_obs_t ProofsStale.staleblk_cfg ProofsStale.staleblk_es) 28 = Some o /\ o_side o = 0 /\
               o_in o = Some m /\ pb2 m = Some (0, 4, false) /\ plen m = 11 /\ o_deliv o = [] /\ o_err o = 0) /\
  (exists o d, In o (model_obs_t ProofsStale.staleblk_cfg ProofsStale.staleblk_es) /\ o_ret o = [(0, 0)] /\ o_deliv o = [d] /\
               plen d = 93 /\ psum d = csum (res_body (R 11 75 false 42) 6)) /\
  SpecTime.c04_class_t ProofsStale.staleblk_cfg [] ProofsStale.staleblk_es
    (model_obs_t ProofsStale.staleblk_cfg ProofsStale.staleblk_es) (untimed ProofsStale.staleblk_es) = 0%N.
Proof. exact ProofsStale.stale_last_block_history. Qed.

(* On a datagram transport (udp/client.Conn with the block-wise layer, model NoResp/BwModel.v [bstep] = Process ->
   checkResponseCache -> blockwise.Handle -> handler -> processResponse -> addResponseToCache): for EVERY history of
   request datagrams before (pre), between (evs) and after - any tokens, codes, options, block numbers, handler
   behaviours, message IDs -: once a reply [w] was written for a confirmable / non-confirmable request with message
   ID m - whatever it carries: a 2.31 Continue for a block, the first block of a block-wise response, a plain
   response -, every later datagram of that type with message ID m is absorbed: blockwise.Handle and the handler
   do not run (no call, the block-wise caches unchanged) and the answer has the code, token, options and payload of
   [w] under the copy's message ID.  So the body of a request whose response is block-wise reaches the application
   exactly once however often its datagram arrives, and the retransmission gets block 0 again.  C04-10 (a reply with
   Block2 is not stored) falsifies it. *)
Theorem C04_udp_copy_absorbed : forall c own0 pre e w evs e',
  let s1 := fst (BwModel.brun c (BwModel.binit own0) pre) in
  let s2 := fst (BwModel.bstep c s1 e) in
  let s3 := fst (BwModel.brun c s2 evs) in
  Dedup.Model.is_cacheable_typ (BwModel.e_typ e) = true ->
  BwModel.bo_out (snd (BwModel.bstep c s1 e)) = [w] ->
  BwModel.e_typ e' = BwModel.e_typ e -> BwModel.e_mid e' = BwModel.e_mid e ->
  BwModel.bo_call (snd (BwModel.bstep c s3 e')) = None /\
  BwModel.layer (fst (BwModel.bstep c s3 e')) = BwModel.layer s3 /\
  exists r, BwModel.bo_out (snd (BwModel.bstep c s3 e')) = [r] /\ ProofsUdp.same_reply r w /\
            Dedup.Model.w_mid r = BwModel.e_mid e'.
Proof. exact ProofsUdp.udp_copy_absorbed. Qed.
Print Assumptions C04_udp_copy_absorbed.
