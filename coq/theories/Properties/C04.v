(* C04 -- placeholder until Blockwise/Proofs.v is complete *)
From Coq Require Import ZArith Bool List.
From GoCoap Require Import Blockwise.Config Blockwise.Model Blockwise.Spec.
Open Scope Z_scope.
Theorem C04_placeholder : True. Proof. exact I. Qed.
Print Assumptions C04_placeholder.
