(* C02 -- Decoders are total, safe and canonicalising on arbitrary bytes.
   Statements only; proofs are in Codec/ProofsC02.v (and ProofsC01.v for the
   re-encoding half).  The decoders (Codec/Options.v, Udp.v, Tcp.v) are written
   over bounds-checked slices: [Panic] is what a Go slice-bounds / index panic
   would be, [Fuel] is the model's recursion bound running out.  The reference
   parsers ref_options / ref_udp / ref_tcp_header / ref_tcp (Codec/Spec.v) are
   written from RFC 7252 section 3 and RFC 8323 section 3 with the leniencies
   L1-L4 listed there. *)
From Coq Require Import ZArith List Bool.
From GoCoap Require Import Base.Bytes Gen.OptionDefs Gen.TcpConsts
     Codec.Options Codec.Udp Codec.Tcp Codec.Pool Codec.Spec Codec.ProofsOpt Codec.ProofsC01 Codec.ProofsC02 Codec.ProofsC02Tcp Codec.ProofsC02Canon Codec.ModelPre Codec.ProofsPre.
Import ListNotations.
Open Scope Z_scope.

(* The option loop (Options.Unmarshal) on any byte string, with any table that matches a
   registry: it rejects what the RFC grammar rejects, and otherwise returns exactly the
   reference's options and leaves exactly the reference's payload -- or, only when the
   destination capacity is below len + |data|, ErrOptionsTooSmall.  In particular it never
   panics and never runs out of fuel (= the Go loop terminates). *)
Theorem C02_option_loop_agrees : forall defs reg,
  (forall id len, 0 <= len < W32 -> option_keep defs id len = legal_len reg id len) ->
  forall fuel rfuel data prev processed len cap acc,
  bytes_ok data = true -> 0 <= prev <= 65535 -> (length data < fuel)%nat -> (length data <= rfuel)%nat ->
  match ref_options rfuel reg prev data with
  | None => exists e, unmarshal_opts fuel defs data prev processed len cap acc = Err e /\ (e = EOptCap -> cap < len + blen data)
  | Some (os, pay) =>
      (unmarshal_opts fuel defs data prev processed len cap acc = Err EOptCap /\ cap < len + blen data) \/
      (unmarshal_opts fuel defs data prev processed len cap acc = Ok (processed + (blen data - blen pay), acc ++ os)
       /\ suffix pay data)
  end.
Proof. exact loop_agree. Qed.
Print Assumptions C02_option_loop_agrees.

(* Datagram decoder = reference parser, on every byte string and every capacity. *)
Theorem C02_udp_agrees_with_reference : forall cap bs, bytes_ok bs = true ->
  match ref_udp bs with
  | None => exists e, udp_decode cap bs = Err e /\ (e = EOptCap -> cap < blen bs)
  | Some m => udp_decode cap bs = Ok (m, blen bs) \/ (udp_decode cap bs = Err EOptCap /\ cap < blen bs)
  end.
Proof. exact udp_agree. Qed.
Print Assumptions C02_udp_agrees_with_reference.

(* Totality and safety: the datagram decoder returns a message or an error -- never a
   slice-bounds panic, never out of fuel. *)
Theorem C02_udp_no_panic : forall cap bs, bytes_ok bs = true ->
  udp_decode cap bs <> Panic /\ udp_decode cap bs <> Fuel.
Proof.
  intros cap bs Hb. destruct (udp_total cap bs Hb) as [[m T]|[e T]]; rewrite T; split; discriminate.
Qed.
Print Assumptions C02_udp_no_panic.

(* Whatever is accepted is well-formed (the preconditions of C01) and is the reference's message. *)
Theorem C02_udp_decode_wf : forall cap bs m n, bytes_ok bs = true -> udp_decode cap bs = Ok (m, n) ->
  wf_udp m = true /\ n = blen bs /\ ref_udp bs = Some m.
Proof. exact udp_decode_wf. Qed.
Print Assumptions C02_udp_decode_wf.

(* Canonicalisation: what is accepted re-encodes, and decoding the re-encoding gives the
   same message again, consuming all of it. *)
Theorem C02_udp_canonical : forall cap bs m n, bytes_ok bs = true -> udp_decode cap bs = Ok (m, n) ->
  let bs' := spec_udp_bytes m in
  udp_size m = Ok (blen bs') /\
  udp_encode_into m (repeat 0 (length bs')) = EOk (blen bs') bs' /\
  forall cap', blen (m_opts m) <= cap' -> udp_decode cap' bs' = Ok (m, blen bs').
Proof. exact udp_canonical. Qed.
Print Assumptions C02_udp_canonical.

(* The pooled retry loop (Message.decode) makes progress: for any decoder that asks for
   capacity only while cap < |input| and is itself total, it ends within
   2 + log2_up(|input| + 2) decoder calls from ANY capacity >= 0 -- 0 included, which
   looped forever before the repair (F8). *)
Theorem C02_retry_terminates : forall dec bs,
  (forall cap, 0 <= cap -> dec cap bs = Err EOptCap -> cap < blen bs) -> (forall cap, 0 <= cap -> dec cap bs <> Fuel) ->
  forall cap, 0 <= cap -> pool_decode (pool_fuel bs) dec cap bs <> Fuel.
Proof. exact pool_decode_terminates. Qed.
Print Assumptions C02_retry_terminates.

Theorem C02_udp_retry_terminates : forall bs cap, bytes_ok bs = true -> 0 <= cap ->
  pool_decode (pool_fuel bs) udp_decode cap bs <> Fuel.
Proof. exact udp_retry_terminates. Qed.
Print Assumptions C02_udp_retry_terminates.

(* Stream header pre-parse (DecodeHeader) = RFC 8323 3.2 reference on every byte string:
   "need more bytes" exactly when the reference needs more, a format error (token length
   9-15, or a 4-byte extended length above the implementation limit messageMaxLen) exactly
   when the reference says invalid, the same four fields otherwise.  The uint32 header
   arithmetic of the model never wraps (tot < 2^32). *)
Theorem C02_tcp_header_agrees : forall bs, bytes_ok bs = true ->
  match ref_tcp_header messageMaxLen bs with
  | RShort => tcp_decode_header bs = Err EShortRead
  | RInvalid => exists e, tcp_decode_header bs = Err e /\ (e = ETokenLen \/ e = EInvalidEncoding)
  | RHdr hl tot code tok =>
      tcp_decode_header bs = Ok {| h_len := hl; h_mlen := tot; h_code := code; h_tok := tok |}
      /\ 0 <= hl <= tot /\ hl <= blen bs /\ tot < W32 /\ 0 <= code < 256
      /\ 2 <= hl /\ blen tok <= 8 /\ bytes_ok tok = true
  end.
Proof. exact tcp_header_agree. Qed.
Print Assumptions C02_tcp_header_agrees.

(* Stream decoder = reference on every byte string (shorter than 4 GiB: len(data) is
   cast to uint32 by the code): only the declared frame is parsed, with the option table
   of the frame's code. *)
Theorem C02_tcp_agrees_with_reference : forall cap bs, bytes_ok bs = true -> blen bs < W32 ->
  match ref_tcp messageMaxLen bs with
  | None => exists e, tcp_decode cap bs = Err e /\ (e = EOptCap -> cap < blen bs)
  | Some (m, tot) => tcp_decode cap bs = Ok (m, tot) \/ (tcp_decode cap bs = Err EOptCap /\ cap < blen bs)
  end.
Proof. exact tcp_agree. Qed.
Print Assumptions C02_tcp_agrees_with_reference.

Theorem C02_tcp_no_panic : forall cap bs, bytes_ok bs = true ->
  (tcp_decode_header bs <> Panic /\ tcp_decode_header bs <> Fuel) /\
  (blen bs < W32 -> tcp_decode cap bs <> Panic /\ tcp_decode cap bs <> Fuel).
Proof.
  intros cap bs Hb. split.
  - destruct (tcp_header_total bs Hb) as [[h T]|[e T]]; rewrite T; split; discriminate.
  - intros Hl. destruct (tcp_total cap bs Hb Hl) as [[m [n T]]|[e T]]; rewrite T; split; discriminate.
Qed.
Print Assumptions C02_tcp_no_panic.

Theorem C02_tcp_retry_terminates : forall bs cap, bytes_ok bs = true -> blen bs < W32 -> 0 <= cap ->
  pool_decode (pool_fuel bs) tcp_decode cap bs <> Fuel.
Proof. exact tcp_retry_terminates. Qed.
Print Assumptions C02_tcp_retry_terminates.

(* Accepted stream frames are well-formed and canonicalise.  The bound n <= messageMaxLen
   (frame at most 2 GiB - 64 KiB) is needed: the repaired DecodeHeader admits a 4-byte
   extended length up to messageMaxLen, i.e. bodies up to messageMaxLen + 65805, while the
   encoder (getHeader) only writes bodies < messageMaxLen -- for frames in that 64 KiB
   window above 2 GiB the full statement is false of the model (observation, notes/C02.md;
   not reproducible on the Go side without a 2 GiB buffer). *)
Theorem C02_tcp_decode_wf_partial : forall cap bs m n, bytes_ok bs = true -> blen bs < W32 ->
  tcp_decode cap bs = Ok (m, n) -> n <= messageMaxLen ->
  wf_tcp messageMaxLen m = true /\ n <= blen bs /\ ref_tcp messageMaxLen bs = Some (m, n).
Proof. exact tcp_decode_wf. Qed.
Print Assumptions C02_tcp_decode_wf_partial.

Theorem C02_tcp_canonical_partial : forall cap bs m n, bytes_ok bs = true -> blen bs < W32 ->
  tcp_decode cap bs = Ok (m, n) -> n <= messageMaxLen ->
  let bs' := spec_tcp_bytes m in
  tcp_size m = Ok (blen bs') /\
  tcp_encode_into m (repeat 0 (length bs')) = EOk (blen bs') bs' /\
  forall cap', blen (m_opts m) <= cap' -> tcp_decode cap' bs' = Ok (m, blen bs').
Proof. exact tcp_canonical. Qed.
Print Assumptions C02_tcp_canonical_partial.

(* No aliasing: UnmarshalWithDecoder hands the decoder a copy, so every view in the result
   points into the message's own buffer (this holds by construction of the model; the tie
   to the code is the harness's overwrite-and-re-read test). *)
Theorem C02_no_alias : forall fuel dec cap data, snd (pool_unmarshal fuel dec cap data) = Owned.
Proof. reflexivity. Qed.
Print Assumptions C02_no_alias.

(* Regression witnesses about the behaviour BEFORE the repairs (Codec/ModelPre.v): the
   agreement / termination statements above are false of it, on the inputs bin/check reported. *)
Theorem C02_F7_tkl_refuted : exists bs h, tcp_decode_header_pre bs = Ok h /\ ref_tcp_header messageMaxLen bs = RInvalid.
Proof. exact F7_refuted. Qed.
Print Assumptions C02_F7_tkl_refuted.
Theorem C02_F16_wrap_refuted : exists bs h, tcp_decode_header_pre bs = Ok h /\ h_mlen h = 65810 /\
  ref_tcp_header messageMaxLen bs = RInvalid /\ ref_tcp_header (2 ^ 40) bs = RHdr 6 4295033106 1 [].
Proof. exact F16_refuted. Qed.
Print Assumptions C02_F16_wrap_refuted.
Theorem C02_F17_surplus_refuted : exists bs m n m', tcp_decode_pre 8 bs = Ok (m, n) /\ ref_tcp messageMaxLen bs = Some (m', 3) /\
  m_pay m = [65; 66] /\ m_pay m' = [].
Proof. exact F17_refuted. Qed.
Print Assumptions C02_F17_surplus_refuted.
Theorem C02_F8_retry_refuted : forall fuel, pool_decode_pre fuel udp_decode 0 [64; 1; 0; 1; 16] = Fuel.
Proof. exact F8_refuted. Qed.
Print Assumptions C02_F8_retry_refuted.

(* non-vacuity: an accepted datagram with a dropped (illegal-length) option, option number 0,
   and a payload marker followed by nothing *)
Example C02_accepts_lenient :
  let bs := [64; 1; 0; 7; 0; 89; 1; 2; 3; 4; 5; 6; 7; 8; 9; 255] in
  bytes_ok bs = true /\ udp_decode 16 bs = Ok ({| m_tok := []; m_code := 1; m_opts := []; m_pay := []; m_mid := 7; m_typ := 0 |}, 16).
Proof. vm_compute. split; reflexivity. Qed.
