(* C02 -- placeholder while the proofs are being built *)
From Coq Require Import ZArith Bool.
From GoCoap Require Import Codec.Options.
Open Scope Z_scope.
Theorem C02_placeholder : extend_opt 13 = (13, 0).
Proof. reflexivity. Qed.
Print Assumptions C02_placeholder.
