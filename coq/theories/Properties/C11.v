From GoCoap Require Import Reader.Model Reader.Spec Reader.Proofs.
Theorem C11_placeholder : True. Proof. exact placeholder. Qed.
Print Assumptions C11_placeholder.
