(* C11 — Each received message is processed once; handlers may call back.
   Statements over the interleaving model Reader/Model.v of ReceivedMessageReader.loop / TryToReplaceLoop,
   quantified over ALL schedules [sched], message lists [msgs], queue sizes [cap c], handler programs
   [progs c] (any number of nested blocking requests, any nesting depth) and numbers [k] of
   TryToReplaceLoop calls from goroutines that are not handlers.  Proofs: Reader/Proofs.v. *)
From Coq Require Import ZArith List Bool Permutation.
From GoCoap Require Import Reader.Model Reader.Spec Reader.Proofs.
Import ListNotations.
Open Scope Z_scope.

(* never processed twice, and only messages that were accepted (both the code before and after the repair) *)
Theorem C11_at_most_once : forall c msgs k sched s,
  NoDup msgs -> run c (init msgs k) sched = Some s ->
  NoDup (map fst (log s)) /\ incl (map fst (log s)) msgs.
Proof. exact run_at_most_once. Qed.
Print Assumptions C11_at_most_once.

(* never dropped while the connection is open: in every complete run (no thread can move) with the
   connection open, the dispatch log is a permutation of the pushed messages (both shapes) *)
Theorem C11_exactly_once : forall c msgs k sched s,
  run c (init msgs k) sched = Some s -> terminal c s -> closed s = false ->
  Permutation msgs (map fst (log s)).
Proof. exact run_exactly_once. Qed.
Print Assumptions C11_exactly_once.

(* handlers may block in nested requests to any depth: in every reachable state with the connection open
   there is a current loop, different from every loop whose handler is blocked in a nested request, that has
   not been replaced, has not exited, is not blocked itself and is at its select or able to move *)
Theorem C11_never_stalls : forall c msgs k sched s,
  run c (init msgs k) sched = Some s -> closed s = false ->
  exists lc, nth_error (loops s) (cur s) = Some lc /\ l_done lc = false /\ l_pc lc <> PExit /\
    (forall m r ops, l_pc lc <> PWait m r ops) /\
    (l_pc lc = PSelect \/ exists s', step c s (ALoop (cur s) AltQueue) = Some s') /\
    forall l lp m r ops, nth_error (loops s) l = Some lp -> l_pc lp = PWait m r ops -> l <> cur s.
Proof. exact run_never_stalls. Qed.
Print Assumptions C11_never_stalls.

(* ... hence the awaited response is dispatched and the nested request returns: in a complete run with the
   connection open no handler is left waiting for a response that was among the pushed messages *)
Theorem C11_nested_returns : forall c msgs k sched s,
  run c (init msgs k) sched = Some s -> terminal c s -> closed s = false ->
  forall l lp m r ops, nth_error (loops s) l = Some lp -> l_pc lp = PWait m r ops -> ~ In r msgs.
Proof. exact nested_returns. Qed.
Print Assumptions C11_nested_returns.

(* the hand-off from the socket reader into the receive queue (tcp pushToReceivedMessageQueue, udp Conn.Process) is
   the single producer of the model: whatever the queue size and whatever the consumer loops, external callers and
   the closer do, the messages taken out of the queue so far, the queue content and the messages still to be
   pushed are, in this order, the arrival sequence (both shapes of the code); what was taken out is exactly what
   the loops hold or have dispatched *)
Theorem C11_enqueue_in_order : forall c msgs k sched s,
  run c (init msgs k) sched = Some s ->
  exists taken, msgs = taken ++ queue s ++ prod s /\
                Permutation taken (map fst (log s) ++ held (loops s)).
Proof. exact enqueue_in_order. Qed.
Print Assumptions C11_enqueue_in_order.

(* arrival order, repaired code: messages are committed to their handlers (readingMessages.Store(false))
   in arrival order, in every run *)
Theorem C11_commit_in_order : forall c msgs k sched s,
  fixed c = true -> run c (init msgs k) sched = Some s -> exists rest, msgs = commits s ++ rest.
Proof. exact commit_in_order. Qed.
Print Assumptions C11_commit_in_order.

(* arrival order, repaired code: the dispatch log is a prefix of the arrival sequence in every run in which no
   TryToReplaceLoop executes between a loop's Store(false) and its call of the handler ([calm]); this holds
   whether or not handlers block *)
Theorem C11_in_order : forall c msgs k sched s,
  fixed c = true -> run c (init msgs k) sched = Some s -> calm c (init msgs k) sched = true ->
  exists rest, msgs = map fst (log s) ++ rest.
Proof. exact run_in_order. Qed.
Print Assumptions C11_in_order.

Theorem C11_in_order_complete : forall c msgs k sched s,
  fixed c = true -> run c (init msgs k) sched = Some s -> calm c (init msgs k) sched = true ->
  terminal c s -> closed s = false -> map fst (log s) = msgs.
Proof. exact run_in_order_complete. Qed.
Print Assumptions C11_in_order_complete.

(* regression lemma (F14): in the code before the repair a calm, complete run with non-blocking handlers
   dispatches 1, 3, 2 *)
Theorem C11_in_order_refuted :
  exists c msgs k sched s,
    fixed c = false /\ run c (init msgs k) sched = Some s /\ calm c (init msgs k) sched = true /\
    NoDup msgs /\ (forall m, existsb (fun h => match h with HNested _ => true | _ => false end) (hp c m) = false) /\
    quiescent c s = true /\ closed s = false /\
    map fst (log s) = [1; 3; 2] /\ msgs = [1; 2; 3] /\ commits s = [1; 3; 2].
Proof. exact run_in_order_refuted. Qed.
Print Assumptions C11_in_order_refuted.

(* the model of the repaired code satisfies the property predicate of Reader/Spec.v *)
Theorem C11_dispatch_spec : forall c msgs k sched s nb,
  fixed c = true -> NoDup msgs ->
  run c (init msgs k) sched = Some s -> terminal c s -> closed s = false ->
  (nb = true -> calm c (init msgs k) sched = true) ->
  holds (obs_of msgs s nb) = true.
Proof. exact model_satisfies_spec. Qed.
Print Assumptions C11_dispatch_spec.

(* the hypotheses are satisfiable by a non-trivial instance: two nested levels (handler of 1 waits for 4,
   handler of 2 waits for 3), queue size 1, one external caller, complete, open, calm *)
Example C11_instance :
  let c := mkCfg 1 true [(1, [HNested 4]); (2, [HNested 3])] in
  let s0 := init [1; 2; 3; 4] 1 in
  let sched := canon_sched 200 c s0 in
  exists s, run c s0 sched = Some s /\ calm c s0 sched = true /\ length sched = 29%nat /\
    terminal c s /\ closed s = false /\ map fst (log s) = [1; 2; 3; 4] /\ length (loops s) = 3%nat /\
    holds (obs_of [1; 2; 3; 4] s true) = true.
Proof.
  cbv zeta. eexists. split; [vm_compute; reflexivity|].
  split; [vm_compute; reflexivity|]. split; [vm_compute; reflexivity|].
  split; [apply quiescent_terminal; vm_compute; reflexivity|].
  vm_compute. repeat split; reflexivity.
Qed.
