(* C11 — Each received message is processed once; handlers may call back.
   Statements over the interleaving model Reader/Model.v of ReceivedMessageReader.loop / TryToReplaceLoop, the socket
   reader's hand-off (queue messages and the signals it handles itself: acknowledgements, pongs) and the per-message-ID
   lock of udp handleReq, quantified over ALL schedules [sched], message lists [msgs], queue sizes [cap c], handler
   programs [progs c] (any number of nested blocking requests, confirmable nested requests, pings; any nesting
   depth), signal placements [sigs c], message types / message IDs [wire c] and numbers [k] of TryToReplaceLoop calls
   from goroutines that are not handlers.  [repaired_waits c = true]: the code after the repairs of Ping and of
   handleReq (every blocking point asks for a replacement loop); [fixed c = true]: after the repair of F14.
   Round 3: the same at the granularity of the reader's mutex (Reader/Mutex.v: runs [frun] in which other goroutines
   act while a goroutine is between the Lock and the Unlock of TryToReplaceLoop / of a loop's re-lock), and the
   property's clause for callbacks (Reader/Callbacks.v).
   Proofs: Reader/Proofs.v, Reader/Mid.v, Reader/Mutex.v, Reader/Callbacks.v. *)
From Coq Require Import ZArith List Bool Permutation Lia.
From GoCoap Require Import Reader.Model Reader.Spec Reader.Proofs Reader.Mid Reader.Mutex Reader.Callbacks Reader.Separate.
Import ListNotations.
Open Scope Z_scope.

(* never processed twice, and only messages that were accepted (every shape of the code) *)
Theorem C11_at_most_once : forall c msgs k sched s,
  NoDup msgs -> run c (init msgs k) sched = Some s ->
  NoDup (map fst (log s)) /\ incl (map fst (log s)) msgs.
Proof. exact run_at_most_once. Qed.
Print Assumptions C11_at_most_once.

(* never dropped while the connection is open: in every complete run (no thread can move) with the
   connection open, the dispatch log is a permutation of the pushed messages (both shapes of the F14 repair) *)
Theorem C11_exactly_once : forall c msgs k sched s,
  repaired_waits c = true ->
  run c (init msgs k) sched = Some s -> terminal c s -> closed s = false ->
  Permutation msgs (map fst (log s)).
Proof. exact run_exactly_once. Qed.
Print Assumptions C11_exactly_once.

(* handlers may block to any depth - in nested requests, in the wait for the acknowledgement of a confirmable nested
   request, in a ping, and a loop may block on the message-ID lock of a message that is being handled: in every
   reachable state with the connection open there is a current loop, different from every blocked loop, that has not
   been replaced, has not exited, is not blocked itself and is at its select or able to move *)
Theorem C11_never_stalls : forall c msgs k sched s,
  repaired_waits c = true ->
  run c (init msgs k) sched = Some s -> closed s = false ->
  exists lc, nth_error (loops s) (cur s) = Some lc /\ l_done lc = false /\ l_pc lc <> PExit /\
    blocked_pc (l_pc lc) = false /\
    (l_pc lc = PSelect \/ exists s', step c s (ALoop (cur s) AltQueue) = Some s') /\
    forall l lp, nth_error (loops s) l = Some lp -> blocked_pc (l_pc lp) = true -> l <> cur s.
Proof. exact run_never_stalls. Qed.
Print Assumptions C11_never_stalls.

(* ... hence the awaited response is dispatched, gets past the message-ID lock and the nested request returns: in a
   complete run with the connection open no handler is left waiting for a response that was among the pushed
   messages, provided no OTHER message takes the lock of the response's message ID ([own_key]: the peer does not use
   one message ID for two different messages at a time; ACK / RST take no lock in the repaired code) *)
Theorem C11_nested_returns : forall c msgs k sched s,
  repaired_waits c = true -> NoDup msgs ->
  run c (init msgs k) sched = Some s -> terminal c s -> closed s = false ->
  forall l lp m r ops, nth_error (loops s) l = Some lp -> l_pc lp = PWait m r ops -> own_key c r -> ~ In r msgs.
Proof. exact nested_returns. Qed.
Print Assumptions C11_nested_returns.

(* the replies the socket reader handles itself: in a complete run with the connection open it has run the handler
   of every acknowledgement / pong the peer sent, and no handler is left waiting for one (a confirmable nested
   request has been acknowledged, a ping issued by a handler has returned) *)
Theorem C11_signals_handled : forall c msgs k sched s,
  repaired_waits c = true -> sigs_wf c msgs ->
  run c (init msgs k) sched = Some s -> terminal c s -> closed s = false ->
  forall r q, In (r, q) (sigs c) -> signalled r s = true.
Proof. exact signals_handled. Qed.
Print Assumptions C11_signals_handled.

Theorem C11_signal_waits_return : forall c msgs k sched s,
  repaired_waits c = true -> sigs_wf c msgs ->
  run c (init msgs k) sched = Some s -> terminal c s -> closed s = false ->
  forall l lp m r ops, nth_error (loops s) l = Some lp -> l_pc lp = PWaitS m r ops -> forall q, ~ In (r, q) (sigs c).
Proof. exact signal_waits_return. Qed.
Print Assumptions C11_signal_waits_return.

(* a loop left waiting for a message-ID lock in a complete run waits for a handler that itself waits for a reply
   (every shape of the code) *)
Theorem C11_lock_waits_justified : forall c s l lp m,
  terminal c s -> nth_error (loops s) l = Some lp -> l_pc lp = PLock m ->
  exists l' lp' m', nth_error (loops s) l' = Some lp' /\ handling lp' = Some m' /\
    key_eqb (key_of c m') (key_of c m) = true /\
    ((exists r ops, l_pc lp' = PWait m' r ops) \/ (exists r ops, l_pc lp' = PWaitS m' r ops)).
Proof. exact lock_waits_justified. Qed.
Print Assumptions C11_lock_waits_justified.

(* the hand-off from the socket reader into the receive queue (tcp pushToReceivedMessageQueue, udp Conn.Process) is
   the single producer of the model: whatever the queue size and whatever the consumer loops, external callers and
   the closer do, the messages taken out of the queue so far, the queue content and the messages still to be
   pushed are, in this order, the arrival sequence (every shape of the code); what was taken out is exactly what
   the loops hold or have dispatched *)
Theorem C11_enqueue_in_order : forall c msgs k sched s,
  run c (init msgs k) sched = Some s ->
  exists taken, msgs = taken ++ queue s ++ prod s /\
                Permutation taken (map fst (log s) ++ held (loops s)).
Proof. exact enqueue_in_order. Qed.
Print Assumptions C11_enqueue_in_order.

(* arrival order, repaired code: messages are committed to their handlers (readingMessages.Store(false))
   in arrival order, in every run *)
Theorem C11_commit_in_order : forall c msgs k sched s,
  fixed c = true -> repaired_waits c = true -> run c (init msgs k) sched = Some s -> exists rest, msgs = commits s ++ rest.
Proof. exact commit_in_order. Qed.
Print Assumptions C11_commit_in_order.

(* arrival order, repaired code: the dispatch log is a prefix of the arrival sequence in every run in which no
   TryToReplaceLoop executes between a loop's Store(false) and its call of the handler ([calm]); this holds
   whether or not handlers block *)
Theorem C11_in_order : forall c msgs k sched s,
  fixed c = true -> repaired_waits c = true -> run c (init msgs k) sched = Some s -> calm c (init msgs k) sched = true ->
  exists rest, msgs = map fst (log s) ++ rest.
Proof. exact run_in_order. Qed.
Print Assumptions C11_in_order.

Theorem C11_in_order_complete : forall c msgs k sched s,
  fixed c = true -> repaired_waits c = true -> run c (init msgs k) sched = Some s -> calm c (init msgs k) sched = true ->
  terminal c s -> closed s = false -> map fst (log s) = msgs.
Proof. exact run_in_order_complete. Qed.
Print Assumptions C11_in_order_complete.

(* regression lemma (F14): in the code before the repair a calm, complete run with non-blocking handlers
   dispatches 1, 3, 2 *)
Theorem C11_in_order_refuted :
  exists c msgs k sched s,
    fixed c = false /\ run c (init msgs k) sched = Some s /\ calm c (init msgs k) sched = true /\
    NoDup msgs /\ (forall m, existsb (fun h => match h with HNested _ => true | _ => false end) (hp c m) = false) /\
    quiescent c s = true /\ closed s = false /\
    map fst (log s) = [1; 3; 2] /\ msgs = [1; 2; 3] /\ commits s = [1; 3; 2].
Proof. exact run_in_order_refuted. Qed.
Print Assumptions C11_in_order_refuted.

(* regression lemmas for the three repairs of round 2 (each: a complete run of the code before the repair, connection
   open, in which an accepted message is never dispatched resp. an awaited response never reaches its request):
   a ping issued by a handler (AsyncPing did not ask for a replacement loop), *)
Theorem C11_ping_stalls_refuted :
  exists c msgs k sched s,
    fixed c = true /\ pingfix c = false /\ sigs_wf c msgs /\ NoDup msgs /\
    run c (init msgs k) sched = Some s /\ quiescent c s = true /\ closed s = false /\
    msgs = [1; 2] /\ map fst (log s) = [1] /\ queue s = [2] /\ prod s = [] /\
    (exists lp, nth_error (loops s) 0 = Some lp /\ l_pc lp = PWaitS 1 9 []) /\
    In (9, 0%nat) (sigs c) /\ signalled 9 s = false /\
    none_dropped (obs_of msgs s false) = false.
Proof. exact ping_stalls_refuted. Qed.
Print Assumptions C11_ping_stalls_refuted.

(* a retransmitted copy of a request whose handler waits in a nested request (handleReq blocked on the message-ID
   lock without asking for a replacement loop), *)
Theorem C11_dup_stalls_refuted :
  exists c msgs k sched s,
    fixed c = true /\ pingfix c = true /\ ackfix c = true /\ lockfix c = false /\ NoDup msgs /\ own_key c 3 /\
    run c (init msgs k) sched = Some s /\ quiescent c s = true /\ closed s = false /\
    msgs = [1; 2; 3] /\ map fst (log s) = [1; 2] /\ queue s = [3] /\ prod s = [] /\
    (exists lp, nth_error (loops s) 0 = Some lp /\ l_pc lp = PWait 1 3 []) /\
    (exists lp, nth_error (loops s) 1 = Some lp /\ l_pc lp = PLock 2) /\ length (loops s) = 2%nat /\
    none_dropped (obs_of msgs s false) = false.
Proof. exact dup_stalls_refuted. Qed.
Print Assumptions C11_dup_stalls_refuted.

(* the piggybacked response to a nested request whose own message ID equals the ID of the request being handled
   (an ACK took the message-ID lock too) *)
Theorem C11_ack_collision_refuted :
  exists c msgs k sched s,
    fixed c = true /\ repaired_waits c = true /\ ackfix c = false /\ NoDup msgs /\ sigs_wf c msgs /\
    run c (init msgs k) sched = Some s /\ quiescent c s = true /\ closed s = false /\
    msgs = [1; 2] /\ map fst (log s) = [1; 2] /\ queue s = [] /\ prod s = [] /\ sigd s = [2] /\
    (exists lp, nth_error (loops s) 0 = Some lp /\ l_pc lp = PWait 1 2 []) /\
    (exists l lp, nth_error (loops s) l = Some lp /\ l_pc lp = PLock 2) /\
    never_stalls (obs_of msgs s false) = false.
Proof. exact ack_collision_refuted. Qed.
Print Assumptions C11_ack_collision_refuted.

(* what checkMyMessageID (udp) guarantees for a confirmable message of the peer with ID p: none of the next 16382
   IDs the connection draws equals p, also across the 16-bit wrap; it does nothing for other message types *)
Theorem C11_check_my_mid_keeps_away : forall c p (j : nat),
  1 <= Z.of_nat j <= 16382 -> u16 (after_draws j (check_my_mid c 0 p)) <> u16 p.
Proof. exact check_my_mid_keeps_away. Qed.
Print Assumptions C11_check_my_mid_keeps_away.

(* the model of the repaired code satisfies the property predicate of Reader/Spec.v *)
Theorem C11_dispatch_spec : forall c msgs k sched s nb,
  fixed c = true -> repaired_waits c = true -> NoDup msgs ->
  (forall r, In r msgs -> own_key c r) ->
  run c (init msgs k) sched = Some s -> terminal c s -> closed s = false ->
  (nb = true -> calm c (init msgs k) sched = true) ->
  holds (obs_of msgs s nb) = true.
Proof. exact model_satisfies_spec. Qed.
Print Assumptions C11_dispatch_spec.

(* the hypotheses are satisfiable by a non-trivial instance: two nested levels (handler of 1 waits for 4,
   handler of 2 waits for 3), queue size 1, one external caller, complete, open, calm *)
Example C11_instance :
  let c := mkCfg 1 true true true true [(1, [HNested 4]); (2, [HNested 3])] [] [] in
  let s0 := init [1; 2; 3; 4] 1 in
  let sched := canon_sched 200 c s0 in
  exists s, run c s0 sched = Some s /\ calm c s0 sched = true /\ length sched = 29%nat /\
    terminal c s /\ closed s = false /\ map fst (log s) = [1; 2; 3; 4] /\ length (loops s) = 3%nat /\
    holds (obs_of [1; 2; 3; 4] s true) = true.
Proof.
  cbv zeta. eexists. split; [vm_compute; reflexivity|].
  split; [vm_compute; reflexivity|]. split; [vm_compute; reflexivity|].
  split; [apply quiescent_terminal; vm_compute; reflexivity|].
  vm_compute. repeat split; reflexivity.
Qed.

(* ... and by one with the blocking points of round 2: the peer's NON request 1 (message ID 1001) is handled by a
   handler that pings the peer (pong = signal 9, sent after message 2) and then issues a confirmable nested request
   whose ID is 1001 as well and whose piggybacked response is message 4; message 2 is a retransmitted copy of 1,
   message 3 a plain request; rendezvous queue; every own_key hypothesis holds because an ACK takes no lock *)
Example C11_instance2 :
  let c := mkCfg 0 true true true true [(1, [HPing 9; HAck 4; HNested 4])] [(9, 2%nat); (4, 1%nat)]
                 [(1, (1, 1001)); (2, (1, 1001)); (3, (1, 1002)); (4, (2, 1001))] in
  let s0 := init [1; 2; 3; 4] 0 in
  let sched := canon_sched 300 c s0 in
  exists s, run c s0 sched = Some s /\ terminal c s /\ closed s = false /\ sigs_wf c [1; 2; 3; 4] /\
    own_key c 4 /\ map fst (log s) = [1; 2; 3; 4] /\ sigd s = [9; 4] /\
    forallb (fun lp => negb (blocked_pc (l_pc lp))) (loops s) = true /\
    holds (obs_of [1; 2; 3; 4] s false) = true.
Proof.
  cbv zeta. eexists. split; [vm_compute; reflexivity|].
  split; [apply quiescent_terminal; vm_compute; reflexivity|].
  split; [reflexivity|].
  split. { intros r q [H|[H|[]]]; injection H as <- <-; cbn; lia. }
  split. { intros m _. match goal with |- key_eqb _ (key_of ?c 4) = false => change (key_of c 4) with (@None Z) end.
           match goal with |- key_eqb ?x None = false => destruct x; reflexivity end. }
  vm_compute. repeat split; reflexivity.
Qed.


(* ------------------------------------------------------------------ *)
(* Round 3.  The reader's mutex at the granularity of its Lock / Unlock calls (Reader/Mutex.v): TryToReplaceLoop starts
   the new loop INSIDE its section, a replaced loop holds the mutex while it stores its reading flag; an action that
   takes the mutex is enabled only while it is free (sync.Mutex.Lock blocks) and leaves its actor holding it until a
   separate unlock step.  Every such run is a run of Reader/Model.v ... *)
Theorem C11_mutex_refines : forall c sched f f',
  frun c f sched = Some f' -> run c (base f) (erase sched) = Some (base f').
Proof. exact frun_erase. Qed.
Print Assumptions C11_mutex_refines.

(* ... a complete one ends with the mutex free and is complete there, so: exactly once, *)
Theorem C11_mutex_exactly_once : forall c msgs k sched f,
  repaired_waits c = true ->
  frun c (finit msgs k) sched = Some f -> fterminal c f -> closed (base f) = false ->
  mtx f = None /\ Permutation msgs (map fst (log (base f))).
Proof. intros c msgs k sched f H1 H2 H3 H4. split; [eapply fterminal_free; eauto | eapply frun_exactly_once; eauto]. Qed.
Print Assumptions C11_mutex_exactly_once.

(* never stalls: in every reachable state with the connection open either somebody holds the mutex and can release it,
   or it is free and the current loop is live, unblocked and at its select or able to move, *)
Theorem C11_mutex_never_stalls : forall c msgs k sched f,
  repaired_waits c = true ->
  frun c (finit msgs k) sched = Some f -> closed (base f) = false ->
  (exists o f', mtx f = Some o /\ fstep c f (FUnlock o) = Some f') \/
  (mtx f = None /\
   exists lc, nth_error (loops (base f)) (cur (base f)) = Some lc /\ l_done lc = false /\ l_pc lc <> PExit /\
     blocked_pc (l_pc lc) = false /\
     (l_pc lc = PSelect \/ exists f', fstep c f (FA (ALoop (cur (base f)) AltQueue)) = Some f') /\
     forall l lp, nth_error (loops (base f)) l = Some lp -> blocked_pc (l_pc lp) = true -> l <> cur (base f)).
Proof. exact frun_never_stalls. Qed.
Print Assumptions C11_mutex_never_stalls.

(* nested requests return, *)
Theorem C11_mutex_nested_returns : forall c msgs k sched f,
  repaired_waits c = true -> NoDup msgs ->
  frun c (finit msgs k) sched = Some f -> fterminal c f -> closed (base f) = false ->
  forall l lp m r ops, nth_error (loops (base f)) l = Some lp -> l_pc lp = PWait m r ops -> own_key c r -> ~ In r msgs.
Proof. exact frun_nested_returns. Qed.
Print Assumptions C11_mutex_nested_returns.

(* and the property predicate of Reader/Spec.v holds (arrival order for calm runs) *)
Theorem C11_mutex_dispatch_spec : forall c msgs k sched f nb,
  fixed c = true -> repaired_waits c = true -> NoDup msgs ->
  (forall r, In r msgs -> own_key c r) ->
  frun c (finit msgs k) sched = Some f -> fterminal c f -> closed (base f) = false ->
  (nb = true -> calm c (init msgs k) (erase sched) = true) ->
  holds (obs_of msgs (base f) nb) = true.
Proof. exact fmodel_satisfies_spec. Qed.
Print Assumptions C11_mutex_dispatch_spec.

(* why the Lock of TryToReplaceLoop has to wait: if a call that finds the mutex held gave up (TryLock), the handler
   of message 2 - dispatched by the loop that the handler of message 1 has just started and whose starter still
   holds the mutex - would block without a replacement loop: complete run, connection open, response 3 queued and
   never dispatched *)
Theorem C11_trylock_stalls_refuted :
  exists f, frun_gen fstep_try try_cfg (finit [1; 2; 3] 0) try_sched = Some f /\
    fquiescent_gen fstep_try try_cfg f = true /\ closed (base f) = false /\
    map fst (log (base f)) = [1; 2] /\ queue (base f) = [3] /\ prod (base f) = [] /\ length (loops (base f)) = 2%nat /\
    (exists lp, nth_error (loops (base f)) 0 = Some lp /\ l_pc lp = PWait 1 3 []) /\
    (exists lp, nth_error (loops (base f)) 1 = Some lp /\ l_pc lp = PWait 2 3 []) /\
    none_dropped (obs_of [1; 2; 3] (base f) false) = false.
Proof. exact trylock_stalls. Qed.
Print Assumptions C11_trylock_stalls_refuted.

(* callbacks: every notification of an observation runs the same callback program [cb] (any blocking requests) and
   nothing is held across the callback; for all notifications, other messages, queue sizes and schedules a complete
   run with the connection open has dispatched everything, every request of a callback whose response arrived has
   returned and no loop is left waiting for a lock *)
Theorem C11_callbacks_do_not_stall : forall n cb notifs others msgs k sched s,
  let c := notif_cfg n cb notifs others in
  NoDup msgs -> run c (init msgs k) sched = Some s -> terminal c s -> closed s = false ->
  Permutation msgs (map fst (log s)) /\
  (forall l lp m r ops, nth_error (loops s) l = Some lp -> l_pc lp = PWait m r ops -> ~ In r msgs) /\
  (forall l lp, nth_error (loops s) l = Some lp -> forall m, l_pc lp <> PLock m).
Proof. exact callbacks_do_not_stall. Qed.
Print Assumptions C11_callbacks_do_not_stall.

(* notifications of one observation serialized by a lock held across the callback (no replacement request) *)
Theorem C11_serialized_callbacks_refuted :
  exists s, run serial_cfg (init [1; 2; 3] 0) serial_sched = Some s /\ quiescent serial_cfg s = true /\ closed s = false /\
    map fst (log s) = [1; 2] /\ queue s = [3] /\ prod s = [] /\ length (loops s) = 2%nat /\
    (exists lp, nth_error (loops s) 0 = Some lp /\ l_pc lp = PWait 1 3 []) /\
    (exists lp, nth_error (loops s) 1 = Some lp /\ l_pc lp = PLock 2) /\
    none_dropped (obs_of [1; 2; 3] s false) = false.
Proof. exact serialized_callbacks_stall. Qed.
Print Assumptions C11_serialized_callbacks_refuted.

(* a blocking operation that does not ask for a replacement loop (Conn.DoObserve called by a handler, before its repair) *)
Theorem C11_wait_without_replacement_refuted :
  exists s, run_gen step_forget forget_cfg (init [1; 2] 0) forget_sched = Some s /\
    quiescent_gen step_forget forget_cfg s = true /\ closed s = false /\
    map fst (log s) = [1] /\ queue s = [2] /\ prod s = [] /\ length (loops s) = 1%nat /\
    (exists lp, nth_error (loops s) 0 = Some lp /\ l_pc lp = PWait 1 2 []) /\
    never_stalls (mkObs [1; 2] [1] true true false [(1, 2, false)] [] []) = false.
Proof. exact wait_without_replacement_stalls. Qed.
Print Assumptions C11_wait_without_replacement_refuted.

(* Round 4 (seed C11/13), Reader/Separate.v: what udp/client.Conn does with a received message before a handler sees
   it (IsPing / IsSeparateMessage in handleSpecialMessages on the socket reader and in handle on the reader loop).
   For every header, whether or not a message-ID handler / a token handler is pending: a message that carries a code
   reaches a handler (the token handler of a waiting request or the application's handler): it is neither dropped by
   the socket reader nor discarded after its dispatch. *)
Theorem C11_coded_message_reaches_handler : forall h mid_pending token_pending,
  h_code h <> 0 -> reaches_handler is_separate h mid_pending token_pending = true.
Proof. exact coded_reaches_handler. Qed.
Print Assumptions C11_coded_message_reaches_handler.

(* ... and the connection consumes exactly the messages that carry nothing for the application: the empty
   acknowledgement and the ping (code Empty, CON or ACK, no token, no options, no payload) *)
Theorem C11_only_empty_control_consumed : forall h mid_pending token_pending,
  reaches_handler is_separate h mid_pending token_pending = false <-> empty_control h = true.
Proof. exact consumed_iff_empty_control. Qed.
Print Assumptions C11_only_empty_control_consumed.

(* shape of seed C11/13 (IsSeparateMessage without the test of the code): the piggybacked 2.02 without token, options
   and payload releases the acknowledgement wait of the request it answers and is then discarded on the reader loop
   (without a pending wait: dropped by the socket reader); in the code as it is it goes to the application handler *)
Theorem C11_bare_response_dropped_refuted :
  h_code bare_deleted <> 0 /\
  special is_separate_seed bare_deleted true = Queued true /\ handle is_separate_seed bare_deleted false = Discarded /\
  special is_separate_seed bare_deleted false = Dropped /\
  reaches_handler is_separate_seed bare_deleted true false = false /\
  reaches_handler is_separate bare_deleted true false = true /\ handle is_separate bare_deleted false = AppHandler.
Proof. exact seed_shape_drops. Qed.
Print Assumptions C11_bare_response_dropped_refuted.

(* a non-trivial instance at mutex granularity: rendezvous queue, handlers of 1 and 2 nest (response 3), one external
   caller; the external caller replaces the busy loop 0 and is still inside its section while the loop it started
   dequeues and dispatches message 2; the handler of 2 asks for a replacement only after that unlock; complete, open,
   calm, the mutex free at the end *)
Example C11_instance3 :
  let c := mkCfg 0 true true true true [(1, [HNested 3]); (2, [HNested 3; HReplace])] [] [] in
  let L := fun l => FA (ALoop l AltQueue) in
  let sched := [FA APush; L 0%nat; FA APush; L 0%nat; L 0%nat; FA AExt; L 1%nat; FA APush; L 1%nat; L 1%nat;
                FUnlock OExt; L 1%nat; L 2%nat; L 2%nat; L 2%nat; FUnlock (OLoop 1); L 2%nat; L 1%nat;
                FUnlock (OLoop 2); L 2%nat; L 1%nat; FUnlock (OLoop 1); L 1%nat; FUnlock (OLoop 1); L 1%nat;
                L 0%nat; FUnlock (OLoop 0); L 0%nat; L 0%nat; FUnlock (OLoop 0); L 0%nat] in
  exists f, frun c (finit [1; 2; 3] 1) sched = Some f /\ calm c (init [1; 2; 3] 1) (erase sched) = true /\
    fterminal c f /\ closed (base f) = false /\ mtx f = None /\ map fst (log (base f)) = [1; 2; 3] /\
    length (loops (base f)) = 3%nat /\ holds (obs_of [1; 2; 3] (base f) true) = true /\
    (exists g, frun c (finit [1; 2; 3] 1) (firstn 10 sched) = Some g /\ mtx g = Some OExt /\
               map fst (log (base g)) = [1; 2] /\ fstep c g (L 1%nat) = None).
Proof.
  cbv zeta. eexists. split; [vm_compute; reflexivity|].
  split; [vm_compute; reflexivity|].
  split; [apply fquiescent_fterminal; vm_compute; reflexivity|].
  split; [reflexivity|]. split; [reflexivity|]. split; [reflexivity|]. split; [reflexivity|].
  split; [vm_compute; reflexivity|].
  eexists. split; [vm_compute; reflexivity|]. repeat split; reflexivity.
Qed.
