From Coq Require Import ZArith List Bool.
From GoCoap Require Import Gen.OptConsts Opt.Model Opt.Spec Opt.Proofs.
Import ListNotations.
Open Scope Z_scope.

Theorem C15_find_nil : forall id, find [] id = None.
Proof. exact find_nil. Qed.
Print Assumptions C15_find_nil.
