(* C15 -- option list and message builder behave like a sorted multiset.
   Statements only; proofs are in Opt/Proofs.v, Opt/ProofsPath.v (paths, full
   alphabet) and Opt/ProofsValues.v (byte level). Model: Opt/Model.v (stated over
   Gen.OptConsts, regenerated from the source on every run); reference:
   Opt/Spec.v.  [sorted l]: option numbers ascend with the index.
   [split3 l id a c]: positions [0,a) carry smaller numbers, [a,c) the number
   id, [c,len) larger ones.  [refines b l o l' e]: after step o the list l' is
   sorted and is the reference's result (e = nil), or the reference refuses too
   and l' = l. *)
From Coq Require Import ZArith List Bool.
From GoCoap Require Import Gen.OptConsts Opt.Model Opt.Spec Opt.Proofs Opt.ProofsPath Opt.ProofsValues Opt.ProofsAlias.
Import ListNotations.
Open Scope Z_scope.

(* findPosition on every sorted non-empty list: terminates within its fuel and
   returns (last index with a smaller number, first index with a larger number
   or -1) *)
Theorem C15_findpos : forall l id, sorted l -> l <> [] -> fp_spec l id (find_position l id).
Proof. exact find_position_spec. Qed.
Print Assumptions C15_findpos.

(* Set/Add/Remove/Find with their in-place shifting loops are splices at the
   positions of the block numbered id *)
Theorem C15_ops_splice : forall l id, sorted l -> exists a c, split3 l id a c /\
  (forall v, set l (id, v) = splice l a c [(id, v)]) /\
  (forall v, add l (id, v) = splice l c c [(id, v)]) /\
  remove l id = splice l a c [] /\
  find l id = (if a <? c then Some (a, c) else None).
Proof. exact ops_splice. Qed.
Print Assumptions C15_ops_splice.

Theorem C15_set_refines : forall l o, sorted l -> set l o = ref_set o l /\ sorted (set l o).
Proof. exact set_refines. Qed.
Print Assumptions C15_set_refines.
Theorem C15_add_refines : forall l o, sorted l -> add l o = ref_add o l /\ sorted (add l o).
Proof. exact add_refines. Qed.
Print Assumptions C15_add_refines.
Theorem C15_remove_refines : forall l id, sorted l -> remove l id = ref_remove id l /\ sorted (remove l id).
Proof. exact remove_refines. Qed.
Print Assumptions C15_remove_refines.
Theorem C15_find_refines : forall l id, sorted l ->
  find l id = ref_find id l /\ has_option l id = ref_has id l.
Proof. exact find_refines. Qed.
Print Assumptions C15_find_refines.

(* ---- paths ---- *)

(* the strings.Index loops of GetPathBufferSize and setPath never run out of
   their fuel (len+1), for every path, list and buffer *)
Theorem C15_path_fuel : forall l id b p, get_path_buffer_size p <> PFuel /\ set_path l id b p <> SFuel.
Proof. exact path_fuel. Qed.
Print Assumptions C15_path_fuel.

(* GetPathBufferSize = sum of the reference's segment lengths, or the error
   exactly when a segment exceeds 255 bytes *)
Theorem C15_path_buffer_size : forall p,
  get_path_buffer_size p = if segs_ok p then PSize (segs_total p) else PErr.
Proof. exact get_path_buffer_size_spec. Qed.
Print Assumptions C15_path_buffer_size.

(* setPath (SetPath / SetLocationPath: any option number id), all outcomes, on
   every sorted list, for every byte string p and buffer length b *)
Theorem C15_set_path : forall l id b p, sorted l ->
  set_path l id b p =
    match p with
    | [] => SRes (l, 0, ENone)
    | _ => if negb (segs_ok p) then SRes (l, -1, EInvalidValueLength)
           else if b <? segs_total p then SRes (l, -1, ETooSmall)
           else SRes (ref_set_path id p l, segs_total p, ENone)
    end.
Proof. exact set_path_spec. Qed.
Print Assumptions C15_set_path.

(* the round trip: segments at most 255 bytes and a sufficient buffer =>
   performed; the list is the reference's (old options of that number removed,
   one option per non-empty segment in order, other numbers untouched, still
   sorted); Path()/LocationPath() of the result (32-byte buffer, one retry) is
   the normalised path. A path without segments ("/", "//") leaves no option:
   Path() answers ("", ErrOptionNotFound) and normalise p = "". *)
Theorem C15_path_round_trip : forall l id p b, sorted l -> p <> [] -> segs_ok p = true -> segs_total p <= b ->
  let l' := ref_set_path id p l in
  set_path l id b p = SRes (l', segs_total p, ENone) /\
  sorted l' /\
  ref_values id l' = segments p /\
  (forall id', id' <> id -> ref_values id' l' = ref_values id' l) /\
  path_str l' id = Ok (match segments p with [] => ENotFound | _ => ENone end, normalise p).
Proof. exact path_round_trip. Qed.
Print Assumptions C15_path_round_trip.

(* a segment longer than 255 bytes or an insufficient buffer: refused, the
   list is returned unchanged (sortedness not needed) *)
Theorem C15_path_refused : forall l id p b, p <> [] -> segs_ok p = false \/ b < segs_total p ->
  exists e, e <> ENone /\ set_path l id b p = SRes (l, -1, e).
Proof. exact path_refused. Qed.
Print Assumptions C15_path_refused.

(* Path() / LocationPath() on any sorted list: never a Panic, the buffer and
   the single retry always suffice, the answer is the reference's join *)
Theorem C15_path_str : forall l id, sorted l ->
  path_str l id = if ref_has id l then Ok (ENone, ref_path id l) else Ok (ENotFound, []).
Proof. exact path_str_spec. Qed.
Print Assumptions C15_path_str.

(* ---- the full operation alphabet ---- *)

(* every operation of the alphabet (set-path included) refines the reference:
   performed = reference list, refused = unchanged and the reference refuses *)
Theorem C15_step_refines : forall l o, sorted l -> op_wf o ->
  let '(l', _, e) := ostep l o in refines true l o l' e.
Proof. exact ostep_refines_full. Qed.
Print Assumptions C15_step_refines.

(* all operation sequences on message.Options (induction over the sequence):
   the list stays sorted and equals the reference fold *)
Theorem C15_sorted_inv : forall ops l, sorted l -> Forall op_wf ops ->
  orun ops l = ref_run true ops l /\ sorted (orun ops l).
Proof. exact orun_refines_full. Qed.
Print Assumptions C15_sorted_inv.

(* pool.Message builder methods (value buffer grown and retried; SetPath grows
   by GetPathBufferSize): performed exactly when the reference without a
   buffer limit performs, with the reference's list; refused (error / panic)
   exactly when the reference refuses, list unchanged.  [mwf s]: list sorted,
   len(valueBuffer) >= 0. *)
Theorem C15_builder_refines : forall s o, mwf s -> op_wf o ->
  let '(s', e) := mstep s o in refines false (m_opts s) o (m_opts s') e /\ mwf s'.
Proof. exact mstep_refines_full. Qed.
Print Assumptions C15_builder_refines.

(* all histories of builder calls *)
Theorem C15_builder_inv : forall ops s, mwf s -> Forall op_wf ops ->
  m_opts (mrun ops s) = ref_run false ops (m_opts s) /\ mwf (mrun ops s).
Proof. exact mrun_refines. Qed.
Print Assumptions C15_builder_inv.

(* ---- byte level (Opt/ProofsValues.v): option values are slice headers into
   arrays; the window r.valueBuffer; append reallocates with any capacity ---- *)

(* every step of the byte-level builder reads back (headers -> bytes) as the
   step of the list-level builder that the correspondence check ties to the Go
   code; the invariant is kept; no valid header outside the writable part of
   the window changes its bytes, and (unless the step is Reset) it stays
   outside *)
Theorem C15_values_project : forall s o slack, vwf s -> 0 <= slack ->
  let r := vstep s o slack in
  mstep (mproj s) o = (mproj (fst r), snd r) /\ vwf (fst r) /\
  keeps (v_mem s) (v_win s) (v_mem (fst r)) /\
  (o <> OReset -> protects (v_mem s) (v_win s) (v_win (fst r))).
Proof. exact vstep_sim. Qed.
Print Assumptions C15_values_project.

Theorem C15_values_project_run : forall steps s, vwf s -> Forall (fun x => 0 <= snd x) steps ->
  mproj (vrun steps s) = mrun (map fst steps) (mproj s) /\ vwf (vrun steps s).
Proof. exact vrun_sim. Qed.
Print Assumptions C15_values_project_run.

(* values byte-exact and unaffected by later edits or internal buffer growth:
   the bytes of every option value stored in the message are the same after
   any later history of builder calls (any reallocation capacities) that does
   not Reset the message ... *)
Theorem C15_values_stable : forall steps s x, vwf s -> Forall (fun x => 0 <= snd x) steps ->
  Forall (fun x => fst x <> OReset) steps -> In x (v_opts s) ->
  rd (v_mem (vrun steps s)) (oval x) = rd (v_mem s) (oval x).
Proof. exact stored_values_stable. Qed.
Print Assumptions C15_values_stable.

(* ... and no single call, Reset included, changes them *)
Theorem C15_values_stable_step : forall s o k x, vwf s -> 0 <= k -> In x (v_opts s) ->
  rd (v_mem (fst (vstep s o k))) (oval x) = rd (v_mem s) (oval x).
Proof. exact stored_values_stable_step. Qed.
Print Assumptions C15_values_stable_step.

(* from NewMessage: what the stored headers read is the reference's list, i.e.
   exactly the bytes the callers passed, in sorted-multiset order *)
Theorem C15_values_exact : forall steps, Forall (fun x => 0 <= snd x) steps -> Forall op_wf (map fst steps) ->
  let s := vrun steps vnew in
  proj (v_mem s) (v_opts s) = ref_run false (map fst steps) [] /\ vwf s.
Proof. exact vrun_reference. Qed.
Print Assumptions C15_values_exact.

(* ---- ResetOptionsTo with an input that aliases the message's own value
   storage (Opt/ProofsAlias.v). [areset_loop]: every copy(buf, o.Value) of the
   loop reads its source from the memory as the earlier copies left it.
   [hdrs_ok m w hs]: every input header is inside its array and outside the
   writable part of the window w (another array, or entirely before w). ---- *)

(* under that hypothesis the aliased call IS the by-value call with the bytes
   the views denoted before the call: same memory, headers, window, result *)
Theorem C15_reset_alias : forall s hs slack b, vwf s -> 0 <= slack -> hdrs_ok (v_mem s) (v_win s) hs ->
  vreset_alias s hs slack = vstep s (OResetTo (proj (v_mem s) hs) b) slack.
Proof. exact vreset_alias_eq. Qed.
Print Assumptions C15_reset_alias.

(* every selection (filtered / re-ordered / repeating copy) of the message's
   own Options() satisfies the hypothesis, whatever history built the message *)
Theorem C15_own_options_ok : forall s sel, vwf s -> hdrs_ok (v_mem s) (v_win s) (pick (v_opts s) sel).
Proof. exact own_hdrs_ok. Qed.
Print Assumptions C15_own_options_ok.

(* msg.ResetOptionsTo(selection of msg.Options()) reads back as the list-level
   builder step (the one tied to the Go code by the correspondence check) with
   the selected (number, bytes) pairs of the list before the call ... *)
Theorem C15_reset_own_project : forall s sel slack b, vwf s -> 0 <= slack ->
  let r := vreset_alias s (pick (v_opts s) sel) slack in
  mstep (mproj s) (OResetTo (pick (m_opts (mproj s)) sel) b) = (mproj (fst r), snd r) /\ vwf (fst r) /\
  keeps (v_mem s) (v_win s) (v_mem (fst r)) /\ protects (v_mem s) (v_win s) (v_win (fst r)).
Proof. exact reset_own_sim. Qed.
Print Assumptions C15_reset_own_project.

(* ... it is performed, and the resulting list is the reference's: ascending by
   number, input order kept among equal numbers, bytes exactly those the
   selected options had before the call *)
Theorem C15_reset_own : forall s sel slack, vwf s -> 0 <= slack ->
  let r := vreset_alias s (pick (v_opts s) sel) slack in
  snd r = ENone /\
  proj (v_mem (fst r)) (v_opts (fst r)) = fold_ref (pick (proj (v_mem s) (v_opts s)) sel) [] /\
  vwf (fst r).
Proof. exact reset_own_reference. Qed.
Print Assumptions C15_reset_own.

(* msg.ResetOptionsTo(msg.Options()) leaves the list as it was *)
Theorem C15_reset_own_identity : forall s slack, vwf s -> 0 <= slack ->
  let r := vreset_alias s (v_opts s) slack in
  snd r = ENone /\ proj (v_mem (fst r)) (v_opts (fst r)) = proj (v_mem s) (v_opts s) /\ vwf (fst r).
Proof. exact reset_own_identity. Qed.
Print Assumptions C15_reset_own_identity.

(* the input may share the receiver's option ARRAY as well (Options()[a : a+n]
   passed back; [sreset_loop]: opts := options[:0], the range loop reads slot
   a+i of the array as the first i iterations left it, Add writes slots 0..i):
   the list built is the one the by-value loop builds from those slots *)
Theorem C15_reset_shared_array : forall arr a n, 0 <= a -> a + Z.of_nat n <= len arr ->
  sreset_loop n 0 a arr = fold_add (take (drop arr a) (Z.of_nat n)) [].
Proof. exact shared_array_reset. Qed.
Print Assumptions C15_reset_shared_array.

(* a refused ResetOptionsTo leaves the receiver unchanged; Clone of a sorted
   list is the list *)
Theorem C15_reset_to : forall l b ins, reset_options_to l b ins =
  if b <? sum_len ins then (l, sum_len ins, ETooSmall) else (fold_ref ins [], sum_len ins, ENone).
Proof. exact reset_options_to_spec. Qed.
Print Assumptions C15_reset_to.
Theorem C15_clone : forall l, sorted l -> clone l = (l, ENone).
Proof. exact clone_spec. Qed.
Print Assumptions C15_clone.

(* getters never index outside the slice (F5) ... *)
Theorem C15_getters_total : forall l id rlen, sorted l ->
  get_bytes l id <> Panic /\ get_uint32 l id <> Panic /\ get_media l id <> Panic /\
  get_uint32s l id rlen <> Panic /\ get_strings l id rlen <> Panic /\ get_bytess l id rlen <> Panic.
Proof. exact getters_total. Qed.
Print Assumptions C15_getters_total.

(* ... and answer as the reference does *)
Theorem C15_get_first : forall l id, sorted l ->
  get_bytes l id = first_answer (fun v => v) [] id l /\ get_uint32 l id = first_answer ref_uint 0 id l.
Proof. intros l id H. split; [exact (get_bytes_refines l id H)|exact (get_uint32_refines l id H)]. Qed.
Print Assumptions C15_get_first.
Theorem C15_get_multi : forall l id rlen, sorted l ->
  get_uint32s l id rlen = multi_answer ref_uint id rlen l /\
  get_strings l id rlen = multi_answer (fun v => v) id rlen l /\
  get_bytess l id rlen = multi_answer (fun v => v) id rlen l.
Proof.
  intros l id rlen H. repeat split.
  - exact (get_multi_refines ref_uint l id rlen H).
  - exact (get_multi_refines (fun v => v) l id rlen H).
  - exact (get_multi_refines (fun v => v) l id rlen H).
Qed.
Print Assumptions C15_get_multi.

(* Queries() (4 result slots, one retry with the reported count): on every
   sorted list no error survives the retry, no Panic, all Uri-Query values in order *)
Theorem C15_queries : forall l, sorted l ->
  queries l = if ref_has URIQuery l then Ok (ENone, ref_values URIQuery l) else Ok (ENotFound, []).
Proof. exact queries_spec. Qed.
Print Assumptions C15_queries.

(* uint option values are the minimal big-endian encoding *)
Theorem C15_uint_bytes : forall b v, 0 <= v < 4294967296 ->
  encode_uint32 b v = if b <? uint_len v then (uint_len v, ETooSmall, []) else (uint_len v, ENone, uint_bytes v).
Proof. exact encode_uint32_spec. Qed.
Print Assumptions C15_uint_bytes.

(* non-vacuity: a sorted list with a repeated number, edited by a sequence that
   shifts in both directions, with a refused typed setter in the middle *)
Example C15_instance :
  let l := [(1, [9]); (11, [1]); (11, [2]); (15, [3])] in
  let ops := [OAdd 11 [4]; OSet 12 [5]; OSetBytes 11 [6] 0; OSetU32 60 70000 4; ORemove 11; OAdd 4 []] in
  ref_sorted l = true /\
  orun ops l = [(1, [9]); (4, []); (12, [5]); (15, [3]); (60, [1; 17; 112])] /\
  ref_run true ops l = orun ops l /\
  get_uint32s (orun ops l) 60 1 = Ok (1, ENone, [70000]).
Proof. vm_compute. repeat split. Qed.
Example C15_instance_wf :
  Forall op_wf [OAdd 11 [4]; OSetU32 60 70000 4; ORemove 11; OSetPath 11 [47; 97; 47; 47; 98] 2].
Proof.
  apply Forall_cons; [exact I|]. apply Forall_cons; [|repeat (apply Forall_cons; [exact I|]); apply Forall_nil].
  unfold op_wf. split; [discriminate|reflexivity].
Qed.

(* non-vacuity of the path and byte-level theorems: "/a//b" over an old path,
   then a value that forces a reallocation (250 + 250 bytes > 256), a clone
   and an overwrite; the level-2 state reads back as the level-1 run *)
Example C15_instance_path :
  let l := [(1, [9]); (11, [1]); (11, [2]); (15, [3])] in
  let p := [47; 97; 47; 47; 98] in
  segs_ok p = true /\ segs_total p = 2 /\
  ostep l (OSetPath 11 p 2) = ([(1, [9]); (11, [97]); (11, [98]); (15, [3])], 2, ENone) /\
  path_str (fst (fst (ostep l (OSetPath 11 p 2)))) 11 = Ok (ENone, [47; 97; 47; 98]) /\
  ostep l (OSetPath 11 p 1) = (l, -1, ETooSmall).
Proof. vm_compute. repeat split. Qed.
Example C15_instance_values :
  let big := repeat 7 250 in
  let steps := [(OSet 11 [1; 2; 3], 0); (OAdd 4 big, 5); (OAddBytes 12 big 0, 0); (OSetPath 11 [47; 97; 47; 98] 0, 9);
                (OClone, 1); (OSet 4 [8], 0)] in
  let s := vrun steps vnew in
  mproj s = mrun (map fst steps) m_new /\
  m_opts (mproj s) = [(4, [8]); (11, [97]); (11, [98]); (12, big)] /\
  len (v_mem s) = 4.
Proof. vm_compute. repeat split. Qed.

(* non-vacuity of the aliasing theorems: values stored out of option order
   (12 before 6), the window advanced past them -- the own list is a legal
   input and comes back unchanged; with the window rewound to the start of the
   array (headers no longer outside it) the same loop corrupts option 12 *)
Example C15_instance_alias :
  let s := fst (vstep (fst (vstep vnew (OSetU32 12 50 0) 0)) (OSetU32 6 5 0) 0) in
  let r := vreset_alias s (v_opts s) 0 in
  let s0 := {| v_mem := v_mem s; v_opts := v_opts s; v_win := v_orig s; v_orig := v_orig s |} in
  let r0 := vreset_alias s0 (v_opts s0) 0 in
  v_opts s = [(6, [0; 1; 1]); (12, [0; 0; 1])] /\
  proj (v_mem s) (v_opts s) = [(6, [5]); (12, [50])] /\
  proj (v_mem (fst r)) (v_opts (fst r)) = [(6, [5]); (12, [50])] /\
  v_opts (fst r) = [(6, [0; 2; 1]); (12, [0; 3; 1])] /\
  proj (v_mem (fst r0)) (v_opts (fst r0)) = [(6, [5]); (12, [5])].
Proof. vm_compute. repeat split. Qed.
