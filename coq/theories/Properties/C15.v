(* C15 -- option list and message builder behave like a sorted multiset.
   Statements only; proofs are in Opt/Proofs.v. Model: Opt/Model.v (stated over
   Gen.OptConsts, regenerated from the source on every run); reference:
   Opt/Spec.v.  [sorted l]: option numbers ascend with the index.
   [split3 l id a c]: positions [0,a) carry smaller numbers, [a,c) the number
   id, [c,len) larger ones.  [refines b l o l' e]: after step o the list l' is
   sorted and is the reference's result (e = nil), or the reference refuses too
   and l' = l. *)
From Coq Require Import ZArith List Bool.
From GoCoap Require Import Gen.OptConsts Opt.Model Opt.Spec Opt.Proofs.
Import ListNotations.
Open Scope Z_scope.

(* findPosition on every sorted non-empty list: terminates within its fuel and
   returns (last index with a smaller number, first index with a larger number
   or -1) *)
Theorem C15_findpos : forall l id, sorted l -> l <> [] -> fp_spec l id (find_position l id).
Proof. exact find_position_spec. Qed.
Print Assumptions C15_findpos.

(* Set/Add/Remove/Find with their in-place shifting loops are splices at the
   positions of the block numbered id *)
Theorem C15_ops_splice : forall l id, sorted l -> exists a c, split3 l id a c /\
  (forall v, set l (id, v) = splice l a c [(id, v)]) /\
  (forall v, add l (id, v) = splice l c c [(id, v)]) /\
  remove l id = splice l a c [] /\
  find l id = (if a <? c then Some (a, c) else None).
Proof. exact ops_splice. Qed.
Print Assumptions C15_ops_splice.

Theorem C15_set_refines : forall l o, sorted l -> set l o = ref_set o l /\ sorted (set l o).
Proof. exact set_refines. Qed.
Print Assumptions C15_set_refines.
Theorem C15_add_refines : forall l o, sorted l -> add l o = ref_add o l /\ sorted (add l o).
Proof. exact add_refines. Qed.
Print Assumptions C15_add_refines.
Theorem C15_remove_refines : forall l id, sorted l -> remove l id = ref_remove id l /\ sorted (remove l id).
Proof. exact remove_refines. Qed.
Print Assumptions C15_remove_refines.
Theorem C15_find_refines : forall l id, sorted l ->
  find l id = ref_find id l /\ has_option l id = ref_has id l.
Proof. exact find_refines. Qed.
Print Assumptions C15_find_refines.

(* Full statement: every operation of the alphabet refines the reference.
   Proved for every operation except set-path (OSetPath), whose loop is tied to
   the reference by the correspondence check only (notes/C15.md). *)
Theorem C15_step_refines_partial : forall l o, sorted l -> op_wf o -> not_path o ->
  let '(l', _, e) := ostep l o in refines true l o l' e.
Proof. exact ostep_refines. Qed.
Print Assumptions C15_step_refines_partial.

(* all operation sequences on message.Options (induction over the sequence):
   the list stays sorted and equals the reference fold *)
Theorem C15_sorted_inv_partial : forall ops l, sorted l -> Forall op_wf ops -> Forall not_path ops ->
  orun ops l = ref_run true ops l /\ sorted (orun ops l).
Proof. exact orun_refines. Qed.
Print Assumptions C15_sorted_inv_partial.

(* pool.Message builder methods (value buffer grown and retried): a performed
   step is the reference's edit, a refused one (panic/error) leaves the list
   unchanged. Missing for the full statement: set-path, and "refused only when
   the reference refuses". *)
Theorem C15_builder_refines_partial : forall s o, sorted (m_opts s) -> op_wf o -> not_path o ->
  let '(s', e) := mstep s o in mrefines (m_opts s) o (m_opts s') e.
Proof. exact mstep_refines. Qed.
Print Assumptions C15_builder_refines_partial.

(* a refused ResetOptionsTo leaves the receiver unchanged; Clone of a sorted
   list is the list *)
Theorem C15_reset_to : forall l b ins, reset_options_to l b ins =
  if b <? sum_len ins then (l, sum_len ins, ETooSmall) else (fold_ref ins [], sum_len ins, ENone).
Proof. exact reset_options_to_spec. Qed.
Print Assumptions C15_reset_to.
Theorem C15_clone : forall l, sorted l -> clone l = (l, ENone).
Proof. exact clone_spec. Qed.
Print Assumptions C15_clone.

(* getters never index outside the slice (F5) ... *)
Theorem C15_getters_total : forall l id rlen, sorted l ->
  get_bytes l id <> Panic /\ get_uint32 l id <> Panic /\ get_media l id <> Panic /\
  get_uint32s l id rlen <> Panic /\ get_strings l id rlen <> Panic /\ get_bytess l id rlen <> Panic.
Proof. exact getters_total. Qed.
Print Assumptions C15_getters_total.

(* ... and answer as the reference does *)
Theorem C15_get_first : forall l id, sorted l ->
  get_bytes l id = first_answer (fun v => v) [] id l /\ get_uint32 l id = first_answer ref_uint 0 id l.
Proof. intros l id H. split; [exact (get_bytes_refines l id H)|exact (get_uint32_refines l id H)]. Qed.
Print Assumptions C15_get_first.
Theorem C15_get_multi : forall l id rlen, sorted l ->
  get_uint32s l id rlen = multi_answer ref_uint id rlen l /\
  get_strings l id rlen = multi_answer (fun v => v) id rlen l /\
  get_bytess l id rlen = multi_answer (fun v => v) id rlen l.
Proof.
  intros l id rlen H. repeat split.
  - exact (get_multi_refines ref_uint l id rlen H).
  - exact (get_multi_refines (fun v => v) l id rlen H).
  - exact (get_multi_refines (fun v => v) l id rlen H).
Qed.
Print Assumptions C15_get_multi.

(* uint option values are the minimal big-endian encoding *)
Theorem C15_uint_bytes : forall b v, 0 <= v < 4294967296 ->
  encode_uint32 b v = if b <? uint_len v then (uint_len v, ETooSmall, []) else (uint_len v, ENone, uint_bytes v).
Proof. exact encode_uint32_spec. Qed.
Print Assumptions C15_uint_bytes.

(* non-vacuity: a sorted list with a repeated number, edited by a sequence that
   shifts in both directions, with a refused typed setter in the middle *)
Example C15_instance :
  let l := [(1, [9]); (11, [1]); (11, [2]); (15, [3])] in
  let ops := [OAdd 11 [4]; OSet 12 [5]; OSetBytes 11 [6] 0; OSetU32 60 70000 4; ORemove 11; OAdd 4 []] in
  ref_sorted l = true /\
  orun ops l = [(1, [9]); (4, []); (12, [5]); (15, [3]); (60, [1; 17; 112])] /\
  ref_run true ops l = orun ops l /\
  get_uint32s (orun ops l) 60 1 = Ok (1, ENone, [70000]).
Proof. vm_compute. repeat split. Qed.
Example C15_instance_wf :
  Forall op_wf [OAdd 11 [4]; OSetU32 60 70000 4; ORemove 11] /\ Forall not_path [OAdd 11 [4]; OSetU32 60 70000 4; ORemove 11].
Proof.
  split.
  - apply Forall_cons; [exact I|]. apply Forall_cons; [|apply Forall_cons; [exact I|apply Forall_nil]].
    unfold op_wf. split; [discriminate|reflexivity].
  - apply Forall_cons; [exact I|]. apply Forall_cons; [exact I|]. apply Forall_cons; [exact I|apply Forall_nil].
Qed.
