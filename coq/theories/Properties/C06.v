(* C06 -- Confirmable requests are retransmitted correctly and boundedly.
   Statements only; proofs in Retx/Proofs.v and Retx/ProofsCount.v.  The model (Retx/Model.v) is the
   sender side of udp/client.Conn; theorems quantify over ALL event histories
   (sends, virtual time, ticks, ACK/RST/responses in any order, cancellations). *)
From Coq Require Import ZArith List Bool.
From GoCoap Require Import Retx.Model Retx.Proofs Retx.ProofsCount.
Import ListNotations.
Open Scope Z_scope.

(* a re-send of an entry happens only if fewer than MAX_RETRANSMIT re-sends were made, its deadline
   has not passed, and MORE than (k+1) x ACK_TIMEOUT elapsed since the first transmission, where k is
   the number of re-sends so far; it increments that number by exactly one *)
Theorem C06_resend_rule : forall c p p',
  tick_entry c p = (Some p', true) ->
  p_count p < max_rt c /\ ack_ms c * (p_count p + 1) < p_elapsed p /\
  p_count p' = p_count p + 1 /\ p_id p' = p_id p /\ p_elapsed p' = p_elapsed p /\
  (forall d, p_dl p = Some d -> 0 <= d).
Proof. exact tick_entry_resend. Qed.
Print Assumptions C06_resend_rule.

(* in every reachable state every pending request has made at most MAX_RETRANSMIT re-sends
   (so at most 1 + MAX_RETRANSMIT copies are ever transmitted for it) ... *)
Theorem C06_bounded_per_entry : forall c evs, 0 <= max_rt c -> Forall (pend_ok c) (pending (final c init evs)).
Proof. exact count_bounded. Qed.
Print Assumptions C06_bounded_per_entry.

(* ... and an exhausted entry is dropped at the next tick without another copy *)
Theorem C06_exhausted_dropped : forall c p, max_rt c <= p_count p -> tick_entry c p = (None, false).
Proof. exact tick_entry_exhausted. Qed.
Print Assumptions C06_exhausted_dropped.

(* no copy after an acknowledgement, a reset or a piggybacked response -- in any continuation *)
Theorem C06_stops_after_ack_or_reset : forall c s id e evs,
  transmitted id s -> stop_event id e -> Forall (not_send id) evs ->
  ~ In (Copy id) (o_emit (snd (step c s e))) /\
  Forall (fun o => ~ In (Copy id) (o_emit o)) (outs c (fst (step c s e)) evs).
Proof. exact stops_after_ack_or_reset. Qed.
Print Assumptions C06_stops_after_ack_or_reset.

(* no copy after the caller's cancellation -- in any continuation *)
Theorem C06_stops_after_cancel : forall c s id q evs,
  find_rq (reqs s) id = Some q -> is_done (q_st q) = false -> Forall (not_send id) evs ->
  ~ In (Copy id) (o_emit (snd (step c s (Cancel id)))) /\
  Forall (fun o => ~ In (Copy id) (o_emit o)) (outs c (fst (step c s (Cancel id))) evs).
Proof. exact stops_after_cancel. Qed.
Print Assumptions C06_stops_after_cancel.

(* a piggybacked response that arrives while the request is pending makes the call succeed with it *)
Theorem C06_success : forall c s id code q,
  In q (reqs s) -> q_id q = id -> q_st q = WaitAck -> q_buf q = None -> has_pend (pending s) id = true ->
  In (id, 0, code) (o_ret (snd (step c s (Piggy id code)))).
Proof. exact piggy_succeeds. Qed.
Print Assumptions C06_success.

(* an acknowledgement that arrives while the request is pending moves the call on to wait for its response *)
Theorem C06_ack_wakes : forall c s id q,
  transmitted id s ->
  In q (reqs s) -> q_id q = id -> q_st q = WaitAck -> q_buf q = None -> has_pend (pending s) id = true ->
  exists q', In q' (reqs (fst (step c s (Ack id)))) /\ q_id q' = id /\ q_st q' = WaitResp /\ q_buf q' = None.
Proof. exact ack_wakes. Qed.
Print Assumptions C06_ack_wakes.

(* exhaustion of the attempts or a reset never produces a successful response: in ANY history a call
   returns successfully with code cd only if a response carrying its token and that code was received *)
Theorem C06_no_false_success : forall c evs id cd,
  (exists o, In o (outs c init evs) /\ In (id, 0, cd) (o_ret o)) ->
  exists e, In e evs /\ is_resp_for id cd e.
Proof. exact success_needs_response. Qed.
Print Assumptions C06_no_false_success.

(* TRACE LEVEL: over EVERY event history (sends, virtual time, ticks, ACK/RST/piggybacked/separate responses
   in any order, cancellations) in which the request ids are distinct, at most 1 + MAX_RETRANSMIT copies
   of request id are ever put on the wire (cnt_obs id os = number of [Copy id] in the emissions os) *)
Theorem C06_copies_bounded : forall c evs id,
  0 <= max_rt c -> NoDup (send_ids evs) ->
  cnt_obs id (outs c init evs) <= 1 + max_rt c.
Proof. exact copies_bounded. Qed.
Print Assumptions C06_copies_bounded.

(* ... and without the distinctness hypothesis: 1 + MAX_RETRANSMIT copies per submission of the id *)
Theorem C06_copies_bounded_general : forall c evs id,
  0 <= max_rt c -> cnt_obs id (outs c init evs) <= (1 + max_rt c) * nsend id evs.
Proof. exact copies_bounded_general. Qed.
Print Assumptions C06_copies_bounded_general.

(* the first transmission happens at most once and is emitted by an event other than Tick (the admission
   of the request: its own Send or the event that frees an NSTART slot); every other copy is emitted by a
   Tick (firsts/resends = copies of id emitted by non-Tick/Tick events), there are at most MAX_RETRANSMIT
   of those and none unless the first transmission happened; if any copy is sent, exactly one is a first *)
Theorem C06_first_copy_once : forall c evs id,
  0 <= max_rt c -> NoDup (send_ids evs) ->
  firsts id evs (outs c init evs) <= 1 /\
  resends id evs (outs c init evs) <= max_rt c * firsts id evs (outs c init evs) /\
  (0 < cnt_obs id (outs c init evs) -> firsts id evs (outs c init evs) = 1).
Proof. exact first_copy_once. Qed.
Print Assumptions C06_first_copy_once.

Theorem C06_copies_split : forall c id evs s,
  cnt_obs id (outs c s evs) = firsts id evs (outs c s evs) + resends id evs (outs c s evs).
Proof. exact copies_split. Qed.
Print Assumptions C06_copies_split.

(* spacing at trace level: a Tick that re-sends request id after ANY history pre emits exactly one copy of
   it; with k the number of re-sends of id in pre (this is the (k+1)-th), the pending entry's counter is k,
   k < MAX_RETRANSMIT, and MORE than (k+1) x ACK_TIMEOUT elapsed since the first transmission *)
Theorem C06_resend_spacing_trace : forall c pre id,
  0 <= max_rt c -> NoDup (send_ids pre) ->
  In (Copy id) (o_emit (snd (step c (final c init pre) Tick))) ->
  cnt id (o_emit (snd (step c (final c init pre) Tick))) = 1 /\
  exists p, In p (pending (final c init pre)) /\ p_id p = id /\
            p_count p = resends id pre (outs c init pre) /\
            p_count p < max_rt c /\
            ack_ms c * (resends id pre (outs c init pre) + 1) < p_elapsed p.
Proof. exact resend_spacing_trace. Qed.
Print Assumptions C06_resend_spacing_trace.

(* non-vacuity: defaults (2 s, 4 re-sends): copies at the ticks after 2, 4, 6, 8 s, none before, none after,
   entry dropped; and a request answered after the first re-send *)
Example C06_instance :
  let c := {| ack_ms := 2000; max_rt := 4; nstart := 1 |} in
  map (fun o => length (o_emit o))
      (outs c init [Send 1 [1] None; Age 1900; Tick; Age 200; Tick; Age 2000; Tick; Age 2000; Tick; Age 2000; Tick; Age 2000; Tick; Tick])
  = [1; 0; 0; 0; 1; 0; 1; 0; 1; 0; 1; 0; 0; 0]%nat
  /\ o_ret (snd (step c (final c init [Send 1 [1] None; Age 2100; Tick]) (Piggy 1 69))) = [(1, 0, 69)].
Proof. vm_compute. split; reflexivity. Qed.

(* the same history counted: 5 = 1 + MAX_RETRANSMIT copies, 1 first transmission, 4 re-sends *)
Example C06_instance_count :
  let c := {| ack_ms := 2000; max_rt := 4; nstart := 1 |} in
  let evs := [Send 1 [1] None; Age 1900; Tick; Age 200; Tick; Age 2000; Tick; Age 2000; Tick; Age 2000; Tick; Age 2000; Tick; Tick] in
  cnt_obs 1 (outs c init evs) = 5 /\ firsts 1 evs (outs c init evs) = 1 /\ resends 1 evs (outs c init evs) = 4.
Proof. vm_compute. repeat split; reflexivity. Qed.
