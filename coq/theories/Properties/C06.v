(* C06 -- Confirmable requests are retransmitted correctly and boundedly.
   Statements only; proofs in Retx/Proofs.v and Retx/ProofsCount.v.  The model (Retx/Model.v) is the
   sender side of udp/client.Conn; theorems quantify over ALL event histories
   (sends, virtual time, ticks, ACK/RST/responses in any order, cancellations). *)
From Coq Require Import ZArith List Bool.
From GoCoap Require Import Retx.Model Retx.Proofs Retx.ProofsCount.
Import ListNotations.
Open Scope Z_scope.

(* a re-send of an entry happens only if fewer than MAX_RETRANSMIT re-sends were made, its deadline
   has not passed, and MORE than (k+1) x ACK_TIMEOUT elapsed since the first transmission, where k is
   the number of re-sends so far; it increments that number by exactly one *)
Theorem C06_resend_rule : forall c p p',
  tick_entry c p = (Some p', true) ->
  p_count p < max_rt c /\ ack_ms c * (p_count p + 1) < p_elapsed p /\
  p_count p' = p_count p + 1 /\ p_id p' = p_id p /\ p_elapsed p' = p_elapsed p /\
  (forall d, p_dl p = Some d -> 0 <= d).
Proof. exact tick_entry_resend. Qed.
Print Assumptions C06_resend_rule.

(* in every reachable state every pending request has made at most MAX_RETRANSMIT re-sends
   (so at most 1 + MAX_RETRANSMIT copies are ever transmitted for it) ... *)
Theorem C06_bounded_per_entry : forall c evs, 0 <= max_rt c -> Forall (pend_ok c) (pending (final c init evs)).
Proof. exact count_bounded. Qed.
Print Assumptions C06_bounded_per_entry.

(* ... and an exhausted entry is dropped at the next tick without another copy *)
Theorem C06_exhausted_dropped : forall c p, max_rt c <= p_count p -> tick_entry c p = (None, false).
Proof. exact tick_entry_exhausted. Qed.
Print Assumptions C06_exhausted_dropped.

(* no copy after an acknowledgement, a reset or a piggybacked response -- in any continuation *)
Theorem C06_stops_after_ack_or_reset : forall c s id e evs,
  transmitted id s -> stop_event id e -> Forall (not_send id) evs ->
  ~ In (Copy id) (o_emit (snd (step c s e))) /\
  Forall (fun o => ~ In (Copy id) (o_emit o)) (outs c (fst (step c s e)) evs).
Proof. exact stops_after_ack_or_reset. Qed.
Print Assumptions C06_stops_after_ack_or_reset.

(* no copy after the caller's cancellation -- in any continuation *)
Theorem C06_stops_after_cancel : forall c s id q evs,
  find_rq (reqs s) id = Some q -> is_done (q_st q) = false -> Forall (not_send id) evs ->
  ~ In (Copy id) (o_emit (snd (step c s (Cancel id)))) /\
  Forall (fun o => ~ In (Copy id) (o_emit o)) (outs c (fst (step c s (Cancel id))) evs).
Proof. exact stops_after_cancel. Qed.
Print Assumptions C06_stops_after_cancel.

(* a piggybacked response that arrives while the request is pending makes the call succeed with it *)
Theorem C06_success : forall c s id code q,
  In q (reqs s) -> q_id q = id -> q_st q = WaitAck -> q_buf q = None -> has_pend (pending s) id = true ->
  In (id, 0, code) (o_ret (snd (step c s (Piggy id code)))).
Proof. exact piggy_succeeds. Qed.
Print Assumptions C06_success.

(* an acknowledgement that arrives while the request is pending moves the call on to wait for its response *)
Theorem C06_ack_wakes : forall c s id q,
  transmitted id s ->
  In q (reqs s) -> q_id q = id -> q_st q = WaitAck -> q_buf q = None -> has_pend (pending s) id = true ->
  exists q', In q' (reqs (fst (step c s (Ack id)))) /\ q_id q' = id /\ q_st q' = WaitResp /\ q_buf q' = None.
Proof. exact ack_wakes. Qed.
Print Assumptions C06_ack_wakes.

(* exhaustion of the attempts or a reset never produces a successful response: in ANY history a call
   returns successfully with code cd only if a response carrying its token and that code was received *)
Theorem C06_no_false_success : forall c evs id cd,
  (exists o, In o (outs c init evs) /\ In (id, 0, cd) (o_ret o)) ->
  exists e, In e evs /\ is_resp_for id cd e.
Proof. exact success_needs_response. Qed.
Print Assumptions C06_no_false_success.

(* TRACE LEVEL: over EVERY event history (sends, virtual time, ticks, ACK/RST/piggybacked/separate responses
   in any order, cancellations) in which the request ids are distinct, at most 1 + MAX_RETRANSMIT copies
   of request id are ever put on the wire (cnt_obs id os = number of [Copy id] in the emissions os) *)
Theorem C06_copies_bounded : forall c evs id,
  0 <= max_rt c -> NoDup (send_ids evs) ->
  cnt_obs id (outs c init evs) <= 1 + max_rt c.
Proof. exact copies_bounded. Qed.
Print Assumptions C06_copies_bounded.

(* ... and without the distinctness hypothesis: 1 + MAX_RETRANSMIT copies per submission of the id *)
Theorem C06_copies_bounded_general : forall c evs id,
  0 <= max_rt c -> cnt_obs id (outs c init evs) <= (1 + max_rt c) * nsend id evs.
Proof. exact copies_bounded_general. Qed.
Print Assumptions C06_copies_bounded_general.

(* the first transmission happens at most once and is emitted by an event other than Tick (the admission
   of the request: its own Send or the event that frees an NSTART slot); every other copy is emitted by a
   Tick (firsts/resends = copies of id emitted by non-Tick/Tick events), there are at most MAX_RETRANSMIT
   of those and none unless the first transmission happened; if any copy is sent, exactly one is a first *)
Theorem C06_first_copy_once : forall c evs id,
  0 <= max_rt c -> NoDup (send_ids evs) ->
  firsts id evs (outs c init evs) <= 1 /\
  resends id evs (outs c init evs) <= max_rt c * firsts id evs (outs c init evs) /\
  (0 < cnt_obs id (outs c init evs) -> firsts id evs (outs c init evs) = 1).
Proof. exact first_copy_once. Qed.
Print Assumptions C06_first_copy_once.

Theorem C06_copies_split : forall c id evs s,
  cnt_obs id (outs c s evs) = firsts id evs (outs c s evs) + resends id evs (outs c s evs).
Proof. exact copies_split. Qed.
Print Assumptions C06_copies_split.

(* spacing at trace level: a Tick that re-sends request id after ANY history pre emits exactly one copy of
   it; with k the number of re-sends of id in pre (this is the (k+1)-th), the pending entry's counter is k,
   k < MAX_RETRANSMIT, and MORE than (k+1) x ACK_TIMEOUT elapsed since the first transmission *)
Theorem C06_resend_spacing_trace : forall c pre id,
  0 <= max_rt c -> NoDup (send_ids pre) ->
  In (Copy id) (o_emit (snd (step c (final c init pre) Tick))) ->
  cnt id (o_emit (snd (step c (final c init pre) Tick))) = 1 /\
  exists p, In p (pending (final c init pre)) /\ p_id p = id /\
            p_count p = resends id pre (outs c init pre) /\
            p_count p < max_rt c /\
            ack_ms c * (resends id pre (outs c init pre) + 1) < p_elapsed p.
Proof. exact resend_spacing_trace. Qed.
Print Assumptions C06_resend_spacing_trace.

(* non-vacuity: defaults (2 s, 4 re-sends): copies at the ticks after 2, 4, 6, 8 s, none before, none after,
   entry dropped; and a request answered after the first re-send *)
Example C06_instance :
  let c := {| ack_ms := 2000; max_rt := 4; nstart := 1 |} in
  map (fun o => length (o_emit o))
      (outs c init [Send 1 [1] None; Age 1900; Tick; Age 200; Tick; Age 2000; Tick; Age 2000; Tick; Age 2000; Tick; Age 2000; Tick; Tick])
  = [1; 0; 0; 0; 1; 0; 1; 0; 1; 0; 1; 0; 0; 0]%nat
  /\ o_ret (snd (step c (final c init [Send 1 [1] None; Age 2100; Tick]) (Piggy 1 69))) = [(1, 0, 69)].
Proof. vm_compute. split; reflexivity. Qed.

(* the same history counted: 5 = 1 + MAX_RETRANSMIT copies, 1 first transmission, 4 re-sends *)
Example C06_instance_count :
  let c := {| ack_ms := 2000; max_rt := 4; nstart := 1 |} in
  let evs := [Send 1 [1] None; Age 1900; Tick; Age 200; Tick; Age 2000; Tick; Age 2000; Tick; Age 2000; Tick; Age 2000; Tick; Tick] in
  cnt_obs 1 (outs c init evs) = 5 /\ firsts 1 evs (outs c init evs) = 1 /\ resends 1 evs (outs c init evs) = 4.
Proof. vm_compute. repeat split; reflexivity. Qed.

(* ================================================================================================== *)
(* MESSAGE IDs.  The pending table of the connection is keyed by message ID, and the application may choose
   the message ID of a request (Retx/ModelMid.v: [SendM id tok dl mid]; [Base e] = the events above).  This is
   the model the implementation is compared with (Retx/Run.v).  Proofs in Retx/ProofsMid.v. *)
From GoCoap Require Import Retx.ModelMid Retx.ProofsMid.

(* without application-chosen message IDs it is the model above, observation by observation: on those
   histories every theorem above is a theorem about it *)
Theorem C06_mid_refines_base : forall c evs, NoDup (send_ids evs) ->
  mouts c minit (map Base evs) = outs c init evs /\ mfinal c minit (map Base evs) = mk [] (final c init evs).
Proof. exact mid_refines_base. Qed.
Print Assumptions C06_mid_refines_base.

(* after ANY history with distinct request numbers the table has at most one entry per message ID, every
   entry belongs to a request whose call waits for the acknowledgement *)
Theorem C06_mid_table_keyed : forall c evs, NoDup (msend_ids evs) ->
  let ms := mfinal c minit evs in
  NoDup (map (key (mids ms)) (pending (base ms))) /\ owned (base ms) /\ ids (base ms) = msend_ids evs.
Proof. exact mid_table_keyed. Qed.
Print Assumptions C06_mid_table_keyed.

(* a new call - whatever its message ID; admitted, queued or refused - leaves every entry of the table in
   place and unchanged (elapsed time, deadline, retransmission count): the table only grows at its end *)
Theorem C06_send_keeps_table : forall c ms e, is_msend e ->
  exists l, pending (base (fst (mstep c ms e))) = pending (base ms) ++ l.
Proof. exact send_keeps_table. Qed.
Print Assumptions C06_send_keeps_table.

(* a call whose message ID is that of a still unacknowledged request is refused on the spot (result 3):
   nothing is written and the table is exactly what it was *)
Theorem C06_colliding_send_refused : forall c s mu b tok dl m,
  ~ In b (ids s) -> first_waiting (reqs s) = None -> held s < nstart c ->
  has_mid ((b, m) :: mu) (pending s) m = true ->
  let r := mstep c (mk mu s) (SendM b tok dl m) in
  pending (base (fst r)) = pending s /\ o_emit (snd r) = [] /\ o_ret (snd r) = [(b, 3, 0)] /\
  reqs (base (fst r)) = reqs s ++ [{| q_id := b; q_tok := tok; q_dl := dl; q_st := Done 3; q_buf := None |}].
Proof. exact colliding_send_refused. Qed.
Print Assumptions C06_colliding_send_refused.

(* THE SUCCESS CLAUSE UNDER COLLISIONS: request a is pending after any history pre; any number of further
   calls are issued, with any message IDs (that of a included); the piggybacked response for a that
   arrives then is returned by a's call *)
Theorem C06_pending_request_answered : forall c pre sends a code,
  NoDup (msend_ids (pre ++ sends)) -> all_msend sends ->
  pending_wait (base (mfinal c minit pre)) a ->
  In (a, 0, code) (o_ret (snd (mstep c (mfinal c minit (pre ++ sends)) (Base (Piggy a code))))).
Proof. exact pending_request_answered. Qed.
Print Assumptions C06_pending_request_answered.

(* the bounds and stop conditions over ALL histories of the message-ID keyed model *)
Theorem C06_bounded_per_entry_m : forall c evs, 0 <= max_rt c -> Forall (pend_ok c) (pending (base (mfinal c minit evs))).
Proof. exact count_bounded_m. Qed.
Print Assumptions C06_bounded_per_entry_m.

Theorem C06_copies_bounded_m : forall c evs id,
  0 <= max_rt c -> NoDup (msend_ids evs) ->
  cnt_obs id (mouts c minit evs) <= 1 + max_rt c.
Proof. exact copies_bounded_m. Qed.
Print Assumptions C06_copies_bounded_m.

Theorem C06_first_copy_once_m : forall c evs id,
  0 <= max_rt c -> NoDup (msend_ids evs) ->
  mfirsts id evs (mouts c minit evs) <= 1 /\
  mresends id evs (mouts c minit evs) <= max_rt c * mfirsts id evs (mouts c minit evs) /\
  (0 < cnt_obs id (mouts c minit evs) -> mfirsts id evs (mouts c minit evs) = 1).
Proof. exact first_copy_once_m. Qed.
Print Assumptions C06_first_copy_once_m.

(* [wf]: distinct request numbers, entries owned, one entry per message ID - every reachable state (run_wf) *)
Theorem C06_stops_after_ack_or_reset_m : forall c ms id e evs,
  wf (mids ms) (base ms) -> transmitted id (base ms) -> stop_event id e -> Forall (not_msend id) evs ->
  ~ In (Copy id) (o_emit (snd (mstep c ms (Base e)))) /\
  Forall (fun o => ~ In (Copy id) (o_emit o)) (mouts c (fst (mstep c ms (Base e))) evs).
Proof. exact stops_after_ack_or_reset_m. Qed.
Print Assumptions C06_stops_after_ack_or_reset_m.

Theorem C06_reachable_wf : forall c evs, NoDup (msend_ids evs) ->
  wf (mids (mfinal c minit evs)) (base (mfinal c minit evs)).
Proof. intros c evs H. apply run_wf; [exact wf_init|exact H]. Qed.
Print Assumptions C06_reachable_wf.

Theorem C06_stops_after_cancel_m : forall c ms id q evs,
  find_rq (reqs (base ms)) id = Some q -> is_done (q_st q) = false -> Forall (not_msend id) evs ->
  ~ In (Copy id) (o_emit (snd (mstep c ms (Base (Cancel id))))) /\
  Forall (fun o => ~ In (Copy id) (o_emit o)) (mouts c (fst (mstep c ms (Base (Cancel id)))) evs).
Proof. exact stops_after_cancel_m. Qed.
Print Assumptions C06_stops_after_cancel_m.

Theorem C06_no_false_success_m : forall c evs id cd,
  (exists o, In o (mouts c minit evs) /\ In (id, 0, cd) (o_ret o)) ->
  exists e, In e evs /\ is_resp_for_m id cd e.
Proof. exact success_needs_response_m. Qed.
Print Assumptions C06_no_false_success_m.

(* "is transmitted": after ANY history, when fewer than NSTART calls wait for their acknowledgement no call
   waits for its first transmission: a request is held back only by NSTART, never by a slot that a finished,
   cancelled or refused call failed to hand back *)
Theorem C06_no_idle_slot_m : forall c evs,
  held (base (mfinal c minit evs)) < nstart c -> first_waiting (reqs (base (mfinal c minit evs))) = None.
Proof. exact no_idle_slot_m. Qed.
Print Assumptions C06_no_idle_slot_m.

(* non-vacuity: request 1 pending; request 2 with the message ID of request 1 is refused (nothing sent);
   request 1 is re-sent at the tick after ACK_TIMEOUT and its piggybacked response is returned; then the ID
   is free: request 3 uses it, is admitted and re-sent, and the ACK carrying that ID (named by request 1)
   moves request 3 on *)
Example C06_instance_mid :
  let c := {| ack_ms := 2000; max_rt := 4; nstart := 2 |} in
  let evs := [Base (Send 1 [1] None); SendM 2 [2] None 1; Base (Age 2500); Base Tick; Base (Piggy 1 69);
              SendM 3 [3] None 1; Base (Age 2500); Base Tick; Base (Ack 1); Base (Sep 3 69 7)] in
  map (fun o => (o_emit o, o_ret o)) (mouts c minit evs) =
  [([Copy 1], []); ([], [(2, 3, 0)]); ([], []); ([Copy 1], []); ([], [(1, 0, 69)]);
   ([Copy 3], []); ([], []); ([Copy 3], []); ([], []); ([BareAck 7], [(3, 0, 69)])]
  /\ pending_wait (base (mfinal c minit [Base (Send 1 [1] None)])) 1.
Proof. split; [vm_compute; reflexivity|]. split; [eexists; split; [left; reflexivity|repeat split]|reflexivity]. Qed.

(* ---------- housekeeping ticks with a stale timestamp (Retx/ModelStale.v) ----------
   "all housekeeping-tick timings relative to ACK_TIMEOUT": CheckExpirations(now) is handed the time at which
   the tick started; [stale_tick ms] is a tick whose stamp lies ms before the present (for any ms, also more
   than the age of a pending request: stamped before its first transmission). *)
From GoCoap Require Import Retx.ModelStale Retx.ProofsStale.

(* in ANY state: a copy goes out only for a pending entry that is not exhausted and whose age, seen with the
   stale stamp, exceeds (count+1) x ACK_TIMEOUT *)
Theorem C06_stale_tick_resend_rule : forall c s ms id,
  In (Copy id) (concat (map o_emit (outs c s (stale_tick ms)))) ->
  exists p, In p (pending s) /\ p_id p = id /\ p_count p < max_rt c /\
            ack_ms c * (p_count p + 1) < p_elapsed p - ms.
Proof. exact stale_tick_resend_rule. Qed.
Print Assumptions C06_stale_tick_resend_rule.

(* "the k-th copy no earlier than k x ACK_TIMEOUT after the first" holds of the TRUE elapsed time whatever the
   staleness ms >= 0 of the stamp *)
Theorem C06_stale_tick_never_early : forall c s ms id, 0 <= ms ->
  In (Copy id) (concat (map o_emit (outs c s (stale_tick ms)))) ->
  exists p, In p (pending s) /\ p_id p = id /\ p_count p < max_rt c /\
            ack_ms c * (p_count p + 1) < p_elapsed p.
Proof. exact stale_tick_never_early. Qed.
Print Assumptions C06_stale_tick_never_early.

(* a tick stamped no later than the first transmission of every pending request puts nothing on the wire *)
Theorem C06_stale_tick_before_start_silent : forall c s ms, 0 <= ack_ms c -> inv_count c s ->
  (forall p, In p (pending s) -> p_elapsed p <= ms) ->
  concat (map o_emit (outs c s (stale_tick ms))) = [].
Proof. exact stale_tick_before_start_silent. Qed.
Print Assumptions C06_stale_tick_before_start_silent.

(* and the counter bound (hence the bound on the number of copies) survives stale ticks *)
Theorem C06_stale_tick_keeps_bound : forall c s ms, 0 <= max_rt c -> inv_count c s ->
  inv_count c (final c s (stale_tick ms)).
Proof. exact stale_tick_keeps_bound. Qed.
Print Assumptions C06_stale_tick_keeps_bound.

(* non-vacuity: a request, a tick stamped 6 s before its first transmission (nothing), 2.5 s later a tick stamped
   5 s back (nothing) and a punctual one (the first re-send), another 2.5 s later a tick stamped 0.5 s back:
   4.5 s > 2 x ACK_TIMEOUT by its stamp, the second re-send *)
Example C06_instance_stale :
  let c := {| ack_ms := 2000; max_rt := 4; nstart := 1 |} in
  let evs := [Send 1 [1] None] ++ stale_tick 6000 ++ [Age 2500] ++ stale_tick 5000 ++ [Tick; Age 2500] ++ stale_tick 500 in
  concat (map o_emit (outs c init evs)) = [Copy 1; Copy 1; Copy 1] /\
  concat (map o_emit (outs c init ([Send 1 [1] None] ++ stale_tick 6000 ++ [Age 2500] ++ stale_tick 5000))) = [Copy 1].
Proof. split; vm_compute; reflexivity. Qed.
