(* C10 -- servers stay up and peers stay isolated under arbitrary input.
   Statements only; proofs are in Server/Proofs.v. *)
From Coq Require Import ZArith List Bool.
From GoCoap Require Import Base.Bytes Dedup.Model Server.Model Server.Proofs.
Import ListNotations.
Open Scope Z_scope.

(* the accept loop of the stream/DTLS servers stops only when the listener is closed, or on a
   cancelled/expired context once the server's own context is done *)
Theorem C10_accept_continues : forall e ctx_done,
  fst (fst (check_accept_error e ctx_done)) = false <->
  (e = AccListenerClosed \/ (e = AccDeadlineOrCanceled /\ ctx_done = true)).
Proof. exact accept_stops_iff. Qed.
Print Assumptions C10_accept_continues.
