(* C10 -- servers stay up and peers stay isolated under arbitrary input.
   Statements only; proofs are in Server/Proofs.v.

   Level: PARTIAL.  The theorems are about the modelled dispatch of the datagram
   server (Server/Model.v: peer table keyed by getConnKey, getOrCreateConn with the
   wildcard fallback, getConn's replace-if-closed, one Serve iteration per event,
   the periodic sweep, the discovery table) with the per-peer connection either an
   arbitrary total deterministic machine (Section variables) or the concrete one the
   correspondence cases run (datagram decoder + request path of Dedup/Model.v + the
   harness application).  Each event is one atomic step: the full statement of the
   property -- no deadlock among the real goroutines, handshakes bounded by their
   time-out on the TLS/DTLS listeners -- is NOT proved; those parts are observed by
   the harness only (Serve still running, fresh client answered, Stop returns).
   The accept level of the stream/DTLS servers (Model.v Part 5: accepting never
   waits for a handshake, one goroutine per accepted connection) has its own
   non-interference theorems below; they are tied to the code by runs against a
   real TLS listener and a real DTLS-PSK listener with peers that stall in their
   handshake (TlsRun cases).
   Round 2: the discovery table holds exactly the requests in progress (a request
   whose datagram cannot be sent leaves no trace), and the keep-alive level
   (Server/KeepAlive.v): a server with options.WithKeepAlive is a table of C18's
   single-connection machines, one per connection; non-interference between the
   connections for all histories, tied to the code by runs of real udp and tcp
   servers with several peers on a virtual clock (KaRun cases).
   Round 3: the KEYS of the two tables.  Peer table: addresses at the byte level
   (Server/Addr.v: net.IP as a byte slice, To4 / Equal / IsUnspecified /
   IsMulticast / String, getConnKey on them); the key is the same for the 4-byte
   and the 16-byte representation of an IPv4 address, determines the remote
   address, and Model.v's abstract key is equal exactly when the concrete keys
   are.  Discovery table: keyed by Token.Hash (Server/TokenKey.v); it refines
   the token-keyed table of Model.v on every history whose tokens the key
   function tells apart, and CRC-64 tells apart all tokens that differ in the
   number of zero bytes in front of a common rest. *)
From Coq Require Import ZArith List Bool.
From GoCoap Require Import Base.Bytes Dedup.Model Server.Model Server.Proofs Server.AcceptProofs.
From GoCoap Require Monitor.Model Monitor.Spec Monitor.Proofs.
From GoCoap Require Import Server.KeepAlive Server.KeepAliveProofs.
From GoCoap Require Import Server.Addr Server.AddrProofs Server.TokenKey Server.TokenKeyProofs.
From GoCoap Require Import Server.OptGrow Server.OptGrowProofs Server.Queue.
From GoCoap Require Server.Pool.
Import ListNotations.
Open Scope Z_scope.

Section Abstract.
  Variables pstate datagram pout : Type.
  Variable peer_init : Z -> pstate.
  Variable peer_step : mhtab -> pstate -> datagram -> presult pstate pout.
  Variable recv_trunc : datagram -> datagram.
  Hypothesis peer_total : forall t st d, peer_step t st d <> PPanic.

  (* the server step is defined -- no panic -- for every event (datagram, NewConn, close, tick,
     discovery registration) in every state, and so is every run *)
  Theorem C10_total_partial : forall s e, step pstate datagram pout peer_init peer_step recv_trunc s e <> SPanic.
  Proof. exact (step_total pstate datagram pout peer_init peer_step recv_trunc peer_total). Qed.

  Theorem C10_run_total_partial : forall evs s, exists s' o,
    run pstate datagram pout peer_init peer_step recv_trunc s evs = Some (s', o).
  Proof. exact (run_total pstate datagram pout peer_init peer_step recv_trunc peer_total). Qed.

  (* non-interference.  [sim]/[erase] say which part of a connection's behaviour depends on the seed it
     got from the process-global message-ID counter (the only state peers share besides the table):
     connections started from different seeds stay related and emit the same outputs up to [erase]. *)
  Variable sim : pstate -> pstate -> Prop.
  Variable eout : Type.
  Variable erase : pout -> eout.
  Hypothesis sim_init : forall g1 g2, sim (peer_init g1) (peer_init g2).
  Hypothesis sim_step : forall t s1 s2 d, sim s1 s2 ->
    match peer_step t s1 d, peer_step t s2 d with
    | POk s1' o1 e1 _, POk s2' o2 e2 _ => sim s1' s2' /\ map erase o1 = map erase o2 /\ e1 = e2
    | _, _ => False
    end.

  (* for ALL interleavings [evs] of the events of any number of peers (datagrams of any content, NewConn,
     closes) with ticks and discovery registrations, and all initial values of the global counter: what
     the server emits for remote address [a] -- new-connection callbacks, everything a's connections
     write or hand to the application, errors -- equals what it emits when only a's events (and the shared
     ticks / registrations) happen, up to connection identities and server-chosen message IDs *)
  Theorem C10_noninterference_partial : forall a evs g1 g2,
    exists s1 o1 s2 o2,
      run pstate datagram pout peer_init peer_step recv_trunc (init_state g1) evs = Some (s1, o1) /\
      run pstate datagram pout peer_init peer_step recv_trunc (init_state g2) (filter (relevant datagram a) evs) = Some (s2, o2) /\
      eproj pout eout erase a o1 = eproj pout eout erase a o2.
  Proof. exact (noninterference pstate datagram pout peer_init peer_step recv_trunc peer_total sim eout erase sim_init sim_step). Qed.

  (* at most one table entry per (remote, normalised local) key, stored under its own key, identities fresh *)
  Theorem C10_one_conn_per_key_partial : forall evs g s o,
    run pstate datagram pout peer_init peer_step recv_trunc (init_state g) evs = Some (s, o) ->
    NoDup (map fst (conns s)) /\ (forall k c, lookup (conns s) k = Some c -> c_key c = k /\ c_id c < next_id s).
  Proof. exact (one_conn_per_key pstate datagram pout peer_init peer_step recv_trunc). Qed.

  (* in-order hand-off: a datagram whose key has an open connection is processed by that connection (same
     identity before and after, no OnNewConn), which advances by exactly this datagram; all other keys
     keep their entries *)
  Theorem C10_in_order_handoff_partial : forall s r lst dst d c st' outs err n,
    let k := conn_key r (dgram_laddr lst dst) in
    okeys pstate (conns s) -> lookup (conns s) k = Some c -> c_closed c = false ->
    peer_step (mh s) (c_st c) (recv_trunc d) = POk st' outs err n ->
    exists s', step pstate datagram pout peer_init peer_step recv_trunc s (EDgram r lst dst d) =
                 SOk s' (map (SOut (c_id c) k) outs ++ (if err then [SErrProcess r (c_id c)] else [])) /\
      lookup (conns s') k = Some (upd_conn pstate err st' c) /\
      (forall k', k' <> k -> lookup (conns s') k' = lookup (conns s) k') /\ mh s' = mh s.
  Proof. exact (handoff_open pstate datagram pout peer_init peer_step recv_trunc). Qed.

  (* a closed entry is replaced by a fresh connection on the next datagram for its key; the closed
     connection receives nothing and no other key is affected *)
  Theorem C10_closed_replaced_partial : forall s r lst dst d c st' outs err n,
    let laddr := dgram_laddr lst dst in
    let k := conn_key r laddr in
    let g := u32 (gmid s + 1) in
    okeys pstate (conns s) -> lookup (conns s) k = Some c -> c_closed c = true ->
    (can_fallback laddr = true -> lookup (conns s) (conn_key r (to_wildcard laddr)) = None) ->
    peer_step (mh s) (peer_init (u16 g)) (recv_trunc d) = POk st' outs err n ->
    exists s', step pstate datagram pout peer_init peer_step recv_trunc s (EDgram r lst dst d) =
                 SOk s' (SNew r (next_id s) :: map (SOut (next_id s) k) outs ++ (if err then [SErrProcess r (next_id s)] else [])) /\
      lookup (conns s') k = Some {| c_id := next_id s; c_key := k; c_closed := err; c_st := st' |} /\
      (forall k', k' <> k -> lookup (conns s') k' = lookup (conns s) k') /\ mh s' = mh s.
  Proof. exact (closed_replaced pstate datagram pout peer_init peer_step recv_trunc). Qed.

  (* everything emitted while a datagram from r is processed belongs to a key of r and to the connection the
     table holds under that key, and was computed under the server's current discovery table *)
  Theorem C10_outputs_of_sender_partial : forall s r lst dst d s' o id k x, okeys pstate (conns s) ->
    step pstate datagram pout peer_init peer_step recv_trunc s (EDgram r lst dst d) = SOk s' o -> In (SOut id k x) o ->
    fst k = r /\ (exists c, lookup (conns s') k = Some c /\ c_id c = id) /\
    exists st st' outs err n, peer_step (mh s) st (recv_trunc d) = POk st' outs err n /\ In x outs.
  Proof. exact (dgram_outputs pstate datagram pout peer_init peer_step recv_trunc). Qed.
End Abstract.

Print Assumptions C10_total_partial.
Print Assumptions C10_run_total_partial.
Print Assumptions C10_noninterference_partial.
Print Assumptions C10_one_conn_per_key_partial.
Print Assumptions C10_in_order_handoff_partial.
Print Assumptions C10_closed_replaced_partial.
Print Assumptions C10_outputs_of_sender_partial.

(* ---- the concrete connection run by the correspondence cases satisfies the hypotheses ---- *)

(* the decoder never slices out of range and the concrete connection step never panics *)
Theorem C10_concrete_total : forall maxsize t s d, cstep maxsize t s d <> PPanic.
Proof. exact cstep_total. Qed.
Print Assumptions C10_concrete_total.

Theorem C10_concrete_noninterference : forall maxsize a evs g1 g2,
  exists s1 o1 s2 o2,
    cserver_run maxsize (init_state g1) evs = Some (s1, o1) /\
    cserver_run maxsize (init_state g2) (filter (relevant (list Z) a) evs) = Some (s2, o2) /\
    eproj cout cout erase_cout a o1 = eproj cout cout erase_cout a o2.
Proof.
  intros maxsize. unfold cserver_run.
  exact (noninterference cstate (list Z) cout cinit (cstep maxsize) (firstn (Z.to_nat maxsize)) (cstep_total maxsize)
           csim cout erase_cout cinit_sim (cstep_sim_step maxsize)).
Qed.
Print Assumptions C10_concrete_noninterference.

(* discovery: a message is passed to receiver r only if its token is registered for r, the application sees
   only unregistered tokens, and a registered token's message that reaches the handler layer is delivered *)
Theorem C10_discovery_partial : forall maxsize t s d s' outs err n, cstep maxsize t s d = POk s' outs err n ->
  (forall r tok code pay, In (CDeliver r tok code pay) outs -> mh_lookup t tok = Some r) /\
  (forall tok code pay, In (CHandled tok code pay) outs -> mh_lookup t tok = None).
Proof. exact cstep_discovery. Qed.
Print Assumptions C10_discovery_partial.

Theorem C10_discovery_delivers_partial : forall maxsize t s d m r, bytes_ok d = true -> blen d <= maxsize ->
  udp_decode d = DOk m -> is_ping m = false -> is_separate m = false ->
  (if is_cacheable_typ (m_typ m) then cache_load (cache s) (m_mid m) else None) = None ->
  mh_lookup t (m_tok m) = Some r ->
  exists s' outs n, cstep maxsize t s d = POk s' outs false n /\ In (CDeliver r (m_tok m) (m_code m) (m_pay m)) outs.
Proof. exact cstep_discovery_delivers. Qed.
Print Assumptions C10_discovery_delivers_partial.

(* getConnKey: multicast groups and both wildcards of a port collapse to one key, concrete addresses stay apart *)
Theorem C10_key_normalisation : forall r p z z' i i',
  (ip_is_multicast i || ip_is_unspecified i = true) -> (ip_is_multicast i' || ip_is_unspecified i' = true) ->
  conn_key r {| a_ip := i; a_port := p; a_zone := z |} = conn_key r {| a_ip := i'; a_port := p; a_zone := z' |}.
Proof. exact conn_key_collapses. Qed.
Print Assumptions C10_key_normalisation.

(* the accept loop of the stream/DTLS servers stops only when the listener is closed, or on a
   cancelled/expired context once the server's own context is done *)
Theorem C10_accept_continues : forall e ctx_done,
  fst (fst (check_accept_error e ctx_done)) = false <->
  (e = AccListenerClosed \/ ((e = AccDeadline \/ e = AccCanceled) /\ ctx_done = true)).
Proof. exact accept_stops_iff. Qed.
Print Assumptions C10_accept_continues.

Theorem C10_accept_loop_keeps_running : forall script calls served reported,
  (forall e d, In (e, d) script -> e <> AccListenerClosed /\ (e = AccDeadline \/ e = AccCanceled -> d = false)) ->
  fst (fst (accept_loop script calls served reported)) = None.
Proof. exact accept_loop_continues. Qed.
Print Assumptions C10_accept_loop_keeps_running.

(* ---- the accept level (Server/Model.v Part 5): one goroutine per accepted connection, the handshake of a
   connection is an event of its own goroutine ----

   FULL statement (not proved): on the real listeners a peer that stalls, garbles or abandons its TLS/DTLS
   handshake delays no other peer, and its goroutine ends after the handshake time-out.  Proved for the model in
   which the listener's results and the goroutines' events are atomic steps in an arbitrary interleaving; that the
   real Serve loops are this model (in particular: no handshake inside the loop) is what the TlsRun cases observe. *)
Section AcceptLevel.
  Variables CS D O : Type.
  Variable conn_init : CS.
  Variable conn_step : CS -> D -> CS * list O.
  Variable early_announce : bool.

  (* the modelled fact: accepting never waits for a handshake *)
  Theorem C10_accept_never_waits : forall (s : astate CS) c,
    a_accepting s = true -> alookup CS c (a_conns s) = None ->
    astep CS D O conn_init conn_step early_announce s (AvAccept c) =
      (AS true ((c, (PhHandshake, conn_init)) :: a_conns s), AoSpawn c :: (if early_announce then [AoNew c] else [])).
  Proof. exact (accept_never_waits CS D O conn_init conn_step early_announce). Qed.

  (* non-interference lifted to the accept level *)
  Theorem C10_accept_noninterference_partial : forall c evs (s : astate CS),
    filter (aout_of c) (snd (arun CS D O conn_init conn_step early_announce s evs)) =
    filter (aout_of c) (snd (arun CS D O conn_init conn_step early_announce s (filter (aev_keep c) evs))).
  Proof. exact (accept_noninterference CS D O conn_init conn_step early_announce). Qed.

  (* a handshake of another connection that completes, fails or never ends (no AvHandshake event), and whatever
     else other connections do, does not change what connection c gets *)
  Theorem C10_stalled_handshake_isolated_partial : forall c evs evs' (s : astate CS),
    filter (aev_keep c) evs = filter (aev_keep c) evs' ->
    filter (aout_of c) (snd (arun CS D O conn_init conn_step early_announce s evs)) =
    filter (aout_of c) (snd (arun CS D O conn_init conn_step early_announce s evs')).
  Proof. exact (stalled_handshake_isolated CS D O conn_init conn_step early_announce). Qed.

  (* after ANY history without a stopping listener error, a new client is accepted, announced and served *)
  Theorem C10_late_client_served_partial : forall evs c d,
    (forall e x, In (AvAcceptErr e x) evs -> fst (fst (check_accept_error e x)) = true) ->
    alookup CS c (a_conns (fst (arun CS D O conn_init conn_step early_announce (ainit CS) evs))) = None ->
    filter (aout_of c)
      (snd (arun CS D O conn_init conn_step early_announce
              (fst (arun CS D O conn_init conn_step early_announce (ainit CS) evs))
              [AvAccept c; AvHandshake c HsOk; AvData c d])) =
      AoSpawn c :: AoNew c :: map (AoOut c) (snd (conn_step conn_init d)).
  Proof. exact (late_client_served CS D O conn_init conn_step early_announce). Qed.
End AcceptLevel.
Print Assumptions C10_accept_never_waits.
Print Assumptions C10_accept_noninterference_partial.
Print Assumptions C10_stalled_handshake_isolated_partial.
Print Assumptions C10_late_client_served_partial.

(* contrast: a loop that finishes the handshake itself before it returns to Accept (NOT the code) loses the
   property -- one connection that never finishes its handshake takes everything from a later one *)
Theorem C10_inline_handshake_would_starve :
  exists (evs : list (@aev nat)) c,
    filter (@aout_of nat c) (snd (arun_inline unit nat nat tt (fun s d => (s, [d])) true (ainit unit) evs)) <>
    filter (@aout_of nat c) (snd (arun_inline unit nat nat tt (fun s d => (s, [d])) true (ainit unit) (filter (@aev_keep nat c) evs))).
Proof. exact inline_handshake_starves. Qed.
Print Assumptions C10_inline_handshake_would_starve.

(* non-vacuity at the accept level: connections 0 and 1 never finish their handshakes, connection 2 connects after
   them and is served *)
Example C10_accept_instance :
  filter (@aout_of nat 2%nat)
    (snd (arun unit nat nat tt (fun s d => (s, [d])) true (ainit unit)
            [AvAccept 0%nat; AvAccept 1%nat; AvHandshake 1%nat HsErr; AvAccept 2%nat; AvHandshake 2%nat HsOk; AvData 2%nat 7%nat]))
  = [AoSpawn 2%nat; AoNew 2%nat; AoOut 2%nat 7%nat].
Proof. reflexivity. Qed.

(* non-vacuity: a garbage datagram from peer 1 between two requests of peer 2; peer 1's connection is closed,
   peer 2 is answered from one connection *)
Example C10_instance :
  let a1 := {| a_ip := IPhost 1; a_port := 1000; a_zone := 0 |} in
  let a2 := {| a_ip := IPhost 2; a_port := 2000; a_zone := 0 |} in
  let l := {| a_ip := IPunspec false; a_port := 5683; a_zone := 0 |} in
  let get := [64; 1; 0; 7; 177; 97] in      (* CON GET /a, message ID 7 *)
  let get' := [64; 1; 0; 8; 177; 97] in
  match cserver_run 65536 (init_state 0) [EDgram a2 l None get; EDgram a1 l None [255; 255]; EDgram a2 l None get'] with
  | Some (s, o) =>
      length (filter (fun x => match x with SNew _ _ => true | _ => false end) o) = 2%nat /\
      In (SErrProcess a1 1) o /\
      In (SOut 0 (a2, clear_ip l) (CWire {| w_typ := ACK; w_code := 69; w_mid := 8; w_tok := []; w_opts := [(12, [])]; w_pay := [1] |})) o
  | None => False
  end.
Proof. vm_compute. repeat split; auto 10. Qed.

(* ---- discovery: the handler table holds exactly the requests in progress (round 2) ----
   "responses to a discovery request are delivered only to the receiver registered for their token": a receiver is
   registered from the LoadOrStore of its DiscoveryRequest call until that call returns -- HOWEVER it returns.
   EDiscFail is the call whose datagram cannot be sent (WriteMulticast / WriteWithContext error): it returns at
   once and the deferred LoadAndDelete has run. *)
Section DiscoveryTable.
  Variables pstate datagram pout : Type.
  Variable peer_init : Z -> pstate.
  Variable peer_step : mhtab -> pstate -> datagram -> presult pstate pout.
  Variable recv_trunc : datagram -> datagram.

  (* a request that could not be sent leaves no trace: the server state after the call is the state before it *)
  Theorem C10_discovery_failed_send_leaves_no_trace_partial : forall s tok rcv,
    step pstate datagram pout peer_init peer_step recv_trunc s (EDiscFail tok rcv) =
    SOk s (match mh_lookup (mh s) tok with Some _ => [SDiscExists] | None => [SDiscSendErr] end).
  Proof. exact (disc_failed_send_no_trace pstate datagram pout peer_init peer_step recv_trunc). Qed.

  (* ... so everything that follows -- datagrams with its token from any peer, other requests -- is what it would
     have been without the call *)
  Theorem C10_discovery_failed_send_invisible_partial : forall s tok rcv evs,
    run pstate datagram pout peer_init peer_step recv_trunc s (EDiscFail tok rcv :: evs) =
    match run pstate datagram pout peer_init peer_step recv_trunc s evs with
    | Some (s', o) => Some (s', (match mh_lookup (mh s) tok with Some _ => [SDiscExists] | None => [SDiscSendErr] end) ++ o)
    | None => None
    end.
  Proof. exact (disc_failed_send_invisible pstate datagram pout peer_init peer_step recv_trunc). Qed.

  (* ... and the same request can be issued again with the same token *)
  Theorem C10_discovery_retry_after_failed_send_partial : forall s tok rcv rcv', mh_lookup (mh s) tok = None ->
    exists s', run pstate datagram pout peer_init peer_step recv_trunc s [EDiscFail tok rcv; EDiscStart tok rcv'] =
                 Some (s', [SDiscSendErr]) /\ mh s' = (tok, rcv') :: mh s.
  Proof. exact (disc_retry_after_failed_send pstate datagram pout peer_init peer_step recv_trunc). Qed.

  (* for ALL histories: the table is the set of requests in progress ([in_progress] is computed from the start /
     return events alone; datagrams, NewConn, closes, ticks and failed sends do not occur in it) *)
  Theorem C10_discovery_table_is_requests_in_progress_partial : forall evs g s o,
    run pstate datagram pout peer_init peer_step recv_trunc (init_state g) evs = Some (s, o) ->
    mh s = in_progress datagram [] evs.
  Proof. exact (disc_table_in_progress_init pstate datagram pout peer_init peer_step recv_trunc). Qed.
End DiscoveryTable.
Print Assumptions C10_discovery_failed_send_leaves_no_trace_partial.
Print Assumptions C10_discovery_failed_send_invisible_partial.
Print Assumptions C10_discovery_retry_after_failed_send_partial.
Print Assumptions C10_discovery_table_is_requests_in_progress_partial.

(* ---- keep-alive level (Server/KeepAlive.v, round 2): a server configured with options.WithKeepAlive ----
   Every connection owns the keep-alive state the factory builds for it (Monitor/Model.v, C18).

   FULL statement (not proved): on the real servers the keep-alive of one peer -- its stalling, its being dropped,
   its traffic -- never changes what another peer receives.  Proved for the model in which an event of a connection
   and a housekeeping round are atomic steps in an arbitrary interleaving; that the real servers ARE this model
   (one KeepAlive per connection) is what the KaRun cases observe: real udp and tcp servers, several peers, virtual
   clock, every peer observed with the others and alone. *)

(* for ALL histories of any number of connections: what connection i is seen to do (pings sent to it, the round
   at which it is closed) is what it does in the history with only its own events and the housekeeping rounds *)
Theorem C10_keepalive_noninterference_partial : forall c i evs,
  kproj i (snd (krun c [] evs)) = kproj i (snd (krun c [] (filter (kev_keep i) evs))).
Proof. exact keepalive_noninterference. Qed.
Print Assumptions C10_keepalive_noninterference_partial.

(* whether the other peers exist, answer their pings, connect and stall, are dropped by keep-alive or keep
   sending: no difference for connection i *)
Theorem C10_keepalive_other_peers_irrelevant_partial : forall c i evs evs',
  filter (kev_keep i) evs = filter (kev_keep i) evs' ->
  kproj i (snd (krun c [] evs)) = kproj i (snd (krun c [] evs')).
Proof. exact keepalive_other_peers_irrelevant. Qed.
Print Assumptions C10_keepalive_other_peers_irrelevant_partial.

(* a connection of the server IS the single-connection machine of C18 run on its own events *)
Theorem C10_keepalive_conn_is_monitor_partial : forall c i evs tab s,
  NoDup (map fst tab) -> klookup i tab = Some s ->
  kproj i (snd (krun c tab evs)) = conn_run c s (flat_map (kev_of i) evs).
Proof. exact keepalive_conn_is_monitor. Qed.
Print Assumptions C10_keepalive_conn_is_monitor_partial.

(* ... hence C18's judge holds of each connection separately: it is closed by keep-alive only after more than
   maxRetries consecutive pings OF ITS OWN went unanswered, whatever table of other connections it lives in *)
Theorem C10_keepalive_each_conn_judged_alone_partial : forall c i t tab evs,
  Monitor.Proofs.wf c -> NoDup (map fst tab) -> klookup i tab = Some (Monitor.Model.init t) ->
  Monitor.Proofs.rx_ordered t (flat_map (kev_of i) evs) ->
  Monitor.Spec.spec_ok (Monitor.Proofs.P_of c t) (kproj i (snd (krun c tab evs))) = true.
Proof. exact keepalive_each_conn_judged_alone. Qed.
Print Assumptions C10_keepalive_each_conn_judged_alone_partial.

(* a client that connects after ANY history -- peers that stalled and were dropped included -- and stays idle is
   pinged, not closed, at the first housekeeping round later than a period after its arrival *)
Theorem C10_keepalive_late_client_pinged_partial : forall c evs i t tau,
  Monitor.Model.ka c = true -> Monitor.Model.period c <> 0 -> 0 < Monitor.Model.maxr c ->
  t + Monitor.Model.period c < tau ->
  klookup i (fst (krun c [] evs)) = None ->
  kproj i (snd (krun c (fst (krun c [] evs)) [KOpen i t; KSweep tau []])) =
    [(Monitor.Model.Tick tau true, [Monitor.Model.Ping 1])].
Proof. exact keepalive_late_client_pinged. Qed.
Print Assumptions C10_keepalive_late_client_pinged_partial.

(* contrast (NOT the code): with ONE KeepAlive captured by the factory and shared by all connections the statement
   is false -- a peer that connected and stalled leaves the shared counter above maxRetries and the next idle client
   is closed at its first check *)
Theorem C10_shared_keepalive_would_interfere :
  kproj 1%nat (snd (krun_shared contrast_cfg ([], shared_init) contrast_history)) <>
  kproj 1%nat (snd (krun_shared contrast_cfg ([], shared_init) (filter (kev_keep 1%nat) contrast_history))).
Proof. exact shared_keepalive_interferes. Qed.
Print Assumptions C10_shared_keepalive_would_interfere.

(* non-vacuity at the keep-alive level: connection 0 stalls and is dropped, connection 1 arrives afterwards, is
   pinged at its first idle round, answers, and is pinged again a period later *)
Example C10_keepalive_instance :
  kproj 1%nat (snd (krun contrast_cfg []
     [KOpen 0%nat 0; KSweep 11 []; KSweep 12 []; KOpen 1%nat 12; KSweep 23 []; KConn 1%nat (Monitor.Model.Pong 1 24); KSweep 35 []]))
  = [(Monitor.Model.Tick 23 true, [Monitor.Model.Ping 1]); (Monitor.Model.Pong 1 24, []);
     (Monitor.Model.Tick 35 true, [Monitor.Model.Cancel 1; Monitor.Model.Ping 2])]
  /\ kproj 0%nat (snd (krun contrast_cfg [] [KOpen 0%nat 0; KSweep 11 []; KSweep 12 []]))
  = [(Monitor.Model.Tick 11 true, [Monitor.Model.Ping 1]); (Monitor.Model.Tick 12 true, [Monitor.Model.Cancel 1; Monitor.Model.Close])].
Proof. vm_compute. split; reflexivity. Qed.

(* ---- round 3a: the key of the peer table on addresses as the code holds them (Server/Addr.v) ----
   "messages from one remote address are handled by one logical connection per (remote, local) address pair".
   A net.IP is a byte slice and an IPv4 address has two representations (4 bytes from the kernel, 16 bytes
   ::ffff:a.b.c.d from net.ResolveUDPAddr / net.ParseIP / net.IPv4).  [key_c] is getConnKey on such addresses:
   UDPAddr.String of the remote address and of the normalised local address; valid = the IP has 0, 4 or 16 bytes.

   FULL statement (not proved): the real server finds the same connection whichever representation a look-up uses.
   Proved for the byte-level transcription of net.IP's To4/Equal/IsUnspecified/IsMulticast/String and getConnKey,
   the TEXT String() produces being represented by what it is computed from (distinct byte strings are taken to
   print differently); tied to the code by the KeyRep cases (getConnKey through the verif hook on addresses in both
   representations) and the RepRun cases (live server, datagrams from AF_INET sockets, NewConn with resolved
   addresses, requests of the server over the connection NewConn returns). *)

(* the key is the same whichever of the two representations the remote address, the local address or both come in *)
Theorem C10_key_independent_of_ip_representation : forall pr pl portr zr portl zl,
  length pr = 4%nat -> bytes_ok pr = true -> length pl = 4%nat -> bytes_ok pl = true ->
  let r4 := NA pr portr zr in let r16 := NA (v4_as_16 pr) portr zr in
  let l4 := NA pl portl zl in let l16 := NA (v4_as_16 pl) portl zl in
  key_c r16 l4 = key_c r4 l4 /\ key_c r4 l16 = key_c r4 l4 /\ key_c r16 l16 = key_c r4 l4.
Proof. exact key_representation_independent. Qed.
Print Assumptions C10_key_independent_of_ip_representation.

(* two peers never share a key: the key determines the remote address (IP up to representation, port, zone) *)
Theorem C10_key_determines_remote_address : forall r1 l1 r2 l2, valid_addr r1 = true -> valid_addr r2 = true ->
  key_c r1 l1 = key_c r2 l2 ->
  canon (n_ip r1) = canon (n_ip r2) /\ n_port r1 = n_port r2 /\ n_zone r1 = n_zone r2.
Proof. exact key_determines_remote. Qed.
Print Assumptions C10_key_determines_remote_address.

(* the abstract key of Model.v (on which one-connection-per-key, in-order hand-off, non-interference are proved)
   is equal exactly when the keys getConnKey builds from the concrete addresses are; the normalisation and the
   wildcard helpers commute with the abstraction *)
Theorem C10_key_abstraction_faithful : forall r1 l1 r2 l2,
  valid_addr r1 = true -> valid_addr l1 = true -> valid_addr r2 = true -> valid_addr l2 = true ->
  (conn_key (abs_addr r1) (abs_addr l1) = conn_key (abs_addr r2) (abs_addr l2) <-> key_c r1 l1 = key_c r2 l2).
Proof. exact key_abs_faithful. Qed.
Print Assumptions C10_key_abstraction_faithful.

Theorem C10_key_helpers_commute_with_abstraction : forall l, valid_addr l = true ->
  abs_addr (norm_local_c l) = norm_local (abs_addr l) /\
  can_fallback (abs_addr l) = can_fallback_c l /\
  abs_addr (to_wildcard_c l) = to_wildcard (abs_addr l).
Proof. intros l H. split; [exact (norm_local_abs l H)|split; [exact (can_fallback_abs l H)|exact (to_wildcard_abs l)]]. Qed.
Print Assumptions C10_key_helpers_commute_with_abstraction.

(* hence a look-up -- a datagram read from the socket, Server.NewConn -- with the 16-byte form of a peer's address
   is THE SAME EVENT of the peer table as the look-up with the 4-byte form: same connection found or created, same
   state afterwards, for every state of the table *)
Section LookupRepresentation.
  Variables pstate datagram pout : Type.
  Variable peer_init : Z -> pstate.
  Variable peer_step : mhtab -> pstate -> datagram -> presult pstate pout.
  Variable recv_trunc : datagram -> datagram.

  Theorem C10_lookup_independent_of_ip_representation_partial : forall s pr port z la lst dst d,
    length pr = 4%nat -> bytes_ok pr = true ->
    step pstate datagram pout peer_init peer_step recv_trunc s (ENewConn (abs_addr (NA (v4_as_16 pr) port z)) la lst) =
    step pstate datagram pout peer_init peer_step recv_trunc s (ENewConn (abs_addr (NA pr port z)) la lst) /\
    step pstate datagram pout peer_init peer_step recv_trunc s (EDgram (abs_addr (NA (v4_as_16 pr) port z)) lst dst d) =
    step pstate datagram pout peer_init peer_step recv_trunc s (EDgram (abs_addr (NA pr port z)) lst dst d).
  Proof.
    intros s pr port z la lst dst d L B.
    assert (E : abs_addr (NA (v4_as_16 pr) port z) = abs_addr (NA pr port z)).
    { destruct (valid_v4 pr L B) as [V4 V16]. destruct (canon_v4 pr L) as [C4 C16].
      unfold abs_addr. cbn [n_ip n_port n_zone]. f_equal. apply abs_ip_iff_canon; congruence. }
    rewrite E. split; reflexivity.
  Qed.
End LookupRepresentation.
Print Assumptions C10_lookup_independent_of_ip_representation_partial.

(* contrast (NOT the code): a key made of the raw bytes of the two addresses gives ONE address pair TWO keys *)
Theorem C10_raw_byte_key_would_split_a_peer : forall p port z l, length p = 4%nat ->
  raw_key (NA (v4_as_16 p) port z) l <> raw_key (NA p port z) l.
Proof. exact raw_key_splits_a_peer. Qed.
Print Assumptions C10_raw_byte_key_would_split_a_peer.

(* non-vacuity: 127.0.0.1:5000 sends a request to a server on 127.0.0.1:5683 (addresses from the socket: 4 bytes);
   the application then asks for the connection of net.ResolveUDPAddr("127.0.0.1:5000") (16 bytes), pinning the
   local address in its 16-byte form as well: connection 0, the one that served the datagram; one OnNewConn *)
Example C10_representation_instance :
  let l4 := NA [127; 0; 0; 1] 5683 0 in let l16 := NA (v4_as_16 [127; 0; 0; 1]) 5683 0 in
  let r4 := NA [127; 0; 0; 1] 5000 0 in let r16 := NA (v4_as_16 [127; 0; 0; 1]) 5000 0 in
  match cserver_run 65536 (init_state 0)
          [EDgram (abs_addr r4) (abs_addr l4) None [64; 1; 0; 7; 177; 97];
           ENewConn (abs_addr r16) (Some (abs_addr l16)) (abs_addr l4)] with
  | Some (s, o) =>
      length (filter (fun x => match x with SNew _ _ => true | _ => false end) o) = 1%nat /\
      In (SConn (abs_addr r4) 0) o /\ key_c r16 l16 = key_c r4 l4 /\ raw_key r16 l16 <> raw_key r4 l4
  | None => False
  end.
Proof. vm_compute. repeat split; auto 10. intro H. discriminate H. Qed.

(* ---- round 3b: the key of the discovery table (Server/TokenKey.v) ----
   "responses to a discovery request are delivered only to the receiver registered for their token".  The code
   keeps the table under Token.Hash() of the token ([hrun hash]: LoadOrStore / LoadAndDelete / Load by key); Model.v
   keeps it under the token ([trun], the discovery branches of Model.step and the look-up of cstep).

   FULL statement (false of the code, finding F18 of C03/C08): the key-table is the token-table for ALL histories.
   CRC-64 maps 2^64+... tokens of up to 8 bytes into 2^64 keys, so tokens of different lengths can collide.
   Proved: (i) for every key function, on every history whose tokens it tells apart; (ii) with no hypothesis, a
   message reaches a receiver only through a request registered under the key of its token; (iii) for CRC-64, the
   key function of the code: tokens that differ in the number of zero bytes in front of a common rest -- 12 34 /
   00 12 34 / 00 .. 00 12 34 -- always have different keys, so on histories over such tokens the code's table IS the
   token table.  Tied to the code by the TokKey cases (Token.Hash of tokens = crc64) and the disctok runs. *)

(* (i) for every key function and ALL histories whose tokens it tells apart: same refusals, same deliveries, and the
   key-table stays the image of the token-table *)
Theorem C10_discovery_key_table_partial : forall hash evs, told_apart hash (map dev_tok evs) ->
  hrun hash [] evs = (hkeys hash (fst (trun [] evs)), snd (trun [] evs)).
Proof. exact hrun_refines_init. Qed.
Print Assumptions C10_discovery_key_table_partial.

(* ... for the table of the server model: after any history of the server the key-table run on the history's
   discovery events is the image of the model's table *)
Theorem C10_discovery_model_table_is_key_table_partial :
  forall (pstate datagram pout : Type) (peer_init : Z -> pstate)
         (peer_step : mhtab -> pstate -> datagram -> presult pstate pout) (recv_trunc : datagram -> datagram)
         (hash : list Z -> Z) (evs : list (ev datagram)) g s o,
  run pstate datagram pout peer_init peer_step recv_trunc (init_state g) evs = Some (s, o) ->
  told_apart hash (map dev_tok (flat_map dev_of evs)) ->
  fst (hrun hash [] (flat_map dev_of evs)) = hkeys hash (mh s).
Proof. exact model_table_as_keys. Qed.
Print Assumptions C10_discovery_model_table_is_key_table_partial.

(* (ii) whatever the key function: receiver r gets a message only if a request of the history registered r under the
   key of the message's token *)
Theorem C10_discovery_delivery_by_key : forall hash evs r tok,
  In (DoDeliver r tok) (snd (hrun hash [] evs)) ->
  exists tok', In (DvStart tok' r) evs /\ hash tok' = hash tok.
Proof.
  intros hash evs r tok H. apply (delivery_by_key hash evs evs []); [apply incl_refl|intros k r0 []|exact H].
Qed.
Print Assumptions C10_discovery_delivery_by_key.

(* (iii) Token.Hash = CRC-64/ISO: for every rest t, the tokens 0^i t, i = 0..8, have pairwise different keys *)
Theorem C10_crc64_separates_zero_padded_tokens : forall t i j, bytes_ok t = true -> (i <= 8)%nat -> (j <= 8)%nat ->
  TokenKey.crc64 (repeat 0 i ++ t) = TokenKey.crc64 (repeat 0 j ++ t) -> i = j.
Proof. exact crc64_zero_padding_apart. Qed.
Print Assumptions C10_crc64_separates_zero_padded_tokens.

(* a request in progress with token 0^i t; a message with token 0^j t is handed to its receiver iff i = j, else to
   the application *)
Theorem C10_discovery_zero_padded_response : forall t rcv i j, bytes_ok t = true -> (i <= 8)%nat -> (j <= 8)%nat ->
  snd (hrun TokenKey.crc64 [] [DvStart (repeat 0 i ++ t) rcv; DvResp (repeat 0 j ++ t)]) =
  [if Nat.eqb i j then DoDeliver rcv (repeat 0 j ++ t) else DoApp (repeat 0 j ++ t)].
Proof. exact crc64_zero_padded_response. Qed.
Print Assumptions C10_discovery_zero_padded_response.

(* for ALL histories over the tokens 0^i t: the code's table is the token table *)
Theorem C10_discovery_zero_padded_histories : forall t evs, bytes_ok t = true ->
  (forall e, In e evs -> exists i, (i <= 8)%nat /\ dev_tok e = repeat 0 i ++ t) ->
  hrun TokenKey.crc64 [] evs = (hkeys TokenKey.crc64 (fst (trun [] evs)), snd (trun [] evs)).
Proof. exact crc64_zero_padded_histories. Qed.
Print Assumptions C10_discovery_zero_padded_histories.

(* contrast (NOT the code): with the token bytes packed big-endian into the key the length of the token is lost;
   a message whose token is the registered one with a zero byte in front is handed to that request's receiver,
   where the token table hands it to the application *)
Theorem C10_packed_token_key_would_misdeliver : forall t rcv, blen t < 8 ->
  0 :: t <> t /\
  snd (hrun packed_key [] [DvStart t rcv; DvResp (0 :: t)]) = [DoDeliver rcv (0 :: t)] /\
  snd (trun [] [DvStart t rcv; DvResp (0 :: t)]) = [DoApp (0 :: t)].
Proof. exact packed_key_misdelivers. Qed.
Print Assumptions C10_packed_token_key_would_misdeliver.

(* non-vacuity: the tokens 12 34, 00 12 34 and 00 00 00 00 00 00 12 34 with the code's key function *)
Example C10_token_key_instance :
  snd (hrun TokenKey.crc64 [] [DvStart [18; 52] 1; DvResp [0; 18; 52]; DvResp [0; 0; 0; 0; 0; 0; 18; 52]; DvResp [18; 52];
                               DvStart [0; 18; 52] 2; DvResp [0; 18; 52]; DvEnd [18; 52]; DvResp [18; 52]])
  = [DoApp [0; 18; 52]; DoApp [0; 0; 0; 0; 0; 0; 18; 52]; DoDeliver 1 [18; 52]; DoDeliver 2 [0; 18; 52]; DoApp [18; 52]]
  /\ told_apart_b TokenKey.crc64 [[18; 52]; [0; 18; 52]; [0; 0; 0; 0; 0; 0; 18; 52]] = true
  /\ told_apart_b packed_key [[18; 52]; [0; 18; 52]] = false.
Proof. vm_compute. repeat split; reflexivity. Qed.

(* ------------------------------------------------------------------ *)
(* Round 4: the decode loop between a received message and the connection *)
(* ------------------------------------------------------------------ *)
(* message/pool Message.decode (behind UnmarshalWithDecoder, i.e. behind udp/client Conn.Process -- inside the
   ONE read loop of the udp server -- and tcp/client Session.processBuffer) retries the coder with a larger
   option table while it reports ErrOptionsTooSmall.  Server/OptGrow.v models the option table WITH its
   capacity ([unmarshal_opts_cap], [udp_decode_cap]: Options.Unmarshal reports "too small" when the table is
   full) and the loop ([retry_loop] with the code's [grow] = max(16, 2*cap)).  Model.v's [udp_decode], which
   all theorems above use, keeps the options in an unbounded list; (i) is the justification. *)

(* (i) "never deadlocks": for EVERY datagram and every capacity the pooled message starts with, the loop ends
   within 2 + ceil(log2 len) attempts, with exactly what the unbounded decoder returns (ErrOptionsTooSmall never
   reaches the connection) *)
Theorem C10_decode_loop_terminates : forall data cap0 fuel, 0 <= cap0 -> (attempts_bound (blen data) <= fuel)%nat ->
  snd (pool_decode fuel cap0 data) = Some (udp_decode data).
Proof. exact pool_decode_terminates. Qed.
Print Assumptions C10_decode_loop_terminates.

Theorem C10_decode_loop_attempts : forall data cap0 fuel, 0 <= cap0 ->
  (length (fst (pool_decode fuel cap0 data)) <= attempts_bound (blen data))%nat.
Proof. exact pool_decode_attempts. Qed.
Print Assumptions C10_decode_loop_attempts.

(* (ii) what a peer can make the server allocate: no table of the loop has more slots than
   max(16, 2 * len(datagram)), or than the pooled message already had *)
Theorem C10_decode_loop_memory_bounded : forall data cap0 fuel,
  Forall (fun c => c <= Z.max cap0 (Z.max 16 (2 * blen data))) (fst (pool_decode fuel cap0 data)).
Proof. exact pool_decode_caps_bounded. Qed.
Print Assumptions C10_decode_loop_memory_bounded.

(* (iii) the same for ANY coder that honours the contract "a table of [need] slots is enough, and a result other
   than too-small does not depend on the capacity" (the tcp coder calls the same Options.Unmarshal:
   [unmarshal_cap_enough], [unmarshal_cap_sound]) *)
Theorem C10_decode_loop_any_coder : forall (A : Type) (dec : Z -> cres A) (full : dres A) (need : Z),
  (forall cap, need <= cap -> dec cap = CR full) -> (forall cap r, dec cap = CR r -> r = full) ->
  forall cap0 fuel, 0 <= cap0 -> (attempts_bound need <= fuel)%nat ->
  snd (retry_loop grow dec fuel cap0) = Some full.
Proof. exact retry_loop_terminates. Qed.
Print Assumptions C10_decode_loop_any_coder.

Theorem C10_options_table_contract : forall fuel data prev acc processed cap,
  (blen acc + blen data <= cap ->
   unmarshal_opts_cap cap fuel data prev acc processed = CR (unmarshal_opts fuel data prev acc processed)) /\
  (forall r, unmarshal_opts_cap cap fuel data prev acc processed = CR r -> unmarshal_opts fuel data prev acc processed = r).
Proof.
  intros. split; [apply unmarshal_cap_enough|intros r H; exact (unmarshal_cap_sound _ _ _ _ _ _ _ H)].
Qed.
Print Assumptions C10_options_table_contract.

(* contrast (NOT the code): growth with a ceiling of 1024 slots and the same unconditional retry never returns
   for a datagram of 1100 empty options -- whatever number of attempts is allowed; the code's loop decodes it in
   9 attempts (0, 16, ..., 1024, 2048) *)
Theorem C10_capped_growth_would_spin : forall fuel,
  snd (retry_loop (grow_capped 1024) (fun cap => udp_decode_cap cap (flood 1100)) fuel 0) = None.
Proof. exact capped_growth_spins. Qed.
Print Assumptions C10_capped_growth_would_spin.

Example C10_decode_loop_instance :
  pool_decode 20 0 (flood 1100) = ([0; 16; 32; 64; 128; 256; 512; 1024; 2048], Some (udp_decode (flood 1100))).
Proof. exact flood_1100_decoded. Qed.

(* ------------------------------------------------------------------ *)
(* Round 4: the received-message queue between Conn.Process and the handler *)
(* ------------------------------------------------------------------ *)
(* Server/Queue.v: the datagrams of one remote address go socket -> read loop (Process, which ends with a BLOCKING
   send) -> channel of ReceivedMessageQueueSize slots -> the connection's reader loop -> handler.
   "in arrival order", for ALL schedules of the two loops and every queue size: *)
Theorem C10_queue_arrival_order : forall size arrivals evs,
  let s := qrun size arrivals evs in q_done s ++ q_chan s ++ q_sock s = arrivals.
Proof. exact queue_in_order. Qed.
Print Assumptions C10_queue_arrival_order.

(* what the application has seen is a prefix of what arrived, at every moment; and everything once both are empty *)
Theorem C10_queue_handled_is_prefix : forall size arrivals evs,
  exists rest, arrivals = q_done (qrun size arrivals evs) ++ rest.
Proof. exact queue_handled_prefix. Qed.
Print Assumptions C10_queue_handled_is_prefix.

Theorem C10_queue_complete : forall size arrivals evs,
  q_sock (qrun size arrivals evs) = [] -> q_chan (qrun size arrivals evs) = [] -> q_done (qrun size arrivals evs) = arrivals.
Proof. exact queue_complete. Qed.
Print Assumptions C10_queue_complete.

(* the two loops never wait for each other for good: while something is left one of them can move *)
Theorem C10_queue_no_deadlock : forall size s, (0 < size)%nat -> q_sock s <> [] \/ q_chan s <> [] ->
  qstep size s QHandle <> s \/ qstep size s QRead <> s.
Proof. exact queue_progress. Qed.
Print Assumptions C10_queue_no_deadlock.

(* contrast (NOT the code): a read loop that hands the overflow to goroutines of their own instead of waiting has a
   schedule in which the application sees 0, 2, 1 *)
Theorem C10_spilling_read_loop_would_reorder :
  exists evs, let s := spill_run 1 [0; 1; 2] evs in
    sp_sock s = [] /\ sp_chan s = [] /\ sp_spill s = [] /\ sp_done s = [0; 2; 1].
Proof. exact spilling_read_loop_reorders. Qed.
Print Assumptions C10_spilling_read_loop_would_reorder.

Example C10_queue_instance :
  q_done (qrun 2 [10; 11; 12; 13; 14] [QRead; QRead; QRead; QHandle; QRead; QHandle; QRead; QRead; QHandle; QHandle; QRead; QHandle])
  = [10; 11; 12; 13; 14].
Proof. vm_compute. reflexivity. Qed.

(* ------------------------------------------------------------------ *)
(* Round 5: who holds a pooled message on the receive path              *)
(* ------------------------------------------------------------------ *)
(* Server/Pool.v: the udp server has one message pool for the read loop and the connections of all peers, and the
   pool checks nothing.  [Pool.good]: the pool and the hands are disjoint and hold no message twice -- no message
   is in the hands of two peers, no message that was given back (ctx = nil) is still being worked on.
   Every way through udp/client Conn.Process (too big, decode error, refused or dropped by the request monitor,
   ping, ACK/RST of a pending message, separate ACK, context done, queued and handled, hijacked), from ANY good pool,
   whatever message sync.Pool chooses to hand out: every release is of a message the path holds at that moment
   (the flag stays as it was) and the pool is good afterwards. *)
Theorem C10_pool_every_path_releases_what_it_holds : forall cap x cs p ok, Pool.good p ->
  snd (Pool.exec cap (Pool.path_prog x) cs Pool.no_regs p ok) = ok
  /\ Pool.good (fst (Pool.exec cap (Pool.path_prog x) cs Pool.no_regs p ok)).
Proof. exact Pool.path_disciplined. Qed.
Print Assumptions C10_pool_every_path_releases_what_it_holds.

(* for ALL sequences of datagrams of any peers (any paths, any choices of the pool), from the pool of a server that
   has just started (or any good one) *)
Theorem C10_pool_all_datagram_sequences : forall cap l p, Pool.good p ->
  snd (Pool.run_paths cap l p true) = true /\ Pool.good (fst (Pool.run_paths cap l p true)).
Proof. exact Pool.run_paths_good. Qed.
Print Assumptions C10_pool_all_datagram_sequences.

(* for ALL interleavings of acquisitions and releases by any goroutines: as long as every release is by a holder the
   pool stays good ... *)
Theorem C10_pool_any_interleaving : forall cap evs p, Pool.good p -> Pool.disciplined cap p evs ->
  Pool.good (fold_left (Pool.pstep cap) evs p).
Proof. exact Pool.disciplined_good. Qed.
Print Assumptions C10_pool_any_interleaving.

(* ... and in a good pool what AcquireMessage hands out is in nobody's hands and no longer in the pool; two
   acquisitions in a row (the read loop's for one peer's datagram, a reader loop's for another peer) differ *)
Theorem C10_pool_acquired_message_is_exclusive : forall p i, Pool.good p ->
  Pool.good (fst (Pool.acquire p i))
  /\ Pool.held (fst (Pool.acquire p i)) = snd (Pool.acquire p i) :: Pool.held p
  /\ ~ In (snd (Pool.acquire p i)) (Pool.held p)
  /\ ~ In (snd (Pool.acquire p i)) (Pool.free (fst (Pool.acquire p i))).
Proof. exact Pool.acquire_good. Qed.
Print Assumptions C10_pool_acquired_message_is_exclusive.

Theorem C10_pool_two_peers_never_share : forall p i j, Pool.good p ->
  snd (Pool.acquire p i) <> snd (Pool.acquire (fst (Pool.acquire p i)) j).
Proof. exact Pool.good_two_acquires_differ. Qed.
Print Assumptions C10_pool_two_peers_never_share.

(* contrast (NOT the code): a path that releases the received message and still queues it (handled and released
   again).  ONE such datagram to a server that has just started: the last release is of a message the path does not
   hold, the pool holds that message twice, and the next two acquisitions hand out the SAME message *)
Theorem C10_double_release_would_share_a_message :
  let po := Pool.exec 1024%nat Pool.doubly_released_prog [] Pool.no_regs Pool.pool_init true in
  snd po = false
  /\ Pool.free (fst po) = [0; 0]%nat
  /\ ~ Pool.good (fst po)
  /\ snd (Pool.acquire (fst po) 0%nat) = snd (Pool.acquire (fst (Pool.acquire (fst po) 0%nat)) 0%nat).
Proof. exact Pool.double_release_shares. Qed.
Print Assumptions C10_double_release_would_share_a_message.

(* non-vacuity: a ping, a queued request, a decode error and a separate ACK from the initial pool, with the pool
   handing out its second element where it has one *)
Example C10_pool_instance :
  Pool.good Pool.pool_init
  /\ Pool.run_paths 1024%nat [(Pool.PPing, [0; 1]%nat); (Pool.PQueued, [1; 0]%nat); (Pool.PDecodeErr, [1]%nat); (Pool.PSeparate, [0]%nat)]
       Pool.pool_init true
     = (Pool.MkPool [1]%nat [0]%nat 2%nat, true).
Proof. split; [exact Pool.good_init|vm_compute; reflexivity]. Qed.
