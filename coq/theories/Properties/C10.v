(* C10 -- servers stay up and peers stay isolated under arbitrary input.
   Statements only; proofs are in Server/Proofs.v.

   Level: PARTIAL.  The theorems are about the modelled dispatch of the datagram
   server (Server/Model.v: peer table keyed by getConnKey, getOrCreateConn with the
   wildcard fallback, getConn's replace-if-closed, one Serve iteration per event,
   the periodic sweep, the discovery table) with the per-peer connection either an
   arbitrary total deterministic machine (Section variables) or the concrete one the
   correspondence cases run (datagram decoder + request path of Dedup/Model.v + the
   harness application).  Each event is one atomic step: the full statement of the
   property -- no deadlock among the real goroutines, handshakes bounded by their
   time-out on the TLS/DTLS listeners -- is NOT proved; those parts are observed by
   the harness only (Serve still running, fresh client answered, Stop returns).
   The accept level of the stream/DTLS servers (Model.v Part 5: accepting never
   waits for a handshake, one goroutine per accepted connection) has its own
   non-interference theorems below; they are tied to the code by runs against a
   real TLS listener and a real DTLS-PSK listener with peers that stall in their
   handshake (TlsRun cases).
   Round 2: the discovery table holds exactly the requests in progress (a request
   whose datagram cannot be sent leaves no trace), and the keep-alive level
   (Server/KeepAlive.v): a server with options.WithKeepAlive is a table of C18's
   single-connection machines, one per connection; non-interference between the
   connections for all histories, tied to the code by runs of real udp and tcp
   servers with several peers on a virtual clock (KaRun cases). *)
From Coq Require Import ZArith List Bool.
From GoCoap Require Import Base.Bytes Dedup.Model Server.Model Server.Proofs Server.AcceptProofs.
From GoCoap Require Monitor.Model Monitor.Spec Monitor.Proofs.
From GoCoap Require Import Server.KeepAlive Server.KeepAliveProofs.
Import ListNotations.
Open Scope Z_scope.

Section Abstract.
  Variables pstate datagram pout : Type.
  Variable peer_init : Z -> pstate.
  Variable peer_step : mhtab -> pstate -> datagram -> presult pstate pout.
  Variable recv_trunc : datagram -> datagram.
  Hypothesis peer_total : forall t st d, peer_step t st d <> PPanic.

  (* the server step is defined -- no panic -- for every event (datagram, NewConn, close, tick,
     discovery registration) in every state, and so is every run *)
  Theorem C10_total_partial : forall s e, step pstate datagram pout peer_init peer_step recv_trunc s e <> SPanic.
  Proof. exact (step_total pstate datagram pout peer_init peer_step recv_trunc peer_total). Qed.

  Theorem C10_run_total_partial : forall evs s, exists s' o,
    run pstate datagram pout peer_init peer_step recv_trunc s evs = Some (s', o).
  Proof. exact (run_total pstate datagram pout peer_init peer_step recv_trunc peer_total). Qed.

  (* non-interference.  [sim]/[erase] say which part of a connection's behaviour depends on the seed it
     got from the process-global message-ID counter (the only state peers share besides the table):
     connections started from different seeds stay related and emit the same outputs up to [erase]. *)
  Variable sim : pstate -> pstate -> Prop.
  Variable eout : Type.
  Variable erase : pout -> eout.
  Hypothesis sim_init : forall g1 g2, sim (peer_init g1) (peer_init g2).
  Hypothesis sim_step : forall t s1 s2 d, sim s1 s2 ->
    match peer_step t s1 d, peer_step t s2 d with
    | POk s1' o1 e1 _, POk s2' o2 e2 _ => sim s1' s2' /\ map erase o1 = map erase o2 /\ e1 = e2
    | _, _ => False
    end.

  (* for ALL interleavings [evs] of the events of any number of peers (datagrams of any content, NewConn,
     closes) with ticks and discovery registrations, and all initial values of the global counter: what
     the server emits for remote address [a] -- new-connection callbacks, everything a's connections
     write or hand to the application, errors -- equals what it emits when only a's events (and the shared
     ticks / registrations) happen, up to connection identities and server-chosen message IDs *)
  Theorem C10_noninterference_partial : forall a evs g1 g2,
    exists s1 o1 s2 o2,
      run pstate datagram pout peer_init peer_step recv_trunc (init_state g1) evs = Some (s1, o1) /\
      run pstate datagram pout peer_init peer_step recv_trunc (init_state g2) (filter (relevant datagram a) evs) = Some (s2, o2) /\
      eproj pout eout erase a o1 = eproj pout eout erase a o2.
  Proof. exact (noninterference pstate datagram pout peer_init peer_step recv_trunc peer_total sim eout erase sim_init sim_step). Qed.

  (* at most one table entry per (remote, normalised local) key, stored under its own key, identities fresh *)
  Theorem C10_one_conn_per_key_partial : forall evs g s o,
    run pstate datagram pout peer_init peer_step recv_trunc (init_state g) evs = Some (s, o) ->
    NoDup (map fst (conns s)) /\ (forall k c, lookup (conns s) k = Some c -> c_key c = k /\ c_id c < next_id s).
  Proof. exact (one_conn_per_key pstate datagram pout peer_init peer_step recv_trunc). Qed.

  (* in-order hand-off: a datagram whose key has an open connection is processed by that connection (same
     identity before and after, no OnNewConn), which advances by exactly this datagram; all other keys
     keep their entries *)
  Theorem C10_in_order_handoff_partial : forall s r lst dst d c st' outs err n,
    let k := conn_key r (dgram_laddr lst dst) in
    okeys pstate (conns s) -> lookup (conns s) k = Some c -> c_closed c = false ->
    peer_step (mh s) (c_st c) (recv_trunc d) = POk st' outs err n ->
    exists s', step pstate datagram pout peer_init peer_step recv_trunc s (EDgram r lst dst d) =
                 SOk s' (map (SOut (c_id c) k) outs ++ (if err then [SErrProcess r (c_id c)] else [])) /\
      lookup (conns s') k = Some (upd_conn pstate err st' c) /\
      (forall k', k' <> k -> lookup (conns s') k' = lookup (conns s) k') /\ mh s' = mh s.
  Proof. exact (handoff_open pstate datagram pout peer_init peer_step recv_trunc). Qed.

  (* a closed entry is replaced by a fresh connection on the next datagram for its key; the closed
     connection receives nothing and no other key is affected *)
  Theorem C10_closed_replaced_partial : forall s r lst dst d c st' outs err n,
    let laddr := dgram_laddr lst dst in
    let k := conn_key r laddr in
    let g := u32 (gmid s + 1) in
    okeys pstate (conns s) -> lookup (conns s) k = Some c -> c_closed c = true ->
    (can_fallback laddr = true -> lookup (conns s) (conn_key r (to_wildcard laddr)) = None) ->
    peer_step (mh s) (peer_init (u16 g)) (recv_trunc d) = POk st' outs err n ->
    exists s', step pstate datagram pout peer_init peer_step recv_trunc s (EDgram r lst dst d) =
                 SOk s' (SNew r (next_id s) :: map (SOut (next_id s) k) outs ++ (if err then [SErrProcess r (next_id s)] else [])) /\
      lookup (conns s') k = Some {| c_id := next_id s; c_key := k; c_closed := err; c_st := st' |} /\
      (forall k', k' <> k -> lookup (conns s') k' = lookup (conns s) k') /\ mh s' = mh s.
  Proof. exact (closed_replaced pstate datagram pout peer_init peer_step recv_trunc). Qed.

  (* everything emitted while a datagram from r is processed belongs to a key of r and to the connection the
     table holds under that key, and was computed under the server's current discovery table *)
  Theorem C10_outputs_of_sender_partial : forall s r lst dst d s' o id k x, okeys pstate (conns s) ->
    step pstate datagram pout peer_init peer_step recv_trunc s (EDgram r lst dst d) = SOk s' o -> In (SOut id k x) o ->
    fst k = r /\ (exists c, lookup (conns s') k = Some c /\ c_id c = id) /\
    exists st st' outs err n, peer_step (mh s) st (recv_trunc d) = POk st' outs err n /\ In x outs.
  Proof. exact (dgram_outputs pstate datagram pout peer_init peer_step recv_trunc). Qed.
End Abstract.

Print Assumptions C10_total_partial.
Print Assumptions C10_run_total_partial.
Print Assumptions C10_noninterference_partial.
Print Assumptions C10_one_conn_per_key_partial.
Print Assumptions C10_in_order_handoff_partial.
Print Assumptions C10_closed_replaced_partial.
Print Assumptions C10_outputs_of_sender_partial.

(* ---- the concrete connection run by the correspondence cases satisfies the hypotheses ---- *)

(* the decoder never slices out of range and the concrete connection step never panics *)
Theorem C10_concrete_total : forall maxsize t s d, cstep maxsize t s d <> PPanic.
Proof. exact cstep_total. Qed.
Print Assumptions C10_concrete_total.

Theorem C10_concrete_noninterference : forall maxsize a evs g1 g2,
  exists s1 o1 s2 o2,
    cserver_run maxsize (init_state g1) evs = Some (s1, o1) /\
    cserver_run maxsize (init_state g2) (filter (relevant (list Z) a) evs) = Some (s2, o2) /\
    eproj cout cout erase_cout a o1 = eproj cout cout erase_cout a o2.
Proof.
  intros maxsize. unfold cserver_run.
  exact (noninterference cstate (list Z) cout cinit (cstep maxsize) (firstn (Z.to_nat maxsize)) (cstep_total maxsize)
           csim cout erase_cout cinit_sim (cstep_sim_step maxsize)).
Qed.
Print Assumptions C10_concrete_noninterference.

(* discovery: a message is passed to receiver r only if its token is registered for r, the application sees
   only unregistered tokens, and a registered token's message that reaches the handler layer is delivered *)
Theorem C10_discovery_partial : forall maxsize t s d s' outs err n, cstep maxsize t s d = POk s' outs err n ->
  (forall r tok code pay, In (CDeliver r tok code pay) outs -> mh_lookup t tok = Some r) /\
  (forall tok code pay, In (CHandled tok code pay) outs -> mh_lookup t tok = None).
Proof. exact cstep_discovery. Qed.
Print Assumptions C10_discovery_partial.

Theorem C10_discovery_delivers_partial : forall maxsize t s d m r, bytes_ok d = true -> blen d <= maxsize ->
  udp_decode d = DOk m -> is_ping m = false -> is_separate m = false ->
  (if is_cacheable_typ (m_typ m) then cache_load (cache s) (m_mid m) else None) = None ->
  mh_lookup t (m_tok m) = Some r ->
  exists s' outs n, cstep maxsize t s d = POk s' outs false n /\ In (CDeliver r (m_tok m) (m_code m) (m_pay m)) outs.
Proof. exact cstep_discovery_delivers. Qed.
Print Assumptions C10_discovery_delivers_partial.

(* getConnKey: multicast groups and both wildcards of a port collapse to one key, concrete addresses stay apart *)
Theorem C10_key_normalisation : forall r p z z' i i',
  (ip_is_multicast i || ip_is_unspecified i = true) -> (ip_is_multicast i' || ip_is_unspecified i' = true) ->
  conn_key r {| a_ip := i; a_port := p; a_zone := z |} = conn_key r {| a_ip := i'; a_port := p; a_zone := z' |}.
Proof. exact conn_key_collapses. Qed.
Print Assumptions C10_key_normalisation.

(* the accept loop of the stream/DTLS servers stops only when the listener is closed, or on a
   cancelled/expired context once the server's own context is done *)
Theorem C10_accept_continues : forall e ctx_done,
  fst (fst (check_accept_error e ctx_done)) = false <->
  (e = AccListenerClosed \/ ((e = AccDeadline \/ e = AccCanceled) /\ ctx_done = true)).
Proof. exact accept_stops_iff. Qed.
Print Assumptions C10_accept_continues.

Theorem C10_accept_loop_keeps_running : forall script calls served reported,
  (forall e d, In (e, d) script -> e <> AccListenerClosed /\ (e = AccDeadline \/ e = AccCanceled -> d = false)) ->
  fst (fst (accept_loop script calls served reported)) = None.
Proof. exact accept_loop_continues. Qed.
Print Assumptions C10_accept_loop_keeps_running.

(* ---- the accept level (Server/Model.v Part 5): one goroutine per accepted connection, the handshake of a
   connection is an event of its own goroutine ----

   FULL statement (not proved): on the real listeners a peer that stalls, garbles or abandons its TLS/DTLS
   handshake delays no other peer, and its goroutine ends after the handshake time-out.  Proved for the model in
   which the listener's results and the goroutines' events are atomic steps in an arbitrary interleaving; that the
   real Serve loops are this model (in particular: no handshake inside the loop) is what the TlsRun cases observe. *)
Section AcceptLevel.
  Variables CS D O : Type.
  Variable conn_init : CS.
  Variable conn_step : CS -> D -> CS * list O.
  Variable early_announce : bool.

  (* the modelled fact: accepting never waits for a handshake *)
  Theorem C10_accept_never_waits : forall (s : astate CS) c,
    a_accepting s = true -> alookup CS c (a_conns s) = None ->
    astep CS D O conn_init conn_step early_announce s (AvAccept c) =
      (AS true ((c, (PhHandshake, conn_init)) :: a_conns s), AoSpawn c :: (if early_announce then [AoNew c] else [])).
  Proof. exact (accept_never_waits CS D O conn_init conn_step early_announce). Qed.

  (* non-interference lifted to the accept level *)
  Theorem C10_accept_noninterference_partial : forall c evs (s : astate CS),
    filter (aout_of c) (snd (arun CS D O conn_init conn_step early_announce s evs)) =
    filter (aout_of c) (snd (arun CS D O conn_init conn_step early_announce s (filter (aev_keep c) evs))).
  Proof. exact (accept_noninterference CS D O conn_init conn_step early_announce). Qed.

  (* a handshake of another connection that completes, fails or never ends (no AvHandshake event), and whatever
     else other connections do, does not change what connection c gets *)
  Theorem C10_stalled_handshake_isolated_partial : forall c evs evs' (s : astate CS),
    filter (aev_keep c) evs = filter (aev_keep c) evs' ->
    filter (aout_of c) (snd (arun CS D O conn_init conn_step early_announce s evs)) =
    filter (aout_of c) (snd (arun CS D O conn_init conn_step early_announce s evs')).
  Proof. exact (stalled_handshake_isolated CS D O conn_init conn_step early_announce). Qed.

  (* after ANY history without a stopping listener error, a new client is accepted, announced and served *)
  Theorem C10_late_client_served_partial : forall evs c d,
    (forall e x, In (AvAcceptErr e x) evs -> fst (fst (check_accept_error e x)) = true) ->
    alookup CS c (a_conns (fst (arun CS D O conn_init conn_step early_announce (ainit CS) evs))) = None ->
    filter (aout_of c)
      (snd (arun CS D O conn_init conn_step early_announce
              (fst (arun CS D O conn_init conn_step early_announce (ainit CS) evs))
              [AvAccept c; AvHandshake c HsOk; AvData c d])) =
      AoSpawn c :: AoNew c :: map (AoOut c) (snd (conn_step conn_init d)).
  Proof. exact (late_client_served CS D O conn_init conn_step early_announce). Qed.
End AcceptLevel.
Print Assumptions C10_accept_never_waits.
Print Assumptions C10_accept_noninterference_partial.
Print Assumptions C10_stalled_handshake_isolated_partial.
Print Assumptions C10_late_client_served_partial.

(* contrast: a loop that finishes the handshake itself before it returns to Accept (NOT the code) loses the
   property -- one connection that never finishes its handshake takes everything from a later one *)
Theorem C10_inline_handshake_would_starve :
  exists (evs : list (@aev nat)) c,
    filter (@aout_of nat c) (snd (arun_inline unit nat nat tt (fun s d => (s, [d])) true (ainit unit) evs)) <>
    filter (@aout_of nat c) (snd (arun_inline unit nat nat tt (fun s d => (s, [d])) true (ainit unit) (filter (@aev_keep nat c) evs))).
Proof. exact inline_handshake_starves. Qed.
Print Assumptions C10_inline_handshake_would_starve.

(* non-vacuity at the accept level: connections 0 and 1 never finish their handshakes, connection 2 connects after
   them and is served *)
Example C10_accept_instance :
  filter (@aout_of nat 2%nat)
    (snd (arun unit nat nat tt (fun s d => (s, [d])) true (ainit unit)
            [AvAccept 0%nat; AvAccept 1%nat; AvHandshake 1%nat HsErr; AvAccept 2%nat; AvHandshake 2%nat HsOk; AvData 2%nat 7%nat]))
  = [AoSpawn 2%nat; AoNew 2%nat; AoOut 2%nat 7%nat].
Proof. reflexivity. Qed.

(* non-vacuity: a garbage datagram from peer 1 between two requests of peer 2; peer 1's connection is closed,
   peer 2 is answered from one connection *)
Example C10_instance :
  let a1 := {| a_ip := IPhost 1; a_port := 1000; a_zone := 0 |} in
  let a2 := {| a_ip := IPhost 2; a_port := 2000; a_zone := 0 |} in
  let l := {| a_ip := IPunspec false; a_port := 5683; a_zone := 0 |} in
  let get := [64; 1; 0; 7; 177; 97] in      (* CON GET /a, message ID 7 *)
  let get' := [64; 1; 0; 8; 177; 97] in
  match cserver_run 65536 (init_state 0) [EDgram a2 l None get; EDgram a1 l None [255; 255]; EDgram a2 l None get'] with
  | Some (s, o) =>
      length (filter (fun x => match x with SNew _ _ => true | _ => false end) o) = 2%nat /\
      In (SErrProcess a1 1) o /\
      In (SOut 0 (a2, clear_ip l) (CWire {| w_typ := ACK; w_code := 69; w_mid := 8; w_tok := []; w_opts := [(12, [])]; w_pay := [1] |})) o
  | None => False
  end.
Proof. vm_compute. repeat split; auto 10. Qed.

(* ---- discovery: the handler table holds exactly the requests in progress (round 2) ----
   "responses to a discovery request are delivered only to the receiver registered for their token": a receiver is
   registered from the LoadOrStore of its DiscoveryRequest call until that call returns -- HOWEVER it returns.
   EDiscFail is the call whose datagram cannot be sent (WriteMulticast / WriteWithContext error): it returns at
   once and the deferred LoadAndDelete has run. *)
Section DiscoveryTable.
  Variables pstate datagram pout : Type.
  Variable peer_init : Z -> pstate.
  Variable peer_step : mhtab -> pstate -> datagram -> presult pstate pout.
  Variable recv_trunc : datagram -> datagram.

  (* a request that could not be sent leaves no trace: the server state after the call is the state before it *)
  Theorem C10_discovery_failed_send_leaves_no_trace_partial : forall s tok rcv,
    step pstate datagram pout peer_init peer_step recv_trunc s (EDiscFail tok rcv) =
    SOk s (match mh_lookup (mh s) tok with Some _ => [SDiscExists] | None => [SDiscSendErr] end).
  Proof. exact (disc_failed_send_no_trace pstate datagram pout peer_init peer_step recv_trunc). Qed.

  (* ... so everything that follows -- datagrams with its token from any peer, other requests -- is what it would
     have been without the call *)
  Theorem C10_discovery_failed_send_invisible_partial : forall s tok rcv evs,
    run pstate datagram pout peer_init peer_step recv_trunc s (EDiscFail tok rcv :: evs) =
    match run pstate datagram pout peer_init peer_step recv_trunc s evs with
    | Some (s', o) => Some (s', (match mh_lookup (mh s) tok with Some _ => [SDiscExists] | None => [SDiscSendErr] end) ++ o)
    | None => None
    end.
  Proof. exact (disc_failed_send_invisible pstate datagram pout peer_init peer_step recv_trunc). Qed.

  (* ... and the same request can be issued again with the same token *)
  Theorem C10_discovery_retry_after_failed_send_partial : forall s tok rcv rcv', mh_lookup (mh s) tok = None ->
    exists s', run pstate datagram pout peer_init peer_step recv_trunc s [EDiscFail tok rcv; EDiscStart tok rcv'] =
                 Some (s', [SDiscSendErr]) /\ mh s' = (tok, rcv') :: mh s.
  Proof. exact (disc_retry_after_failed_send pstate datagram pout peer_init peer_step recv_trunc). Qed.

  (* for ALL histories: the table is the set of requests in progress ([in_progress] is computed from the start /
     return events alone; datagrams, NewConn, closes, ticks and failed sends do not occur in it) *)
  Theorem C10_discovery_table_is_requests_in_progress_partial : forall evs g s o,
    run pstate datagram pout peer_init peer_step recv_trunc (init_state g) evs = Some (s, o) ->
    mh s = in_progress datagram [] evs.
  Proof. exact (disc_table_in_progress_init pstate datagram pout peer_init peer_step recv_trunc). Qed.
End DiscoveryTable.
Print Assumptions C10_discovery_failed_send_leaves_no_trace_partial.
Print Assumptions C10_discovery_failed_send_invisible_partial.
Print Assumptions C10_discovery_retry_after_failed_send_partial.
Print Assumptions C10_discovery_table_is_requests_in_progress_partial.

(* ---- keep-alive level (Server/KeepAlive.v, round 2): a server configured with options.WithKeepAlive ----
   Every connection owns the keep-alive state the factory builds for it (Monitor/Model.v, C18).

   FULL statement (not proved): on the real servers the keep-alive of one peer -- its stalling, its being dropped,
   its traffic -- never changes what another peer receives.  Proved for the model in which an event of a connection
   and a housekeeping round are atomic steps in an arbitrary interleaving; that the real servers ARE this model
   (one KeepAlive per connection) is what the KaRun cases observe: real udp and tcp servers, several peers, virtual
   clock, every peer observed with the others and alone. *)

(* for ALL histories of any number of connections: what connection i is seen to do (pings sent to it, the round
   at which it is closed) is what it does in the history with only its own events and the housekeeping rounds *)
Theorem C10_keepalive_noninterference_partial : forall c i evs,
  kproj i (snd (krun c [] evs)) = kproj i (snd (krun c [] (filter (kev_keep i) evs))).
Proof. exact keepalive_noninterference. Qed.
Print Assumptions C10_keepalive_noninterference_partial.

(* whether the other peers exist, answer their pings, connect and stall, are dropped by keep-alive or keep
   sending: no difference for connection i *)
Theorem C10_keepalive_other_peers_irrelevant_partial : forall c i evs evs',
  filter (kev_keep i) evs = filter (kev_keep i) evs' ->
  kproj i (snd (krun c [] evs)) = kproj i (snd (krun c [] evs')).
Proof. exact keepalive_other_peers_irrelevant. Qed.
Print Assumptions C10_keepalive_other_peers_irrelevant_partial.

(* a connection of the server IS the single-connection machine of C18 run on its own events *)
Theorem C10_keepalive_conn_is_monitor_partial : forall c i evs tab s,
  NoDup (map fst tab) -> klookup i tab = Some s ->
  kproj i (snd (krun c tab evs)) = conn_run c s (flat_map (kev_of i) evs).
Proof. exact keepalive_conn_is_monitor. Qed.
Print Assumptions C10_keepalive_conn_is_monitor_partial.

(* ... hence C18's judge holds of each connection separately: it is closed by keep-alive only after more than
   maxRetries consecutive pings OF ITS OWN went unanswered, whatever table of other connections it lives in *)
Theorem C10_keepalive_each_conn_judged_alone_partial : forall c i t tab evs,
  Monitor.Proofs.wf c -> NoDup (map fst tab) -> klookup i tab = Some (Monitor.Model.init t) ->
  Monitor.Proofs.rx_ordered t (flat_map (kev_of i) evs) ->
  Monitor.Spec.spec_ok (Monitor.Proofs.P_of c t) (kproj i (snd (krun c tab evs))) = true.
Proof. exact keepalive_each_conn_judged_alone. Qed.
Print Assumptions C10_keepalive_each_conn_judged_alone_partial.

(* a client that connects after ANY history -- peers that stalled and were dropped included -- and stays idle is
   pinged, not closed, at the first housekeeping round later than a period after its arrival *)
Theorem C10_keepalive_late_client_pinged_partial : forall c evs i t tau,
  Monitor.Model.ka c = true -> Monitor.Model.period c <> 0 -> 0 < Monitor.Model.maxr c ->
  t + Monitor.Model.period c < tau ->
  klookup i (fst (krun c [] evs)) = None ->
  kproj i (snd (krun c (fst (krun c [] evs)) [KOpen i t; KSweep tau []])) =
    [(Monitor.Model.Tick tau true, [Monitor.Model.Ping 1])].
Proof. exact keepalive_late_client_pinged. Qed.
Print Assumptions C10_keepalive_late_client_pinged_partial.

(* contrast (NOT the code): with ONE KeepAlive captured by the factory and shared by all connections the statement
   is false -- a peer that connected and stalled leaves the shared counter above maxRetries and the next idle client
   is closed at its first check *)
Theorem C10_shared_keepalive_would_interfere :
  kproj 1%nat (snd (krun_shared contrast_cfg ([], shared_init) contrast_history)) <>
  kproj 1%nat (snd (krun_shared contrast_cfg ([], shared_init) (filter (kev_keep 1%nat) contrast_history))).
Proof. exact shared_keepalive_interferes. Qed.
Print Assumptions C10_shared_keepalive_would_interfere.

(* non-vacuity at the keep-alive level: connection 0 stalls and is dropped, connection 1 arrives afterwards, is
   pinged at its first idle round, answers, and is pinged again a period later *)
Example C10_keepalive_instance :
  kproj 1%nat (snd (krun contrast_cfg []
     [KOpen 0%nat 0; KSweep 11 []; KSweep 12 []; KOpen 1%nat 12; KSweep 23 []; KConn 1%nat (Monitor.Model.Pong 1 24); KSweep 35 []]))
  = [(Monitor.Model.Tick 23 true, [Monitor.Model.Ping 1]); (Monitor.Model.Pong 1 24, []);
     (Monitor.Model.Tick 35 true, [Monitor.Model.Cancel 1; Monitor.Model.Ping 2])]
  /\ kproj 0%nat (snd (krun contrast_cfg [] [KOpen 0%nat 0; KSweep 11 []; KSweep 12 []]))
  = [(Monitor.Model.Tick 11 true, [Monitor.Model.Ping 1]); (Monitor.Model.Tick 12 true, [Monitor.Model.Cancel 1; Monitor.Model.Close])].
Proof. vm_compute. split; reflexivity. Qed.
