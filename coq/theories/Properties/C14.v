(* C14 -- concurrent map and expiring cache are linearizable.
   Statements only; proofs are in Map/Proofs.v (instantiating the general
   linearisation-point lemma of Base/Interleave.v). Model: Map/Model.v (each
   method of pkg/sync/map.go and pkg/cache/cache.go as a program of atomic
   actions, one per critical section); sequential specification: Map/Spec.v.
   Histories and linearisation orders are kept newest-first ([later x y l]:
   x was added after y). *)
From Coq Require Import ZArith List Bool.
From GoCoap Require Import Base.Interleave Map.Model Map.Spec Map.Proofs.
Import ListNotations.
Open Scope Z_scope.

(* General lemma (any state, operations, local states): if every operation has
   one action that applies its sequential specification and determines its
   result, every history of every program under every schedule is
   linearizable, with the order of those actions as the witness. *)
Theorem Interleave_lp_linearizable :
  forall (St Op Loc Res : Type) (init_loc : Op -> Loc)
         (act : Op -> Loc -> St -> option (Loc * St * option Res))
         (lp_res : Loc -> option Res) (spec : Op -> St -> St * Res)
         (good : Op -> Prop) (linv : Op -> Loc -> Prop)
         (s0 : St) (progs : list (list Op)) (sched : list nat),
  lp_cond St Op Loc Res init_loc act lp_res spec good linv ->
  Forall (Forall good) progs ->
  let c := exec St Op Loc Res init_loc act lp_res sched (init St Op Loc Res s0 progs) in
  linearizable_with St Op Res spec s0 (rhist _ _ _ _ c) (rlin _ _ _ _ c) (shared _ _ _ _ c).
Proof. exact lp_linearizable. Qed.
Print Assumptions Interleave_lp_linearizable.

(* Instantiation over the full API of sync.Map and cache.Cache (every
   operation of Model.op except the two OLD shapes): any number of threads, any
   programs, any keys, any schedule. The witness order is a legal run of the
   sequential map ending in the current contents, contains every returned call
   with the result it returned, and respects real time. *)
Theorem C14_map_linearizable : forall (s0 : st) (progs : list (list op)) (sched : list nat),
  Forall (Forall new_shape) progs ->
  let c := mexec sched (minit s0 progs) in
  linearizable_with st op res spec s0 (rhist _ _ _ _ c) (rlin _ _ _ _ c) (shared _ _ _ _ c).
Proof. exact map_linearizable. Qed.
Print Assumptions C14_map_linearizable.

(* the same at the granularity the harness schedules at (call/return glued to
   the first/last critical section) *)
Theorem C14_map_linearizable_macro : forall s0 progs sched,
  Forall (Forall new_shape) progs ->
  let c := macro_exec sched (minit s0 progs) in
  linearizable_with st op res spec s0 (rhist _ _ _ _ c) (rlin _ _ _ _ c) (shared _ _ _ _ c).
Proof. exact map_linearizable_macro. Qed.
Print Assumptions C14_map_linearizable_macro.

(* Store-if-absent: any number of threads each making any number of
   LoadOrStore calls on an absent key; there is a value w such that every
   returned call reports (w, loaded) except the one call that stored w, and two
   calls that report "stored" are one and the same call. *)
Theorem C14_store_if_absent : forall (k : key) (s0 : st) (progs : list (list op)) (sched : list nat),
  get k s0 = None ->
  Forall (Forall (sia_on k)) progs ->
  let h := rhist _ _ _ _ (mexec sched (minit s0 progs)) in
  exists w,
    (forall t n o r, In (ERes t n o r) h ->
        r = [vid w; 1] \/ (o = LoadOrStore k w /\ r = [vid w; 0])) /\
    (forall t n o a t' n' o' a', In (ERes t n o [a; 0]) h -> In (ERes t' n' o' [a'; 0]) h ->
        t = t' /\ n = n').
Proof. exact store_if_absent. Qed.
Print Assumptions C14_store_if_absent.

(* Callbacks: every call took effect in a state s1 reached by the calls
   linearised before it; its result is the sequential result in s1 and what its
   callback was shown (recorded in the result) is what s1 holds under the key. *)
Theorem C14_callbacks_see_current : forall s0 progs sched,
  Forall (Forall new_shape) progs ->
  let c := mexec sched (minit s0 progs) in
  forall newer x older, rlin _ _ _ _ c = newer ++ x :: older ->
  exists s1 s2, rlegal st op res spec s0 older s1 /\ spec (i_op x) s1 = (s2, i_res x) /\
    forall cb, cb_current (i_op x) s1 = Some cb -> cb_seen (i_op x) (i_res x) = Some cb.
Proof. exact callbacks_see_current. Qed.
Print Assumptions C14_callbacks_see_current.

(* Sweep: every step of CheckExpirations leaves the map as it is or removes
   exactly the entry it examined, which at that instant is still the one
   stored under the key and is expired at the sweep's time. Nothing is replaced. *)
Theorem C14_sweep_safe : forall s0 progs sched,
  Forall (Forall new_shape) progs ->
  let c := mexec sched (minit s0 progs) in
  forall newer x older, rlin _ _ _ _ c = newer ++ x :: older -> sweep_step (i_op x) = true ->
  exists s1 s2, rlegal st op res spec s0 older s1 /\ spec (i_op x) s1 = (s2, i_res x) /\
    (s2 = s1 \/
     exists k e now cur, i_op x = SweepDel k e now /\ i_res x = [1] /\ get k s1 = Some cur /\
        vid cur = vid e /\ is_expired cur now = true /\ s2 = del k s1).
Proof. exact sweep_safe. Qed.
Print Assumptions C14_sweep_safe.

(* Regression witnesses about the OLD shapes of the code (before the repairs
   F1 and F2): the two-section LoadOrStore lets two calls both report "stored";
   the delete-by-key sweep removes an unexpired entry. *)
Theorem C14_store_if_absent_refuted :
  let progs := [[LoadOrStore2 1 (1, 0)]; [LoadOrStore2 1 (2, 0)]] in
  exists sched,
    let c := mexec sched (minit [] progs) in
    In (ERes 0 0 (LoadOrStore2 1 (1, 0)) [1; 0]) (rhist _ _ _ _ c) /\
    In (ERes 1 0 (LoadOrStore2 1 (2, 0)) [2; 0]) (rhist _ _ _ _ c) /\
    get 1 (shared _ _ _ _ c) = Some (2, 0) /\
    lin_check [] progs (hist_oev c) = false /\
    store_if_absent_ok [] (orecs progs (hist_oev c)) = false.
Proof. exact store_if_absent_refuted. Qed.
Print Assumptions C14_store_if_absent_refuted.

Theorem C14_sweep_refuted :
  let s0 := [(1, (1, -5))] in
  let progs := [[SweepNext (Some 1) 10 true; SweepDelKey 1 (1, -5) 10; SweepEnd]; [CLoadOrStore 1 (2, 100)];
                [CopyData]] in
  exists sched,
    let c := mexec sched (minit s0 progs) in
    In (ERes 1 0 (CLoadOrStore 1 (2, 100)) [2; 0]) (rhist _ _ _ _ c) /\
    In (ERes 0 1 (SweepDelKey 1 (1, -5) 10) [1]) (rhist _ _ _ _ c) /\
    In (ERes 2 0 CopyData []) (rhist _ _ _ _ c) /\
    is_expired (2, 100) 10 = false /\
    get 1 (shared _ _ _ _ c) = None /\
    lin_check s0 progs (hist_oev c) = false.
Proof. exact sweep_refuted. Qed.
Print Assumptions C14_sweep_refuted.

(* non-vacuity: a three-thread program over map and cache methods satisfies the
   hypotheses, runs to completion under an interleaved schedule, and the
   store-if-absent hypothesis is inhabited *)
Example C14_hypotheses_inhabited :
  let progs := [[LoadOrStore 1 (1, 0); ReplaceWF 1 (4, 0) false];
                [CLoadOrStore 1 (2, 100); RangeNext 1; RangeEnd];
                [SweepNext (Some 1) 10 true; SweepDel 1 (1, -5) 10; SweepEnd]] in
  Forall (Forall new_shape) progs /\
  length (rhist _ _ _ _ (macro_exec [0; 2; 1; 2; 1; 0; 1; 1; 2; 2]%nat (minit [(1, (1, -5))] progs))) = 16%nat /\
  Forall (Forall (sia_on 7)) [[LoadOrStore 7 (1, 0)]; [LoadOrStore 7 (2, 0); LoadOrStore 7 (3, 0)]].
Proof.
  split; [repeat constructor|]. split; [vm_compute; reflexivity|].
  repeat constructor; eexists; reflexivity.
Qed.
