(* C13 -- No per-exchange state outlives the exchange.  Statements only; proofs in Conn/. *)
From Coq Require Import ZArith NArith List Bool Lia.
From GoCoap Require Import Base.Bytes Conn.MutexMap Conn.Model Conn.Spec Conn.Proofs.
Import ListNotations.
Open Scope Z_scope.

(* udp/client/mutexmap.go, every schedule of n < 2^16 threads calling Lock, TryLock and Unlock in
   any order (a step of the schedule = the next atomic section of a thread; a thread that is
   outside chooses between Lock(k) and TryLock(k)): the entry for k exists iff its reference count
   is positive; the count is the number of threads between the map section of Lock(k) -- or a
   SUCCESSFUL TryLock(k) -- and the map section of Unlock; at most one thread is in the critical
   section of k; Unlock never panics; when no thread is inside, the map is empty *)
Theorem C13_mutexmap : forall n sched, Z.of_nat n < 65536 ->
  let s := exec2 (MutexMap.init n) sched in
  (forall k, match lookup (tab s) k with
             | Some e => cnt (heap s e) = count (inside k) (pcs s) /\ 0 < cnt (heap s e)
             | None => count (inside k) (pcs s) = 0
             end) /\
  (forall k, (exists e, lookup (tab s) k = Some e) <-> 0 < count (inside k) (pcs s)) /\
  (forall k, count (holding k) (pcs s) <= 1) /\
  count is_panicked (pcs s) = 0 /\
  ((forall t x, nth_error (pcs s) t = Some x -> x = Out) -> tab s = []).
Proof.
  intros n sched Hn. repeat split.
  - intros k. exact (refcount_exact n Hn sched k).
  - apply (entry_iff_referenced n Hn sched).
  - apply (entry_iff_referenced n Hn sched).
  - intros k. exact (mutual_exclusion n Hn sched k).
  - exact (never_panics n Hn sched).
  - exact (empty_when_all_out n Hn sched).
Qed.
Print Assumptions C13_mutexmap.

(* ... in particular for schedules of Lock/Unlock only (the statement of round 1) *)
Theorem C13_mutexmap_lock_only : forall n sched, Z.of_nat n < 65536 ->
  let s := exec (MutexMap.init n) sched in
  (forall k, (exists e, lookup (tab s) k = Some e) <-> 0 < count (inside k) (pcs s)) /\
  ((forall t x, nth_error (pcs s) t = Some x -> x = Out) -> tab s = []).
Proof.
  intros n sched Hn. cbv zeta. rewrite exec_as_exec2. split.
  - apply (entry_iff_referenced n Hn).
  - exact (empty_when_all_out n Hn _).
Qed.
Print Assumptions C13_mutexmap_lock_only.

(* TryLock(k) of a thread that is outside, in any reachable state: when the lock of k is taken the
   call changes NOTHING -- no entry is created, no reference is kept, the caller stays outside (so
   handleReq's fall-back, TryLock then Lock, takes exactly one reference); when it is free the
   caller is in the critical section of k at once, referring to the entry the map holds for k *)
Theorem C13_trylock : forall n sched t k, Z.of_nat n < 65536 ->
  let s := exec2 (MutexMap.init n) sched in
  nth_error (pcs s) t = Some Out ->
  if try_ok s k
  then exists e, nth_error (pcs (step2 s (t, k, true))) t = Some (Holding k e) /\
                 lookup (tab (step2 s (t, k, true))) k = Some e
  else step2 s (t, k, true) = s.
Proof.
  intros n sched t k Hn s Ht. pose proof (try_step_result s t k Ht) as H.
  unfold step2. rewrite Ht. exact H.
Qed.
Print Assumptions C13_trylock.

From GoCoap Require Dedup.Proofs Retx.Proofs Limiter.Proofs Blockwise.Proofs Blockwise.Config.

(* response cache, from EVERY reachable state (arbitrary history pre): once more than the exchange
   lifetime has passed without a new request (quiet = ageing and ticks only), the next
   housekeeping tick leaves the cache empty *)
Theorem C13_cache_expires : forall own0 pre quiet,
  DP.ages_ok pre -> Forall d_quiet quiet -> D.LIFETIME < DP.total_age quiet ->
  D.cache (DP.final (DP.final (DP.final (D.init own0) pre) quiet) [D.Tick]) = [].
Proof. exact cache_expires. Qed.
Print Assumptions C13_cache_expires.

(* pending confirmables, every history: an entry belongs to a request that is still waiting for
   its acknowledgement, so when every call has returned the table is empty *)
Theorem C13_pending_empty : forall c evs,
  let s := RP.final c R.init evs in
  (forall p, In p (R.pending s) -> exists q, In q (R.reqs s) /\ R.q_id q = R.p_id p /\ R.is_wait_ack (R.q_st q) = true) /\
  (all_returned s -> R.pending s = []).
Proof.
  intros c evs s. split; [apply pend_owned_run; intros p []|apply pending_empty].
Qed.
Print Assumptions C13_pending_empty.

(* ... an entry whose deadline has passed or whose retransmissions are exhausted does not survive
   the next tick ... *)
Theorem C13_pending_tick : forall c s p',
  In p' (R.pending (fst (R.step c s R.Tick))) ->
  exists p b, In p (R.pending s) /\ ~ p_expired c p /\ R.tick_entry c p = (Some p', b).
Proof. exact tick_removes_expired. Qed.
Print Assumptions C13_pending_tick.

(* ... and entries without caller and deadline (AsyncPing) are all gone after MAX_RETRANSMIT+1
   ticks once ACK_TIMEOUT*(MAX_RETRANSMIT+1) has passed *)
Theorem C13_pending_exhausts : forall c l, 0 <= R.ack_ms c -> 0 <= R.max_rt c ->
  Forall (fun p => 0 <= R.p_count p /\ R.ack_ms c * (R.max_rt c + 1) < R.p_elapsed p) l ->
  ticks c (S (Z.to_nat (R.max_rt c))) l = [].
Proof. exact pending_exhausts. Qed.
Print Assumptions C13_pending_exhausts.

(* token continuations (doInternal as a program over the token table), every schedule of
   registrations, deliveries and returns: an entry belongs to a call that registered and has not
   returned; the deferred removal of a returning call leaves no entry of that call; when every
   call has returned the table is empty *)
Theorem C13_tokens : forall l,
  (forall tok r, In (tok, r) (ttab (trun toks0 l)) -> tst (trun toks0 l) r = TWait tok) /\
  (forall r tok, tst (trun toks0 l) r = TWait tok -> forall tok', ~ In (tok', r) (ttab (tstep (trun toks0 l) (TExit r)))) /\
  ((forall r tok, tst (trun toks0 l) r <> TWait tok) -> ttab (trun toks0 l) = []).
Proof.
  intros l. split; [apply tokens_owned|]. split; [apply exit_removes_own_entry|apply tokens_gone].
Qed.
Print Assumptions C13_tokens.

(* limiter: re-export of C16_idle *)
Theorem C13_limiter_idle : forall limit epl tr,
  let l := L.run (L.new_lim limit epl) tr in
  LP.all_done l -> (forall k, L.tab l k = None) /\ L.held l = 0 /\ L.semq l = [].
Proof. exact LP.idle. Qed.
Print Assumptions C13_limiter_idle.

(* block-wise caches (Blockwise.Model): a Do that completes or gives up removes the entry it
   registered, a Do that fails at once leaves the cache as it found it, and the sweep with every
   deadline passed empties both caches of the side *)
Theorem C13_blockwise :
  (forall p d e p' e' rets, B.complete p d e = (p', e', rets) ->
     forall i t, In (i, t) p -> existsb (fun m => B.mtok m =? t) d = true -> B.tget (B.sending e') t = None) /\
  (forall c w i t, find (fun p => Nat.eqb (fst p) i) (B.pending w) = Some (i, t) ->
     B.tget (B.sending (B.wa (fst (B.step c w (BC.Timeout i))))) t = None) /\
  (forall e r e', B.do_start e r = (e', None) -> forall k, B.tget (B.sending e') k = B.tget (B.sending e) k) /\
  (forall c w atB, let w' := fst (B.step c w (BC.Expire atB)) in
     if atB then B.sending (B.wb w') = [] /\ B.receiving (B.wb w') = []
     else B.sending (B.wa w') = [] /\ B.receiving (B.wa w') = []).
Proof.
  split; [exact complete_removes|]. split; [exact timeout_removes|]. split; [exact do_start_error_neutral|exact expire_clears].
Qed.
Print Assumptions C13_blockwise.

(* observation table, every history of registrations, messages and cancellations: keys and ids
   are unique, and the entries past their first response are exactly the live registrations
   (added by a successful registration; removed by cancel, failed registration or eviction);
   with no registration in flight: table size = number of live observations *)
Theorem C13_observations : forall evs,
  let '(s, lv) := orun (O.st0, []) evs in
  OInv s lv /\ (no_waiting s -> length (O.tbl s) = length lv).
Proof. exact observations_are_live. Qed.
Print Assumptions C13_observations.

(* composition: for every history of the product model (any interleaving of the components'
   events; ageing non-negative), if every call has returned and no registration is in flight,
   then after ageing past every deadline, MAX_RETRANSMIT+1 ticks and the block-wise sweep every
   table is empty except the observation table, whose size is the number of live observations *)
Theorem C13_all : forall c lt le evs d, 0 <= R.ack_ms c -> 0 <= R.max_rt c -> Forall ev_ok evs ->
  let s := Model.run c (Model.init lt le) evs in
  calls_done s -> D.LIFETIME < d -> R.ack_ms c * (R.max_rt c + 1) < d ->
  sizes (closing c d s) = [0; 0; 0; 0; 0; 0; 0; 0; 0; 0; blen (live s)] /\
  total_size (closing c d s) = blen (live (closing c d s)).
Proof.
  intros c lt le evs d Hack Hmr Hev s Hdone Hd1 Hd2.
  assert (I : CInv lt le s) by (apply cinv_run; [apply cinv_init|exact Hev]).
  destruct (all_empty c lt le s d Hack Hmr I Hdone Hd1 Hd2) as [Hs Hl].
  split; [exact Hs|]. unfold total_size. rewrite Hs, Hl. cbn [fold_left]. lia.
Qed.
Print Assumptions C13_all.

(* ---- round 2: transport faults during the ticks, and the sweep of the expiry caches ---- *)

(* pending confirmables under transport faults, every write-outcome function [w] ("the write of the
   retransmitted copy of entry id fails"): the table after the tick is the table of a tick with a
   working transport -- a failed write is reported, it is not taken back from the retransmission
   count -- and the copies on the wire are exactly the retransmissions whose write succeeded *)
Theorem C13_tick_ignores_write_errors : forall c w l,
  tick_w_tbl c w l = fst (R.tick_all c l) /\
  snd (fst (tick_all_w c w l)) = filter (wire_ok w) (snd (R.tick_all c l)) /\
  snd (tick_all_w c w l) = blen (filter (fun e => negb (wire_ok w e)) (snd (R.tick_all c l))).
Proof. intros c w l. split; [apply tick_all_w_tbl|apply tick_all_w_wire]. Qed.
Print Assumptions C13_tick_ignores_write_errors.

(* ... hence for EVERY fault sequence [ws] (one write-outcome function per tick) the entries without
   caller and deadline (AsyncPing) are gone after MAX_RETRANSMIT+1 ticks once
   ACK_TIMEOUT*(MAX_RETRANSMIT+1) has passed *)
Theorem C13_pending_exhausts_faults : forall c ws l, 0 <= R.ack_ms c -> 0 <= R.max_rt c ->
  length ws = S (Z.to_nat (R.max_rt c)) ->
  Forall (fun p => 0 <= R.p_count p /\ R.ack_ms c * (R.max_rt c + 1) < R.p_elapsed p) l ->
  ticks_w c ws l = [].
Proof. exact pending_exhausts_faults. Qed.
Print Assumptions C13_pending_exhausts_faults.

From GoCoap Require Conn.Sweep.
Module SW := GoCoap.Conn.Sweep.

(* pkg/cache Cache.CheckExpirations (response cache and both block-wise caches), one undisturbed
   pass over a map of ANY size in ANY iteration order that reaches every key: exactly the entries
   whose deadline has not passed are left -- no expired entry survives the tick, however many
   expire at once; if all have expired the cache is empty; onExpire runs once per removed entry *)
Theorem C13_cache_sweep : forall now ord m, NoDup (SW.keys m) -> incl (SW.keys m) ord ->
  let r := SW.check_expirations now ord m in
  fst r = filter (SW.unexpired now) m /\
  (forall k e, In (k, e) (fst r) -> SW.is_expired now e = false) /\
  ((forall k e, In (k, e) m -> SW.is_expired now e = true) -> fst r = []) /\
  (length (snd r) + length (fst r) = length m)%nat.
Proof.
  intros now ord m ND Hc r. split; [apply SW.pass_complete; assumption|].
  split; [intros k e; apply SW.pass_leaves_no_expired; assumption|].
  split; [apply SW.pass_all_expired_empties; assumption|apply SW.pass_fires_once_per_removed; assumption].
Qed.
Print Assumptions C13_cache_sweep.

(* ... and every schedule of a pass interleaved with other goroutines (Range unlocks the map around
   the callback): once Range has produced key k and nobody stores under k from that read on, k
   holds no expired element when the pass ends *)
Theorem C13_cache_sweep_interleaved : forall now pre k mid post m,
  Forall (SW.no_put k) mid -> Forall (SW.item_no_put k) post ->
  SW.clean now k (fst (SW.run now (pre ++ SW.Visit k mid :: post) m)).
Proof. exact SW.pass_interleaved. Qed.
Print Assumptions C13_cache_sweep_interleaved.

(* composition under transport faults: as C13_all, the MAX_RETRANSMIT+1 closing ticks each with an
   arbitrary transport state (down = every write of a retransmitted copy fails) *)
Theorem C13_all_faults : forall c lt le evs d ws, 0 <= R.ack_ms c -> 0 <= R.max_rt c -> Forall ev_ok evs ->
  let s := Model.run c (Model.init lt le) evs in
  calls_done s -> D.LIFETIME < d -> R.ack_ms c * (R.max_rt c + 1) < d ->
  length ws = S (Z.to_nat (R.max_rt c)) ->
  sizes (closing_w c d ws s) = [0; 0; 0; 0; 0; 0; 0; 0; 0; 0; blen (live s)].
Proof.
  intros c lt le evs d ws Hack Hmr Hev s Hdone Hd1 Hd2 Hl. rewrite closing_w_closing by exact Hl.
  exact (proj1 (C13_all c lt le evs d Hack Hmr Hev Hdone Hd1 Hd2)).
Qed.
Print Assumptions C13_all_faults.

From GoCoap Require Conn.MidTick.
Module MT := GoCoap.Conn.MidTick.

(* pending confirmables (midHandlerContainer) under housekeeping ticks INTERLEAVED with the
   exchanges, every schedule (Range hands an entry out without the map lock; before the callback
   runs the exchange may end by itself -- ACK/RST, the sender gives up, the ping is cancelled --
   and its message ID may be taken by a new exchange): a message ID found in the table is one the
   exchanges' own operations alone would have left there, stored by a registration that no end of
   an exchange under that ID follows; so when every exchange that registered a continuation has
   ended, the table is EMPTY *)
Theorem C13_mid_tick_interleaved : forall c sch,
  (forall m k, MT.has (MT.run c sch m) k = true -> MT.has (MT.env_run (MT.env_of sch) m) k = true) /\
  (forall k, MT.has (MT.run c sch []) k = true ->
     exists tr1 e tr2, MT.env_of sch = tr1 ++ MT.Start k e :: tr2 /\ ~ In (MT.End k) tr2) /\
  ((forall k e tr1 tr2, MT.env_of sch = tr1 ++ MT.Start k e :: tr2 -> In (MT.End k) tr2) -> MT.run c sch [] = []).
Proof.
  intros c sch. split; [intros m k; apply MT.tick_adds_nothing|]. split; [|apply MT.all_ended_empty].
  intros k H. apply MT.tick_adds_nothing in H. apply MT.key_from_start in H.
  destruct H as [[H _]|H]; [discriminate|exact H].
Qed.
Print Assumptions C13_mid_tick_interleaved.

(* ... every schedule: an entry that is expired at the tick's [now] when Range hands it out is gone
   at the end of the pass (unless a new exchange takes its message ID meanwhile), whether it is
   still there when the callback runs or its exchange has ended in between *)
Theorem C13_mid_tick_expired : forall c pre k mid post m v,
  MT.lookup (MT.run c pre m) k = Some v -> MT.is_expired c v = true ->
  Forall (MT.no_start k) mid -> Forall (MT.item_no_start k) post ->
  MT.has (MT.run c (pre ++ MT.Visit k mid :: post) m) k = false.
Proof. exact MT.expired_fetched_gone. Qed.
Print Assumptions C13_mid_tick_expired.

(* ... and the undisturbed tick, any table, any visiting order: no entry whose deadline has passed
   (or whose retransmissions are used up) survives a pass that reaches its key; a pass that reaches
   every key once keeps every other entry *)
Theorem C13_mid_tick_pass : forall c ord m k v, MT.lookup m k = Some v ->
  (MT.is_expired c v = true -> In k ord -> MT.has (MT.tick c ord m) k = false) /\
  (MT.is_expired c v = false -> NoDup ord -> MT.has (MT.tick c ord m) k = true).
Proof.
  intros c ord m k v L. split; [intros Ex Hin; exact (MT.tick_removes_expired c ord m k v L Ex Hin)|].
  intros Ex ND. exact (MT.tick_keeps_unexpired c ord m k v L Ex ND).
Qed.
Print Assumptions C13_mid_tick_pass.

(* ---- round 4: a Cancel whose deregistration exchange fails; the limiter's cancel / hand-over race ---- *)

(* Observation.Cancel, from every state of the observation table that satisfies the invariant of
   C13_observations (every reachable one does), whatever becomes of the deregistration exchange --
   answered with any code, or FAILED (peer silent until the context ends, write refused, request
   rejected): the table and the live set after a failed Cancel are those after an answered one,
   nothing is kept under the token of the cancelled registration, and table = live observations
   continues to hold.  (cleanUp is Cancel's first statement.) *)
Theorem C13_cancel_failed_exchange : forall s lv id, OInv s lv ->
  let s' := fst (O.step O.observe_wire s (O.ECancelErr id)) in
  let lv' := live_after s lv (O.ECancelErr id) in
  (forall code, O.tbl s' = O.tbl (fst (O.step O.observe_wire s (O.ECancel id code))) /\
                lv' = live_after s lv (O.ECancel id code)) /\
  (forall tok, nth_error (O.regs s) id = Some tok -> O.tget (O.crc64 tok) (O.tbl s') = None) /\
  OInv s' lv' /\ (no_waiting s' -> length (O.tbl s') = length lv').
Proof. exact cancel_outcome_irrelevant. Qed.
Print Assumptions C13_cancel_failed_exchange.

(* limiter, EVERY schedule of the atomic sections (including a releaseEndpoint that hands its slot to
   a waiter which has already taken <-ctx.Done() and has not reached cancelEndpoint yet), every
   endpoint key: an entry of endpointQueues is held only for calls that have not returned -- the
   counter is the number of requests owning a slot of the key (>= 1, none of them returned), the queue
   is exactly the requests still waiting inside acquireEndpoint *)
Theorem C13_limiter_entries_owned : forall limit epl tr k cnt q,
  let l := L.run (L.new_lim limit epl) tr in
  L.tab l k = Some (cnt, q) ->
  cnt = Z.of_nat (length (LP.selK LP.holds_ep (L.keyof l) (L.st l) (L.arr l) k)) /\ 1 <= cnt /\
  q = LP.selK LP.waits_ep (L.keyof l) (L.st l) (L.arr l) k /\
  (exists r, In r (L.arr l) /\ L.keyof l r = k /\ LP.holds_ep (L.st l r) = true /\ forall e, L.st l r <> L.Done e).
Proof. exact limiter_entries_owned. Qed.
Print Assumptions C13_limiter_entries_owned.

(* ... and in every reachable state a cancelled waiter that was handed a slot in that window gives
   it back in its two remaining sections (cancelEndpoint does not find its channel => releaseEndpoint):
   the slot goes to the head of the queue, or the counter drops and the entry is deleted at 0 *)
Theorem C13_limiter_handover_returned : forall limit epl tr r,
  let l := L.run (L.new_lim limit epl) tr in
  L.st l r = L.CancelG ->
  let l2 := L.step (L.step l (L.CancelSec r)) (L.ReleaseEp r) in
  L.st l2 r = L.Done L.ErrEp /\
  exists cnt q, L.tab l (L.keyof l r) = Some (cnt, q) /\ 1 <= cnt /\ ~ In r q /\
    match q with
    | w :: rest => L.tab l2 (L.keyof l r) = Some (cnt, rest) /\ L.st l2 w = L.grant_ep (L.st l w)
    | [] => L.tab l2 (L.keyof l r) = (if cnt - 1 =? 0 then None else Some (cnt - 1, []))
    end.
Proof. exact limiter_handover_returned. Qed.
Print Assumptions C13_limiter_handover_returned.

(* (C13_all / C13_all_faults quantify over histories with the events ObCancelErr, LmAct and
   LmSettleHold as well: the composition covers failed deregistrations and the hand-over race.)
   Non-trivial instance: request 1 holds the only slot of endpoint 7, request 2 is queued, 2 is
   cancelled and takes <-ctx.Done(), 1 finishes while 2 is delayed: 2 owns the slot (entry kept, queue
   empty); when 2 goes on the entry is deleted.  A live observation whose Cancel fails leaves no entry. *)
Example C13_round4_instance :
  let c := {| R.ack_ms := 140000; R.max_rt := 2; R.nstart := 16 |} in
  let evs := [LmArrive 1 7; LmSettle; LmArrive 2 7; LmSettle; LmCancel 2; LmAct (L.SeeCancel 2%N);
              LmFinish 1; LmSettleHold [2%N]; ObReg [1; 2]; ObMsg [1; 2] 69 (Some [2]) 0] in
  let s := Model.run c (Model.init 0 1) evs in
  L.st (lm s) 2%N = L.CancelG /\
  sizes s = [0; 0; 0; 0; 0; 0; 1; 0; 0; 0; 1] /\
  sizes (Model.run c s [LmSettle; ObCancelErr 0]) = [0; 0; 0; 0; 0; 0; 0; 0; 0; 0; 0] /\
  live (Model.run c s [LmSettle; ObCancelErr 0]) = [].
Proof. vm_compute. repeat split; reflexivity. Qed.

(* non-trivial instances: two copies of a request contending for the per-ID lock (the second one's
   TryLock fails, it waits in Lock), and a tick that holds an expired entry while its exchange is
   acknowledged and the message ID is reused *)
Example C13_round3_instance :
  (let s := exec2 (MutexMap.init 2) [(0%nat, 7, true); (1%nat, 7, true); (1%nat, 7, false)] in
   try_ok (exec2 (MutexMap.init 2) [(0%nat, 7, true)]) 7 = false /\
   map (fun ke => (fst ke, cnt (heap s (snd ke)))) (tab s) = [(7, 2)] /\
   tab (lock_cycle_contended (MutexMap.init 2) 7) = []) /\
  (let c := MT.mkC 400000 2 140000 in
   let e1 := MT.mkE 1 0 (Some 120000) 0 in let e2 := MT.mkE 2 0 (Some 7200000) 0 in let e3 := MT.mkE 3 0 None 0 in
   MT.keys (MT.run c [MT.Env (MT.Start 5 e1); MT.Env (MT.Start 6 e2); MT.Visit 5 [MT.End 5; MT.Start 5 e3]; MT.Visit 6 []] []) = [6] /\
   MT.run c [MT.Env (MT.Start 5 e1); MT.Visit 5 [MT.End 5]] [] = []).
Proof. vm_compute. repeat split; reflexivity. Qed.

(* non-trivial instances: a lost ping whose retransmissions cannot be written, and a cache of 40
   entries of which 35 expire in the same tick (keys visited in descending order) *)
Example C13_faults_instance :
  let c := {| R.ack_ms := 140000; R.max_rt := 2; R.nstart := 16 |} in
  let s := Model.run c (Model.init 0 1) [PingStart 1; AgeAll 300000; TickAllW true; AgeAll 300000; TickAllW true] in
  sizes s = [0; 1; 0; 0; 0; 0; 0; 0; 0; 0; 0] /\
  sizes (Model.step c s (TickAllW true)) = [0; 0; 0; 0; 0; 0; 0; 0; 0; 0; 0] /\
  (let m := map (fun k => (k, SW.mkE (if k <? 5 then None else Some (k * 10)) k)) (map Z.of_nat (seq 0 40)) in
   SW.keys (fst (SW.check_expirations 1000 (rev (SW.keys m)) m)) = [0; 1; 2; 3; 4]).
Proof. vm_compute. repeat split; reflexivity. Qed.

(* the hypotheses are satisfiable by a non-trivial history: a request that is registered,
   transmitted, acknowledged and then cancelled, a datagram handled under the per-ID lock and
   cached, a live observation and a lost ping; all calls returned *)
Example C13_all_instance :
  let c := {| R.ack_ms := 140000; R.max_rt := 2; R.nstart := 16 |} in
  let evs := [LmArrive 1 7; LmSettle; BwPutS 1; RxSend 1; RxAck 1; EIn 0 1 77 true; PingStart 5;
              ObReg [1; 2]; ObMsg [1; 2] 69 (Some [2]) 0; RxCancel 1; BwDelS 1; LmFinish 1; LmSettle; AgeAll 1000; TickAll] in
  let s := Model.run c (Model.init 0 1) evs in
  sizes s = [0; 1; 0; 1; 0; 0; 0; 0; 0; 0; 1] /\
  sizes (closing c 7500000 s) = [0; 0; 0; 0; 0; 0; 0; 0; 0; 0; 1].
Proof. vm_compute. split; reflexivity. Qed.

(* ---- round 5: keep-alive pings and the first response of a registration ---- *)
From GoCoap Require Conn.KeepAlive Conn.ObsFirst Monitor.Model Observe.Model.
Module KA := GoCoap.Conn.KeepAlive.
Module MM := GoCoap.Monitor.Model.
Module OM := GoCoap.Observe.Model.

(* the keep-alive of a connection (net/monitor/inactivity KeepAlive, Monitor/Model.v) composed with the
   table its pings' continuations live in (tcp: tokenHandlerContainer, udp: midHandlerContainer):
   for EVERY history of received messages, pongs (current, late, unknown), ticks with a working or a
   failing transport, the table holds at most ONE ping continuation and it belongs to the ping whose
   cancel function the keep-alive still keeps; nothing is held when no cancel function is kept or the
   connection has been declared inactive *)
Theorem C13_keepalive_table_bounded : forall c t0 h,
  let '(s, t) := KA.krun c (KA.kinit t0) h in
  (length t <= 1)%nat /\
  (forall g, In g t -> MM.pending s = Some g) /\
  (MM.pending s = None -> t = []) /\
  (MM.closed s = true -> t = []).
Proof. exact KA.keepalive_table_bounded. Qed.
Print Assumptions C13_keepalive_table_bounded.

(* a keep-alive round that acts in ANY reachable state -- in particular after a ping that was left
   unanswered while other messages arrived -- leaves exactly the new ping's continuation, or none *)
Theorem C13_keepalive_round_replaces : forall c t0 h tm ok,
  let x := KA.krun c (KA.kinit t0) h in
  let '(s1, t1, o) := KA.kstep c x (MM.Tick tm ok) in
  MM.closed (fst x) = false -> o <> [] ->
  (exists g, In (MM.Ping g) o /\ t1 = [g] /\ MM.pending s1 = Some g) \/
  ((exists g, In (MM.PingFail g) o) /\ t1 = []) \/
  (In MM.Close o /\ MM.ka c = true /\ t1 = []) \/
  (MM.ka c = false /\ t1 = snd x).
Proof. exact KA.keepalive_round_replaces. Qed.
Print Assumptions C13_keepalive_round_replaces.

(* the answer to the outstanding ping leaves nothing *)
Theorem C13_keepalive_pong_empties : forall c t0 h g tm,
  let x := KA.krun c (KA.kinit t0) h in
  In g (snd x) -> MM.closed (fst x) = false ->
  snd (fst (KA.kstep c x (MM.Pong g tm))) = [].
Proof. exact KA.keepalive_pong_empties. Qed.
Print Assumptions C13_keepalive_pong_empties.

(* a first response without the Observe option ends the registration with no observation live:
   from ANY state, for ANY response code (2.05, 2.03 Valid of a conditional registration, an error),
   the entry of that registration is gone when NewObservation returns; other entries are untouched *)
Theorem C13_registration_not_established : forall dec s m now o,
  OM.tget (OM.crc64 (OM.m_tok m)) (OM.tbl s) = Some o -> OM.o_wait o = true -> dec m = None ->
  let r := OM.handle_msg dec s m now in
  OM.tget (OM.crc64 (OM.o_tok o)) (OM.tbl (fst r)) = None /\
  OM.regs (fst r) = OM.regs s /\
  (forall k, k <> OM.crc64 (OM.o_tok o) -> OM.tget k (OM.tbl (fst r)) = OM.tget k (OM.tbl s)) /\
  (In (OM.RegRet (OM.o_id o) 1) (snd r) \/ In (OM.RegRet (OM.o_id o) 2) (snd r)).
Proof. exact GoCoap.Conn.ObsFirst.first_response_without_observe. Qed.
Print Assumptions C13_registration_not_established.

(* non-trivial instance: keep-alive with 5 retries; ping 1 is left unanswered while two other messages
   arrive, the next round replaces it by ping 2 (one continuation), a late pong for ping 1 changes
   nothing, the pong for ping 2 empties the table.  A conditional registration answered 2.03 Valid
   without Observe leaves no entry. *)
Example C13_round5_instance :
  let c := {| MM.period := 1; MM.maxr := 5; MM.ka := true |} in
  let h := [MM.Tick 3600 true; MM.Recv 0; MM.Recv 0; MM.Tick 7200 true; MM.Pong 1 0] in
  snd (KA.krun c (KA.kinit 0) h) = [2] /\
  snd (KA.krun c (KA.kinit 0) (h ++ [MM.Pong 2 0])) = [] /\
  (let s := GoCoap.Conn.Model.run {| R.ack_ms := 140000; R.max_rt := 2; R.nstart := 16 |} (GoCoap.Conn.Model.init 0 1)
              [ObReg [1; 2]; ObMsg [1; 2] 67 None 0] in
   sizes s = [0; 0; 0; 0; 0; 0; 0; 0; 0; 0; 0] /\ live s = []).
Proof. vm_compute. repeat split; reflexivity. Qed.
