(* C13 -- No per-exchange state outlives the exchange.  Statements only; proofs in Conn/. *)
From Coq Require Import ZArith NArith List Bool.
From GoCoap Require Import Conn.MutexMap Conn.Model Conn.Spec Conn.Proofs.
Import ListNotations.
Open Scope Z_scope.

(* udp/client/mutexmap.go, every schedule of n < 2^16 threads: the entry for k exists iff its
   reference count is positive; the count is the number of threads between the map section of
   Lock(k) and the map section of Unlock; at most one thread is in the critical section of k;
   Unlock never panics; when no thread is inside, the map is empty *)
Theorem C13_mutexmap : forall n sched, Z.of_nat n < 65536 ->
  let s := exec (MutexMap.init n) sched in
  (forall k, match lookup (tab s) k with
             | Some e => cnt (heap s e) = count (inside k) (pcs s) /\ 0 < cnt (heap s e)
             | None => count (inside k) (pcs s) = 0
             end) /\
  (forall k, (exists e, lookup (tab s) k = Some e) <-> 0 < count (inside k) (pcs s)) /\
  (forall k, count (holding k) (pcs s) <= 1) /\
  count is_panicked (pcs s) = 0 /\
  ((forall t x, nth_error (pcs s) t = Some x -> x = Out) -> tab s = []).
Proof.
  intros n sched Hn. repeat split.
  - intros k. exact (refcount_exact n Hn sched k).
  - apply (entry_iff_referenced n Hn sched).
  - apply (entry_iff_referenced n Hn sched).
  - intros k. exact (mutual_exclusion n Hn sched k).
  - exact (never_panics n Hn sched).
  - exact (empty_when_all_out n Hn sched).
Qed.
Print Assumptions C13_mutexmap.
