(* C18 -- inactivity and keep-alive monitors close exactly the dead connections.
   Statements only; proofs are in Monitor/Proofs.v.  The model (Monitor/Model.v)
   transcribes inactivity.Monitor, inactivity.KeepAlive and their drivers; the
   datagram-path look-ahead is Gen.MonitorTiming.lookahead, regenerated from
   udp/server/server.go on every run.

   Reading guide.  A history h is any list of events
     Recv t | Pong g t | PongCb g | Tick t sendok | Dgram t sendok | Frag t
   (Model.ev; Frag t = bytes that complete no message arrive on a stream connection); [run c (init t0) h] is the list of (event, what the monitor did).
   [wf c]: maxRetries is a uint32 other than 2^32-1.  [rx_ordered t0 h]: the
   arrival times of messages do not go backwards (monotonic clock); ticks may
   carry any time.  For an item at position |pre| of the trace, [rev pre] is the
   past, most recent first.  [has_strike o]: the monitor acted (ping attempt or
   close); [has_close o]: it closed the connection.  [rx_all past]: the arrival
   times of all messages received so far.  [tick_time]: t for Tick t, and
   t + lookahead for the datagram path of the udp server. *)
From Coq Require Import ZArith List Bool.
From GoCoap Require Import Gen.MonitorTiming Gen.StreamConsts Monitor.Model Monitor.Spec Monitor.Proofs.
From GoCoap Require Import Monitor.StreamModel Monitor.StreamProofs.
From GoCoap Require Stream.Spec Stream.Proofs.
Import ListNotations.
Open Scope Z_scope.

(* Every trace, over every history, passes the executable judge of Spec.v (the
   same judge bin/check evaluates on the traces observed on the Go code). *)
Theorem C18_spec_all : forall c t0 h, wf c -> rx_ordered t0 h ->
  spec_ok (P_of c t0) (run c (init t0) h) = true.
Proof. exact spec_all. Qed.
Print Assumptions C18_spec_all.

(* The monitor closes (or, with keep-alive, counts a failure and pings) only at
   a tick, only while the connection is open, and only if no message was
   received in (tau - period, tau]; on the datagram path of the server tau is
   the arrival time plus the look-ahead, i.e. the window is shorter by the slack.
   (The model and the code are in fact strict: r + period < tau, see
   Monitor.Model.check; the text leaves the exact boundary open, so the judge
   and this statement do too.) *)
Theorem C18_only_if_idle : forall c t0 h pre e o post,
  wf c -> rx_ordered t0 h ->
  run c (init t0) h = pre ++ (e, o) :: post ->
  has_strike o = true ->
  was_closed (rev pre) = false /\
  exists tau, tick_time (P_of c t0) e = Some tau /\ period c <> 0 /\
    forall r, In r (t0 :: rx_all (rev pre)) -> r + period c <= tau.
Proof.
  intros c t0 h pre e o post W Ho Hs Ha.
  destruct (acts_only_if_idle c t0 h W Ho pre post e o Hs Ha) as [A [tau [B [C [_ D]]]]].
  split; [exact A|]. exists tau. auto.
Qed.
Print Assumptions C18_only_if_idle.

(* the comparison of the code is strict *)
Theorem C18_strict_boundary : forall c s tau ok, snd (check c s tau ok) <> [] ->
  period c <> 0 /\ last s + period c < tau.
Proof. exact check_acts_strict. Qed.
Print Assumptions C18_strict_boundary.

(* At the first tick (any tick) later than a full period after the latest
   message the monitor acts; without keep-alive that action is the close. *)
Theorem C18_first_tick : forall c t0 h pre e o post tau,
  wf c -> rx_ordered t0 h ->
  run c (init t0) h = pre ++ (e, o) :: post ->
  was_closed (rev pre) = false -> tick_time (P_of c t0) e = Some tau -> period c <> 0 ->
  (forall r, In r (t0 :: rx_all (rev pre)) -> r + period c < tau) ->
  has_strike o = true /\ (ka c = false -> has_close o = true).
Proof. intros c t0 h pre e o post tau W Ho Hs. exact (acts_at_first_idle_tick c t0 h W Ho pre post e o Hs tau). Qed.
Print Assumptions C18_first_tick.

(* Keep-alive: the connection is closed exactly at failure max+1, where
   failures are counted since the last reset point (received message or answer
   to the current ping): a close needs max failures (pings sent or attempted and
   left unanswered) before it, and once max failures have accumulated the next
   idle tick closes instead of pinging again. *)
Theorem C18_keepalive_close : forall c t0 h pre e o post,
  wf c -> rx_ordered t0 h ->
  run c (init t0) h = pre ++ (e, o) :: post ->
  ka c = true -> has_strike o = true ->
  (has_close o = true <-> maxr c <= failures (rev pre)).
Proof. intros c t0 h pre e o post W Ho Hs. exact (keepalive_close_exact c t0 h W Ho pre post e o Hs). Qed.
Print Assumptions C18_keepalive_close.

(* Any received message or answered current ping resets the count: a close
   after such an item needs max failures that all lie after it. *)
Theorem C18_reset : forall c t0 h older it mid e o post,
  wf c -> rx_ordered t0 h -> ka c = true ->
  run c (init t0) h = (older ++ it :: mid) ++ (e, o) :: post ->
  is_reset (rev older) it = true -> has_close o = true ->
  maxr c <= strikes (rev mid).
Proof. exact reset_then_close. Qed.
Print Assumptions C18_reset.

Theorem C18_reset_state : forall c s t, ka c = true ->
  fails (notify c s t) = 0 /\ fails (pong_cb s (token s)) = 0.
Proof. intros c s t K. split; [exact (message_resets c s t K)|exact (current_pong_resets s)]. Qed.
Print Assumptions C18_reset_state.

(* A late answer to an earlier ping is not credited: its callback leaves the
   state untouched, as a datagram it is worth what any other message is worth,
   and the judge does not treat it as a reset point. *)
Theorem C18_late_pong : forall c s g t, g <> token s ->
  pong_cb s g = s /\ step c s (PongCb g) = (s, []) /\
  step c s (Pong g t) = step c s (Recv t).
Proof.
  intros c s g t H. split; [exact (late_pong_cb s g H)|]. split; [|exact (late_pong_is_recv c s g t H)].
  unfold step. destruct (closed s); [reflexivity|]. rewrite (late_pong_cb s g H). reflexivity.
Qed.
Print Assumptions C18_late_pong.

Theorem C18_late_pong_no_reset : forall older g o, g <> cur_gen older -> is_reset older (PongCb g, o) = false.
Proof. exact late_pong_no_reset. Qed.
Print Assumptions C18_late_pong_no_reset.

(* ---- stream connections (TCP/TLS), byte level ---------------------------------
   The peer's messages [fs] are encoded per RFC 8323 (Stream.Spec.encode_frame),
   each within the session's limit [max] (Stream.Proofs.good); the socket hands
   the stream over in reads of arbitrary lengths at non-decreasing times, with
   ticks in between (Model.bev).  [StreamModel.abs] is the code: C07's model of
   Session.Run/processBuffer composed with "one Notify per decoded message";
   [Spec.sabs] is the text: message k is received by the read that delivers its
   last byte, anything less (a header announcing a body that has not arrived, a
   peer dribbling single bytes) is a fragment and not a message. *)

(* the code's notion of "message received" is the text's, for every cutting of the stream *)
Theorem C18_stream_refines : forall max fs bh,
  (forall f, In f fs -> Stream.Proofs.good max f) -> max <= messageMaxLen + 65805 ->
  abs max (stream_of fs) SM.init bh = sabs (sizes_of fs) 0 bh.
Proof. intros max fs bh. exact (abs_sabs max fs bh). Qed.
Print Assumptions C18_stream_refines.

(* every byte-level trace of the model passes the byte-level judge (the one
   bin/check evaluates on the traces observed on a real tcp connection) *)
Theorem C18_stream_spec_all : forall c t0 max fs bh,
  wf c -> (forall f, In f fs -> Stream.Proofs.good max f) -> max <= messageMaxLen + 65805 -> b_ordered t0 bh ->
  stream_judge (P_of c t0) (sizes_of fs) (brun c t0 max (stream_of fs) bh) = 0%N.
Proof. exact stream_spec_all. Qed.
Print Assumptions C18_stream_spec_all.

(* the monitor acts at a tick only if every message whose last byte has arrived is
   at least a full period old ... *)
Theorem C18_stream_only_if_idle : forall c t0 max fs bh1 bh2 tau ok,
  wf c -> (forall f, In f fs -> Stream.Proofs.good max f) -> max <= messageMaxLen + 65805 ->
  b_ordered t0 (bh1 ++ BTick tau ok :: bh2) ->
  has_strike (tick_out c t0 max fs bh1 tau ok) = true ->
  period c <> 0 /\ forall r, In r (t0 :: completion_times (sizes_of fs) 0 bh1) -> r + period c <= tau.
Proof. exact stream_only_if_idle. Qed.
Print Assumptions C18_stream_only_if_idle.

(* ... and it does act at the first tick later than a full period after the latest
   COMPLETE message (without keep-alive: closes), however many bytes of incomplete
   messages arrived in the meantime: fragments never postpone the close *)
Theorem C18_stream_first_tick : forall c t0 max fs bh1 bh2 tau ok,
  wf c -> (forall f, In f fs -> Stream.Proofs.good max f) -> max <= messageMaxLen + 65805 ->
  b_ordered t0 (bh1 ++ BTick tau ok :: bh2) ->
  closed (state_before c t0 max fs bh1) = false -> period c <> 0 ->
  (forall r, In r (t0 :: completion_times (sizes_of fs) 0 bh1) -> r + period c < tau) ->
  has_strike (tick_out c t0 max fs bh1 tau ok) = true /\
  (ka c = false -> has_close (tick_out c t0 max fs bh1 tau ok) = true).
Proof. exact stream_first_tick. Qed.
Print Assumptions C18_stream_first_tick.

(* a read that completes no message: the monitor state is untouched (no stamp, no
   reset of the failure count), and any proper prefix of a good frame is such a read *)
Theorem C18_stream_fragment : forall c s t,
  step c s (Frag t) = (s, []) /\
  (forall sizes got n bh, complete sizes (Z.min (got + Z.of_nat n) (total sizes)) = complete sizes got ->
     sabs sizes got (BRead t n :: bh) = [Frag t] :: sabs sizes (Z.min (got + Z.of_nat n) (total sizes)) bh) /\
  (forall max f rest p q, Stream.Proofs.good max f -> max <= messageMaxLen + 65805 ->
     p ++ q = Stream.Spec.encode_frame f ++ rest -> (length p < length (Stream.Spec.encode_frame f))%nat ->
     SM.step max p = SM.Wait).
Proof.
  intros c s t. split; [exact (fragment_inert c s t)|]. split; [intros; apply fragment_read; assumption|].
  intros max f rest p q. exact (proper_prefix_waits max f rest p q).
Qed.
Print Assumptions C18_stream_fragment.

(* non-vacuity at byte level: period 1000, no keep-alive; a 2-byte message read at
   100; then a 9-byte message (token 7, payload 5 bytes) arrives as 3 bytes at 600
   and never completes: the tick at 1101 closes, the fragment did not count *)
Example C18_stream_witness :
  let c := {| period := 1000; maxr := 0; ka := false |} in
  let fs := [Stream.Spec.MkFrame 69 [] [] []; Stream.Spec.MkFrame 1 [7] [] [1; 2; 3; 4; 5]] in
  let bh := [BRead 100 2; BRead 600 3; BTick 1100 true; BTick 1101 true] in
  wf c /\ (forall f, In f fs -> Stream.Proofs.good 1024 f) /\ b_ordered 0 bh /\
  completion_times (sizes_of fs) 0 bh = [100] /\
  brun c 0 1024 (stream_of fs) bh =
    [(BRead 100 2, []); (BRead 600 3, []); (BTick 1100 true, []); (BTick 1101 true, [Close])].
Proof.
  cbv zeta. split; [unfold wf; cbn; split; [discriminate|reflexivity]|]. split.
  - intros f [<-|[<-|[]]]; split; vm_compute; try reflexivity; discriminate.
  - split; [cbn; repeat split; discriminate|]. split; vm_compute; reflexivity.
Qed.

(* non-vacuity: period 1 s, maxRetries 1; ping, other message, two more idle
   ticks: the message resets the count, so the close comes at the third tick *)
Example C18_witness :
  let c := {| period := 1000; maxr := 1; ka := true |} in
  let h := [Tick 1001 true; Recv 1500; Tick 2501 true; PongCb 1; Tick 2600 true; Tick 2700 true] in
  wf c /\ rx_ordered 0 h /\
  run c (init 0) h =
    [(Tick 1001 true, [Ping 1]); (Recv 1500, []); (Tick 2501 true, [Cancel 1; Ping 2]);
     (PongCb 1, []); (Tick 2600 true, [Cancel 2; Close]); (Tick 2700 true, [])].
Proof. cbv zeta. split; [unfold wf; cbn; split; [discriminate|reflexivity]|]. split; [cbn; repeat split; discriminate|]. vm_compute. reflexivity. Qed.
