(* C18 -- inactivity and keep-alive monitors close exactly the dead connections.
   Statements only; proofs are in Monitor/Proofs.v.  The model (Monitor/Model.v)
   transcribes inactivity.Monitor, inactivity.KeepAlive and their drivers; the
   datagram-path look-ahead is Gen.MonitorTiming.lookahead, regenerated from
   udp/server/server.go on every run.

   Reading guide.  A history h is any list of events
     Recv t | Pong g t | PongCb g | Tick t sendok | Dgram t sendok
   (Model.ev); [run c (init t0) h] is the list of (event, what the monitor did).
   [wf c]: maxRetries is a uint32 other than 2^32-1.  [rx_ordered t0 h]: the
   arrival times of messages do not go backwards (monotonic clock); ticks may
   carry any time.  For an item at position |pre| of the trace, [rev pre] is the
   past, most recent first.  [has_strike o]: the monitor acted (ping attempt or
   close); [has_close o]: it closed the connection.  [rx_all past]: the arrival
   times of all messages received so far.  [tick_time]: t for Tick t, and
   t + lookahead for the datagram path of the udp server. *)
From Coq Require Import ZArith List Bool.
From GoCoap Require Import Gen.MonitorTiming Monitor.Model Monitor.Spec Monitor.Proofs.
Import ListNotations.
Open Scope Z_scope.

(* Every trace, over every history, passes the executable judge of Spec.v (the
   same judge bin/check evaluates on the traces observed on the Go code). *)
Theorem C18_spec_all : forall c t0 h, wf c -> rx_ordered t0 h ->
  spec_ok (P_of c t0) (run c (init t0) h) = true.
Proof. exact spec_all. Qed.
Print Assumptions C18_spec_all.

(* The monitor closes (or, with keep-alive, counts a failure and pings) only at
   a tick, only while the connection is open, and only if no message was
   received in (tau - period, tau]; on the datagram path of the server tau is
   the arrival time plus the look-ahead, i.e. the window is shorter by the slack.
   (The model and the code are in fact strict: r + period < tau, see
   Monitor.Model.check; the text leaves the exact boundary open, so the judge
   and this statement do too.) *)
Theorem C18_only_if_idle : forall c t0 h pre e o post,
  wf c -> rx_ordered t0 h ->
  run c (init t0) h = pre ++ (e, o) :: post ->
  has_strike o = true ->
  was_closed (rev pre) = false /\
  exists tau, tick_time (P_of c t0) e = Some tau /\ period c <> 0 /\
    forall r, In r (t0 :: rx_all (rev pre)) -> r + period c <= tau.
Proof.
  intros c t0 h pre e o post W Ho Hs Ha.
  destruct (acts_only_if_idle c t0 h W Ho pre post e o Hs Ha) as [A [tau [B [C [_ D]]]]].
  split; [exact A|]. exists tau. auto.
Qed.
Print Assumptions C18_only_if_idle.

(* the comparison of the code is strict *)
Theorem C18_strict_boundary : forall c s tau ok, snd (check c s tau ok) <> [] ->
  period c <> 0 /\ last s + period c < tau.
Proof. exact check_acts_strict. Qed.
Print Assumptions C18_strict_boundary.

(* At the first tick (any tick) later than a full period after the latest
   message the monitor acts; without keep-alive that action is the close. *)
Theorem C18_first_tick : forall c t0 h pre e o post tau,
  wf c -> rx_ordered t0 h ->
  run c (init t0) h = pre ++ (e, o) :: post ->
  was_closed (rev pre) = false -> tick_time (P_of c t0) e = Some tau -> period c <> 0 ->
  (forall r, In r (t0 :: rx_all (rev pre)) -> r + period c < tau) ->
  has_strike o = true /\ (ka c = false -> has_close o = true).
Proof. intros c t0 h pre e o post tau W Ho Hs. exact (acts_at_first_idle_tick c t0 h W Ho pre post e o Hs tau). Qed.
Print Assumptions C18_first_tick.

(* Keep-alive: the connection is closed exactly at failure max+1, where
   failures are counted since the last reset point (received message or answer
   to the current ping): a close needs max failures (pings sent or attempted and
   left unanswered) before it, and once max failures have accumulated the next
   idle tick closes instead of pinging again. *)
Theorem C18_keepalive_close : forall c t0 h pre e o post,
  wf c -> rx_ordered t0 h ->
  run c (init t0) h = pre ++ (e, o) :: post ->
  ka c = true -> has_strike o = true ->
  (has_close o = true <-> maxr c <= failures (rev pre)).
Proof. intros c t0 h pre e o post W Ho Hs. exact (keepalive_close_exact c t0 h W Ho pre post e o Hs). Qed.
Print Assumptions C18_keepalive_close.

(* Any received message or answered current ping resets the count: a close
   after such an item needs max failures that all lie after it. *)
Theorem C18_reset : forall c t0 h older it mid e o post,
  wf c -> rx_ordered t0 h -> ka c = true ->
  run c (init t0) h = (older ++ it :: mid) ++ (e, o) :: post ->
  is_reset (rev older) it = true -> has_close o = true ->
  maxr c <= strikes (rev mid).
Proof. exact reset_then_close. Qed.
Print Assumptions C18_reset.

Theorem C18_reset_state : forall c s t, ka c = true ->
  fails (notify c s t) = 0 /\ fails (pong_cb s (token s)) = 0.
Proof. intros c s t K. split; [exact (message_resets c s t K)|exact (current_pong_resets s)]. Qed.
Print Assumptions C18_reset_state.

(* A late answer to an earlier ping is not credited: its callback leaves the
   state untouched, as a datagram it is worth what any other message is worth,
   and the judge does not treat it as a reset point. *)
Theorem C18_late_pong : forall c s g t, g <> token s ->
  pong_cb s g = s /\ step c s (PongCb g) = (s, []) /\
  step c s (Pong g t) = step c s (Recv t).
Proof.
  intros c s g t H. split; [exact (late_pong_cb s g H)|]. split; [|exact (late_pong_is_recv c s g t H)].
  unfold step. destruct (closed s); [reflexivity|]. rewrite (late_pong_cb s g H). reflexivity.
Qed.
Print Assumptions C18_late_pong.

Theorem C18_late_pong_no_reset : forall older g o, g <> cur_gen older -> is_reset older (PongCb g, o) = false.
Proof. exact late_pong_no_reset. Qed.
Print Assumptions C18_late_pong_no_reset.

(* non-vacuity: period 1 s, maxRetries 1; ping, other message, two more idle
   ticks: the message resets the count, so the close comes at the third tick *)
Example C18_witness :
  let c := {| period := 1000; maxr := 1; ka := true |} in
  let h := [Tick 1001 true; Recv 1500; Tick 2501 true; PongCb 1; Tick 2600 true; Tick 2700 true] in
  wf c /\ rx_ordered 0 h /\
  run c (init 0) h =
    [(Tick 1001 true, [Ping 1]); (Recv 1500, []); (Tick 2501 true, [Cancel 1; Ping 2]);
     (PongCb 1, []); (Tick 2600 true, [Cancel 2; Close]); (Tick 2700 true, [])].
Proof. cbv zeta. split; [unfold wf; cbn; split; [discriminate|reflexivity]|]. split; [cbn; repeat split; discriminate|]. vm_compute. reflexivity. Qed.
