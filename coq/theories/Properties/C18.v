(* C18 -- inactivity and keep-alive monitors close exactly the dead connections.
   Statements only; proofs are in Monitor/Proofs.v.  The model (Monitor/Model.v)
   transcribes inactivity.Monitor, inactivity.KeepAlive and their drivers; the
   datagram-path look-ahead is Gen.MonitorTiming.lookahead, regenerated from
   udp/server/server.go on every run.

   Reading guide.  A history h is any list of events
     Recv t | Pong g t | PongCb g | Tick t sendok | Dgram t sendok | Frag t | Sent t
   (Model.ev; Frag t = bytes that complete no message arrive on a stream connection; Sent t = the LOCAL side
   transmits a message); [run c (init t0) h] is the list of (event, what the monitor did).
   [wf c]: maxRetries is a uint32 other than 2^32-1.  [rx_ordered t0 h]: the
   arrival times of messages do not go backwards (monotonic clock); ticks may
   carry any time.  For an item at position |pre| of the trace, [rev pre] is the
   past, most recent first.  [has_strike o]: the monitor acted (ping attempt or
   close); [has_close o]: it closed the connection.  [rx_all past]: the arrival
   times of all messages received so far.  [tick_time]: t for Tick t, and
   t + lookahead for the datagram path of the udp server. *)
From Coq Require Import ZArith List Bool.
From GoCoap Require Import Gen.MonitorTiming Gen.StreamConsts Monitor.Model Monitor.Spec Monitor.Proofs.
From GoCoap Require Import Monitor.StreamModel Monitor.StreamProofs Monitor.MultiProofs.
From GoCoap Require Stream.Spec Stream.Proofs.
Import ListNotations.
Open Scope Z_scope.

(* Every trace, over every history, passes the executable judge of Spec.v (the
   same judge bin/check evaluates on the traces observed on the Go code). *)
Theorem C18_spec_all : forall c t0 h, wf c -> rx_ordered t0 h ->
  spec_ok (P_of c t0) (run c (init t0) h) = true.
Proof. exact spec_all. Qed.
Print Assumptions C18_spec_all.

(* The monitor closes (or, with keep-alive, counts a failure and pings) only at
   a tick, only while the connection is open, and only if no message was
   received in (tau - period, tau]; on the datagram path of the server tau is
   the arrival time plus the look-ahead, i.e. the window is shorter by the slack.
   (The model and the code are in fact strict: r + period < tau, see
   Monitor.Model.check; the text leaves the exact boundary open, so the judge
   and this statement do too.) *)
Theorem C18_only_if_idle : forall c t0 h pre e o post,
  wf c -> rx_ordered t0 h ->
  run c (init t0) h = pre ++ (e, o) :: post ->
  has_strike o = true ->
  was_closed (rev pre) = false /\
  exists tau, tick_time (P_of c t0) e = Some tau /\ period c <> 0 /\
    forall r, In r (t0 :: rx_all (rev pre)) -> r + period c <= tau.
Proof.
  intros c t0 h pre e o post W Ho Hs Ha.
  destruct (acts_only_if_idle c t0 h W Ho pre post e o Hs Ha) as [A [tau [B [C [_ D]]]]].
  split; [exact A|]. exists tau. auto.
Qed.
Print Assumptions C18_only_if_idle.

(* the comparison of the code is strict *)
Theorem C18_strict_boundary : forall c s tau ok, snd (check c s tau ok) <> [] ->
  period c <> 0 /\ last s + period c < tau.
Proof. exact check_acts_strict. Qed.
Print Assumptions C18_strict_boundary.

(* At the first tick (any tick) later than a full period after the latest
   message the monitor acts; without keep-alive that action is the close. *)
Theorem C18_first_tick : forall c t0 h pre e o post tau,
  wf c -> rx_ordered t0 h ->
  run c (init t0) h = pre ++ (e, o) :: post ->
  was_closed (rev pre) = false -> tick_time (P_of c t0) e = Some tau -> period c <> 0 ->
  (forall r, In r (t0 :: rx_all (rev pre)) -> r + period c < tau) ->
  has_strike o = true /\ (ka c = false -> has_close o = true).
Proof. intros c t0 h pre e o post tau W Ho Hs. exact (acts_at_first_idle_tick c t0 h W Ho pre post e o Hs tau). Qed.
Print Assumptions C18_first_tick.

(* Keep-alive: the connection is closed exactly at failure max+1, where
   failures are counted since the last reset point (received message or answer
   to the current ping): a close needs max failures (pings sent or attempted and
   left unanswered) before it, and once max failures have accumulated the next
   idle tick closes instead of pinging again. *)
Theorem C18_keepalive_close : forall c t0 h pre e o post,
  wf c -> rx_ordered t0 h ->
  run c (init t0) h = pre ++ (e, o) :: post ->
  ka c = true -> has_strike o = true ->
  (has_close o = true <-> maxr c <= failures (rev pre)).
Proof. intros c t0 h pre e o post W Ho Hs. exact (keepalive_close_exact c t0 h W Ho pre post e o Hs). Qed.
Print Assumptions C18_keepalive_close.

(* Any received message or answered current ping resets the count: a close
   after such an item needs max failures that all lie after it. *)
Theorem C18_reset : forall c t0 h older it mid e o post,
  wf c -> rx_ordered t0 h -> ka c = true ->
  run c (init t0) h = (older ++ it :: mid) ++ (e, o) :: post ->
  is_reset (rev older) it = true -> has_close o = true ->
  maxr c <= strikes (rev mid).
Proof. exact reset_then_close. Qed.
Print Assumptions C18_reset.

Theorem C18_reset_state : forall c s t, ka c = true ->
  fails (notify c s t) = 0 /\ fails (pong_cb s (token s)) = 0.
Proof. intros c s t K. split; [exact (message_resets c s t K)|exact (current_pong_resets s)]. Qed.
Print Assumptions C18_reset_state.

(* A late answer to an earlier ping is not credited: its callback leaves the
   state untouched, as a datagram it is worth what any other message is worth,
   and the judge does not treat it as a reset point. *)
Theorem C18_late_pong : forall c s g t, g <> token s ->
  pong_cb s g = s /\ step c s (PongCb g) = (s, []) /\
  step c s (Pong g t) = step c s (Recv t).
Proof.
  intros c s g t H. split; [exact (late_pong_cb s g H)|]. split; [|exact (late_pong_is_recv c s g t H)].
  unfold step. destruct (closed s); [reflexivity|]. rewrite (late_pong_cb s g H). reflexivity.
Qed.
Print Assumptions C18_late_pong.

Theorem C18_late_pong_no_reset : forall older g o, g <> cur_gen older -> is_reset older (PongCb g, o) = false.
Proof. exact late_pong_no_reset. Qed.
Print Assumptions C18_late_pong_no_reset.

(* ---- stream connections (TCP/TLS), byte level ---------------------------------
   The peer's messages [fs] are encoded per RFC 8323 (Stream.Spec.encode_frame),
   each within the session's limit [max] (Stream.Proofs.good); the socket hands
   the stream over in reads of arbitrary lengths at non-decreasing times, with
   ticks in between (Model.bev).  [StreamModel.abs] is the code: C07's model of
   Session.Run/processBuffer composed with "one Notify per decoded message";
   [Spec.sabs] is the text: message k is received by the read that delivers its
   last byte, anything less (a header announcing a body that has not arrived, a
   peer dribbling single bytes) is a fragment and not a message. *)

(* the code's notion of "message received" is the text's, for every cutting of the stream *)
Theorem C18_stream_refines : forall max fs bh,
  (forall f, In f fs -> Stream.Proofs.good max f) -> max <= messageMaxLen + 65805 ->
  abs max (stream_of fs) SM.init bh = sabs (sizes_of fs) 0 bh.
Proof. intros max fs bh. exact (abs_sabs max fs bh). Qed.
Print Assumptions C18_stream_refines.

(* every byte-level trace of the model passes the byte-level judge (the one
   bin/check evaluates on the traces observed on a real tcp connection) *)
Theorem C18_stream_spec_all : forall c t0 max fs bh,
  wf c -> (forall f, In f fs -> Stream.Proofs.good max f) -> max <= messageMaxLen + 65805 -> b_ordered t0 bh ->
  stream_judge (P_of c t0) (sizes_of fs) (brun c t0 max (stream_of fs) bh) = 0%N.
Proof. exact stream_spec_all. Qed.
Print Assumptions C18_stream_spec_all.

(* the monitor acts at a tick only if every message whose last byte has arrived is
   at least a full period old ... *)
Theorem C18_stream_only_if_idle : forall c t0 max fs bh1 bh2 tau ok,
  wf c -> (forall f, In f fs -> Stream.Proofs.good max f) -> max <= messageMaxLen + 65805 ->
  b_ordered t0 (bh1 ++ BTick tau ok :: bh2) ->
  has_strike (tick_out c t0 max fs bh1 tau ok) = true ->
  period c <> 0 /\ forall r, In r (t0 :: completion_times (sizes_of fs) 0 bh1) -> r + period c <= tau.
Proof. exact stream_only_if_idle. Qed.
Print Assumptions C18_stream_only_if_idle.

(* ... and it does act at the first tick later than a full period after the latest
   COMPLETE message (without keep-alive: closes), however many bytes of incomplete
   messages arrived in the meantime: fragments never postpone the close *)
Theorem C18_stream_first_tick : forall c t0 max fs bh1 bh2 tau ok,
  wf c -> (forall f, In f fs -> Stream.Proofs.good max f) -> max <= messageMaxLen + 65805 ->
  b_ordered t0 (bh1 ++ BTick tau ok :: bh2) ->
  closed (state_before c t0 max fs bh1) = false -> period c <> 0 ->
  (forall r, In r (t0 :: completion_times (sizes_of fs) 0 bh1) -> r + period c < tau) ->
  has_strike (tick_out c t0 max fs bh1 tau ok) = true /\
  (ka c = false -> has_close (tick_out c t0 max fs bh1 tau ok) = true).
Proof. exact stream_first_tick. Qed.
Print Assumptions C18_stream_first_tick.

(* a read that completes no message: the monitor state is untouched (no stamp, no
   reset of the failure count), and any proper prefix of a good frame is such a read *)
Theorem C18_stream_fragment : forall c s t,
  step c s (Frag t) = (s, []) /\
  (forall sizes got n bh, complete sizes (Z.min (got + Z.of_nat n) (total sizes)) = complete sizes got ->
     sabs sizes got (BRead t n :: bh) = [Frag t] :: sabs sizes (Z.min (got + Z.of_nat n) (total sizes)) bh) /\
  (forall max f rest p q, Stream.Proofs.good max f -> max <= messageMaxLen + 65805 ->
     p ++ q = Stream.Spec.encode_frame f ++ rest -> (length p < length (Stream.Spec.encode_frame f))%nat ->
     SM.step max p = SM.Wait).
Proof.
  intros c s t. split; [exact (fragment_inert c s t)|]. split; [intros; apply fragment_read; assumption|].
  intros max f rest p q. exact (proper_prefix_waits max f rest p q).
Qed.
Print Assumptions C18_stream_fragment.

(* non-vacuity at byte level: period 1000, no keep-alive; a 2-byte message read at
   100; then a 9-byte message (token 7, payload 5 bytes) arrives as 3 bytes at 600
   and never completes: the tick at 1101 closes, the fragment did not count *)
Example C18_stream_witness :
  let c := {| period := 1000; maxr := 0; ka := false |} in
  let fs := [Stream.Spec.MkFrame 69 [] [] []; Stream.Spec.MkFrame 1 [7] [] [1; 2; 3; 4; 5]] in
  let bh := [BRead 100 2; BRead 600 3; BTick 1100 true; BTick 1101 true] in
  wf c /\ (forall f, In f fs -> Stream.Proofs.good 1024 f) /\ b_ordered 0 bh /\
  completion_times (sizes_of fs) 0 bh = [100] /\
  brun c 0 1024 (stream_of fs) bh =
    [(BRead 100 2, []); (BRead 600 3, []); (BTick 1100 true, []); (BTick 1101 true, [Close])].
Proof.
  cbv zeta. split; [unfold wf; cbn; split; [discriminate|reflexivity]|]. split.
  - intros f [<-|[<-|[]]]; split; vm_compute; try reflexivity; discriminate.
  - split; [cbn; repeat split; discriminate|]. split; vm_compute; reflexivity.
Qed.

(* ---- messages sent by the local side --------------------------------------------------
   "no message was RECEIVED FROM THE PEER for a full period": what the local side
   transmits (Sent t) leaves the monitor untouched, is no reception time and no reset
   point for the judge, and can be deleted from a history without changing anything
   the monitor does.  Together with C18_first_tick (whose [rx_all] ignores Sent):
   a peer that is sent to, but says nothing, is closed at the first tick later than
   a full period after its last MESSAGE. *)
Theorem C18_sent_inert : forall c s t o older,
  step c s (Sent t) = (s, []) /\ rx_time (Sent t, o) = None /\ is_reset older (Sent t, o) = false.
Proof. intros c s t o older. split; [exact (sent_inert c s t)|exact (sent_not_received t o older)]. Qed.
Print Assumptions C18_sent_inert.

Theorem C18_sent_erasable : forall c h s,
  filter (fun it => not_sent (fst it)) (run c s h) = run c s (filter not_sent h) /\
  final c s (filter not_sent h) = final c s h.
Proof. intros c h s. split; [exact (run_without_sends c h s)|exact (final_without_sends c h s)]. Qed.
Print Assumptions C18_sent_erasable.

(* ---- several connections from one option value (one server, many peers) --------------
   [mrun c (minit t0s) h]: system of length t0s connections, every one with its own
   monitor + keep-alive state as options/commonOptions.go creates them (one
   NewKeepAlive + NewWithOnActive per call of cfg.CreateInactivityMonitor); h is a
   list of (connection, event); [proj i] / [projh i] = sub-trace / events of connection i. *)

(* non-interference: what the monitor of connection i does depends on the events of
   connection i only *)
Theorem C18_multi_projection : forall c t0s h i t0, nth_error t0s i = Some t0 ->
  proj i (mrun c (minit t0s) h) = run c (init t0) (projh i h).
Proof. exact proj_minit. Qed.
Print Assumptions C18_multi_projection.

Theorem C18_multi_independent : forall c ss h h' i s, nth_error ss i = Some s ->
  projh i h = projh i h' -> proj i (mrun c ss h) = proj i (mrun c ss h').
Proof. exact independent. Qed.
Print Assumptions C18_multi_independent.

(* every connection, on its own sub-trace, passes the judge (the one bin/check evaluates
   on the traces observed on several real connections) *)
Theorem C18_multi_spec_all : forall c t0s h, wf c ->
  (forall i t0, nth_error t0s i = Some t0 -> rx_ordered t0 (projh i h)) ->
  mjudge (MP c t0s) (length t0s) (mrun c (minit t0s) h) = 0%N.
Proof. exact multi_spec_all. Qed.
Print Assumptions C18_multi_spec_all.

(* a housekeeping round visits the connections in the order of a Go map iteration:
   the order is irrelevant to every connection *)
Theorem C18_multi_round_order : forall c ss pre post o1 o2 t ok i s,
  NoDup o1 -> NoDup o2 -> (forall j, In j o1 <-> In j o2) -> nth_error ss i = Some s ->
  proj i (mrun c ss (pre ++ round o1 t ok ++ post)) = proj i (mrun c ss (pre ++ round o2 t ok ++ post)).
Proof. exact round_order. Qed.
Print Assumptions C18_multi_round_order.

(* keep-alive, per connection: connection i is closed exactly at ITS OWN failure max+1
   since ITS OWN last reset point -- not earlier because other connections became
   inactive in the same round (their pings are not its failures), not later because
   other connections keep talking (their messages are not its reset points) *)
Theorem C18_multi_keepalive_close : forall c t0s h i t0 pre e o post,
  wf c -> nth_error t0s i = Some t0 -> rx_ordered t0 (projh i h) ->
  proj i (mrun c (minit t0s) h) = pre ++ (e, o) :: post ->
  ka c = true -> has_strike o = true ->
  (has_close o = true <-> maxr c <= failures (rev pre)).
Proof. intros c t0s h i t0 pre e o post W Hi Ho Hs. exact (multi_keepalive_close c t0s h i t0 W Hi Ho pre post e o Hs). Qed.
Print Assumptions C18_multi_keepalive_close.

Theorem C18_multi_only_if_idle : forall c t0s h i t0 pre e o post,
  wf c -> nth_error t0s i = Some t0 -> rx_ordered t0 (projh i h) ->
  proj i (mrun c (minit t0s) h) = pre ++ (e, o) :: post ->
  has_strike o = true ->
  was_closed (rev pre) = false /\
  exists tau, tick_time (P_of c t0) e = Some tau /\ period c <> 0 /\
    forall r, In r (t0 :: rx_all (rev pre)) -> r + period c <= tau.
Proof. intros c t0s h i t0 pre e o post W Hi Ho Hs. exact (multi_only_if_idle c t0s h i t0 W Hi Ho pre post e o Hs). Qed.
Print Assumptions C18_multi_only_if_idle.

Theorem C18_multi_first_tick : forall c t0s h i t0 pre e o post tau,
  wf c -> nth_error t0s i = Some t0 -> rx_ordered t0 (projh i h) ->
  proj i (mrun c (minit t0s) h) = pre ++ (e, o) :: post ->
  was_closed (rev pre) = false -> tick_time (P_of c t0) e = Some tau -> period c <> 0 ->
  (forall r, In r (t0 :: rx_all (rev pre)) -> r + period c < tau) ->
  has_strike o = true /\ (ka c = false -> has_close o = true).
Proof. intros c t0s h i t0 pre e o post tau W Hi Ho Hs. exact (multi_first_tick c t0s h i t0 W Hi Ho pre post e o Hs tau). Qed.
Print Assumptions C18_multi_first_tick.

(* non-vacuity: three peers, retry limit 2, period 1000.  All three are inactive in the
   round at 1001: each gets its FIRST ping and nobody is closed; peers 0 and 1 answer,
   peer 2 is dead while peer 1 keeps talking: peer 2 -- and only peer 2 -- is closed at
   its third unanswered round.  In between the local side sends to peer 2: no effect. *)
Example C18_multi_witness :
  let c := {| period := 1000; maxr := 2; ka := true |} in
  let h := round [0; 1; 2]%nat 1001 true ++ [(0%nat, Pong 1 1200); (1%nat, Pong 1 1400)] ++
           round [2; 0; 1]%nat 2301 true ++ [(1%nat, Recv 2400); (2%nat, Sent 2500)] ++ round [1; 2; 0]%nat 3302 true in
  wf c /\ (forall i t0, nth_error [0; 0; 0] i = Some t0 -> rx_ordered t0 (projh i h)) /\
  proj 2 (mrun c (minit [0; 0; 0]) h) =
    [(Tick 1001 true, [Ping 1]); (Tick 2301 true, [Cancel 1; Ping 2]); (Sent 2500, []); (Tick 3302 true, [Cancel 2; Close])] /\
  proj 0 (mrun c (minit [0; 0; 0]) h) =
    [(Tick 1001 true, [Ping 1]); (Pong 1 1200, []); (Tick 2301 true, [Cancel 1; Ping 2]); (Tick 3302 true, [Cancel 2; Ping 3])] /\
  proj 1 (mrun c (minit [0; 0; 0]) h) =
    [(Tick 1001 true, [Ping 1]); (Pong 1 1400, []); (Tick 2301 true, []); (Recv 2400, []); (Tick 3302 true, [])].
Proof.
  cbv zeta. split; [unfold wf; cbn; split; [discriminate|reflexivity]|]. split.
  - intros i t0 H. destruct i as [|[|[|i]]]; cbn in H; try (destruct i; discriminate H);
      inversion H; subst t0; cbn; repeat split; discriminate.
  - repeat split; vm_compute; reflexivity.
Qed.

(* non-vacuity: period 1 s, maxRetries 1; ping, other message, two more idle
   ticks: the message resets the count, so the close comes at the third tick *)
Example C18_witness :
  let c := {| period := 1000; maxr := 1; ka := true |} in
  let h := [Tick 1001 true; Recv 1500; Tick 2501 true; PongCb 1; Tick 2600 true; Tick 2700 true] in
  wf c /\ rx_ordered 0 h /\
  run c (init 0) h =
    [(Tick 1001 true, [Ping 1]); (Recv 1500, []); (Tick 2501 true, [Cancel 1; Ping 2]);
     (PongCb 1, []); (Tick 2600 true, [Cancel 2; Close]); (Tick 2700 true, [])].
Proof. cbv zeta. split; [unfold wf; cbn; split; [discriminate|reflexivity]|]. split; [cbn; repeat split; discriminate|]. vm_compute. reflexivity. Qed.
