(* C18 -- inactivity and keep-alive monitors close exactly the dead connections.
   Statements only; proofs are in Monitor/Proofs.v. *)
From Coq Require Import ZArith List Bool.
From GoCoap Require Import Gen.MonitorTiming Monitor.Model Monitor.Spec Monitor.Proofs.
Import ListNotations.
Open Scope Z_scope.

Theorem C18_late_pong_cb : forall s g, g <> token s -> pong_cb s g = s.
Proof. exact late_pong_cb. Qed.
Print Assumptions C18_late_pong_cb.
