(* C12 -- A pooled message has one owner at a time.
   Statements only; proofs in Pool/Proofs.v.  PARTIAL by design: the theorems cover the
   ownership automaton, the library's paths as modelled in Pool/Model.v and every
   interleaving of them; that the Go code has no OTHER path is established only by
   running the monitor on the lifecycle traces of real executions. *)
From Coq Require Import ZArith NArith List Bool.
From GoCoap Require Import Pool.Model Pool.Spec Pool.Proofs.
Import ListNotations.
Open Scope Z_scope.

(* a trace the checker accepts is, object by object, a run of the ownership automaton ... *)
Theorem C12_check_accepts : forall t, check t = 0%N -> accepted t.
Proof. exact check_accepts. Qed.
Print Assumptions C12_check_accepts.

(* ... and every such trace satisfies the property as stated: no double release, no recycling while
   the application holds the message, content unchanged while held, no use after release *)
Theorem C12_monitor_sound : forall t, accepted t -> c12_class t = 0%N.
Proof. exact accepted_satisfies_property. Qed.
Print Assumptions C12_monitor_sound.

(* the violations the property names are rejected *)
Theorem C12_double_release_rejected : forall o pre, run_obj Live (project o pre) = inl Pooled ->
  check (pre ++ [Rel o]) <> 0%N.
Proof. exact double_release_rejected. Qed.
Print Assumptions C12_double_release_rejected.

Theorem C12_release_while_held_rejected : forall o pre, run_obj Live (project o pre) = inl Held ->
  check (pre ++ [Rel o]) <> 0%N.
Proof. exact release_while_held_rejected. Qed.
Print Assumptions C12_release_while_held_rejected.

(* the library's paths are accepted ... *)
Theorem C12_path_receive : forall req resp, req <> resp -> accepted (path_receive req resp).
Proof. exact path_receive_ok. Qed.
Print Assumptions C12_path_receive.

Theorem C12_path_receive_hijacked : forall msg resp, msg <> resp -> accepted (path_receive_hijacked msg resp).
Proof. exact path_receive_hijacked_ok. Qed.
Print Assumptions C12_path_receive_hijacked.

Theorem C12_path_request : forall req clone tmps,
  NoDup (req :: clone :: tmps) -> accepted (path_request req clone tmps).
Proof. exact path_request_ok. Qed.
Print Assumptions C12_path_request.

(* ... and so is EVERY interleaving of accepted traces over disjoint objects: concurrency of requests,
   handlers, retransmissions and housekeeping cannot create a violation that no single path has *)
Theorem C12_interleaving_safe : forall a b t, merge a b t -> disjoint a b -> accepted a -> accepted b -> accepted t.
Proof. exact interleaving_safe. Qed.
Print Assumptions C12_interleaving_safe.

Example C12_instance :
  check (path_receive 1 2 ++ path_reuse 2 (path_receive_hijacked 2 3)) = 0%N /\
  check [Rel 1; Rec 1; Rel 1] = 1%N /\ check [Hold 1; Rel 1] = 2%N /\ check [Rel 1; Rec 1; Reacq 1 false] = 4%N.
Proof. vm_compute. repeat split. Qed.
