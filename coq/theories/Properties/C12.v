(* C12 -- A pooled message has one owner at a time.
   Statements only; proofs in Pool/Proofs.v, Pool/Paths.v, Pool/Writer.v, Pool/Use.v, Pool/Expiry.v, Pool/HandOver.v, Pool/BoundedProofs.v.  PARTIAL by design: the
   theorems cover the ownership automaton, the library's paths as modelled in Pool/Model.v, every n-ary
   interleaving of them and the pool's counter; that the Go code has no OTHER path is established only by
   running the monitor on the lifecycle traces of real executions. *)
From Coq Require Import ZArith NArith List Bool.
From GoCoap Require Import Pool.Model Pool.Spec Pool.Proofs Pool.Writer Pool.Paths Pool.Use Pool.Expiry Pool.HandOverModel Pool.HandOver Pool.Bounded Pool.BoundedProofs.
Import ListNotations.
Open Scope Z_scope.

(* a trace the checker accepts is, object by object, a run of the ownership automaton ... *)
Theorem C12_check_accepts : forall t, check t = 0%N -> accepted t.
Proof. exact check_accepts. Qed.
Print Assumptions C12_check_accepts.

(* ... and every such trace satisfies the property as stated: no double release, no recycling while
   the application holds the message, content unchanged while held, no use after release *)
Theorem C12_monitor_sound : forall t, accepted t -> c12_class t = 0%N.
Proof. exact accepted_satisfies_property. Qed.
Print Assumptions C12_monitor_sound.

(* the violations the property names are rejected *)
Theorem C12_double_release_rejected : forall o pre, run_obj Live (project o pre) = inl Pooled ->
  check (pre ++ [Rel o]) <> 0%N.
Proof. exact double_release_rejected. Qed.
Print Assumptions C12_double_release_rejected.

Theorem C12_release_while_held_rejected : forall o pre, run_obj Live (project o pre) = inl Held ->
  check (pre ++ [Rel o]) <> 0%N.
Proof. exact release_while_held_rejected. Qed.
Print Assumptions C12_release_while_held_rejected.

(* the library's paths are accepted ... *)
Theorem C12_path_receive : forall req resp, req <> resp -> accepted (path_receive req resp).
Proof. exact path_receive_ok. Qed.
Print Assumptions C12_path_receive.

Theorem C12_path_receive_hijacked : forall msg resp, msg <> resp -> accepted (path_receive_hijacked msg resp).
Proof. exact path_receive_hijacked_ok. Qed.
Print Assumptions C12_path_receive_hijacked.

Theorem C12_path_request : forall req clone tmps,
  NoDup (req :: clone :: tmps) -> accepted (path_request req clone tmps).
Proof. exact path_request_ok. Qed.
Print Assumptions C12_path_request.

(* ... and so is EVERY interleaving of accepted traces over disjoint objects: concurrency of requests,
   handlers, retransmissions and housekeeping cannot create a violation that no single path has *)
Theorem C12_interleaving_safe : forall a b t, merge a b t -> disjoint a b -> accepted a -> accepted b -> accepted t.
Proof. exact interleaving_safe. Qed.
Print Assumptions C12_interleaving_safe.

(* ---- the paths of net/client, net/blockwise, net/observation, AsyncPing and the response writer ---- *)

(* Client.Get/Post/Put/Delete: the request is the library's (`defer release(req)`), the response the caller's *)
Theorem C12_path_client_call : forall req clone tmps resp,
  NoDup (tmps ++ [clone; req] ++ olist resp) -> accepted (path_client_call req clone tmps resp).
Proof. exact path_client_call_ok. Qed.
Print Assumptions C12_path_client_call.

(* block-wise Do with a large body: the temporary first-block request, one SetMessage exchange per 2.31 *)
Theorem C12_path_bw_upload : forall req tmp blocks resp,
  NoDup (objs3 blocks ++ [tmp; req] ++ olist resp) -> accepted (path_bw_upload req tmp blocks resp).
Proof. exact path_bw_upload_ok. Qed.
Print Assumptions C12_path_bw_upload.

(* block-wise download: copies of the sent request, requests for the next block, the cached received message
   that ends in the caller's hands *)
Theorem C12_path_bw_download : forall req blocks sr w m cached,
  NoDup (objs4 blocks ++ [sr; w; m; req; cached]) -> accepted (path_bw_download req blocks (sr, w, m) cached).
Proof. exact path_bw_download_ok. Qed.
Print Assumptions C12_path_bw_download.

(* serving side: reassembled request lent to the handler; first block of a large response through Swap *)
Theorem C12_path_bw_serve_upload : forall blocks w m cached,
  NoDup (objs3 blocks ++ [cached; w; m]) -> accepted (path_bw_serve_upload blocks (w, m) cached).
Proof. exact path_bw_serve_upload_ok. Qed.
Print Assumptions C12_path_bw_serve_upload.

Theorem C12_path_bw_serve_first : forall m orig s observe,
  NoDup [m; orig; s] -> accepted (path_bw_serve_first m orig s observe).
Proof. exact path_bw_serve_first_ok. Qed.
Print Assumptions C12_path_bw_serve_first.

(* a notification inside the observe callback *)
Theorem C12_path_notification : forall n w, n <> w -> accepted (path_notification n w).
Proof. exact path_notification_ok. Qed.
Print Assumptions C12_path_notification.

(* AsyncPing: the request is the pending entry's message and is released once, whatever consumes the entry *)
Theorem C12_path_async_ping : forall req tmps w,
  NoDup (tmps ++ [req] ++ olist w) -> accepted (path_async_ping req tmps w).
Proof. exact path_async_ping_ok. Qed.
Print Assumptions C12_path_async_ping.

(* the response writer: SetMessage releases the replaced message exactly once, Swap not at all *)
Theorem C12_path_handler_setmessage : forall m w new, NoDup [m; w; new] -> accepted (path_handler_setmessage m w new).
Proof. exact path_handler_setmessage_ok. Qed.
Print Assumptions C12_path_handler_setmessage.

Theorem C12_path_handler_swap : forall m w new, NoDup [m; w; new] -> accepted (path_handler_swap m w new).
Proof. exact path_handler_swap_ok. Qed.
Print Assumptions C12_path_handler_swap.

Theorem C12_setmessage_double_release_rejected : forall m w new,
  check ([Hold m; Rel w; Rec w; Rel w; Rec w; Unhold m true] ++ rel new ++ rel m) <> 0%N.
Proof. exact setmessage_double_release_rejected. Qed.
Print Assumptions C12_setmessage_double_release_rejected.

(* ---- n-ary interleaving: ANY number of accepted traces over pairwise disjoint objects, merged in ANY order ---- *)
Theorem C12_interleaving_safe_n : forall ls t,
  interleave ls t -> pairwise_disjoint ls -> Forall accepted ls -> accepted t.
Proof. exact interleaving_safe_n. Qed.
Print Assumptions C12_interleaving_safe_n.

(* a release refused by a full pool is the same path without its Rec event: still accepted (so each path theorem
   also covers the variants of its path under a full pool) *)
Theorem C12_refused_release_safe : forall a o b,
  accepted (a ++ Rec o :: b) -> (forall e, In e b -> obj e <> o) -> accepted (a ++ b).
Proof. exact refused_release_safe. Qed.
Print Assumptions C12_refused_release_safe.

(* ---- the response writer's slot: code that acquires messages and installs them (SetMessage), swaps them in (Swap),
   releases them by hand, lends them to a handler or lets them go.  ANY such program that keeps the ownership
   discipline (wdisc: every operation applies to a message the code has - acquired or swapped out and not yet
   released, installed or given away; nothing is installed after the writer's message was given back) produces an
   accepted trace, hence satisfies the property as stated ---- *)
Theorem C12_writer_discipline_safe : forall w m ops, w <> m ->
  wdisc w false [m] [w; m] ops = true -> accepted (wtrace w ops) /\ c12_class (wtrace w ops) = 0%N.
Proof. exact wdisc_safe. Qed.
Print Assumptions C12_writer_discipline_safe.

(* acceptance does not depend on the names of the objects *)
Theorem C12_accepted_renaming : forall f t, (forall x y, In x (objs t) -> In y (objs t) -> f x = f y -> x = y) ->
  (accepted t <-> accepted (map (ren f) t)).
Proof. exact accepted_ren. Qed.
Print Assumptions C12_accepted_renaming.

(* the receive path with net/blockwise in the dispatch chain, EVERY return point of BlockWise.Handle as modelled
   (forwarded, completed, next block asked / sent, the early and the late error returns with sendEntityIncomplete,
   the failures of continueSendingMessage), with or without a copy of the sent request, a reassembly entry, a
   confirmable write at the end, a stale Hijack flag: accepted on any seven pairwise distinct objects *)
Theorem C12_path_bw_receive : forall k sr has wc stale env, NoDup env -> length env = 7%nat ->
  accepted (path_bw_receive k sr has wc stale env).
Proof. exact path_bw_receive_ok. Qed.
Print Assumptions C12_path_bw_receive.

(* ... and the variant that installs the next-block request in the writer right after acquiring it while the early
   return "cannot restart blockwise response" still releases it by hand breaks the discipline and is rejected by
   the monitor, whatever the objects are *)
Theorem C12_bw_early_install_rejected : forall sr has wc env, NoDup env -> length env = 7%nat ->
  wdisc 0 false [1] [0; 1] (bw_early_install_restart_ops sr has wc) = false /\
  check (map (ren (env_f env)) (wtrace 0 (bw_early_install_restart_ops sr has wc))) <> 0%N.
Proof. exact bw_early_install_restart_rejected. Qed.
Print Assumptions C12_bw_early_install_rejected.

(* in particular any number of library paths (lib_path: the path shapes above and every disciplined writer
   program, each on distinct objects) running concurrently satisfy the property as stated *)
Theorem C12_lib_paths_interleaved_safe : forall ps t,
  Forall lib_path ps -> pairwise_disjoint ps -> interleave ps t -> c12_class t = 0%N.
Proof. exact lib_paths_interleaved_safe. Qed.
Print Assumptions C12_lib_paths_interleaved_safe.

(* ---- accesses to a released message (Use o: an accessor of o was called / its body was read) ---- *)

(* a message that is in nobody's hands (released, not yet handed out again) must not be touched: rejected by the
   automaton and, independently, by the property text as scanned by Spec.v *)
Theorem C12_use_after_release_rejected : forall o pre s, run_obj Live (project o pre) = inl s -> released s = true ->
  check (pre ++ [Use o]) <> 0%N /\ c12_class (pre ++ [Use o]) <> 0%N.
Proof. intros o pre s H Hr. split; [exact (use_after_release_rejected o pre s H Hr)|exact (use_after_release_class o pre s H Hr)]. Qed.
Print Assumptions C12_use_after_release_rejected.

(* the harness records only the accesses to released messages: the others make no difference to the verdict *)
Theorem C12_use_not_released_irrelevant : forall a o b s1, run_obj Live (project o a) = inl s1 -> released s1 = false ->
  (accepted (a ++ Use o :: b) <-> accepted (a ++ b)).
Proof. exact use_not_released_irrelevant. Qed.
Print Assumptions C12_use_not_released_irrelevant.

(* udp AsyncPing with everybody who may finish it (pong / reset, expiry sweep, the cancel function), in any order,
   any number of times: the ping message is released once and never touched afterwards ... *)
Theorem C12_path_async_ping_fin : forall req fs,
  accepted (path_async_ping_fin req false fs) /\ c12_class (path_async_ping_fin req false fs) = 0%N.
Proof. intros req fs. split; [apply path_async_ping_fin_ok|apply accepted_satisfies_property, path_async_ping_fin_ok]. Qed.
Print Assumptions C12_path_async_ping_fin.

(* ... the same step by step as the harness observes it (one window per step, retransmissions included) ... *)
Theorem C12_ping_run_accepted : forall maxrt fs, accepted (concat (ping_run maxrt false (PPending 0) 1 fs)).
Proof. exact ping_run_accepted. Qed.
Print Assumptions C12_ping_run_accepted.

(* ... whereas a cancel function that asks the ping message for its ID is rejected in every run in which it comes
   after another finisher, and in no other run *)
Theorem C12_ping_late_read_rejected : forall req f fs, In FCancel fs ->
  check (path_async_ping_fin req true (f :: fs)) <> 0%N /\ c12_class (path_async_ping_fin req true (f :: fs)) = 7%N.
Proof. exact ping_late_read_rejected. Qed.
Print Assumptions C12_ping_late_read_rejected.

Theorem C12_ping_late_read_unnoticed : forall req f fs, ~ In FCancel fs -> accepted (path_async_ping_fin req true (f :: fs)).
Proof. exact ping_late_read_unnoticed. Qed.
Print Assumptions C12_ping_late_read_unnoticed.

(* net/blockwise: the caller of Do gives up (and the request is released) while any number of receive paths work on
   messages with its token.  Every access to the shared state is a step, threads are scheduled arbitrarily.  When the
   receive paths read the caller's request only under the read lock of sendingMessagesCache, no schedule has a read
   after the release ... *)
Theorem C12_giveup_safe : forall app r progs sched, Forall locked_only progs ->
  accepted (g_trace (grun app r sched (ginit progs))) /\ c12_class (g_trace (grun app r sched (ginit progs))) = 0%N.
Proof. exact giveup_safe. Qed.
Print Assumptions C12_giveup_safe.

(* ... because the caller cannot get past its Delete while a receive path that found the entry is in its locked section ... *)
Theorem C12_giveup_caller_waits : forall app r progs sched rd k, Forall locked_only progs ->
  In rd (g_rs (grun app r sched (ginit progs))) -> r_pc rd = RIn true k -> g_d (grun app r sched (ginit progs)) = D0.
Proof. exact giveup_caller_waits. Qed.
Print Assumptions C12_giveup_caller_waits.

(* ... and with the next block built outside the lock there is a schedule with a read of the released request *)
Theorem C12_giveup_unlocked_refuted : forall app r k, (0 < k)%nat -> exists sched,
  c12_class (g_trace (grun app r sched (ginit [handle_continue_unlocked_prog k]))) = 7%N.
Proof. exact giveup_unlocked_refuted. Qed.
Print Assumptions C12_giveup_unlocked_refuted.

(* ---- the pool is bounded: Pool.ReleaseMessage's CAS loop and AcquireMessage's Get/Dec as atomic steps of any
   number of threads under any schedule (sync.Pool may return nil or lose objects at any time) ---- *)
Theorem C12_pool_bounded : forall mx progs sched, 0 <= mx ->
  0 <= inpool (run mx progs sched) <= mx /\ 0 <= counter (run mx progs sched) <= mx.
Proof. exact pool_bounded. Qed.
Print Assumptions C12_pool_bounded.

(* the step-by-step check applied to observed sequential scripts is that model with a single thread *)
Theorem C12_seq_ok_is_a_run : forall mx ops c n, seq_ok mx c n ops = true ->
  fold_left (step mx) (seq_sched mx c ops) (mkP c n [mkT (map op_of ops) Idle]) =
  mkP (fst (seq_final mx c n ops)) (snd (seq_final mx c n ops)) [mkT [] Idle].
Proof. exact seq_ok_is_a_run. Qed.
Print Assumptions C12_seq_ok_is_a_run.

Example C12_instance :
  check (path_receive 1 2 ++ path_reuse 2 (path_receive_hijacked 2 3)) = 0%N /\
  check [Rel 1; Rec 1; Rel 1] = 1%N /\ check [Hold 1; Rel 1] = 2%N /\ check [Rel 1; Rec 1; Reacq 1 false] = 4%N.
Proof. vm_compute. repeat split. Qed.

(* three concurrent paths (a block-wise download, a notification, an AsyncPing) in one of their interleavings, and
   two threads releasing into a pool of capacity 1: the second release is refused *)
Example C12_instance_n :
  (exists t, interleave [path_bw_download 1 [(2, 3, 4, 5)] (6, 7, 8) 9; path_notification 10 11; path_async_ping 12 [13] (Some 14)] t
             /\ length t = 33%nat /\ check t = 0%N) /\
  inpool (run 1 [[ORel]; [ORel]] [Step 0 true; Step 1 true; Step 0 true; Step 1 true; Step 0 true; Step 1 true; Step 1 true]) = 1.
Proof.
  split; [|vm_compute; reflexivity].
  eexists. split; [apply interleave_concat|]. vm_compute. split; reflexivity.
Qed.

(* the error return "cannot restart blockwise response of request(POST) from first block" (ETag of a POST response
   changed between two blocks) on the objects 10..16: the replaced writer message, the next-block request given
   back by hand, the copy of the sent request, the 4.08, its private copy for the confirmable write, the received
   block - each released exactly once; the early-install variant releases the next-block request (13) twice *)
Example C12_instance_bw :
  path_bw_receive (KErrLate true) true true true false [10; 11; 12; 13; 14; 15; 16] =
    [Rel 13; Rec 13; Rel 12; Rec 12; Rel 10; Rec 10; Rel 16; Rec 16; Rel 14; Rec 14; Rel 11; Rec 11] /\
  check (path_bw_receive (KErrLate true) true true true false [10; 11; 12; 13; 14; 15; 16]) = 0%N /\
  check (map (ren (env_f [10; 11; 12; 13; 14; 15; 16])) (wtrace 0 (bw_early_install_restart_ops true true true))) = 1%N.
Proof. vm_compute. repeat split. Qed.

(* a ping answered by the peer and cancelled afterwards: accepted; with the stale read: class 7.  The receive path of a
   2.31 Continue (one locked read for the code, five for the next block) racing with a caller that gives up: one
   of the schedules, accepted; with the next block built outside the lock: a schedule with class 7 *)
Example C12_instance_use :
  (check (path_async_ping_fin 5 false [FPong; FCancel; FExpiry]) = 0%N) /\
  (check (path_async_ping_fin 5 true [FPong; FCancel]) = 7%N) /\
  locked_only (handle_continue_prog 5) /\
  (g_trace (grun true 9 [1; 1; 1; 0; 1; 1; 1; 1; 1; 0; 1; 1; 1; 0; 0; 0; 0; 0; 0]%nat (ginit [handle_continue_prog 2])) =
    [Use 9; Use 9; Use 9; AppRel 9; Rel 9; Rec 9]) /\
  (check (g_trace (grun true 9 [1; 1; 1; 1; 1; 1; 1; 1; 0; 0; 0; 0; 0; 1]%nat (ginit [handle_continue_unlocked_prog 2]))) = 7%N).
Proof. split; [reflexivity|]. split; [reflexivity|]. split; [repeat constructor|]. split; vm_compute; reflexivity. Qed.

(* ---- round 4: the expiry sweep of net/blockwise against the handlers of the blocks of one transfer ---- *)

(* as the code is (the onExpire callback of a receiving-cache entry leaves the partially received message alone): any
   number of handlers, any amount of work each, any of them carrying the last block, the sweep whenever it likes,
   every schedule - accepted, class 0 *)
Theorem C12_expiry_keep_safe : forall c progs sched,
  accepted (x_trace (xrun SwKeep c sched (xinit progs))) /\ c12_class (x_trace (xrun SwKeep c sched (xinit progs))) = 0%N.
Proof. exact expiry_keep_safe. Qed.
Print Assumptions C12_expiry_keep_safe.

(* the guard lets one handler at a time work on the message (and lend it to the application) *)
Theorem C12_expiry_guard_exclusive : forall c progs sched j1 j2,
  let st := xrun SwKeep c sched (xinit progs) in
  inside (x_hs st j1) = true -> inside (x_hs st j2) = true -> j1 = j2.
Proof. exact expiry_guard_exclusive. Qed.
Print Assumptions C12_expiry_guard_exclusive.

(* the "leak fix" (onExpire gives the message back to the pool), with or without taking the guard first: for every
   assignment of work to the handlers a schedule with a read of the released message *)
Theorem C12_expiry_release_refuted : forall c guarded progs, exists sched,
  c12_class (x_trace (xrun (SwRelease guarded) c sched (xinit progs))) = 7%N.
Proof. exact expiry_release_refuted. Qed.
Print Assumptions C12_expiry_release_refuted.

(* without the guard also while handler 0 HOLDS the guard, in the middle of its work *)
Theorem C12_expiry_release_under_guard_refuted : forall c progs k, fst (progs O) = S k -> exists sched,
  let st := xrun (SwRelease false) c sched (xinit progs) in
  x_guard st = Some 1%nat /\ c12_class (x_trace st) = 7%N.
Proof. exact expiry_release_under_guard_refuted. Qed.
Print Assumptions C12_expiry_release_under_guard_refuted.

(* ... unnoticed whenever no handler is between its lookup and its end when the sweep looks at the entry *)
Theorem C12_expiry_release_unnoticed : forall m c progs s1 s2, ~ In O s1 ->
  (forall j, quiescent (x_hs (xrun m c s1 (xinit progs)) j) = true) ->
  accepted (x_trace (xrun m c (s1 ++ O :: s2) (xinit progs))).
Proof. exact expiry_release_unnoticed. Qed.
Print Assumptions C12_expiry_release_unnoticed.

(* two handlers (3 accesses, middle block; 2 accesses, last block) and the sweep, one of the schedules: handler 0 holds the
   guard when the sweep removes the entry, handler 1 waits behind it, completes the message and lends it to the
   application - accepted as the code is, class 7 with the release in the callback; a sweep over an entry nobody works on
   releases the message unnoticed *)
Example C12_instance_expiry :
  let progs := fun j : nat => match j with O => (3%nat, false) | _ => (2%nat, true) end in
  let sched := [1; 1; 1; 1; 2; 2; 0; 0; 0; 0; 1; 1; 1; 1; 2; 2; 2; 2; 2; 2; 2; 2]%nat in
  (x_trace (xrun SwKeep 7 sched (xinit progs)) =
     [Use 7; Use 7; Use 7; Use 7; Use 7; Use 7; Use 7; Hold 7; Unhold 7 true]) /\
  (check (x_trace (xrun SwKeep 7 sched (xinit progs))) = 0%N) /\
  (check (x_trace (xrun (SwRelease false) 7 sched (xinit progs))) = 7%N) /\
  (check (x_trace (xrun (SwRelease false) 7 [0; 0; 0; 0; 1; 1]%nat (xinit progs))) = 0%N).
Proof. vm_compute. repeat split. Qed.

(* ---- round 5: the hand-over of a response to the caller waiting in Do (Pool/HandOverModel.v) ---- *)

(* a receive path that does not touch the message after the channel send (any number of accesses before it), a caller
   that uses and releases the response whenever it is scheduled, every schedule - accepted, class 0 *)
Theorem C12_handover_safe : forall c pre sched,
  accepted (ho_trace (ho_run c sched (ho_init pre 0))) /\ c12_class (ho_trace (ho_run c sched (ho_init pre 0))) = 0%N.
Proof. exact handover_safe. Qed.
Print Assumptions C12_handover_safe.

(* ... which is what the code does, for a response in one piece and for one reassembled from blocks *)
Theorem C12_handover_code_safe : forall c k sched,
  c12_class (ho_trace (ho_run c sched (ho_init (fst (handover_code k)) (snd (handover_code k))))) = 0%N.
Proof. exact handover_code_safe. Qed.
Print Assumptions C12_handover_code_safe.

(* whatever the receive path does later: until it has sent the message the caller is still waiting (accesses before the
   send are never late) *)
Theorem C12_handover_caller_waits : forall c pre post sched,
  ho_handed (ho_r (ho_run c sched (ho_init pre post))) = false -> ho_c (ho_run c sched (ho_init pre post)) = HC0.
Proof. exact handover_caller_waits. Qed.
Print Assumptions C12_handover_caller_waits.

(* one access after the send (handleReq evaluating req.Type() after Conn.handle; processReceivedMessage reading the token
   of the reassembled message after next) is enough: the schedule "receive path up to the send, caller until the message
   is back in the pool (or refused by a full pool), receive path's next access" reads a released message *)
Theorem C12_handover_late_read_refuted : forall c pre post, (0 < post)%nat ->
  c12_class (ho_trace (ho_run c (ho_bad_sched pre) (ho_init pre post))) = 7%N.
Proof. exact handover_late_read_refuted. Qed.
Print Assumptions C12_handover_late_read_refuted.

Theorem C12_handover_late_read_refuted_full_pool : forall c pre post, (0 < post)%nat ->
  c12_class (ho_trace (ho_run c (ho_bad_sched_full pre) (ho_init pre post))) = 7%N.
Proof. exact handover_late_read_refuted_full_pool. Qed.
Print Assumptions C12_handover_late_read_refuted_full_pool.

(* ... unnoticed whenever the receive path has made its last access before the caller moves (s1: steps of the receive
   path only), whatever comes afterwards *)
Theorem C12_handover_late_read_unnoticed : forall c pre post s1 s2,
  Forall (fun tid => tid = 0%nat) s1 ->
  ho_late (ho_r (ho_run c s1 (ho_init pre post))) = 0%nat ->
  accepted (ho_trace (ho_run c (s1 ++ s2) (ho_init pre post))) /\
  c12_class (ho_trace (ho_run c (s1 ++ s2) (ho_init pre post))) = 0%N.
Proof. exact handover_late_read_unnoticed. Qed.
Print Assumptions C12_handover_late_read_unnoticed.

(* the code as it is under a schedule that runs the caller as early as possible; the variant with a late read of the type
   under the same schedule (class 7) and under the schedule of a sequential test (receive path first: nothing seen) *)
Example C12_instance_handover :
  let sched := [0; 0; 0; 1; 1; 1; 1; 1; 1; 0; 0]%nat in
  (ho_trace (ho_run 5 sched (ho_init (fst (handover_code HoDirect)) (snd (handover_code HoDirect)))) =
     [Use 5; Use 5; Hold 5; Unhold 5 true; AppRel 5; Rel 5; Rec 5]) /\
  (check (ho_trace (ho_run 5 sched (ho_init (fst (handover_code HoReassembled)) (snd (handover_code HoReassembled))))) = 0%N) /\
  (ho_trace (ho_run 5 sched (ho_init (fst handover_late_type_read) (snd handover_late_type_read))) =
     [Use 5; Use 5; Hold 5; Unhold 5 true; AppRel 5; Rel 5; Rec 5; Use 5]) /\
  (check (ho_trace (ho_run 5 sched (ho_init (fst handover_late_type_read) (snd handover_late_type_read)))) = 7%N) /\
  (check (ho_trace (ho_run 5 [0; 0; 0; 0; 1; 1; 1; 1; 1; 1]%nat (ho_init (fst handover_late_token_read) (snd handover_late_token_read)))) = 0%N).
Proof. vm_compute. repeat split. Qed.
