(* C08 -- observers only ever see a resource move forward in time.
   Statements only; proofs in Observe/Proofs.v.  [valid] is the transcription of
   observation.ValidSequenceNumber, [run] folds Handler.Handle / NewObservation / Cancel over
   an arbitrary history of events, the predicates of Observe/Spec.v are RFC 7641 3.4 and the
   property text. *)
From Coq Require Import ZArith List Bool.
From GoCoap Require Import Base.Bytes Observe.Model Observe.Spec Observe.Proofs Observe.BwModel Observe.BwSpec Observe.BwProofs Observe.Hash Observe.Conc.
Import ListNotations.
Open Scope Z_scope.

(* the predicate is the RFC rule -- for ALL 24-bit sequence numbers and all times ... *)
Theorem C08_rfc : forall v1 v2 t1 t2,
  0 <= v1 < 2 ^ 24 -> 0 <= v2 < 2 ^ 24 ->
  valid v1 v2 t1 t2 = rfc_fresh v1 v2 t1 t2.
Proof. exact valid_rfc. Qed.
Print Assumptions C08_rfc.

(* ... and even for all uint32 values (the uint32 subtractions never wrap where they are used) *)
Theorem C08_rfc_uint32 : forall v1 v2 t1 t2,
  0 <= v1 < 2 ^ 32 -> 0 <= v2 < 2 ^ 32 ->
  valid v1 v2 t1 t2 = rfc_fresh v1 v2 t1 t2.
Proof. exact valid_rfc_uint32. Qed.
Print Assumptions C08_rfc_uint32.

(* wrap-around: the rule is serial-number arithmetic modulo 2^24 -- V2 is accepted iff it is
   1 .. 2^23-1 steps ahead of V1 (or more than 128 s passed) *)
Theorem C08_wrap_serial : forall v1 v2 t1 t2,
  0 <= v1 < 2 ^ 24 -> 0 <= v2 < 2 ^ 24 ->
  valid v1 v2 t1 t2 =
  ((0 <? (v2 - v1) mod 2 ^ 24) && ((v2 - v1) mod 2 ^ 24 <? 2 ^ 23)) || (t2 - t1 >? rfc_128s).
Proof. exact valid_serial. Qed.
Print Assumptions C08_wrap_serial.

Theorem C08_wrap : forall t1 t2, t2 - t1 <= rfc_128s ->
  valid (2 ^ 24 - 1) 0 t1 t2 = true /\ valid (2 ^ 24 - 1) 3 t1 t2 = true /\
  valid 0 (2 ^ 24 - 1) t1 t2 = false /\ valid 3 (2 ^ 24 - 1) t1 t2 = false /\
  valid 0 1 t1 t2 = true /\ valid 1 0 t1 t2 = false /\
  (forall v, 0 <= v -> v + 2 ^ 23 < 2 ^ 24 ->
     valid v (v + 2 ^ 23 - 1) t1 t2 = true /\ valid (v + 2 ^ 23 - 1) v t1 t2 = false /\
     valid v (v + 2 ^ 23) t1 t2 = false /\ valid (v + 2 ^ 23) v t1 t2 = false) /\
  (forall v, 0 <= v -> v + 2 ^ 23 + 1 < 2 ^ 24 ->
     valid (v + 2 ^ 23 + 1) v t1 t2 = true /\ valid v (v + 2 ^ 23 + 1) t1 t2 = false).
Proof. exact wrap_instances. Qed.
Print Assumptions C08_wrap.

(* a duplicate is accepted only after 128 s; within 128 s "fresher" is antisymmetric *)
Theorem C08_duplicate : forall v t1 t2, 0 <= v < 2 ^ 24 -> valid v v t1 t2 = (t2 - t1 >? rfc_128s).
Proof. exact valid_duplicate. Qed.
Print Assumptions C08_duplicate.

Theorem C08_antisym : forall v1 v2 t1 t2 t1' t2',
  0 <= v1 < 2 ^ 24 -> 0 <= v2 < 2 ^ 24 -> t2 - t1 <= rfc_128s -> t2' - t1' <= rfc_128s ->
  valid v1 v2 t1 t2 = true -> valid v2 v1 t1' t2' = false.
Proof. exact valid_antisym. Qed.
Print Assumptions C08_antisym.

(* wantBeNotified: the observation's state changes only when the notification is delivered *)
Theorem C08_state_only_on_delivery : forall o sq now o',
  (want o sq now = (o', false) -> o' = o) /\
  (want o None now = (o, true)) /\
  (forall v, want o (Some v) now = (o', true) ->
     valid (o_seq o) v (o_last o) now = true /\ o_seq o' = v /\ o_last o' = now /\
     o_id o' = o_id o /\ o_tok o' = o_tok o /\ o_wait o' = o_wait o).
Proof.
  intros o sq now o'. split; [apply want_dropped|]. split; [apply want_no_seq|]. intros v. apply want_delivered.
Qed.
Print Assumptions C08_state_only_on_delivery.

(* duplicates, stale notifications and the exact 2^23 jump are dropped (and change nothing) unless 128 s passed *)
Theorem C08_not_ahead_dropped : forall o v now,
  0 <= o_seq o < 2 ^ 24 -> 0 <= v < 2 ^ 24 ->
  ~ (0 < (v - o_seq o) mod 2 ^ 24 < 2 ^ 23) -> now - o_last o <= rfc_128s ->
  want o (Some v) now = (o, false).
Proof. exact want_not_ahead_dropped. Qed.
Print Assumptions C08_not_ahead_dropped.

(* in ANY history of registrations, messages (any tokens, codes, sequence numbers, order,
   duplication, times) and cancellations, the notifications handed to the callback of each
   registration are consecutively fresher per RFC 7641 3.4 *)
Theorem C08_monotone : forall dec evs id,
  wf_evs dec evs -> forward_ok id (snd (run dec evs)) = true.
Proof. exact monotone. Qed.
Print Assumptions C08_monotone.

(* sequence numbers decoded from datagrams satisfy the hypothesis of C08_monotone *)
Theorem C08_wire_wf : forall evs,
  Forall (fun e => match e with
                   | EMsg m _ => match m_obs m with Some bs => bytes_ok bs = true | None => True end
                   | _ => True end) evs ->
  wf_evs observe_wire evs.
Proof. exact wire_wf. Qed.
Print Assumptions C08_wire_wf.

(* own token: what the code guarantees unconditionally is equality of Token.Hash() ... *)
Theorem C08_own_token_hash : forall dec evs,
  let tr := snd (run dec evs) in
  Forall (fun x => Forall (own_hash (reg_tokens tr)) (snd x)) tr.
Proof. exact own_token_hash. Qed.
Print Assumptions C08_own_token_hash.

(* ... hence the property's "own token only" whenever the tokens in play have distinct CRC-64 *)
Theorem C08_own_token_partial : forall dec evs,
  hash_injective_on (all_tokens evs) -> own_ok (snd (run dec evs)) = true.
Proof. exact own_token. Qed.
Print Assumptions C08_own_token_partial.

(* full statement: forall dec evs, own_ok (snd (run dec evs)) = true.
   It is false (recorded finding, see notes/C08.md and F18 of DESIGN.md): *)
Theorem C08_own_token_refuted : own_ok (snd (run observe_wire collision_history)) = false.
Proof. exact own_token_refuted. Qed.
Print Assumptions C08_own_token_refuted.

(* registration succeeds only on a 2.05 / 2.03 answer, and is refused for its code only otherwise *)
Theorem C08_register_hash : forall dec evs,
  let tr := snd (run dec evs) in
  Forall (fun x => Forall (reg_hash (reg_tokens tr) (fst x)) (snd x)) tr.
Proof. exact register_hash. Qed.
Print Assumptions C08_register_hash.

(* full statement: forall dec evs, register_ok (snd (run dec evs)) = true -- false for the same reason
   as own-token (an answer carrying a colliding foreign token completes the registration) *)
Theorem C08_register_partial : forall dec evs,
  hash_injective_on (all_tokens evs) -> register_ok (snd (run dec evs)) = true.
Proof. exact register. Qed.
Print Assumptions C08_register_partial.

(* once Cancel() has returned or the registration has failed, no later message reaches the callback *)
Theorem C08_after_cancel : forall dec evs id, after_ok id (snd (run dec evs)) = true.
Proof. exact after_cancel. Qed.
Print Assumptions C08_after_cancel.

(* the whole property predicate, as evaluated on observed histories by the correspondence check *)
(* full statement: without the hash hypothesis; refuted by C08_own_token_refuted *)
Theorem C08_holds_partial : forall dec evs,
  wf_evs dec evs -> hash_injective_on (all_tokens evs) -> c08_class (snd (run dec evs)) = 0%N.
Proof. exact c08_holds. Qed.
Print Assumptions C08_holds_partial.

(* non-vacuity: the scenario of DESIGN.md -- first response 5, then 6, 7, duplicate 6, stale 4,
   7+2^23-1, wrapped 3, the exact 2^23 jump, a foreign token, cancel, a late notification *)
Example C08_instance :
  let tok := [161; 178] in
  let n v tag := EMsg (mkMsg tok 69 (Some [v / 65536; (v / 256) mod 256; v mod 256]) tag) 1000 in
  let evs := [EReg tok; n 5 1; n 6 2; n 7 3; n 6 4; n 4 5; n (7 + 2 ^ 23 - 1) 6; n 3 7; n (3 + 2 ^ 23) 8;
              EMsg (mkMsg [9] 69 (Some [8]) 9) 1000; ECancel 0 69; n 4 10] in
  map snd (snd (run observe_wire evs)) =
    [[]; [Cb 0 tok (Some 5) 1; RegRet 0 0]; [Cb 0 tok (Some 6) 2]; [Cb 0 tok (Some 7) 3]; []; [];
     [Cb 0 tok (Some (7 + 2 ^ 23 - 1)) 6]; [Cb 0 tok (Some 3) 7]; []; [Nx [9] 9]; [CanRet 0 1]; [Nx tok 10]]
  /\ c08_class (snd (run observe_wire evs)) = 0%N.
Proof. vm_compute. split; reflexivity. Qed.

(* ---------- Cancel whose deregistration exchange fails ---------- *)

(* C08_after_cancel quantifies over histories that contain such cancellations (ECancelErr): Cancel returns
   an error, and still nothing that arrives later reaches the callback.  The reason, stated directly: the
   observation is out of the table when Cancel returns, whatever became of the deregistration request *)
Theorem C08_failed_cancel_removes : forall s id tok s' os,
  nth_error (regs s) id = Some tok -> cancel_err s id = (s', os) -> live s' tok = false.
Proof. exact cancel_err_removes. Qed.
Print Assumptions C08_failed_cancel_removes.

(* ---------- block-wise notifications (RFC 7959 2.6) ---------- *)
(* [bw_run]: a udp/client.Conn with block-wise transfer: net/blockwise's receive path (reassembly cache keyed
   by the token drawn for the transfer, restart when the ETag changes) in front of the observation handler.
   [view] (Observe/BwSpec.v) reads a wire history as notifications: an answer under a drawn token belongs to
   the notification whose first block made the client draw that token; freshness of a callback invocation is
   judged by the sequence number of THAT notification. *)

(* the observation layer's share of a block-wise run is a run of the model the theorems above are about *)
Theorem C08_blockwise_refines : forall evs,
  obs_trace (snd (bw_run evs)) = snd (run observe_wire (devs (snd (bw_run evs)))).
Proof. exact bw_obs_refines. Qed.
Print Assumptions C08_blockwise_refines.

(* restarting a transfer (other ETag) keeps Observe option, token and code of the first block *)
Theorem C08_blockwise_restart_keeps_observe : forall cm m,
  c_obs (retag cm m) = c_obs cm /\ c_tok (retag cm m) = c_tok cm /\ c_code (retag cm m) = c_code cm.
Proof. exact retag_keeps_observe. Qed.
Print Assumptions C08_blockwise_restart_keeps_observe.

(* once Cancel() has returned or the registration has failed nothing reaches the callback any more - also
   not the body of a block-wise notification that was under way; unconditional *)
Theorem C08_blockwise_after_cancel : forall evs id, after_ok id (view (wire_trace (snd (bw_run evs)))) = true.
Proof. exact bw_after_cancel. Qed.
Print Assumptions C08_blockwise_after_cancel.

(* hypotheses of the next two theorems ([bw_hist_ok]): Observe option values are bytes; Block2 with M = 1 occurs on
   first blocks of notifications and under drawn tokens only; a drawn token is new; no two tokens of the history
   have the same CRC-64 (cf. C08_own_token_refuted); no registration uses a drawn token.
   In every history - notifications overtaking block-wise ones, transfers restarted because the ETag changed,
   several transfers at once, wrong / repeated blocks, cancellations in between - the notifications for which
   the callback of a registration is invoked are consecutively fresher (RFC 7641 3.4) *)
Theorem C08_blockwise_monotone_partial : forall evs id,
  bw_hist_ok evs -> aforward_ok id (view (wire_trace (snd (bw_run evs)))) = true.
Proof. intros evs id H. exact (bw_forward evs id H). Qed.
Print Assumptions C08_blockwise_monotone_partial.

(* full statement: without the CRC-64 hypothesis inside bw_hist_ok; refuted as C08_own_token_refuted *)
Theorem C08_blockwise_holds_partial : forall evs,
  bw_hist_ok evs -> c08b_class (wire_trace (snd (bw_run evs))) = 0%N.
Proof. exact bw_holds. Qed.
Print Assumptions C08_blockwise_holds_partial.

(* non-vacuity: registration, seq 1; first block of seq 10 (ETag e1e1) -> GET block 1 under the drawn token F;
   seq 11 overtakes; block 1 arrives with ETag e2e2 -> restart at block 0; blocks 0 and 1; seq 12.
   The reassembled body belongs to seq 10 and is not delivered.  The hypotheses hold of this history, and the
   predicate rejects the same history with a delivery of the stale body in event 6. *)
Definition bw_example : list bev :=
  let T := [161; 178] in
  let F := [247; 94; 0; 0; 0; 0; 0; 0] in
  [BReg T;
   BMsg (mkW T 69 (Some [1]) None None 1 4) [] 1000;
   BMsg (mkW T 69 (Some [10]) (Some [225; 225]) (Some (0, 0, true)) 2 16) F 1000;
   BMsg (mkW T 69 (Some [11]) None None 3 6) [] 1000;
   BMsg (mkW F 69 None (Some [226; 226]) (Some (0, 1, false)) 4 4) [] 1000;
   BMsg (mkW F 69 None (Some [226; 226]) (Some (0, 0, true)) 5 16) [] 1000;
   BMsg (mkW F 69 None (Some [226; 226]) (Some (0, 1, false)) 6 11) [] 1000;
   BMsg (mkW T 69 (Some [12]) None None 7 5) [] 1000].

Example C08_blockwise_instance :
  bw_hist_ok bw_example /\
  map snd (obs_trace (snd (bw_run bw_example))) =
    [[]; [Cb 0 [161; 178] (Some 1) 1; RegRet 0 0]; []; [Cb 0 [161; 178] (Some 11) 3]; []; []; [];
     [Cb 0 [161; 178] (Some 12) 7]] /\
  map (fun x => snd x) (snd (bw_run bw_example)) =
    [[]; []; [BGet [247; 94; 0; 0; 0; 0; 0; 0] 0 1]; []; [BGet [247; 94; 0; 0; 0; 0; 0; 0] 0 0];
     [BGet [247; 94; 0; 0; 0; 0; 0; 0] 0 1]; []; []] /\
  c08b_class (wire_trace (snd (bw_run bw_example))) = 0%N /\
  c08b_class (combine bw_example
    [[]; [Cb 0 [161; 178] (Some 1) 1; RegRet 0 0]; []; [Cb 0 [161; 178] (Some 11) 3]; []; [];
     [Cb 0 [161; 178] None 5]; [Cb 0 [161; 178] (Some 12) 7]]) = 1%N.
Proof.
  split; [|vm_compute; repeat split; reflexivity].
  split; [|split].
  - cbn [hist_ok bw_example ev_ok]. repeat split; try (intros szx num Hb; try discriminate);
      try (intros _; cbn; intuition discriminate).
    + left. reflexivity.
    + right. cbn. discriminate.
  - intros t t' Ht Ht' Hc. cbn in Ht, Ht'.
    repeat (destruct Ht as [Ht|Ht]; [subst t|]); try contradiction;
      repeat (destruct Ht' as [Ht'|Ht']; [subst t'|]); try contradiction; try reflexivity;
      vm_compute in Hc; discriminate.
  - intros t Ht. cbn in Ht. destruct Ht as [Ht|[]]. subst t. cbn. intuition discriminate.
Qed.

(* ---------- tokens that differ only by leading zero bytes ---------- *)
(* Tokens are opaque byte strings of 0..8 bytes: {2a}, {00 2a}, {00 00 2a} are three tokens, {} and {00} are two.
   A key that packs the bytes into an integer and forgets the length confuses them; CRC-64 as Go computes it
   (register preset to all ones, one byte step is a bijection of the register) does not -- for ALL tokens t and
   every number 1..8 of zero bytes in front (Observe/Hash.v): *)
Theorem C08_hash_leading_zeros : forall t k,
  bytes_ok t = true -> (1 <= k <= 8)%nat -> crc64 (repeat 0 k ++ t) <> crc64 t.
Proof. exact hash_leading_zeros. Qed.
Print Assumptions C08_hash_leading_zeros.

(* the underlying fact: the same bytes hashed from two different registers give different registers *)
Theorem C08_hash_step_injective : forall l s s',
  Forall byte l -> w64 s -> w64 s' -> fold_left crc_byte l s = fold_left crc_byte l s' -> s = s'.
Proof. intros l s s' Hl. exact (fold_inj l Hl s s'). Qed.
Print Assumptions C08_hash_step_injective.

Theorem C08_hash_zero_padded_distinct : forall t j k,
  bytes_ok t = true -> (j <= 8)%nat -> (k <= 8)%nat ->
  crc64 (repeat 0 j ++ t) = crc64 (repeat 0 k ++ t) -> j = k.
Proof. exact hash_zero_padded_distinct. Qed.
Print Assumptions C08_hash_zero_padded_distinct.

(* hence, WITHOUT a hypothesis about the hash: in every history whose tokens are zero-padded variants of one
   token (any number of simultaneous registrations 2a / 002a / 00002a ..., any messages, cancels) each callback
   sees its registration's token only, registrations complete on their own token's 2.05/2.03 only, and the whole
   property predicate holds *)
Theorem C08_own_token_zero_padded : forall dec evs t,
  bytes_ok t = true -> (forall x, In x (all_tokens evs) -> zero_padded t x) ->
  own_ok (snd (run dec evs)) = true.
Proof. exact own_token_zero_padded. Qed.
Print Assumptions C08_own_token_zero_padded.

Theorem C08_holds_zero_padded : forall dec evs t,
  wf_evs dec evs -> bytes_ok t = true -> (forall x, In x (all_tokens evs) -> zero_padded t x) ->
  c08_class (snd (run dec evs)) = 0%N.
Proof. exact c08_holds_zero_padded. Qed.
Print Assumptions C08_holds_zero_padded.

(* non-vacuity: observations 2a and 002a side by side, notifications for 2a, 002a, 00002a, cancel of 002a.
   The hypotheses hold; every notification goes to its own callback (00002a to the default handler); the
   predicate rejects the same history with notification 002a handed to the callback of 2a. *)
Example C08_zero_padded_instance :
  let A := [42] in let B := [0; 42] in let C := [0; 0; 42] in
  let n tok v tag := EMsg (mkMsg tok 69 (Some [v]) tag) 1000 in
  let evs := [EReg A; n A 1 1; n B 10 2; EReg B; n B 11 3; n A 2 4; n C 12 5; n B 12 6; ECancel 1 69; n B 13 7; n A 3 8] in
  (forall x, In x (all_tokens evs) -> zero_padded A x) /\
  map snd (snd (run observe_wire evs)) =
    [[]; [Cb 0 A (Some 1) 1; RegRet 0 0]; [Nx B 2]; []; [Cb 1 B (Some 11) 3; RegRet 1 0]; [Cb 0 A (Some 2) 4];
     [Nx C 5]; [Cb 1 B (Some 12) 6]; [CanRet 1 1]; [Nx B 7]; [Cb 0 A (Some 3) 8]] /\
  c08_class (snd (run observe_wire evs)) = 0%N /\
  c08_class (combine evs
    [[]; [Cb 0 A (Some 1) 1; RegRet 0 0]; [Cb 0 B (Some 10) 2]; [RegRet 1 3]; []; []; []; []; []; []; []]) = 2%N.
Proof.
  split; [|vm_compute; repeat split; reflexivity].
  assert (P0 : zero_padded [42] [42]) by (exists 0%nat; split; [repeat constructor|reflexivity]).
  assert (P1 : zero_padded [42] [0; 42]) by (exists 1%nat; split; [repeat constructor|reflexivity]).
  assert (P2 : zero_padded [42] [0; 0; 42]) by (exists 2%nat; split; [repeat constructor|reflexivity]).
  intros x Hx. cbn in Hx.
  repeat (destruct Hx as [Hx|Hx]; [subst x; assumption|]).
  contradiction.
Qed.

(* ---- work package C08k: copies of one notification handled by several goroutines at once ---- *)

(* wantBeNotified tests and records in one critical section, so a batch of goroutines is [want] folded in
   lock order; the clock readings (taken before the lock) may come in any order.  Copies of one notification
   whose clock readings are at most 128 s apart reach the callback at most once, from any state. *)
Theorem C08_concurrent_duplicates_once : forall ts o v,
  0 <= v < 2 ^ 24 ->
  (forall t t', In t ts -> In t' ts -> t' - t <= rfc_128s) ->
  (delivered (snd (batch o v ts)) <= 1)%nat.
Proof. exact batch_once. Qed.
Print Assumptions C08_concurrent_duplicates_once.

(* the critical section is exactly "test, then record" *)
Theorem C08_want_is_check_then_record : forall o v now,
  want o (Some v) now = if check o v now then (record o v now, true) else (o, false).
Proof. exact want_check_record. Qed.
Print Assumptions C08_want_is_check_then_record.

(* non-vacuity / why the atomicity matters: with the test and the recording as two critical sections the
   schedule check0 check1 record0 record1 delivers both copies of notification 2 (not fresher than itself);
   the atomic batch delivers one. *)
Example C08_split_sections_refuted :
  let o := mkObs 0 [1] 1 1000 false in
  snd (split_run 2 (fun _ => 2000) [TCheck 0; TCheck 1; TRecord 0; TRecord 1] o (fun _ => false)) = [0%nat; 1%nat]
  /\ rfc_fresh 2 2 2000 2000 = false
  /\ snd (batch o 2 [2000; 2000]) = [true; false].
Proof. exact split_not_once. Qed.
