(* C09 -- the list of on-close callbacks as the Go SLICE it is: a backing array
   that popOnClose, the loop of shutdown and AddOnClose may share.  Definitions
   only; proofs in RegProofs.v.

   Transcribed from udp/server/session.go (tcp/client/session.go and dtls/server/session.go have the same shape):

     AddOnClose(f): lock; s.onClose = append(s.onClose, f); unlock
     popOnClose():  lock; tmp := s.onClose; s.onClose = <nil | s.onClose[:0]>; unlock; return tmp
     shutdown():    for _, f := range s.popOnClose() { f() }

   Close.v treats the popped list as a VALUE and a callback as an atomic action that does nothing to the session.
   Here a slice is (array id, length) over a heap of arrays, the capacity is the length of the array; `append` writes
   in place while there is room and otherwise moves to a new array of twice the capacity (Go's growth for small
   slices; the theorems do not depend on the factor); `for _, f := range tmp` evaluates tmp once and READS tmp[i]
   from the array at iteration i; a callback f, when it runs, registers the callbacks [regs f] on the same
   connection (AddOnClose from inside an on-close callback), one lock section each.  Other goroutines register
   callbacks concurrently (threads of RAdd).

   PopNil: `s.onClose = nil` (the source): the next append allocates.  PopTrunc: `s.onClose = s.onClose[:0]`: the next
   append writes into the array the loop of shutdown is still reading. *)
From Coq Require Import List Bool Arith.
From GoCoap Require Import Liveness.Close.
Import ListNotations.

Inductive popshape := PopNil | PopTrunc.

Inductive ract :=
| RAdd (f : nat)        (* AddOnClose(f) *)
| RPop                  (* popOnClose(); the iterations over the popped slice become the thread's next actions *)
| RIter (a i : nat).    (* iteration i of the range loop over array a: read element i, call it *)

Record rst := mkR {
  r_heap : list (list nat);       (* arrays; array id = index *)
  r_on : option (nat * nat);      (* s.onClose: None = nil, Some (array, length) *)
  r_ran : list nat;               (* callbacks executed so far, latest first *)
  r_added : list nat;             (* ghost: every f ever passed to AddOnClose in this run *)
  r_popped : bool }.              (* ghost: some popOnClose has happened *)

Definition grow (c : nat) : nat := match c with 0 => 1 | _ => 2 * c end.

Definition arr (h : list (list nat)) (a : nat) : list nat := nth a h [].

(* append(s, f) *)
Definition append (h : list (list nat)) (on : option (nat * nat)) (f : nat) : list (list nat) * option (nat * nat) :=
  match on with
  | None => (h ++ [[f]], Some (List.length h, 1))
  | Some (a, l) =>
      if l <? List.length (arr h a) then (upd a (upd l f (arr h a)) h, Some (a, S l))
      else (h ++ [firstn l (arr h a) ++ f :: repeat 0 (grow (List.length (arr h a)) - S l)], Some (List.length h, S l))
  end.

(* the elements of a slice *)
Definition view (h : list (list nat)) (on : option (nat * nat)) : list nat :=
  match on with None => [] | Some (a, l) => firstn l (arr h a) end.

Definition ract_step (v : popshape) (regs : nat -> list nat) (s : rst) (a : ract) : rst * list ract :=
  match a with
  | RAdd f =>
      let ho := append (r_heap s) (r_on s) f in
      (mkR (fst ho) (snd ho) (r_ran s) (f :: r_added s) (r_popped s), [])
  | RPop =>
      match r_on s with
      | None => (mkR (r_heap s) None (r_ran s) (r_added s) true, [])
      | Some (a, l) =>
          (mkR (r_heap s) (match v with PopNil => None | PopTrunc => Some (a, 0) end) (r_ran s) (r_added s) true,
           map (RIter a) (seq 0 l))
      end
  | RIter a i =>
      let f := nth i (arr (r_heap s) a) 0 in
      (mkR (r_heap s) (r_on s) (f :: r_ran s) (r_added s) (r_popped s), map RAdd (regs f))
  end.

Definition rsys := (rst * list (list ract))%type.

Definition rstep (v : popshape) (regs : nat -> list nat) (x : rsys) (tid : nat) : rsys :=
  match nth_error (snd x) tid with
  | Some (a :: rest) => let sp := ract_step v regs (fst x) a in (fst sp, upd tid (snd sp ++ rest) (snd x))
  | _ => x
  end.

Definition rexec (v : popshape) (regs : nat -> list nat) (x : rsys) (sched : list nat) : rsys :=
  fold_left (rstep v regs) sched x.

Definition rall_done (ts : list (list ract)) : Prop := Forall (fun p => p = []) ts.

(* a connection on which the callbacks cbs were registered, in this order, before anything else happened *)
Definition build (cbs : list nat) : list (list nat) * option (nat * nat) :=
  fold_left (fun ho f => append (fst ho) (snd ho) f) cbs ([], None).
Definition r_init (cbs : list nat) : rst := mkR (fst (build cbs)) (snd (build cbs)) [] [] false.

(* what application code does with the registry: AddOnClose, and whatever makes the session shut down *)
Definition user_act (a : ract) : bool := match a with RIter _ _ => false | _ => true end.
Definition is_pop (a : ract) : bool := match a with RPop => true | _ => false end.

Definition ran_count (s : rst) (f : nat) : nat := count_occ Nat.eq_dec (r_ran s) f.

(* weights for counting *)
Definition wi (h : list (list nat)) (f : nat) (a : ract) : nat :=
  match a with RIter b i => if Nat.eqb (nth i (arr h b) 0) f then 1 else 0 | _ => 0 end.
Definition wpop (a : ract) : nat := match a with RPop => 1 | _ => 0 end.
Definition tsum (w : ract -> nat) (ts : list (list ract)) : nat := list_sum (map (fun p => list_sum (map w p)) ts).
