(* C09 -- proofs about the table of pending message IDs (Table.v).

   F. For ARBITRARY thread programs made of complete, non-nested critical
      sections of the read/write lock (sec_ok) -- any number of housekeeping walks
      in the shape of Map.Range over any number of entries, any number of
      operations, acknowledgements -- under EVERY schedule: the system is never
      stuck (while a thread has something left some thread can take a step), every
      step taken shortens the programs, so from every reachable state it
      completes; when all threads have returned the lock is free
      (table_never_stuck, tstep_measure, table_completes).  The library's
      programs are of that shape (walk_range_ok ...).

   G. A walk in the shape of Map.Range2 whose callback removes an entry (write
      section nested in the read section) parks for ever on itself; every other
      goroutine that needs the table -- the clean-up of the waiting operation, a
      new operation -- parks behind it for ever (walk_under_read_lock_deadlocks). *)
From Coq Require Import List Bool Arith Lia.
From GoCoap Require Import Liveness.Close Liveness.Table Liveness.StallProofs.
Import ListNotations.
Local Notation length := List.length (only parsing).
Local Open Scope list_scope.

(* ================= lists ================= *)
Lemma sum_upd : forall {A} (W : A -> nat) (l : list A) n x y,
  nth_error l n = Some x -> list_sum (map W (upd n y l)) + W x = list_sum (map W l) + W y.
Proof.
  intros A W. induction l as [|z l IH]; intros n x y H; destruct n; simpl in *; try discriminate.
  - injection H as ->. lia.
  - specialize (IH _ _ y H). lia.
Qed.

Lemma sum_pos_ex : forall {A} (W : A -> nat) (l : list A),
  1 <= list_sum (map W l) -> exists n x, nth_error l n = Some x /\ 1 <= W x.
Proof.
  intros A W. induction l as [|z l IH]; simpl; intros H; [lia|].
  destruct (W z) eqn:Hz.
  - destruct (IH H) as [n [x [Hn Hx]]]. exists (S n), x. auto.
  - exists 0, z. simpl. split; [reflexivity|lia].
Qed.

Lemma tdone_or_not : forall ts : list (list tact),
  tall_done ts \/ exists tid a rest, nth_error ts tid = Some (a :: rest).
Proof.
  induction ts as [|p ts IH].
  - left. constructor.
  - destruct p as [|a rest].
    + destruct IH as [IH|[tid [a [rest H]]]].
      * left. constructor; auto.
      * right. exists (S tid), a, rest. exact H.
    + right. exists 0, a, rest. reflexivity.
Qed.

(* ================= steps ================= *)
Lemma tstep_run : forall x tid a rest,
  nth_error (snd x) tid = Some (a :: rest) -> tenabled (fst x) a = true ->
  tstep x tid = (tact_step (fst x) a, upd tid rest (snd x)).
Proof. intros x tid a rest Hn He. unfold tstep. rewrite Hn, He. reflexivity. Qed.

Lemma tstep_idle : forall x tid, tcan_run x tid = false -> tstep x tid = x.
Proof.
  intros x tid H. unfold tstep, tcan_run in *.
  destruct (nth_error (snd x) tid) as [[|a rest]|]; auto. rewrite H. reflexivity.
Qed.

Lemma tstuck_forever : forall x, (forall tid, tcan_run x tid = false) -> forall sched, texec x sched = x.
Proof.
  intros x H sched. induction sched as [|t sched IH]; simpl; [reflexivity|].
  rewrite tstep_idle by apply H. exact IH.
Qed.

(* every step taken shortens the programs by one action; a parked thread changes nothing (tstep_idle) *)
Theorem tstep_measure : forall x tid,
  tcan_run x tid = true -> S (tmeasure (snd (tstep x tid))) = tmeasure (snd x).
Proof.
  intros x tid H. unfold tcan_run in H.
  destruct (nth_error (snd x) tid) as [[|a rest]|] eqn:Hn; try discriminate.
  rewrite (tstep_run x tid a rest Hn H). simpl.
  pose proof (sum_upd (@List.length tact) (snd x) tid (a :: rest) rest Hn) as M.
  unfold tmeasure. simpl in M. lia.
Qed.

(* ================= F. the invariant ================= *)
Record TInv (x : tsys) : Prop := mkTInv {
  ti_ok : Forall (fun p => suf_ok p = true) (snd x);
  ti_readers : t_readers (fst x) = heads TRUnlock (snd x);
  ti_wpend : t_wpend (fst x) = heads TWAcq (snd x);
  ti_writer : (if t_writer (fst x) then 1 else 0) = heads TWUnlock (snd x) }.

(* a program that starts at a section boundary holds nothing and waits for nothing *)
Lemma sec_ok_head : forall p a, sec_ok p = true -> at_head a p = 0.
Proof.
  intros p a H. destruct p as [|b r]; [destruct a; reflexivity|].
  destruct b; simpl in H; try discriminate; destruct a; reflexivity.
Qed.

Lemma heads_upd : forall a ts tid p q,
  nth_error ts tid = Some p -> heads a (upd tid q ts) + at_head a p = heads a ts + at_head a q.
Proof. intros a ts tid p q H. unfold heads. apply sum_upd. exact H. Qed.

Lemma tinv_step : forall x tid, TInv x -> TInv (tstep x tid).
Proof.
  intros [s ts] tid I. unfold tstep. simpl.
  destruct (nth_error ts tid) as [[|a rest]|] eqn:Hn; try exact I.
  destruct (tenabled s a) eqn:He; [|exact I].
  destruct I as [Hok Hr Hp Hw]. simpl in *.
  pose proof (Forall_nth_error _ _ _ _ Hok Hn) as Hs. simpl in Hs.
  pose proof (heads_upd TRUnlock ts tid (a :: rest) rest Hn) as U1.
  pose proof (heads_upd TWAcq ts tid (a :: rest) rest Hn) as U2.
  pose proof (heads_upd TWUnlock ts tid (a :: rest) rest Hn) as U3.
  destruct a; simpl in *.
  - (* TRLock: the rest is TRUnlock :: r *)
    destruct rest as [|b r]; try discriminate. destruct b; try discriminate.
    constructor; simpl in *; try lia.
    + apply Forall_upd; [exact Hok|exact Hs].
  - (* TRUnlock: the rest starts at a section boundary *)
    pose proof (sec_ok_head rest TRUnlock Hs) as Z1.
    pose proof (sec_ok_head rest TWAcq Hs) as Z2.
    pose proof (sec_ok_head rest TWUnlock Hs) as Z3.
    constructor; simpl in *; try lia.
    + apply Forall_upd; [exact Hok|].
      destruct rest as [|b r]; [reflexivity|]. destruct b; simpl in *; try discriminate; exact Hs.
  - (* TWReq: the rest is TWAcq :: TWUnlock :: r *)
    destruct rest as [|b r]; try discriminate. destruct b; try discriminate.
    destruct r as [|c r]; try discriminate. destruct c; try discriminate.
    constructor; simpl in *; try lia.
    + apply Forall_upd; [exact Hok|exact Hs].
  - (* TWAcq: the rest is TWUnlock :: r; the write lock was free *)
    destruct rest as [|b r]; try discriminate. destruct b; try discriminate.
    apply andb_true_iff in He. destruct He as [He _]. apply negb_true_iff in He. rewrite He in Hw.
    constructor; simpl in *; try lia.
    + apply Forall_upd; [exact Hok|exact Hs].
  - (* TWUnlock *)
    pose proof (sec_ok_head rest TRUnlock Hs) as Z1.
    pose proof (sec_ok_head rest TWAcq Hs) as Z2.
    pose proof (sec_ok_head rest TWUnlock Hs) as Z3.
    constructor; simpl in *; try lia.
    + apply Forall_upd; [exact Hok|].
      destruct rest as [|b r]; [reflexivity|]. destruct b; simpl in *; try discriminate; exact Hs.
    + destruct (t_writer s); lia.
Qed.

Lemma tinv_exec : forall sched x, TInv x -> TInv (texec x sched).
Proof. induction sched as [|t sched IH]; intros x I; simpl; [exact I|]. apply IH, tinv_step, I. Qed.

Lemma heads_sec_ok : forall a ts, Forall (fun p => sec_ok p = true) ts -> heads a ts = 0.
Proof.
  intros a ts H. induction H as [|p ts Hp _ IH]; [reflexivity|].
  unfold heads in *. simpl. rewrite (sec_ok_head p a Hp), IH. reflexivity.
Qed.

Lemma sec_suf : forall p, sec_ok p = true -> suf_ok p = true.
Proof.
  intros p H. destruct p as [|b r]; [reflexivity|]. destruct b; simpl in *; try discriminate; exact H.
Qed.

Lemma tinv_init : forall ts, Forall (fun p => sec_ok p = true) ts -> TInv (t_init, ts).
Proof.
  intros ts H. constructor; simpl.
  - eapply Forall_impl; [|exact H]. intros p Hp. apply sec_suf, Hp.
  - symmetry. apply heads_sec_ok, H.
  - symmetry. apply heads_sec_ok, H.
  - symmetry. apply heads_sec_ok, H.
Qed.

Lemma at_head_inv : forall a p, 1 <= at_head a p -> exists r, p = a :: r.
Proof.
  intros a p H. destruct p as [|b r]; [destruct a; simpl in H; lia|].
  destruct b, a; simpl in H; try lia; eexists; reflexivity.
Qed.

(* never stuck *)
Lemma tnot_stuck : forall x, TInv x -> ~ tall_done (snd x) -> exists tid, tcan_run x tid = true.
Proof.
  intros [s ts] I Hnd. destruct (tdone_or_not ts) as [Hd|[tid [a [rest Hn]]]]; [contradiction|].
  destruct I as [Hok Hr Hp Hw]. simpl in *.
  destruct (t_writer s) eqn:Ew.
  - (* the holder of the write lock can release it *)
    destruct (sum_pos_ex (at_head TWUnlock) ts) as [t0 [p0 [Hp0 H1]]]; [unfold heads in Hw; lia|].
    destruct (at_head_inv _ _ H1) as [r ->].
    exists t0. unfold tcan_run. simpl. rewrite Hp0. reflexivity.
  - destruct (t_readers s) as [|nr] eqn:Er.
    + (* the lock is free *)
      destruct (tenabled s a) eqn:He.
      * exists tid. unfold tcan_run. simpl. rewrite Hn. exact He.
      * destruct a; simpl in He; try discriminate.
        -- (* a reader waits behind an announced writer, which can acquire *)
           rewrite Ew in He. simpl in He. apply Nat.eqb_neq in He.
           destruct (sum_pos_ex (at_head TWAcq) ts) as [t0 [p0 [Hp0 H1]]]; [unfold heads in Hp; lia|].
           destruct (at_head_inv _ _ H1) as [r ->].
           exists t0. unfold tcan_run. simpl. rewrite Hp0. simpl. rewrite Ew, Er. reflexivity.
        -- rewrite Ew, Er in He. discriminate.
    + (* a holder of a read lock can release it *)
      destruct (sum_pos_ex (at_head TRUnlock) ts) as [t0 [p0 [Hp0 H1]]]; [unfold heads in Hr; lia|].
      destruct (at_head_inv _ _ H1) as [r ->].
      exists t0. unfold tcan_run. simpl. rewrite Hp0. reflexivity.
Qed.

Lemma tcompletes_from : forall n x, TInv x -> tmeasure (snd x) <= n ->
  exists ext, tall_done (snd (texec x ext)).
Proof.
  induction n as [|n IH]; intros x I Hm.
  - destruct (tdone_or_not (snd x)) as [Hd|[tid [a [rest Hn]]]].
    + exists []. exact Hd.
    + exfalso. assert (Hnd : ~ tall_done (snd x)).
      { intro Hd. pose proof (Forall_nth_error _ _ _ _ Hd Hn) as E. simpl in E. discriminate. }
      destruct (tnot_stuck x I Hnd) as [t Ht]. pose proof (tstep_measure x t Ht). lia.
  - destruct (tdone_or_not (snd x)) as [Hd|[tid [a [rest Hn]]]].
    + exists []. exact Hd.
    + assert (Hnd : ~ tall_done (snd x)).
      { intro Hd. pose proof (Forall_nth_error _ _ _ _ Hd Hn) as E. simpl in E. discriminate. }
      destruct (tnot_stuck x I Hnd) as [t Ht]. pose proof (tstep_measure x t Ht) as M.
      destruct (IH (tstep x t) (tinv_step x t I)) as [ext Hext]; [lia|].
      exists (t :: ext). exact Hext.
Qed.

Lemma heads_done : forall a ts, tall_done ts -> heads a ts = 0.
Proof.
  intros a ts H. induction H as [|p ts Hp _ IH]; [reflexivity|].
  subst p. unfold heads in *. simpl. destruct a; exact IH.
Qed.

Theorem table_never_stuck : forall ts sched,
  Forall (fun p => sec_ok p = true) ts ->
  let x := texec (t_init, ts) sched in
  (* never stuck *)
  (~ tall_done (snd x) -> exists tid, tcan_run x tid = true) /\
  (* completes: every walk, every operation, every clean-up returns *)
  (exists ext, tall_done (snd (texec x ext))) /\
  (* and then the lock is free *)
  (tall_done (snd x) -> fst x = t_init).
Proof.
  intros ts sched G x. pose proof (tinv_exec sched _ (tinv_init ts G)) as I. fold x in I.
  split; [apply tnot_stuck; exact I|]. split.
  - apply (tcompletes_from (tmeasure (snd x)) x I). lia.
  - intros Hd. destruct I as [_ Hr Hp Hw].
    rewrite (heads_done TRUnlock _ Hd) in Hr. rewrite (heads_done TWAcq _ Hd) in Hp.
    rewrite (heads_done TWUnlock _ Hd) in Hw.
    destruct (fst x) as [r w p]. simpl in *. subst. destruct w; [discriminate|reflexivity].
Qed.

(* ---------- the library's programs are made of complete, non-nested sections ---------- *)
Lemma sec_ok_app : forall p q, sec_ok p = true -> sec_ok q = true -> sec_ok (p ++ q) = true.
Proof.
  fix IH 1. intros p q Hp Hq. destruct p as [|a r]; [exact Hq|].
  destruct a; simpl in Hp; try discriminate.
  - destruct r as [|b r]; try discriminate. destruct b; try discriminate. simpl. apply IH; assumption.
  - destruct r as [|b r]; try discriminate. destruct b; try discriminate.
    destruct r as [|c r]; try discriminate. destruct c; try discriminate. simpl. apply IH; assumption.
Qed.

Lemma walk_range_ok : forall dels, sec_ok (walk true dels) = true.
Proof.
  unfold walk. induction dels as [|d dels IH]; [reflexivity|].
  simpl. destruct d; simpl; exact IH.
Qed.

Lemma walk_quiet_ok : forall unlocks n, sec_ok (walk unlocks (repeat false n)) = true.
Proof.
  intros [|] n; [apply walk_range_ok|].
  unfold walk. induction n as [|n IH]; [reflexivity|]. simpl. exact IH.
Qed.

Lemma op_prog_ok : sec_ok op_prog = true. Proof. reflexivity. Qed.
Lemma cleanup_prog_ok : sec_ok cleanup_prog = true. Proof. reflexivity. Qed.

(* any number of housekeeping walks in the shape of Map.Range (each over any entries, giving up any of them),
   any number of operations at any stage, any number of acknowledgements *)
Definition lib_table_sys (walks : list (list bool)) (nops ncleanups nacks : nat) : list (list tact) :=
  map (walk true) walks ++ repeat op_prog nops ++ repeat cleanup_prog ncleanups ++ repeat ack_prog nacks.

Lemma lib_table_sys_ok : forall walks nops ncleanups nacks,
  Forall (fun p => sec_ok p = true) (lib_table_sys walks nops ncleanups nacks).
Proof.
  intros. unfold lib_table_sys. repeat (apply Forall_app; split).
  - apply Forall_forall. intros p Hp. apply in_map_iff in Hp. destruct Hp as [d [<- _]]. apply walk_range_ok.
  - apply Forall_forall. intros p Hp. apply repeat_spec in Hp. subst. reflexivity.
  - apply Forall_forall. intros p Hp. apply repeat_spec in Hp. subst. reflexivity.
  - apply Forall_forall. intros p Hp. apply repeat_spec in Hp. subst. reflexivity.
Qed.

Theorem housekeeping_never_blocks_operations : forall walks nops ncleanups nacks sched,
  let x := texec (t_init, lib_table_sys walks nops ncleanups nacks) sched in
  (~ tall_done (snd x) -> exists tid, tcan_run x tid = true) /\
  (exists ext, tall_done (snd (texec x ext))) /\
  (tall_done (snd x) -> fst x = t_init).
Proof. intros. apply table_never_stuck, lib_table_sys_ok. Qed.

(* ================= G. the walk under the read lock ================= *)
(* one walk in the shape of Map.Range2 that gives one entry up, the clean-up of the operation that waits for
   that very message, and an operation started afterwards: after the walk has announced its Delete nobody can
   take a step any more, whatever the schedule *)
Theorem walk_under_read_lock_deadlocks :
  exists pre, forall sched,
    let x := texec (t_init, tick_sys false true 1) (pre ++ sched) in
    nth_error (snd x) 0 = Some [TWAcq; TWUnlock; TRUnlock] /\      (* the housekeeping, parked on itself *)
    nth_error (snd x) 1 = Some [TWAcq; TWUnlock] /\                (* the waiting operation never returns *)
    nth_error (snd x) 2 = Some (TWAcq :: TWUnlock :: wsec) /\      (* nor does a later one *)
    forall tid, tcan_run x tid = false.
Proof.
  exists [0; 0; 1; 2]. intros sched x.
  assert (S0 : forall tid, tcan_run (texec (t_init, tick_sys false true 1) [0; 0; 1; 2]) tid = false).
  { intros tid. destruct tid as [|[|[|[|tid]]]]; vm_compute; reflexivity. }
  assert (E : x = texec (t_init, tick_sys false true 1) [0; 0; 1; 2]).
  { unfold x, texec. rewrite fold_left_app. apply (tstuck_forever _ S0). }
  rewrite E. repeat split; try (vm_compute; reflexivity). exact S0.
Qed.

(* with the lock released around the callback the same system completes under every schedule *)
Corollary walk_range_completes : forall nticks del sched,
  let x := texec (t_init, tick_sys true del nticks) sched in
  (~ tall_done (snd x) -> exists tid, tcan_run x tid = true) /\
  (exists ext, tall_done (snd (texec x ext))).
Proof.
  intros nticks del sched x.
  assert (G : Forall (fun p => sec_ok p = true) (tick_sys true del nticks)).
  { unfold tick_sys. apply Forall_app. split.
    - apply Forall_forall. intros p Hp. apply repeat_spec in Hp. subst. apply walk_range_ok.
    - repeat constructor. }
  destruct (table_never_stuck _ sched G) as [A [B _]]. split; assumption.
Qed.
