(* C09 -- proofs.
   A. wait automaton: an interrupted operation whose waits listen returns within
      (number of remaining waits) schedulings, whatever the environment does;
      a wait that does not listen never returns (the shape of F13).
   B. the generated inventory (Gen/WakeSets.v) meets the requirements of Spec.v
      -- finite check by vm_compute over data regenerated from the source.
   C. close protocol: for all schedules of any number of Close / shutdown /
      AddOnClose threads every callback runs at most once, Done is completed at
      most once, nothing panics; when all threads have finished every callback
      registered before the close ran exactly once and Done is completed. *)
From Coq Require Import List Bool String Arith Lia Permutation.
From GoCoap Require Import Liveness.Model Liveness.Close Liveness.Spec Gen.WakeSets.
Import ListNotations.
Local Notation length := List.length (only parsing).
Local Open Scope list_scope.

(* ================= A. the wait automaton ================= *)

Definition wakes_on_cancel (a : await) : Prop := has ReqCtx (a_chans a) = true.
Definition wakes_on_close (a : await) : Prop :=
  has ConnCtx (a_chans a) = true \/ has SrvCtx (a_chans a) = true \/
  (a_released a = true /\ has Result (a_chans a) = true).

Definition interrupted (s : ost) : Prop :=
  (cancelled s = true /\ Forall wakes_on_cancel (rem s)) \/
  (closed s = true /\ Forall wakes_on_close (rem s)).

Lemma env_step_rem : forall s e, rem (env_step s e) = rem s.
Proof. intros s e; destruct e; reflexivity. Qed.
Lemma env_step_ret : forall s e, ret (env_step s e) = ret s.
Proof. intros s e; destruct e; reflexivity. Qed.
Lemma env_step_cancelled : forall s e, cancelled s = true -> cancelled (env_step s e) = true.
Proof. intros s e H; destruct e; simpl; auto. Qed.
Lemma env_step_closed : forall s e, closed s = true -> closed (env_step s e) = true.
Proof. intros s e H; destruct e; simpl; auto. Qed.

Lemma envs_rem : forall es s, rem (fold_left env_step es s) = rem s.
Proof. induction es as [|e es IH]; intros s; simpl; [reflexivity|]. rewrite IH. apply env_step_rem. Qed.
Lemma envs_ret : forall es s, ret (fold_left env_step es s) = ret s.
Proof. induction es as [|e es IH]; intros s; simpl; [reflexivity|]. rewrite IH. apply env_step_ret. Qed.
Lemma envs_cancelled : forall es s, cancelled s = true -> cancelled (fold_left env_step es s) = true.
Proof. induction es as [|e es IH]; intros s H; simpl; auto using env_step_cancelled. Qed.
Lemma envs_closed : forall es s, closed s = true -> closed (fold_left env_step es s) = true.
Proof. induction es as [|e es IH]; intros s H; simpl; auto using env_step_closed. Qed.

Lemma envs_interrupted : forall es s, interrupted s -> interrupted (fold_left env_step es s).
Proof.
  intros es s [[Hc Hf]|[Hc Hf]]; [left|right]; rewrite envs_rem; split; auto using envs_cancelled, envs_closed.
Qed.

Lemma op_step_cases : forall s pick,
  op_step s pick = s \/ (ret s = None /\ In (op_step s pick) (alts s)).
Proof.
  intros s pick. unfold op_step. destruct (ret s) eqn:Hr; [left; reflexivity|].
  destruct (alts s) as [|x l] eqn:Ha; [left; reflexivity|].
  right. split; [reflexivity|]. apply nth_In. apply Nat.mod_upper_bound. simpl. discriminate.
Qed.

Lemma op_step_blocked : forall s pick, alts s = [] -> op_step s pick = s.
Proof. intros s pick H. unfold op_step. rewrite H. destruct (ret s); reflexivity. Qed.

Lemma op_step_returned : forall s pick, ret s <> None -> op_step s pick = s.
Proof. intros s pick H. unfold op_step. destruct (ret s); [reflexivity|congruence]. Qed.

(* the waits still ahead only ever shrink to a suffix *)
Lemma alts_rem_forall : forall (P : await -> Prop) s s', In s' (alts s) -> Forall P (rem s) -> Forall P (rem s').
Proof.
  intros P s s' Hin Hf. unfold alts in Hin. destruct (rem s) as [|a r] eqn:Hr.
  - destruct Hin as [<-|[]]. constructor.
  - inversion Hf as [|? ? Ha Hr']; subst.
    repeat (apply in_app_or in Hin; destruct Hin as [Hin|Hin]);
      repeat match type of Hin with In _ (if ?c then _ else _) => destruct c end;
      simpl in Hin; try contradiction; destruct Hin as [<-|[]]; simpl; try rewrite Hr; auto.
Qed.

Lemma round_rem_forall : forall (P : await -> Prop) s r, Forall P (rem s) -> Forall P (rem (round s r)).
Proof.
  intros P s [es pick] Hf. unfold round; simpl.
  destruct (op_step_cases (fold_left env_step es s) pick) as [-> | [_ Hin]].
  - rewrite envs_rem; assumption.
  - eapply alts_rem_forall; [exact Hin|]. rewrite envs_rem; assumption.
Qed.

Lemma run_rem_forall : forall (P : await -> Prop) tr s, Forall P (rem s) -> Forall P (rem (run s tr)).
Proof. induction tr as [|r tr IH]; intros s H; simpl; auto using round_rem_forall. Qed.

Lemma alts_flags : forall s s', In s' (alts s) -> cancelled s' = cancelled s /\ closed s' = closed s.
Proof.
  intros s s' Hin. unfold alts in Hin. destruct (rem s) as [|a r].
  - destruct Hin as [<-|[]]; auto.
  - repeat (apply in_app_or in Hin; destruct Hin as [Hin|Hin]);
      repeat match type of Hin with In _ (if ?c then _ else _) => destruct c end;
      simpl in Hin; try contradiction; destruct Hin as [<-|[]]; auto.
Qed.

Lemma round_cancelled : forall s r, cancelled s = true -> cancelled (round s r) = true.
Proof.
  intros s [es pick] H. unfold round; simpl.
  destruct (op_step_cases (fold_left env_step es s) pick) as [-> | [_ Hin]].
  - auto using envs_cancelled.
  - apply alts_flags in Hin. destruct Hin as [-> _]. auto using envs_cancelled.
Qed.
Lemma round_closed : forall s r, closed s = true -> closed (round s r) = true.
Proof.
  intros s [es pick] H. unfold round; simpl.
  destruct (op_step_cases (fold_left env_step es s) pick) as [-> | [_ Hin]].
  - auto using envs_closed.
  - apply alts_flags in Hin. destruct Hin as [_ ->]. auto using envs_closed.
Qed.

Lemma round_returned : forall s r, ret s <> None -> ret (round s r) = ret s.
Proof.
  intros s [es pick] H. unfold round; simpl. rewrite op_step_returned; rewrite envs_ret; auto.
Qed.
Lemma run_returned : forall tr s, ret s <> None -> ret (run s tr) = ret s.
Proof.
  induction tr as [|r tr IH]; intros s H; simpl; [reflexivity|].
  rewrite IH; rewrite round_returned; auto.
Qed.

(* one scheduling of an interrupted operation: it returns, or it moves on to its next wait *)
Lemma progress : forall s r, interrupted s -> ret s = None ->
  ret (round s r) <> None \/
  (length (rem (round s r)) < length (rem s) /\ rem (round s r) <> [] /\ interrupted (round s r)).
Proof.
  intros s [es pick] Hi Hn. unfold round; simpl.
  set (s1 := fold_left env_step es s).
  assert (Hi1 : interrupted s1) by (apply envs_interrupted; exact Hi).
  assert (Hn1 : ret s1 = None) by (unfold s1; rewrite envs_ret; exact Hn).
  assert (Hr1 : rem s1 = rem s) by (apply envs_rem).
  rewrite <- Hr1.
  assert (Hne : alts s1 <> []).
  { unfold alts. destruct (rem s1) as [|a r] eqn:Hr; [discriminate|].
    destruct Hi1 as [[Hc Hf]|[Hc Hf]]; rewrite Hr in Hf; inversion Hf as [|? ? Ha _]; subst.
    - unfold wakes_on_cancel in Ha. rewrite Ha, Hc. simpl. discriminate.
    - rewrite Hc. destruct Ha as [Ha|[Ha|[Ha1 Ha2]]].
      + rewrite Ha. simpl. destruct (has ReqCtx (a_chans a) && cancelled s1); simpl; discriminate.
      + rewrite Ha. rewrite orb_true_r. simpl. destruct (has ReqCtx (a_chans a) && cancelled s1); simpl; discriminate.
      + rewrite Ha1, Ha2. simpl. rewrite orb_true_r.
        destruct (has ReqCtx (a_chans a) && cancelled s1); simpl; [discriminate|].
        destruct ((has ConnCtx (a_chans a) || has SrvCtx (a_chans a)) && true); simpl; discriminate. }
  destruct (op_step_cases s1 pick) as [He | [_ Hin]].
  - exfalso. unfold op_step in He. rewrite Hn1 in He. destruct (alts s1) as [|x l] eqn:Ha; [congruence|].
    (* a non-empty alternative list yields an element of it, none of which equals a state that has not returned
       with the same remaining waits *)
    assert (Hin : In s1 (alts s1)).
    { rewrite Ha. rewrite <- He at 1. apply nth_In. apply Nat.mod_upper_bound. simpl; discriminate. }
    unfold alts in Hin. destruct (rem s1) as [|a r] eqn:Hr.
    + destruct Hin as [E|[]]. rewrite <- E in Hn1. discriminate.
    + repeat (apply in_app_or in Hin; destruct Hin as [Hin|Hin]);
        repeat match type of Hin with In _ (if ?c then _ else _) => destruct c end;
        simpl in Hin; try contradiction; destruct Hin as [E|[]];
        try (rewrite <- E in Hn1; discriminate).
      (* the pop: rem would be r = a :: r *)
      assert (Hl : length (rem s1) = length r) by (rewrite <- E; reflexivity).
      rewrite Hr in Hl. simpl in Hl. lia.
  - set (s2 := op_step s1 pick) in *.
    assert (Hfl := alts_flags _ _ Hin). destruct Hfl as [Hc2 Hd2].
    unfold alts in Hin. destruct (rem s1) as [|a r] eqn:Hr.
    + destruct Hin as [E|[]]. left. rewrite <- E. discriminate.
    + repeat (apply in_app_or in Hin; destruct Hin as [Hin|Hin]);
        repeat match type of Hin with In _ (if ?c then _ else _) => destruct c end;
        simpl in Hin; try contradiction; destruct Hin as [E|[]];
        try (left; rewrite <- E; discriminate).
      destruct r as [|b r'].
      * left. rewrite <- E. discriminate.
      * right. rewrite <- E. simpl. split; [lia|]. split; [discriminate|].
        destruct Hi1 as [[Hc Hf]|[Hc Hf]]; rewrite Hr in Hf; inversion Hf; subst; [left|right]; simpl; auto.
Qed.

Lemma returns_core : forall tr s,
  interrupted s -> Nat.max 1 (length (rem s)) <= length tr -> ret (run s tr) <> None.
Proof.
  induction tr as [|r tr IH]; intros s Hi Hl; cbn [List.length] in Hl; [lia|].
  change (run s (r :: tr)) with (run (round s r) tr).
  destruct (ret s) eqn:Hr.
  - rewrite run_returned; rewrite round_returned; congruence.
  - destruct (progress s r Hi Hr) as [Hd | [Hlt [Hne Hi']]].
    + rewrite run_returned; assumption.
    + apply IH; [assumption|].
      destruct (rem (round s r)); [congruence|]. cbn [List.length] in *. lia.
Qed.

(* an operation all of whose waits listen *)
Definition op_listens (op : list await) : Prop := Forall (fun a => wakes_on_cancel a /\ wakes_on_close a) op.

Theorem returns : forall op tr0 tr1,
  op_listens op ->
  let s := run (init op) tr0 in
  cancelled s = true \/ closed s = true ->
  Nat.max 1 (length (rem s)) <= length tr1 ->
  ret (run s tr1) <> None.
Proof.
  intros op tr0 tr1 Hop s Hs Hl. apply returns_core; [|exact Hl].
  assert (Hf : Forall (fun a => wakes_on_cancel a /\ wakes_on_close a) (rem s)).
  { unfold s. apply run_rem_forall. exact Hop. }
  destruct Hs as [Hc|Hc]; [left|right]; split; auto;
    eapply Forall_impl; [|exact Hf| |exact Hf]; simpl; intros a [H1 H2]; assumption.
Qed.

(* the shape of F13: the current wait listens neither to the connection context nor is it released by an
   operation that does; the caller's context is never cancelled and nothing is delivered: the operation never
   returns, however often the connection is closed *)
Definition quiet (e : env) : Prop := e = ConnClose \/ e = PeerSilent \/ e = PeerGarbage.

Lemma stuck_round : forall s r a rest,
  rem s = a :: rest -> has ConnCtx (a_chans a) = false -> has SrvCtx (a_chans a) = false -> a_released a = false ->
  cancelled s = false -> ready s = false -> ret s = None -> Forall quiet (fst r) ->
  let s' := round s r in
  rem s' = a :: rest /\ cancelled s' = false /\ ready s' = false /\ ret s' = None.
Proof.
  intros s [es pick] a rest Hr Hc Hs Hrel Hcan Hrdy Hret Hq. simpl.
  unfold round; simpl in *.
  assert (H1 : rem (fold_left env_step es s) = a :: rest /\ cancelled (fold_left env_step es s) = false /\
               ready (fold_left env_step es s) = false /\ ret (fold_left env_step es s) = None).
  { clear pick. revert s Hr Hcan Hrdy Hret. induction Hq as [|e es He Hq IH]; intros s Hr Hcan Hrdy Hret; simpl; auto.
    apply IH; destruct He as [->|[->| ->]]; simpl; auto. }
  destruct H1 as [Hr1 [Hc1 [Hy1 Ht1]]].
  rewrite op_step_blocked; auto.
  unfold alts. rewrite Hr1, Hc1, Hy1, Hc, Hs, Hrel. simpl.
  rewrite andb_false_r. simpl. rewrite andb_false_r. reflexivity.
Qed.

Theorem no_wake_hangs : forall tr s a rest,
  rem s = a :: rest -> has ConnCtx (a_chans a) = false -> has SrvCtx (a_chans a) = false -> a_released a = false ->
  cancelled s = false -> ready s = false -> ret s = None ->
  Forall (fun r => Forall quiet (fst r)) tr ->
  ret (run s tr) = None.
Proof.
  induction tr as [|r tr IH]; intros s a rest Hr Hc Hs Hrel Hcan Hrdy Hret Hq; simpl; [assumption|].
  inversion Hq as [|? ? Hq1 Hq2]; subst.
  destruct (stuck_round s r a rest Hr Hc Hs Hrel Hcan Hrdy Hret Hq1) as [H1 [H2 [H3 H4]]].
  eapply IH; eauto.
Qed.

(* ================= B. the generated inventory ================= *)

(* finite check over data regenerated from the current source on every run *)
Lemma inventory_checked : inventory_ok inventory = true.
Proof. vm_compute. reflexivity. Qed.

Theorem wakes : forall f, In f inventory ->
  exists r, role_of (f_name f) roles = Some r /\ meets r inventory f = true.
Proof.
  intros f Hin. pose proof inventory_checked as H. unfold inventory_ok in H.
  apply andb_true_iff in H. destruct H as [H _].
  rewrite forallb_forall in H. specialize (H f Hin). unfold fn_ok in H.
  destruct (role_of (f_name f) roles) as [r|]; [|discriminate]. exists r. auto.
Qed.

Theorem named_functions_present : forall n r, In (n, r) roles -> exists f, lookup n inventory = Some f.
Proof.
  intros n r Hin. pose proof inventory_checked as H. unfold inventory_ok in H.
  apply andb_true_iff in H. destruct H as [_ H].
  rewrite forallb_forall in H. specialize (H (n, r) Hin). cbn [fst] in H.
  destruct (lookup n inventory) as [f|]; [eauto|discriminate].
Qed.

(* the client-operation requirement, spelled out *)
Definition released_ok (fuel : nat) (inv : list bfn) (f : bfn) : bool :=
  match fuel with
  | 0 => false
  | S k => match releasers (f_name f) with
           | [] => false
           | rs => forallb (fun g => match lookup g inv with Some fg => client_ok k inv fg | None => false end) rs
           end
  end.

Lemma client_ok_unfold : forall fuel inv f,
  client_ok fuel inv f =
  forallb (fun w => negb (blocking w) ||
                    (has ReqCtx (w_chans w) && (has ConnCtx (w_chans w) || released_ok fuel inv f))) (f_waits f).
Proof. intros fuel inv f. destruct fuel; reflexivity. Qed.

Theorem wakes_client : forall f w,
  In f inventory -> role_of (f_name f) roles = Some ClientOp -> In w (f_waits f) -> blocking w = true ->
  has ReqCtx (w_chans w) = true /\
  (has ConnCtx (w_chans w) = true \/ released_ok fuel0 inventory f = true).
Proof.
  intros f w Hin Hrole Hw Hb. destruct (wakes f Hin) as [r [Hr Hm]].
  rewrite Hrole in Hr. inversion Hr; subst r. change (client_ok fuel0 inventory f = true) in Hm.
  rewrite client_ok_unfold in Hm. rewrite forallb_forall in Hm. specialize (Hm w Hw).
  rewrite Hb in Hm. cbn [negb orb] in Hm. apply andb_true_iff in Hm. destruct Hm as [H1 H2].
  split; [exact H1|]. apply orb_true_iff in H2. exact H2.
Qed.

(* bridge to the automaton: every client-operation function of the inventory, seen as a sequence of waits,
   listens (finite check) *)
Definition await_ok (a : await) : bool :=
  has ReqCtx (a_chans a) &&
  (has ConnCtx (a_chans a) || has SrvCtx (a_chans a) || (a_released a && has Result (a_chans a))).

Definition is_client (f : bfn) : bool :=
  match role_of (f_name f) roles with Some ClientOp => true | _ => false end.

Lemma client_awaits_checked :
  forallb (fun f => negb (is_client f) || forallb await_ok (awaits_of f)) inventory = true.
Proof. vm_compute. reflexivity. Qed.

Lemma await_ok_listens : forall a, await_ok a = true -> wakes_on_cancel a /\ wakes_on_close a.
Proof.
  intros a H. unfold await_ok in H. apply andb_true_iff in H. destruct H as [H1 H2].
  split; [exact H1|]. unfold wakes_on_close.
  apply orb_true_iff in H2. destruct H2 as [H2|H2].
  - apply orb_true_iff in H2. destruct H2; auto.
  - apply andb_true_iff in H2. auto.
Qed.

Lemma client_fn_listens : forall f, In f inventory -> is_client f = true -> op_listens (awaits_of f).
Proof.
  intros f Hin Hc. pose proof client_awaits_checked as H. rewrite forallb_forall in H.
  specialize (H f Hin). rewrite Hc in H. simpl in H. rewrite forallb_forall in H.
  unfold op_listens. apply Forall_forall. intros a Ha. apply await_ok_listens. auto.
Qed.

(* any API call is a concatenation of such functions *)
Theorem ops_return : forall fs tr0 tr1,
  Forall (fun f => In f inventory /\ is_client f = true) fs ->
  let s := run (init (flat_map awaits_of fs)) tr0 in
  cancelled s = true \/ closed s = true ->
  Nat.max 1 (length (rem s)) <= length tr1 ->
  ret (run s tr1) <> None.
Proof.
  intros fs tr0 tr1 Hfs. apply returns.
  unfold op_listens. induction Hfs as [|f fs [Hin Hc] _ IH]; simpl; [constructor|].
  apply Forall_app. split; [|exact IH]. apply client_fn_listens; assumption.
Qed.

(* ================= C. the close protocol ================= *)

Lemma cnt_app : forall w p q, cnt w (p ++ q) = cnt w p + cnt w q.
Proof. intros w p q. unfold cnt. rewrite map_app, list_sum_app. reflexivity. Qed.

Lemma cnt_cons : forall w a p, cnt w (a :: p) = w a + cnt w p.
Proof. reflexivity. Qed.

Lemma cnt_ts_upd : forall w ts n p p',
  nth_error ts n = Some p -> cnt_ts w (upd n p' ts) + cnt w p = cnt_ts w ts + cnt w p'.
Proof.
  intros w. induction ts as [|q ts IH]; intros n p p' H.
  - destruct n; discriminate.
  - destruct n as [|n]; simpl in *.
    + inversion H; subst. unfold cnt_ts. simpl. lia.
    + specialize (IH n p p' H). unfold cnt_ts in *. simpl. lia.
Qed.

Lemma cnt_ts_done : forall w ts, all_done ts -> cnt_ts w ts = 0.
Proof.
  intros w ts H. induction H as [|p ts Hp _ IH]; [reflexivity|].
  subst p. unfold cnt_ts in *. simpl. exact IH.
Qed.

Lemma cnt_run_map : forall f l, cnt (w_run f) (map ARun l) = count_occ Nat.eq_dec l f.
Proof.
  intros f l. induction l as [|g l IH]; [reflexivity|].
  unfold cnt in *. simpl. rewrite IH.
  destruct (Nat.eqb_spec f g); destruct (Nat.eq_dec g f); subst; try congruence; lia.
Qed.
Lemma cnt_other_map : forall w l, (forall g, w (ARun g) = 0) -> cnt w (map ARun l) = 0.
Proof. intros w l H. induction l as [|g l IH]; [reflexivity|]. unfold cnt in *. simpl. rewrite H, IH. reflexivity. Qed.

Definition total (cbs : list nat) (ts0 : list (list action)) (f : nat) : nat :=
  count_occ Nat.eq_dec cbs f + cnt_ts (w_add f) ts0.

Record Inv (k : dkind) (cbs : list nat) (ts0 : list (list action)) (x : sys) : Prop := mkInv {
  i_cons : forall f, count_occ Nat.eq_dec (c_on_close (fst x)) f + cnt_ts (w_run f) (snd x) +
                     count_occ Nat.eq_dec (c_ran (fst x)) f + cnt_ts (w_add f) (snd x) = total cbs ts0 f;
  i_adds : forall f, cnt_ts (w_add f) (snd x) <= cnt_ts (w_add f) ts0;
  i_cbs : forall f, In f cbs -> c_popped (fst x) = true -> count_occ Nat.eq_dec (c_on_close (fst x)) f = 0;
  i_pop : c_popped (fst x) = true \/ cnt_ts w_pop (snd x) = cnt_ts w_pop ts0;
  i_done : (c_done (fst x) = true /\ c_completions (fst x) = 1) \/
           (c_done (fst x) = false /\ c_completions (fst x) = 0 /\ cnt_ts w_done (snd x) = cnt_ts w_done ts0);
  i_chan : k = DoneChan -> cnt_ts w_done (snd x) + c_completions (fst x) <= 1;
  i_panic : c_panics (fst x) = 0;
  i_net : c_net_closes (fst x) = if c_sock_closed (fst x) then 1 else 0 }.

Lemma count_occ_snoc : forall l (g f : nat),
  count_occ Nat.eq_dec (l ++ [g]) f = count_occ Nat.eq_dec l f + (if Nat.eqb f g then 1 else 0).
Proof.
  intros l g f. rewrite count_occ_app. simpl.
  destruct (Nat.eqb_spec f g); destruct (Nat.eq_dec g f); subst; try congruence; lia.
Qed.

Lemma inv_step : forall k cbs ts0 x tid,
  (forall f, total cbs ts0 f <= 1) -> Inv k cbs ts0 x -> Inv k cbs ts0 (step k x tid).
Proof.
  intros k cbs ts0 [s ts] tid Hnd HI. unfold step. simpl.
  destruct (nth_error ts tid) as [[|a rest]|] eqn:Hn; try exact HI.
  destruct HI as [Hcons Hadds Hcbs Hpop Hdone Hchan Hpanic Hnet]. simpl in *.
  assert (U : forall w pre, cnt_ts w (upd tid (pre ++ rest) ts) + w a + cnt w rest = cnt_ts w ts + cnt w pre + cnt w rest).
  { intros w pre. pose proof (cnt_ts_upd w ts tid (a :: rest) (pre ++ rest) Hn) as H.
    rewrite cnt_app, cnt_cons in H. lia. }
  destruct a; simpl.
  - (* ACancel *)
    constructor; simpl; intros;
      try (pose proof (U (w_run f) []) as U1; pose proof (U (w_add f) []) as U2);
      pose proof (U w_pop []) as U3; pose proof (U w_done []) as U4; unfold cnt in *; simpl in *;
      try (specialize (Hcons f); specialize (Hadds f)); auto; try lia.
    + destruct Hpop; [left; assumption|right; lia].
    + destruct Hdone as [?|[? [? ?]]]; [left; assumption|right; repeat split; auto; lia].
    + specialize (Hchan H). lia.
  - (* ASockClose *)
    destruct (c_sock_closed s) eqn:Hsc; simpl.
    + constructor; simpl; intros;
        try (pose proof (U (w_run f) []) as U1; pose proof (U (w_add f) []) as U2);
        pose proof (U w_pop []) as U3; pose proof (U w_done []) as U4; unfold cnt in *; simpl in *;
        try (specialize (Hcons f); specialize (Hadds f)); auto; try lia.
      * destruct Hpop; [left; assumption|right; lia].
      * destruct Hdone as [?|[? [? ?]]]; [left; assumption|right; repeat split; auto; lia].
      * specialize (Hchan H). lia.
      * rewrite Hsc. assumption.
    + constructor; simpl; intros;
        try (pose proof (U (w_run f) []) as U1; pose proof (U (w_add f) []) as U2);
        pose proof (U w_pop []) as U3; pose proof (U w_done []) as U4; unfold cnt in *; simpl in *;
        try (specialize (Hcons f); specialize (Hadds f)); auto; try lia.
      * destruct Hpop; [left; assumption|right; lia].
      * destruct Hdone as [?|[? [? ?]]]; [left; assumption|right; repeat split; auto; lia].
      * specialize (Hchan H). lia.
  - (* APop *)
    constructor; simpl; intros;
      try (pose proof (U (w_run f) (map ARun (c_on_close s))) as U1; rewrite cnt_run_map in U1;
           pose proof (U (w_add f) (map ARun (c_on_close s))) as U2; rewrite cnt_other_map in U2 by reflexivity);
      pose proof (U w_pop (map ARun (c_on_close s))) as U3; rewrite cnt_other_map in U3 by reflexivity;
      pose proof (U w_done (map ARun (c_on_close s))) as U4; rewrite cnt_other_map in U4 by reflexivity;
      unfold cnt in *; simpl in *;
      try (specialize (Hcons f); specialize (Hadds f)); auto; try lia.
    + destruct Hdone as [?|[? [? ?]]]; [left; assumption|right; repeat split; auto; lia].
    + specialize (Hchan H). lia.
  - (* ARun *)
    constructor; simpl; intros;
      try (pose proof (U (w_run f0) []) as U1; pose proof (U (w_add f0) []) as U2);
      pose proof (U w_pop []) as U3; pose proof (U w_done []) as U4; unfold cnt in *; simpl in *;
      try (specialize (Hcons f0); specialize (Hadds f0)); auto; try lia.
    + destruct (Nat.eqb_spec f0 f); destruct (Nat.eq_dec f f0); subst; try congruence; lia.
    + destruct Hpop; [left; assumption|right; lia].
    + destruct Hdone as [?|[? [? ?]]]; [left; assumption|right; repeat split; auto; lia].
    + specialize (Hchan H). lia.
  - (* ADone *)
    destruct (c_done s) eqn:Hd.
    + assert (Hc1 : c_completions s = 1) by (destruct Hdone as [[_ ?]|[? _]]; congruence).
      destruct k; simpl.
      * constructor; simpl; intros;
          try (pose proof (U (w_run f) []) as U1; pose proof (U (w_add f) []) as U2);
          pose proof (U w_pop []) as U3; pose proof (U w_done []) as U4; unfold cnt in *; simpl in *;
          try (specialize (Hcons f); specialize (Hadds f)); auto; try lia.
        -- destruct Hpop; [left; assumption|right; lia].
        -- discriminate.
      * (* DoneChan with done already completed: impossible, at most one ADone exists *)
        exfalso. specialize (Hchan eq_refl). pose proof (U w_done []) as U4. unfold cnt in U4. simpl in U4. lia.
    + assert (Hc0 : c_completions s = 0 /\ cnt_ts w_done ts = cnt_ts w_done ts0)
        by (destruct Hdone as [[? _]|[_ ?]]; [congruence|assumption]).
      destruct Hc0 as [Hc0 Hc0'].
      constructor; simpl; intros;
        try (pose proof (U (w_run f) []) as U1; pose proof (U (w_add f) []) as U2);
        pose proof (U w_pop []) as U3; pose proof (U w_done []) as U4; unfold cnt in *; simpl in *;
        try (specialize (Hcons f); specialize (Hadds f)); auto; try lia.
      * destruct Hpop; [left; assumption|right; lia].
      * specialize (Hchan H). lia.
  - (* AAdd *)
    constructor; simpl; intros;
      try (pose proof (U (w_run f0) []) as U1; pose proof (U (w_add f0) []) as U2);
      pose proof (U w_pop []) as U3; pose proof (U w_done []) as U4; unfold cnt in *; simpl in *;
      try (rewrite count_occ_snoc);
      try (specialize (Hcons f0); specialize (Hadds f0)); auto; try lia.
    + specialize (Hcbs f0 H H0). pose proof (Hnd f0) as Ht. unfold total in Ht.
      assert (1 <= count_occ Nat.eq_dec cbs f0) by (apply count_occ_In; assumption).
      destruct (Nat.eqb f0 f); lia.
    + destruct Hpop; [left; assumption|right; lia].
    + destruct Hdone as [?|[? [? ?]]]; [left; assumption|right; repeat split; auto; lia].
    + specialize (Hchan H). lia.
Qed.

Lemma inv_exec : forall k cbs ts0 sched x,
  (forall f, total cbs ts0 f <= 1) -> Inv k cbs ts0 x -> Inv k cbs ts0 (exec k x sched).
Proof.
  intros k cbs ts0 sched. induction sched as [|t sched IH]; intros x Hnd HI; simpl; [exact HI|].
  apply IH; [exact Hnd|]. apply inv_step; assumption.
Qed.

Lemma inv_init : forall k cbs ts0,
  (forall f, cnt_ts (w_run f) ts0 = 0) -> (k = DoneChan -> cnt_ts w_done ts0 <= 1) ->
  Inv k cbs ts0 (init_st cbs, ts0).
Proof.
  intros k cbs ts0 Hr Hd. constructor; simpl; intros; auto; try discriminate.
  - unfold total. rewrite Hr. lia.
  - specialize (Hd H). lia.
Qed.

(* the general statement: ANY thread programs without pre-popped callbacks, any schedule *)
Theorem close_once_general : forall k cbs ts0 sched,
  (forall f, total cbs ts0 f <= 1) ->                (* every callback identity is registered once *)
  (forall f, cnt_ts (w_run f) ts0 = 0) ->             (* callbacks are only run after being popped *)
  (k = DoneChan -> cnt_ts w_done ts0 <= 1) ->         (* close(s.done): only the one Run exit calls shutdown *)
  let x := exec k (init_st cbs, ts0) sched in
  (* at every moment *)
  (forall f, count_occ Nat.eq_dec (c_ran (fst x)) f <= 1) /\
  c_completions (fst x) <= 1 /\ c_panics (fst x) = 0 /\ c_net_closes (fst x) <= 1 /\
  (c_done (fst x) = true <-> c_completions (fst x) = 1) /\
  (* once every thread has finished *)
  (all_done (snd x) ->
     (1 <= cnt_ts w_pop ts0 -> forall f, In f cbs -> count_occ Nat.eq_dec (c_ran (fst x)) f = 1) /\
     (1 <= cnt_ts w_done ts0 -> c_done (fst x) = true /\ c_completions (fst x) = 1)).
Proof.
  intros k cbs ts0 sched Hnd Hr Hd x.
  assert (HI : Inv k cbs ts0 x) by (apply inv_exec; [exact Hnd|apply inv_init; assumption]).
  destruct HI as [Hcons Hadds Hcbs Hpop Hdone Hchan Hpanic Hnet].
  split; [|split; [|split; [|split; [|split]]]].
  - intros f. specialize (Hcons f). specialize (Hnd f). lia.
  - destruct Hdone as [[_ ?]|[_ [? _]]]; lia.
  - exact Hpanic.
  - rewrite Hnet. destruct (c_sock_closed (fst x)); lia.
  - destruct Hdone as [[? ?]|[? [? _]]]; split; intros; congruence.
  - intros Hall. split.
    + intros Hp f Hf.
      assert (Hpp : c_popped (fst x) = true).
      { destruct Hpop as [?|Hq]; [assumption|]. rewrite (cnt_ts_done w_pop _ Hall) in Hq. lia. }
      specialize (Hcbs f Hf Hpp). specialize (Hcons f). specialize (Hnd f). specialize (Hadds f).
      rewrite (cnt_ts_done (w_run f) _ Hall) in Hcons. rewrite (cnt_ts_done (w_add f) _ Hall) in Hcons.
      unfold total in *.
      assert (1 <= count_occ Nat.eq_dec cbs f) by (apply count_occ_In; assumption). lia.
    + intros Hp. destruct Hdone as [?|[_ [_ Hq]]]; [assumption|].
      rewrite (cnt_ts_done w_done _ Hall) in Hq. lia.
Qed.

(* ---- instantiation to the sessions of the library ---- *)

Lemma cnt_ts_app : forall w a b, cnt_ts w (a ++ b) = cnt_ts w a + cnt_ts w b.
Proof. intros. unfold cnt_ts. rewrite map_app, list_sum_app. reflexivity. Qed.
Lemma cnt_ts_repeat : forall w p n, cnt_ts w (repeat p n) = n * cnt w p.
Proof. intros w p n. induction n as [|n IH]; [reflexivity|]. unfold cnt_ts in *. simpl. rewrite IH. lia. Qed.
Lemma cnt_ts_adds : forall f adds, cnt_ts (w_add f) (map add_prog adds) = count_occ Nat.eq_dec adds f.
Proof.
  intros f adds. induction adds as [|g l IH]; [reflexivity|]. unfold cnt_ts in *. simpl. rewrite IH.
  unfold cnt. simpl. destruct (Nat.eqb_spec f g); destruct (Nat.eq_dec g f); subst; try congruence; lia.
Qed.
Lemma cnt_ts_adds_other : forall w adds, (forall g, w (AAdd g) = 0) -> cnt_ts w (map add_prog adds) = 0.
Proof.
  intros w adds H. induction adds as [|g l IH]; [reflexivity|]. unfold cnt_ts in *. simpl. rewrite IH.
  unfold cnt. simpl. rewrite H. reflexivity.
Qed.

Lemma session_counts : forall cs nclose nshut adds,
  (forall f, cnt_ts (w_run f) (session_threads cs nclose nshut adds) = 0) /\
  (forall f, cnt_ts (w_add f) (session_threads cs nclose nshut adds) = count_occ Nat.eq_dec adds f) /\
  cnt_ts w_pop (session_threads cs nclose nshut adds) = nshut /\
  cnt_ts w_done (session_threads cs nclose nshut adds) = nshut.
Proof.
  intros cs nclose nshut adds. unfold session_threads.
  repeat split; intros; repeat rewrite cnt_ts_app; repeat rewrite cnt_ts_repeat;
    try rewrite cnt_ts_adds; try (rewrite cnt_ts_adds_other by reflexivity);
    destruct cs; unfold cnt; simpl; lia.
Qed.

(* C09_close_once: a session of any of the three types (k, close_socket) with callbacks cbs registered, under
   ANY number of concurrent Close calls, nshut >= 1 shutdown callers (the Run exit; for udp/server also the
   server's close function called from Stop / the tick / getConn -- for the channel-based types exactly the one
   Run exit) and concurrent AddOnClose calls, under ANY schedule *)
Theorem close_once : forall k cs cbs nclose nshut adds sched,
  NoDup (cbs ++ adds) ->
  1 <= nshut -> (k = DoneChan -> nshut = 1) ->
  let x := exec k (init_st cbs, session_threads cs nclose nshut adds) sched in
  (forall f, count_occ Nat.eq_dec (c_ran (fst x)) f <= 1) /\
  c_completions (fst x) <= 1 /\ c_panics (fst x) = 0 /\ c_net_closes (fst x) <= 1 /\
  (c_done (fst x) = true <-> c_completions (fst x) = 1) /\
  (all_done (snd x) ->
     (forall f, In f cbs -> count_occ Nat.eq_dec (c_ran (fst x)) f = 1) /\
     c_done (fst x) = true /\ c_completions (fst x) = 1).
Proof.
  intros k cs cbs nclose nshut adds sched Hnd Hn Hk x.
  destruct (session_counts cs nclose nshut adds) as [Hr [Ha [Hp Hd]]].
  pose proof (close_once_general k cbs (session_threads cs nclose nshut adds) sched) as G.
  assert (H1 : forall f, total cbs (session_threads cs nclose nshut adds) f <= 1).
  { intros f. unfold total. rewrite Ha. rewrite <- count_occ_app.
    apply (proj1 (NoDup_count_occ Nat.eq_dec (cbs ++ adds))). exact Hnd. }
  specialize (G H1 Hr).
  assert (H3 : k = DoneChan -> cnt_ts w_done (session_threads cs nclose nshut adds) <= 1).
  { intros E. rewrite Hd. specialize (Hk E). lia. }
  specialize (G H3). simpl in G.
  destruct G as [G1 [G2 [G3 [G4 [G5 G6]]]]].
  repeat split; auto; try (apply G5); intros.
  - apply (proj1 (G6 H)); [lia|assumption].
  - apply (proj2 (G6 H)); lia.
  - apply (proj2 (G6 H)); lia.
Qed.

(* without the single-caller discipline the channel-based done signal is NOT safe: two shutdown callers panic
   (why tcp/client and dtls/server may call shutdown only from the one Run exit) *)
Example chan_two_shutdowns_panic :
  c_panics (fst (exec DoneChan (init_st [7], session_threads false 0 2 []) [0;0;0;0;0;0;1;1;1;1;1;1])) = 1.
Proof. vm_compute. reflexivity. Qed.

(* ---- idempotence ---- *)

(* once the connection is closed (context cancelled, socket closed if the session owns it) a further Close changes
   nothing observable *)
Theorem close_noop_when_closed : forall k cs s,
  c_cancelled s = true -> (cs = true -> c_sock_closed s = true) ->
  obs (run_prog k 2 (close_prog cs) s) = obs s.
Proof.
  intros k cs s Hc Hs. destruct s as [c cc sc nc oc rn dn cm pn pp]. simpl in *. subst c.
  destruct cs; simpl.
  - rewrite (Hs eq_refl). reflexivity.
  - reflexivity.
Qed.

Lemma close_prog_closes : forall k cs s,
  let s' := run_prog k 2 (close_prog cs) s in
  c_cancelled s' = true /\ (cs = true -> c_sock_closed s' = true).
Proof.
  intros k cs s. destruct s as [c cc sc nc oc rn dn cm pn pp]. destruct cs; simpl.
  - destruct sc; simpl; auto.
  - split; [reflexivity|discriminate].
Qed.

Fixpoint closes (k : dkind) (cs : bool) (n : nat) (s : cst) : cst :=
  match n with 0 => s | S m => closes k cs m (run_prog k 2 (close_prog cs) s) end.

Lemma closes_noop : forall k cs n s,
  c_cancelled s = true -> (cs = true -> c_sock_closed s = true) -> obs (closes k cs n s) = obs s.
Proof.
  intros k cs n. induction n as [|n IH]; intros s Hc Hs; simpl; [reflexivity|].
  assert (Ho := close_noop_when_closed k cs s Hc Hs).
  rewrite IH.
  - exact Ho.
  - apply (close_prog_closes k cs s).
  - apply (close_prog_closes k cs s).
Qed.

(* Close called n+1 times in a row, from ANY state, leaves exactly what one call leaves *)
Theorem close_idempotent : forall k cs n s, obs (closes k cs (S n) s) = obs (closes k cs 1 s).
Proof.
  intros k cs n s. simpl. apply closes_noop; apply (close_prog_closes k cs s).
Qed.

(* and the flags a Close sets are never reset by any action of any thread *)
Lemma act_monotone : forall k a s,
  (c_cancelled s = true -> c_cancelled (fst (act k a s)) = true) /\
  (c_sock_closed s = true -> c_sock_closed (fst (act k a s)) = true) /\
  (c_done s = true -> c_done (fst (act k a s)) = true).
Proof.
  intros k a s. destruct a; simpl; try (repeat split; auto; fail).
  - destruct (c_sock_closed s) eqn:E; simpl; repeat split; auto.
  - destruct (c_done s) eqn:E; destruct k; simpl; repeat split; auto.
Qed.

Theorem closed_stays_closed : forall k sched x,
  (c_cancelled (fst x) = true -> c_cancelled (fst (exec k x sched)) = true) /\
  (c_sock_closed (fst x) = true -> c_sock_closed (fst (exec k x sched)) = true) /\
  (c_done (fst x) = true -> c_done (fst (exec k x sched)) = true).
Proof.
  intros k sched. induction sched as [|t sched IH]; intros x; simpl; [auto|].
  assert (Hs : (c_cancelled (fst x) = true -> c_cancelled (fst (step k x t)) = true) /\
               (c_sock_closed (fst x) = true -> c_sock_closed (fst (step k x t)) = true) /\
               (c_done (fst x) = true -> c_done (fst (step k x t)) = true)).
  { unfold step. destruct (nth_error (snd x) t) as [[|a rest]|]; auto.
    pose proof (act_monotone k a (fst x)) as M. destruct (act k a (fst x)) as [s' pre]. simpl in *. exact M. }
  destruct Hs as [H1 [H2 H3]]. destruct (IH (step k x t)) as [I1 [I2 I3]].
  repeat split; auto.
Qed.
