(* C09 -- wait automaton.

   What a blocking function of the library *listens to* is data: each `select`
   (its receive/send channels), each semaphore `Acquire(ctx, ..)` and each
   `ReadWithContext/WriteWithContext(ctx, ..)` call, with every channel /
   context expression normalised to one of the kinds below.  That data is NOT
   written here: it is regenerated from the syntax tree of the current source
   on every run (harness/gen_c09.go -> Gen/WakeSets.v, which imports the types
   of this file).  This file holds

   - the types of the inventory (chan, wkind, wait, bfn);
   - the hand model of "who holds what a queued wait is waiting for"
     (releasers) -- structure of the code, tied to it by the watchdog runs of
     the harness (queued x close cases);
   - the wait automaton: an operation is a sequence of waits, each with a wake
     set; the environment fires CtxCancel / ConnClose / PeerSilent /
     PeerGarbage / PeerReply at any time; the operation goroutine executes
     select steps whose choice among several ready cases is arbitrary (Go picks
     at random).

   No proofs here. *)
From Coq Require Import List Bool String Arith.
Import ListNotations.
Open Scope string_scope.

(* ---------- inventory types (instantiated by Gen/WakeSets.v) ---------- *)

Inductive chan :=
| ReqCtx            (* the caller's context: ctx parameter, req.Context() *)
| ConnCtx           (* the connection context: cc.Context(), session.Context() -- cancelled by Close *)
| SrvCtx            (* the server context: s.ctx of a Server -- cancelled by Stop *)
| ConnDone          (* cc.Done(): completed by shutdown after the reader loop exits *)
| Result            (* the awaited result: a local channel (response, ack, pong, queue slot) *)
| Other (s : string).

Definition chan_eqb (a b : chan) : bool :=
  match a, b with
  | ReqCtx, ReqCtx | ConnCtx, ConnCtx | SrvCtx, SrvCtx | ConnDone, ConnDone | Result, Result => true
  | Other x, Other y => String.eqb x y
  | _, _ => false
  end.

Inductive wkind :=
| WSelect                   (* blocking select: w_chans are its cases *)
| WPoll                     (* select with a default branch: never blocks *)
| WAcquire                  (* semaphore Acquire(ctx, n): w_chans = [kind of ctx]; implicitly also woken by Release *)
| WCall (callee : string).  (* ReadWithContext / WriteWithContext / ReadWithOptions .. : w_chans = [kind of the ctx argument];
                               connection.Read / connection.Write (kernel): w_chans = [] *)

Record wait := mkWait { w_kind : wkind; w_chans : list chan }.
Record bfn := mkFn { f_name : string; f_waits : list wait }.

Definition has (c : chan) (l : list chan) : bool := existsb (chan_eqb c) l.

Fixpoint lookup (n : string) (inv : list bfn) : option bfn :=
  match inv with
  | [] => None
  | f :: r => if String.eqb n (f_name f) then Some f else lookup n r
  end.

Definition blocking (w : wait) : bool :=
  match w_kind w with WSelect | WAcquire => true | WPoll | WCall _ => false end.

(* ---------- who releases a queued wait (hand model of the code structure) ----------

   A wait that does not listen to the connection context itself is acceptable
   only when what it waits for is handed over by another operation when THAT
   operation returns (deferred release), and every function in which that
   other operation can be blocked listens to the connection context itself (or
   is, recursively, released that way).

   - limiter.acquireEndpoint waits for reqChan, closed by the deferred
     releaseEndpoint of the Do/DoObserve ahead of it in the per-endpoint queue;
   - limiter.Do / DoObserve: limit.Acquire(req.Context(), 1), released by the
     deferred limit.Release(1) of a Do/DoObserve that is inside c.do /
     c.doObserve, i.e. blocked in one of the connection's own waits;
   - udp Conn.acquireOutstandingInteraction (NSTART): released by the deferred
     closeFn of a writeMessage that is blocked in waitForAcknowledge. *)
Definition inner_ops : list string :=
  [ "udp/client.Conn.acquireOutstandingInteraction"; "udp/client.Conn.waitForAcknowledge";
    "udp/client.Conn.doInternal"; "tcp/client.Conn.doInternal"; "net/observation.Handler.NewObservation" ].

Definition releasers (f : string) : list string :=
  if String.eqb f "net/client/limitParallelRequests.LimitParallelRequests.acquireEndpoint" then
    [ "net/client/limitParallelRequests.LimitParallelRequests.Do";
      "net/client/limitParallelRequests.LimitParallelRequests.DoObserve" ]
  else if String.eqb f "net/client/limitParallelRequests.LimitParallelRequests.Do" then inner_ops
  else if String.eqb f "net/client/limitParallelRequests.LimitParallelRequests.DoObserve" then inner_ops
  else if String.eqb f "udp/client.Conn.acquireOutstandingInteraction" then [ "udp/client.Conn.waitForAcknowledge" ]
  else [].

(* ---------- the wait automaton ---------- *)

(* one wait as the automaton sees it: its wake set, and whether its Result is
   produced by the return of a connection-aware operation (see releasers) *)
Record await := mkAwait { a_chans : list chan; a_released : bool }.

Inductive env := CtxCancel | ConnClose | PeerSilent | PeerGarbage | PeerReply.
Inductive outcome := RetOk | RetCtxErr | RetConnErr.

Record ost := mkOst {
  rem : list await;        (* waits still ahead, head = the one the goroutine is in *)
  cancelled : bool;        (* request context done (cancel or deadline) *)
  closed : bool;           (* connection context done *)
  ready : bool;            (* the result the current wait is waiting for has been delivered *)
  ret : option outcome }.

Definition init (op : list await) : ost := mkOst op false false false None.

Definition env_step (s : ost) (e : env) : ost :=
  match e with
  | CtxCancel => mkOst (rem s) true (closed s) (ready s) (ret s)
  | ConnClose => mkOst (rem s) (cancelled s) true (ready s) (ret s)
  | PeerSilent => s
  | PeerGarbage => s      (* garbage matches no token / message ID: it is dropped, nothing is delivered *)
  | PeerReply => mkOst (rem s) (cancelled s) (closed s) true (ret s)
  end.

(* the ready cases of the current select, as successor states *)
Definition alts (s : ost) : list ost :=
  match rem s with
  | [] => [ mkOst [] (cancelled s) (closed s) (ready s) (Some RetOk) ]
  | a :: r =>
      (if has ReqCtx (a_chans a) && cancelled s
       then [ mkOst (rem s) (cancelled s) (closed s) (ready s) (Some RetCtxErr) ] else []) ++
      (if (has ConnCtx (a_chans a) || has SrvCtx (a_chans a)) && closed s
       then [ mkOst (rem s) (cancelled s) (closed s) (ready s) (Some RetConnErr) ] else []) ++
      (if has Result (a_chans a) && (ready s || (a_released a && closed s))
       then [ mkOst r (cancelled s) (closed s) false (match r with [] => Some RetOk | _ => None end) ] else [])
  end.

(* one scheduling of the operation's goroutine; [pick] resolves Go's random
   choice among ready cases; no ready case = the goroutine stays blocked *)
Definition op_step (s : ost) (pick : nat) : ost :=
  match ret s with
  | Some _ => s
  | None =>
      match alts s with
      | [] => s
      | l => nth (pick mod List.length l) l s
      end
  end.

(* a run: rounds of (environment events, then one scheduling of the goroutine) *)
Definition round (s : ost) (r : list env * nat) : ost := op_step (fold_left env_step (fst r) s) (snd r).
Definition run (s : ost) (tr : list (list env * nat)) : ost := fold_left round tr s.

(* ---------- from the inventory to the automaton ---------- *)

Definition await_of (fname : string) (w : wait) : await :=
  mkAwait (match w_kind w with WAcquire => Result :: w_chans w | _ => w_chans w end)
          (match releasers fname with [] => false | _ => true end).

Definition awaits_of (f : bfn) : list await := map (await_of (f_name f)) (filter blocking (f_waits f)).
