(* C09 -- the property as executable predicates, written from the property text:

   "Every blocking client operation (request, observe registration and
    cancellation, ping, one-way write, discovery) returns within a bounded delay
    once its context is cancelled or expires or the connection is closed by
    either side, whatever the peer does [...].  Closing a connection or stopping
    a server is idempotent and safe while operations are in flight: it completes
    the connection's done signal and runs every registered on-close callback
    exactly once."

   (a) on the wake inventory: what each kind of blocking function must listen to;
   (b) on observations of runs of the implementation. *)
From Coq Require Import List Bool String Arith ZArith.
From GoCoap Require Import Liveness.Model.
Import ListNotations.
Open Scope string_scope.

(* ---------- (a) requirements on the wake sets ---------- *)

Inductive role :=
| ClientOp      (* part of a blocking client operation on a connection *)
| ServerOp      (* blocking operation on a server (discovery): the server context plays the connection's part *)
| Receiver      (* receive path / library goroutine: has no request context; must end with the connection *)
| KernelIO      (* the two functions that call the socket: must poll the caller's context before every call *)
| SessionRead   (* reader loop of a session: reads under the connection context *)
| SessionWrite  (* session write: writes under the request's context *)
| Exempt.       (* listed, not covered -- see notes/C09.md *)

Definition roles : list (string * role) :=
  [ ("udp/client.Conn.doInternal", ClientOp);
    ("udp/client.Conn.waitForAcknowledge", ClientOp);
    ("udp/client.Conn.acquireOutstandingInteraction", ClientOp);
    ("tcp/client.Conn.doInternal", ClientOp);
    ("net/observation.Handler.NewObservation", ClientOp);
    ("net/observation.Observation.Cancel", ClientOp);
    ("net/client.Client.Ping", ClientOp);
    ("net/client/limitParallelRequests.LimitParallelRequests.acquireEndpoint", ClientOp);
    ("net/client/limitParallelRequests.LimitParallelRequests.Do", ClientOp);
    ("net/client/limitParallelRequests.LimitParallelRequests.DoObserve", ClientOp);
    ("udp/server.Server.DiscoveryRequest", ServerOp);
    ("udp/server.Server.conn", ServerOp);
    ("udp/client.Conn.Process", Receiver);
    ("tcp/client.Conn.pushToReceivedMessageQueue", Receiver);
    ("net/client.ReceivedMessageReader.loop", Receiver);
    ("net.Conn.WriteWithContext", KernelIO);
    ("net.Conn.ReadWithContext", KernelIO);
    ("tcp/client.Session.Run", SessionRead);
    ("dtls/server.Session.Run", SessionRead);
    ("udp/server.Session.Run", SessionRead);
    ("tcp/client.Session.WriteMessage", SessionWrite);
    ("dtls/server.Session.WriteMessage", SessionWrite);
    ("udp/server.Session.WriteMessage", SessionWrite);
    (* the per-message semaphore of the block-wise receive path is acquired under the context of the cached
       message (mg.Context()), which the translator cannot classify; it is held only for the duration of one
       handler invocation.  Not covered by the theorems. *)
    ("net/blockwise.BlockWise.getCachedReceivedMessage", Exempt) ].

Fixpoint role_of (n : string) (l : list (string * role)) : option role :=
  match l with
  | [] => None
  | (m, r) :: t => if String.eqb n m then Some r else role_of n t
  end.

(* every wait of a client operation listens to the request context AND to the connection context, or is
   released by operations (Model.releasers) all of whose waits, recursively, satisfy the same *)
Fixpoint client_ok (fuel : nat) (inv : list bfn) (f : bfn) : bool :=
  forallb (fun w =>
    negb (blocking w) ||
    (has ReqCtx (w_chans w) &&
     (has ConnCtx (w_chans w) ||
      match fuel with
      | 0 => false
      | S k => match releasers (f_name f) with
               | [] => false
               | rs => forallb (fun g => match lookup g inv with Some fg => client_ok k inv fg | None => false end) rs
               end
      end))) (f_waits f).

Definition server_ok (f : bfn) : bool :=
  forallb (fun w => match w_kind w with
                    | WSelect | WAcquire => has ReqCtx (w_chans w) && has SrvCtx (w_chans w)
                    | WCall _ => has ReqCtx (w_chans w)
                    | WPoll => true
                    end) (f_waits f).

Definition receiver_ok (f : bfn) : bool :=
  forallb (fun w => negb (blocking w) || has ConnCtx (w_chans w) || has ConnDone (w_chans w)) (f_waits f).

(* every raw socket call is immediately preceded by a non-blocking poll of the caller's context *)
Fixpoint kernel_ok_from (prev : option wait) (ws : list wait) : bool :=
  match ws with
  | [] => true
  | w :: r =>
      match w_kind w with
      | WCall _ => match prev with
                   | Some p => match w_kind p with WPoll => has ReqCtx (w_chans p) | _ => false end
                   | None => false
                   end
      | WSelect | WAcquire => false      (* these functions must not block on anything but the socket *)
      | WPoll => true
      end && kernel_ok_from (Some w) r
  end.
Definition kernel_ok (f : bfn) : bool := kernel_ok_from None (f_waits f) && existsb (fun w => negb (blocking w)) (f_waits f).

Definition is_call (w : wait) : bool := match w_kind w with WCall _ => true | _ => false end.

Definition sess_read_ok (f : bfn) : bool :=
  existsb is_call (f_waits f) &&
  forallb (fun w => match w_kind w with WPoll => true | _ => has ConnCtx (w_chans w) end) (f_waits f).

Definition sess_write_ok (f : bfn) : bool :=
  existsb is_call (f_waits f) &&
  forallb (fun w => match w_kind w with WPoll => true | _ => has ReqCtx (w_chans w) end) (f_waits f).

Definition fuel0 : nat := 3.

Definition meets (r : role) (inv : list bfn) (f : bfn) : bool :=
  match r with
  | ClientOp => client_ok fuel0 inv f
  | ServerOp => server_ok f
  | Receiver => receiver_ok f
  | KernelIO => kernel_ok f
  | SessionRead => sess_read_ok f
  | SessionWrite => sess_write_ok f
  | Exempt => true
  end.

(* the whole inventory: every function has a role and meets it; every function the property names is present *)
Definition fn_ok (inv : list bfn) (f : bfn) : bool :=
  match role_of (f_name f) roles with Some r => meets r inv f | None => false end.
Definition inventory_ok (inv : list bfn) : bool :=
  forallb (fn_ok inv) inv &&
  forallb (fun nr => match lookup (fst nr) inv with Some _ => true | None => false end) roles.

(* ---------- (b) the property on observations ---------- *)
Open Scope Z_scope.

(* error classes written by the harness: 0 nil, 1 wraps context.Canceled, 2 wraps context.DeadlineExceeded, 3 other *)

(* a blocking operation that was interrupted (context cancelled / expired, connection closed by either side)
   while nothing it waited for was delivered: it must return within the watchdog, and not with success.
   needs_reply = false: the operation needs nothing from the peer (non-confirmable one-way write) and may succeed.
   Classes: 1 hang, 2 success without anything delivered. *)
Definition op_class (needs_reply : bool) (o_ret : bool) (o_err : Z) : N :=
  if negb o_ret then 1%N
  else if needs_reply && (o_err =? 0) then 2%N
  else 0%N.

(* close / stop while operations are in flight: 3 a callback did not run exactly once, 4 Done() not completed,
   5 a Close/Stop call did not return or panicked, 6 an in-flight operation did not return,
   7 Serve did not return after Stop *)
Definition close_class (o_cb : list Z) (o_done o_closers_ret o_panic o_ops_ret o_serve_ret : bool) : N :=
  if negb (forallb (fun c => c =? 1) o_cb) then 3%N
  else if negb o_done then 4%N
  else if negb o_closers_ret || o_panic then 5%N
  else if negb o_ops_ret then 6%N
  else if negb o_serve_ret then 7%N
  else 0%N.

(* an operation whose write is stalled in the socket because the peer stopped reading (half-open stream, socket
   buffers full).  trig 0 / 1: its context is cancelled / expires -- it must return (8 = it does not), and not
   with success (2).  trig 2 / 3: the connection is closed locally (any number of concurrent Close calls) / by
   the peer -- every Close call returns, the operation returns, Done is completed, every callback ran exactly
   once (the classes of close_class). *)
Definition stall_class (trig : Z) (o_cb : list Z) (o_done o_closers o_panic o_op : bool) (o_err : Z) : N :=
  if (trig =? 0) || (trig =? 1) then
    if negb o_op then 8%N else if o_err =? 0 then 2%N else 0%N
  else if negb o_closers || o_panic then 5%N
  else close_class o_cb o_done o_closers o_panic o_op true.

(* the reader loop of a connection has ended because of the peer (cause 0 input that does not decode, 1 an
   oversized message, 2 the peer closed) and nobody called Close.  The connection is closed once its done signal is
   completed, a callback has run, its context is cancelled (o_ctx), or the peer has closed: then every callback
   ran exactly once, Done is completed, every operation in flight has returned (6), and a call made afterwards
   returns (1).  While the library keeps the connection alive after garbage nothing is required. *)
Definition reader_end_class (cause : Z) (o_cb : list Z) (o_done o_ctx o_ops o_late : bool) : N :=
  let is_closed := o_done || o_ctx || (cause =? 2) || existsb (fun c => negb (c =? 0)) o_cb in
  if negb is_closed then 0%N
  else
    let c := close_class o_cb o_done true false o_ops true in
    if negb (N.eqb c 0) then c
    else if negb o_late then 1%N else 0%N.

(* stopping a datagram server while the exit path of Serve runs as well (whichever of the two took the peer table,
   whichever finishes first): once every Stop call and Serve have returned, every on-close callback of every peer
   connection the server handed out has run exactly once (3), every Done() is completed (4), no Stop call hangs or
   panics (5), Serve has returned (7). *)
Definition stop_race_class (o_cb : list Z) (o_done o_closers o_panic o_serve : bool) : N :=
  close_class o_cb o_done o_closers o_panic true o_serve.

(* a confirmable request / ping is waiting while the connection's housekeeping works on it (retransmits it, gives it
   up).  trig 0 / 1 / 2: its context is cancelled / expires / the connection is closed -- the call returns (1), not
   with success (2); trig 4: the peer answers -- the call returns.  A call made afterwards returns as well (1). *)
Definition tick_class (trig : Z) (o_ret : bool) (o_err : Z) (o_late : bool) : N :=
  let c := op_class (negb (trig =? 4)) o_ret o_err in
  if negb (N.eqb c 0) then c else if negb o_late then 1%N else 0%N.

(* on-close callbacks are registered while the connection is shutting down (by an on-close callback, or by another
   goroutine while an on-close callback runs): every callback that was registered before Close ran exactly once and
   none of the callbacks registered during the shutdown ran more than once (3), Done is completed (4), Close
   returned (5). *)
Definition reg_class (o_cb o_late : list Z) (o_done o_closers : bool) : N :=
  if negb (forallb (fun c => c =? 1) o_cb) || negb (forallb (fun c => c <=? 1) o_late) then 3%N
  else if negb o_done then 4%N
  else if negb o_closers then 5%N
  else 0%N.

(* a stream server is stopped while an accepted connection is still being set up (its OnNewConn hook runs, or it
   is in the TLS handshake) and the peer is silent: every Stop call returns and does not panic (5), Serve returns (7),
   the done signal of every connection the application was handed is completed and its context cancelled (4), every
   registered on-close callback ran exactly once (3). *)
Definition setup_stop_class (o_cb : list Z) (o_done o_ctx o_closers o_panic o_serve : bool) : N :=
  close_class o_cb (o_done && o_ctx) o_closers o_panic true o_serve.
